#!/usr/bin/env python3
# regenerates MANIFEST.json from the table below (kept by hand; gdv list must agree)
import json, subprocess, sys
claimed = json.load(open('manifest_table.json'))
props = [json.loads(l)['id'] for l in open('properties.jsonl')]
checks = []
na = []
for pid in props:
    c = claimed.get(pid)
    if c and c.get('claim'):
        checks.append({
            "property_id": pid,
            "quick_cmd": f"./gdv check {pid} quick",
            "thorough_cmd": f"./gdv check {pid} thorough",
            "evidence_file": f"/verif/evidence/{pid}.json",
            "replay_cmd_template": "./gdv replay {path}",
            "engine": c.get("engine", "gdv"),
            "level_claimed": {"category": "other", "text": c["level_text"], "design_ref": c.get("design_ref", "DESIGN.md §4 " + pid)},
            "level_note": c["level_note"],
            "technique": c["technique"],
        })
    else:
        na.append({"property_id": pid, "reason": (c or {}).get("reason", "check not built yet (static analysis machinery under construction); see DESIGN.md")})
m = {
    "version": 1,
    "setup_cmd": "./build.sh",
    "hooks": {"guard": "verif", "enable": "none: the checks are static analyses of /repo's working tree; no hooks or instrumentation are compiled into goderive",
              "baseline_off_cmd": "cd /repo && GOFLAGS=-mod=mod go test -vet=off -count=1 ./...", "source_commits": [], "add_only": True},
    "engines": [
        {"name": "gdv-G", "path": "/verif/tool", "serves_properties": [p for p in props if claimed.get(p, {}).get('claim')], "kind_free_text": "custom static analyses (typed AST, go/cfg dominance/reachability, decision-table extraction) over goderive's generator source loaded with go/packages"},
        {"name": "gdv-R", "path": "/verif/tool", "serves_properties": [p for p in props if claimed.get(p, {}).get('claim') and 'R' in claimed[p].get('engines','')], "kind_free_text": "abstract interpreter (partial evaluator) of the plugins' Add/Generate over opaque go/types values, producing residual emitted programs; go/parser + go/cfg + go/types analyses of the residuals"},
    ],
    "checks": checks,
    "not_applicable": na,
    "notes": "All checks decide structural necessary conditions of the behavioural properties (level 'other'); see DESIGN.md per property for what is and is not covered. known_findings.jsonl lists genuine defects found and not repaired, and 'fixed' records for those repaired in /repo by fix: commits.",
}
json.dump(m, open('MANIFEST.json', 'w'), indent=1)
print("checks:", len(checks), "not_applicable:", len(na))
