package main

import (
	"fmt"
	"go/ast"
	"go/token"
	"go/types"
	"strings"
)

// G6 — determinism: no order-sensitive iteration over a Go map, no package-level mutable state,
// no clock/random/environment/goroutine input, per-package tables created only in newPackage.

func runG6(r *Repo, rep *Report) {
	nranges := 0
	var accepted []*mapRange
	for _, b := range r.bodies() {
		info := b.Pkg.TypesInfo
		inspectOwn(b.Block, func(n ast.Node) bool {
			rs, ok := n.(*ast.RangeStmt)
			if !ok {
				return true
			}
			t := info.TypeOf(rs.X)
			if t == nil {
				return true
			}
			if _, isMap := t.Underlying().(*types.Map); !isMap {
				return true
			}
			nranges++
			why, ok := mapRangeInsensitive(info, b, rs)
			if ok {
				accepted = append(accepted, &mapRange{b, rs})
				rep.pass("G6")
				rep.sample(map[string]string{"rule": "G6 map range", "site": r.pos(rs.Pos()), "function": b.Name, "class": "order-insensitive: " + why})
			} else {
				rep.fail(Finding{Rule: "G6", Key: fmt.Sprintf("G6|%s|range %s", b.Name, exprStr(rs.X)), Where: []string{r.pos(rs.Pos())},
					Msg: fmt.Sprintf("%s iterates over the Go map %s in an order-sensitive way (%s): the result depends on the runtime's randomised map order", b.Name, exprStr(rs.X), why)})
			}
			return true
		})
	}
	rep.analysed("map_ranges", nranges)
	g6LoopEffects(r, rep, accepted)
	// package-level state: stores outside init / main.main, and any package-level var of map/slice/pointer type that is written
	for _, b := range r.bodies() {
		info := b.Pkg.TypesInfo
		isMainInit := b.Name == "main.main" || strings.HasSuffix(b.Name, ".init")
		inspectOwn(b.Block, func(n ast.Node) bool {
			var lhs []ast.Expr
			switch s := n.(type) {
			case *ast.AssignStmt:
				if s.Tok != token.DEFINE {
					lhs = s.Lhs
				}
			case *ast.IncDecStmt:
				lhs = []ast.Expr{s.X}
			}
			for _, l := range lhs {
				root := l
				for {
					switch x := root.(type) {
					case *ast.SelectorExpr:
						if _, isField := info.Selections[x]; isField {
							root = x.X
							continue
						}
					case *ast.IndexExpr:
						root = x.X
						continue
					case *ast.StarExpr:
						root = x.X
						continue
					case *ast.ParenExpr:
						root = x.X
						continue
					}
					break
				}
				var o types.Object
				switch x := root.(type) {
				case *ast.Ident:
					o = info.Uses[x]
				case *ast.SelectorExpr:
					o = info.Uses[x.Sel]
				}
				v, ok := o.(*types.Var)
				if !ok || v.Pkg() == nil || v.Parent() != v.Pkg().Scope() {
					continue
				}
				if isMainInit {
					rep.pass("G6")
					continue
				}
				rep.fail(Finding{Rule: "G6", Key: fmt.Sprintf("G6|%s|global-store|%s", b.Name, v.Name()), Where: []string{r.pos(l.Pos())},
					Msg: fmt.Sprintf("%s writes package-level variable %s: state that outlives one package's generation makes the output depend on which other packages were processed", b.Name, v.Name())})
			}
			return true
		})
	}
	// nondeterministic inputs
	for _, b := range r.bodies() {
		if b.Lit != nil {
			continue
		}
		info := b.Pkg.TypesInfo
		ast.Inspect(b.Owner.Decl, func(n ast.Node) bool {
			switch x := n.(type) {
			case *ast.GoStmt:
				rep.fail(Finding{Rule: "G6", Key: "G6|" + b.Name + "|go-stmt", Where: []string{r.pos(x.Pos())}, Msg: b.Name + " starts a goroutine inside the generator: emission order may depend on scheduling"})
			case *ast.SelectStmt:
				rep.fail(Finding{Rule: "G6", Key: "G6|" + b.Name + "|select", Where: []string{r.pos(x.Pos())}, Msg: b.Name + " uses select inside the generator"})
			case *ast.Ident:
				o := info.Uses[x]
				if o == nil || o.Pkg() == nil {
					return true
				}
				if _, isPkgName := o.(*types.PkgName); isPkgName {
					return true
				}
				p := o.Pkg().Path()
				bad := p == "math/rand" || p == "math/rand/v2" || p == "crypto/rand" || p == "hash/maphash" ||
					(p == "time" && (o.Name() == "Now" || o.Name() == "Since" || o.Name() == "Until")) ||
					(p == "os" && (o.Name() == "Getpid" || o.Name() == "Hostname" || o.Name() == "Getenv" || o.Name() == "Environ" || o.Name() == "LookupEnv" || o.Name() == "Getwd")) ||
					(p == "runtime" && o.Name() != "Version")
				if bad {
					rep.fail(Finding{Rule: "G6", Key: fmt.Sprintf("G6|%s|input|%s.%s", b.Name, p, o.Name()), Where: []string{r.pos(x.Pos())},
						Msg: fmt.Sprintf("%s reads %s.%s: output would depend on time, randomness, environment or process identity", b.Name, p, o.Name())})
				}
			}
			return true
		})
	}
	rep.pass("G6") // the scan itself (count reported under analysed)
	g6GlobalAlias(r, rep)
	g6Freshness(r, rep)
}

// mapRangeInsensitive classifies the body of a range over a map.
func mapRangeInsensitive(info *types.Info, b *Body, rs *ast.RangeStmt) (string, bool) {
	keyObj := func(e ast.Expr) types.Object {
		if id, ok := e.(*ast.Ident); ok && id.Name != "_" {
			return info.Defs[id]
		}
		return nil
	}
	k, v := keyObj(rs.Key), keyObj(rs.Value)
	usesIter := func(n ast.Node) bool {
		return (k != nil && usesVar(info, n, k)) || (v != nil && usesVar(info, n, v))
	}
	// an all / any reduction through a flag: `if flag = p(entry); !flag { break }` (or `flag = p(entry)` followed by
	// `if !flag { break }`; for "any" the break is under flag): when the loop ends the flag is false (true) exactly when
	// some entry made it so, whatever the order of the visits
	if flagReduction(info, rs) {
		return "all/any reduction through a flag", true
	}
	var appendedTo []types.Object
	reason := ""
	var walk func(list []ast.Stmt) bool
	walk = func(list []ast.Stmt) bool {
		for _, s := range list {
			switch x := s.(type) {
			case *ast.AssignStmt:
				for i, l := range x.Lhs {
					// map insert keyed by iteration variables: m[k] = ...
					if ix, ok := l.(*ast.IndexExpr); ok {
						if _, isMap := info.TypeOf(ix.X).Underlying().(*types.Map); isMap {
							continue
						}
						reason = "indexed store into a non-map"
						return false
					}
					if id, ok := l.(*ast.Ident); ok && i < len(x.Rhs) {
						if id.Name == "_" {
							continue
						}
						// x = append(x, ...) accumulation — must be sorted later
						if c, ok := x.Rhs[i].(*ast.CallExpr); ok {
							if bi, ok := callee(info, c).(*types.Builtin); ok && bi.Name() == "append" {
								o := info.Uses[id]
								if o == nil {
									o = info.Defs[id]
								}
								appendedTo = append(appendedTo, o)
								continue
							}
						}
						// local defined inside the loop from iteration data is fine
						if x.Tok == token.DEFINE {
							continue
						}
						if usesIter(x.Rhs[i]) {
							reason = "assigns iteration-dependent value to " + id.Name
							return false
						}
						continue
					}
				}
			case *ast.IfStmt:
				if isExtremumUpdate(info, x, k, v) {
					// if !found || key < best { best, found = key, true }: the least (greatest) qualifying entry, whatever
					// the order in which the entries are visited
					continue
				}
				if x.Init != nil {
					if !walk([]ast.Stmt{x.Init}) {
						return false
					}
				}
				if !walk(x.Body.List) {
					return false
				}
				switch e := x.Else.(type) {
				case *ast.BlockStmt:
					if !walk(e.List) {
						return false
					}
				case *ast.IfStmt:
					if !walk([]ast.Stmt{e}) {
						return false
					}
				}
			case *ast.ReturnStmt:
				for _, res := range x.Results {
					if usesIter(res) {
						reason = "returns the iteration-dependent value " + exprStr(res) + " at the first match"
						return false
					}
				}
			case *ast.BranchStmt:
				if x.Tok == token.BREAK || x.Tok == token.GOTO {
					reason = "leaves the loop early (break)"
					return false
				}
			case *ast.ExprStmt:
				// calls with effects (emission, registration) inside a map loop are order-sensitive
				if c, ok := x.X.(*ast.CallExpr); ok {
					if bi, ok := callee(info, c).(*types.Builtin); ok && bi.Name() == "delete" {
						continue
					}
				}
				reason = "calls " + exprStr(x.X) + " once per entry in map order"
				return false
			case *ast.BlockStmt:
				if !walk(x.List) {
					return false
				}
			case *ast.IncDecStmt, *ast.EmptyStmt, *ast.DeclStmt:
			default:
				reason = fmt.Sprintf("contains a %T the rule does not classify", s)
				return false
			}
		}
		return true
	}
	if !walk(rs.Body.List) {
		return reason, false
	}
	// accumulated slices must be sorted before any other use after the loop
	for _, o := range appendedTo {
		if ok, why := sortedAfter(info, b, rs, o); !ok {
			if why != "" {
				return "appends to " + o.Name() + " in map order; afterwards " + o.Name() + " " + why, false
			}
			return "appends to " + o.Name() + " in map order without sorting it afterwards", false
		}
	}
	if len(appendedTo) > 0 {
		return "appends, then sorts", true
	}
	return "inserts / constant reductions only", true
}

// isExtremumUpdate recognises the running minimum / maximum over the entries of a map:
//
//	if [!found ||] it < best { best[, found] = it[, true] }        (also >, <=, >=; operands in either order)
//
// where it is the range key or value, best a variable and found a boolean. The value of best after the loop is the
// extremum of the qualifying entries under the operand type's order — a commutative, associative reduction — so it does not
// depend on the iteration order (equal values are interchangeable; keys are distinct).
func isExtremumUpdate(info *types.Info, x *ast.IfStmt, k, v types.Object) bool {
	if x.Init != nil || x.Else != nil || len(x.Body.List) != 1 {
		return false
	}
	as, ok := x.Body.List[0].(*ast.AssignStmt)
	if !ok || as.Tok != token.ASSIGN || len(as.Lhs) != len(as.Rhs) {
		return false
	}
	obj := func(e ast.Expr) types.Object {
		if id, ok := ast.Unparen(e).(*ast.Ident); ok {
			return info.Uses[id]
		}
		return nil
	}
	var best, it types.Object
	flags := map[types.Object]bool{}
	for i, l := range as.Lhs {
		lo := obj(l)
		if lo == nil {
			return false
		}
		if ro := obj(as.Rhs[i]); ro != nil && (ro == k || ro == v) {
			if best != nil {
				return false
			}
			best, it = lo, ro
			continue
		}
		if tv, ok := info.Types[as.Rhs[i]]; ok && tv.Value != nil {
			flags[lo] = true
			continue
		}
		return false
	}
	if best == nil {
		return false
	}
	// the condition: disjuncts `!flag` (first entry) and exactly one comparison between it and best
	cmp := 0
	var check func(e ast.Expr) bool
	check = func(e ast.Expr) bool {
		switch y := ast.Unparen(e).(type) {
		case *ast.BinaryExpr:
			switch y.Op {
			case token.LOR:
				return check(y.X) && check(y.Y)
			case token.LSS, token.GTR, token.LEQ, token.GEQ:
				a, b := obj(y.X), obj(y.Y)
				if (a == it && b == best) || (a == best && b == it) {
					cmp++
					return true
				}
			}
		case *ast.UnaryExpr:
			if y.Op == token.NOT && flags[obj(y.X)] {
				return true
			}
		}
		return false
	}
	return check(x.Cond) && cmp == 1
}

// sortedAfter: after the range statement, the first statement mentioning o is a sort.* call on it, and that call imposes a
// total order that is a function of the elements themselves (totalOrderSort). The reason is empty when it holds.
func sortedAfter(info *types.Info, b *Body, rs *ast.RangeStmt, o types.Object) (bool, string) {
	rest := stmtsAfter(b, rs)
	for _, s := range rest {
		if !usesVar(info, s, o) {
			continue
		}
		// uses that only ask for the number of elements do not depend on their order
		if onlyLenUses(info, s, o) {
			continue
		}
		es, ok := s.(*ast.ExprStmt)
		if !ok {
			return false, ""
		}
		c, ok := es.X.(*ast.CallExpr)
		if !ok {
			return false, ""
		}
		fn, ok := callee(info, c).(*types.Func)
		if !ok || fn.Pkg() == nil || (fn.Pkg().Path() != "sort" && fn.Pkg().Path() != "slices") {
			return false, ""
		}
		if len(c.Args) == 0 || !usesVar(info, c.Args[0], o) {
			return false, ""
		}
		if why := totalOrderSort(info, b, c, fn, o); why != "" {
			return false, why
		}
		return true, ""
	}
	return false, ""
}

// totalOrderSort: a list that was filled in map order is independent of that order after sorting only if the sort's order is
// total on the elements: two different elements that the comparator does not tell apart keep the order in which the map
// happened to deliver them (sort.Slice is not even stable). Accepted: the sorts of the element type's own order (sort.Strings,
// sort.Ints, sort.Float64s, slices.Sort) and comparators that end in the natural comparison of the two elements themselves
// (x[i] < x[j], cmp.Compare(a, b), strings.Compare(a, b)) after any number of `if … { return … }` refinements. A comparator
// that orders by a key computed from the elements (their length, a rendering of something they stand for) is not known to be
// injective; it is reported. Returns "" when the order is total, else what is wrong.
func totalOrderSort(info *types.Info, b *Body, c *ast.CallExpr, fn *types.Func, o types.Object) string {
	name := fn.Pkg().Path() + "." + fn.Name()
	switch name {
	case "sort.Strings", "sort.Ints", "sort.Float64s", "slices.Sort":
		return ""
	}
	isElem := func(e ast.Expr, idx types.Object) bool {
		ix, ok := ast.Unparen(e).(*ast.IndexExpr)
		if !ok {
			return false
		}
		xid, ok1 := ast.Unparen(ix.X).(*ast.Ident)
		iid, ok2 := ast.Unparen(ix.Index).(*ast.Ident)
		return ok1 && ok2 && info.Uses[xid] == o && info.Uses[iid] == idx
	}
	var lit *ast.FuncLit
	if len(c.Args) >= 2 {
		switch a := ast.Unparen(c.Args[len(c.Args)-1]).(type) {
		case *ast.FuncLit:
			lit = a
		case *ast.Ident:
			// a local defined once as a function literal
			defs := 0
			ast.Inspect(b.Block, func(m ast.Node) bool {
				if as, ok := m.(*ast.AssignStmt); ok && len(as.Lhs) == len(as.Rhs) {
					for k, l := range as.Lhs {
						if id, ok := l.(*ast.Ident); ok && objOf(info, id) == info.Uses[a] {
							defs++
							lit, _ = as.Rhs[k].(*ast.FuncLit)
						}
					}
				}
				return true
			})
			if defs != 1 {
				lit = nil
			}
		}
	}
	switch name {
	case "sort.Slice", "sort.SliceStable", "slices.SortFunc", "slices.SortStableFunc":
	default:
		return "is sorted with " + name + ", whose order the rule cannot read"
	}
	if lit == nil || lit.Type.Params == nil {
		return "is sorted with " + name + " and a comparator that is not a function literal"
	}
	var ps []types.Object
	for _, f := range lit.Type.Params.List {
		for _, n := range f.Names {
			ps = append(ps, info.Defs[n])
		}
	}
	if len(ps) != 2 || len(lit.Body.List) == 0 {
		return "is sorted with a comparator of an unexpected shape"
	}
	byIndex := strings.HasPrefix(name, "sort.")
	// locals bound once to the two elements
	side := map[types.Object]int{}
	if !byIndex {
		side[ps[0]], side[ps[1]] = 1, 2
	}
	for _, st := range lit.Body.List {
		as, ok := st.(*ast.AssignStmt)
		if !ok || as.Tok != token.DEFINE || len(as.Lhs) != len(as.Rhs) {
			continue
		}
		for k, l := range as.Lhs {
			id, ok := l.(*ast.Ident)
			if !ok {
				continue
			}
			switch {
			case byIndex && isElem(as.Rhs[k], ps[0]):
				side[info.Defs[id]] = 1
			case byIndex && isElem(as.Rhs[k], ps[1]):
				side[info.Defs[id]] = 2
			}
		}
	}
	sideOf := func(e ast.Expr) int {
		if byIndex {
			if isElem(e, ps[0]) {
				return 1
			}
			if isElem(e, ps[1]) {
				return 2
			}
		}
		if id, ok := ast.Unparen(e).(*ast.Ident); ok {
			return side[info.Uses[id]]
		}
		return 0
	}
	natural := func(e ast.Expr) bool {
		switch x := ast.Unparen(e).(type) {
		case *ast.BinaryExpr:
			switch x.Op {
			case token.LSS, token.GTR:
				a, bb := sideOf(x.X), sideOf(x.Y)
				if a != 0 && bb != 0 && a != bb {
					return true
				}
				// strings.Compare(a, b) < 0
				if call, ok := ast.Unparen(x.X).(*ast.CallExpr); ok && len(call.Args) == 2 {
					if f2, ok := callee(info, call).(*types.Func); ok && f2.Pkg() != nil && f2.Name() == "Compare" && (f2.Pkg().Path() == "strings" || f2.Pkg().Path() == "cmp") {
						a, bb := sideOf(call.Args[0]), sideOf(call.Args[1])
						return a != 0 && bb != 0 && a != bb
					}
				}
			}
		case *ast.CallExpr:
			if f2, ok := callee(info, x).(*types.Func); ok && f2.Pkg() != nil && f2.Name() == "Compare" && (f2.Pkg().Path() == "strings" || f2.Pkg().Path() == "cmp") && len(x.Args) == 2 {
				a, bb := sideOf(x.Args[0]), sideOf(x.Args[1])
				return a != 0 && bb != 0 && a != bb
			}
		}
		return false
	}
	last, ok := lit.Body.List[len(lit.Body.List)-1].(*ast.ReturnStmt)
	if !ok || len(last.Results) != 1 {
		return "is sorted with a comparator that does not end in a return"
	}
	if !natural(last.Results[0]) {
		return "is sorted by `" + exprStr(last.Results[0]) + "`, a key computed from the elements and not the elements' own order: elements the key does not tell apart keep the order in which the map delivered them, and a key that renders something else (a type, a path) can order them differently from one invocation to the next"
	}
	for _, st := range lit.Body.List[:len(lit.Body.List)-1] {
		switch st.(type) {
		case *ast.IfStmt, *ast.AssignStmt, *ast.DeclStmt:
		default:
			return "is sorted with a comparator the rule cannot read"
		}
	}
	return ""
}

// g6Freshness: printer, qualifier, types maps and generators are created per package, in newPackage only.
func g6Freshness(r *Repo, rep *Report) {
	ctors := map[string]bool{"derive.newPrinter": true, "derive.newQualifier": true, "derive.newTypesMap": true}
	for _, b := range r.bodies() {
		if b.Lit != nil {
			continue
		}
		info := b.Pkg.TypesInfo
		ast.Inspect(b.Owner.Decl, func(n ast.Node) bool {
			c, ok := n.(*ast.CallExpr)
			if !ok {
				return true
			}
			fn, ok := callee(info, c).(*types.Func)
			if !ok {
				return true
			}
			k := funcKey(fn)
			isNew := fn.Name() == "New" && strings.HasPrefix(k, "derive.") && strings.Contains(k, "Plugin") // Plugin.New via interface
			if ctors[k] || isNew {
				if b.Name == "derive.newPackage" {
					rep.pass("G6")
				} else if isNew && b.Name == "derive.(*plugin).New" {
					rep.pass("G6")
				} else {
					rep.fail(Finding{Rule: "G6", Key: "G6|fresh|" + b.Name + "|" + k, Where: []string{r.pos(c.Pos())},
						Msg: fmt.Sprintf("%s calls %s: printers, qualifiers, type tables and generators must be created afresh per package in newPackage only", b.Name, k)})
				}
			}
			return true
		})
	}
}

// g6GlobalAlias: a package-level variable of reference type (map, slice, pointer, chan, func) may only be read in place
// (dereferenced, indexed, ranged over, measured); binding it to a local, passing it on or returning it lets per-package
// code mutate state that outlives the package.
func g6GlobalAlias(r *Repo, rep *Report) {
	for _, b := range r.bodies() {
		if b.Lit != nil {
			continue
		}
		info := b.Pkg.TypesInfo
		par := b.Parent
		ast.Inspect(b.Owner.Decl, func(n ast.Node) bool {
			id, ok := n.(*ast.Ident)
			if !ok {
				return true
			}
			v, ok := info.Uses[id].(*types.Var)
			if !ok || v.Pkg() == nil || v.Parent() != v.Pkg().Scope() || !strings.HasPrefix(v.Pkg().Path(), modPath) {
				return true
			}
			switch v.Type().Underlying().(type) {
			case *types.Map, *types.Slice, *types.Pointer, *types.Chan, *types.Signature, *types.Interface:
			default:
				return true
			}
			okCtx := false
			p := par[id]
			switch px := p.(type) {
			case *ast.StarExpr:
				okCtx = true
			case *ast.IndexExpr:
				okCtx = px.X == ast.Expr(id)
			case *ast.RangeStmt:
				okCtx = px.X == ast.Expr(id)
			case *ast.CallExpr:
				if bi, ok := callee(info, px).(*types.Builtin); ok && (bi.Name() == "len" || bi.Name() == "cap") {
					okCtx = true
				}
				if px.Fun == ast.Expr(id) {
					okCtx = true // calling a package-level func value
				}
			case *ast.SelectorExpr:
				okCtx = true // field/method of the pointed-to value (read; writes are caught as global stores)
			}
			if okCtx {
				rep.pass("G6")
				return true
			}
			rep.fail(Finding{Rule: "G6", Key: fmt.Sprintf("G6|%s|global-alias|%s", b.Name, v.Name()), Where: []string{r.pos(id.Pos())},
				Msg: fmt.Sprintf("%s lets the package-level %s (a %s) escape into per-package state: whatever is stored through the alias is seen by every package processed later in the same run", b.Name, v.Name(), v.Type().String())})
			return true
		})
	}
}

// onlyLenUses: every use of o inside n is the argument of len().
func onlyLenUses(info *types.Info, n ast.Node, o types.Object) bool {
	inLen := map[*ast.Ident]bool{}
	ast.Inspect(n, func(m ast.Node) bool {
		if c, ok := m.(*ast.CallExpr); ok && len(c.Args) == 1 {
			if bi, ok := callee(info, c).(*types.Builtin); ok && bi.Name() == "len" {
				if id, ok := ast.Unparen(c.Args[0]).(*ast.Ident); ok && info.Uses[id] == o {
					inLen[id] = true
				}
			}
		}
		return true
	})
	ok := true
	ast.Inspect(n, func(m ast.Node) bool {
		if id, isID := m.(*ast.Ident); isID && info.Uses[id] == o && !inLen[id] {
			ok = false
		}
		return true
	})
	return ok
}

// flagReduction recognises the body `flag = p(…); if [!]flag { break }` (the assignment may be the if's init statement).
func flagReduction(info *types.Info, rs *ast.RangeStmt) bool {
	var as *ast.AssignStmt
	var ifs *ast.IfStmt
	switch len(rs.Body.List) {
	case 1:
		ifs, _ = rs.Body.List[0].(*ast.IfStmt)
		if ifs != nil {
			as, _ = ifs.Init.(*ast.AssignStmt)
		}
	case 2:
		as, _ = rs.Body.List[0].(*ast.AssignStmt)
		ifs, _ = rs.Body.List[1].(*ast.IfStmt)
		if ifs != nil && ifs.Init != nil {
			return false
		}
	}
	if as == nil || ifs == nil || ifs.Else != nil || as.Tok != token.ASSIGN || len(as.Lhs) != 1 || len(as.Rhs) != 1 || len(ifs.Body.List) != 1 {
		return false
	}
	fid, ok := as.Lhs[0].(*ast.Ident)
	if !ok {
		return false
	}
	if _, isCall := ast.Unparen(as.Rhs[0]).(*ast.CallExpr); !isCall {
		return false
	}
	br, ok := ifs.Body.List[0].(*ast.BranchStmt)
	if !ok || br.Tok != token.BREAK || br.Label != nil {
		return false
	}
	c, _ := stripNot(ifs.Cond)
	cid, ok := c.(*ast.Ident)
	return ok && info.Uses[cid] != nil && info.Uses[cid] == info.Uses[fid]
}
