package main

import (
	"fmt"
	"go/ast"
	"go/token"
	"sort"
	"strings"
)

// C13 — sort, keys, min, max.

// sidedLit builds a two-sided view of a function literal (less(i, j)): the index parameters are the roots.
func sidedLit(rs *Resid, fn *ast.FuncDecl, lit *ast.FuncLit) *sided {
	s := &sided{rs: rs, fn: fn, ptyp: map[string]ast.Expr{}, body: lit.Body}
	var names []string
	for _, f := range lit.Type.Params.List {
		for _, n := range f.Names {
			names = append(names, n.Name)
		}
	}
	if len(names) != 2 {
		return nil
	}
	s.A, s.B = names[0], names[1]
	s.roots = map[string]bool{s.A: true, s.B: true}
	s.defs = localDefs(lit.Body)
	return s
}

// lessIssues: the less function of sort.Slice is tabulated over the orderings of the element pairs it mentions:
// irreflexive, asymmetric, and true whenever the single differing pair says element i precedes element j.
func lessIssues(s *sided) ([]sideIssue, string) {
	paths, und := tabulateV(s, nil)
	if und != "" {
		return nil, und
	}
	var out []sideIssue
	val := func(p tabPathV) (bool, bool) {
		if p.val.isBool {
			return p.val.b, true
		}
		return false, false
	}
	for _, p := range paths {
		r, ok := val(p)
		if !ok {
			return nil, "less function returns a non-boolean"
		}
		diff := []atomVal{}
		for _, a := range p.atoms {
			if strings.HasPrefix(a.key, "ord:") && a.val != 0 {
				diff = append(diff, a)
			}
		}
		if len(diff) == 0 && r {
			out = append(out, sideIssue{p.node, "less(i, j) is true for equal elements (not irreflexive: sort.Slice may not terminate correctly) [state: " + atomsDesc(p.atoms) + "]", "less-reflexive", ""})
		}
		if len(diff) == 1 && len(p.atoms) == 1 {
			want := diff[0].val < 0
			if r != want {
				out = append(out, sideIssue{p.node, fmt.Sprintf("less(i, j) is %v where element i %s element j: the result is not ascending [state: %s]", r, map[bool]string{true: "precedes", false: "follows"}[want], atomsDesc(p.atoms)), "less-direction", ""})
			}
		}
		if r {
			mp, und := tabulateV(s, mirrorState(p.atoms))
			if und != "" {
				return nil, und
			}
			for _, q := range mp {
				if qb, _ := val(q); qb {
					out = append(out, sideIssue{p.node, "less(i, j) and less(j, i) can both be true (not asymmetric): the sorted order is not consistent with Compare [state: " + atomsDesc(p.atoms) + "]", "less-asymmetry", ""})
					break
				}
			}
		}
	}
	return out, ""
}

// orderedKindIssues (R5b): `<`/`>` between value operands needs the generator to have excluded Bool and Complex kinds.
func orderedKindIssues(rs *Resid, body ast.Node) []sideIssue {
	var out []sideIssue
	established := false
	for _, d := range rs.Run.Decisions {
		// an explicit orderedness test (b.Info()&types.IsOrdered != 0, or a predicate named after it) answered true
		if strings.Contains(d.Sym, "IsOrdered") && d.Choice == 0 {
			established = true
		}
		if strings.HasPrefix(d.Sym, "B:pred:isOrdered(") && d.Choice == 0 {
			established = true
		}
		if !strings.Contains(d.Sym, ".Kind()") || len(d.Cands) == 0 {
			continue
		}
		has := func(k string) bool {
			for i, c := range d.Cands {
				if strings.Contains(c, k) && i != d.Choice {
					return true
				}
			}
			return false
		}
		// the chosen branch is not one of the unordered kinds, all of which were listed
		chosen := ""
		if d.Choice < len(d.Cands) {
			chosen = d.Cands[d.Choice]
		}
		if has("types.Bool") && has("types.Complex64") && has("types.Complex128") && !strings.Contains(chosen, "Bool") && !strings.Contains(chosen, "Complex") {
			established = true
		}
		// or the chosen branch is itself an ordered kind (String, Int, Float64 …)
		if strings.Contains(chosen, "types.String") || strings.Contains(chosen, "types.Int") || strings.Contains(chosen, "types.Float") || strings.Contains(chosen, "types.Uint") {
			established = true
		}
	}
	if established {
		return nil
	}
	ast.Inspect(body, func(n ast.Node) bool {
		be, ok := n.(*ast.BinaryExpr)
		if !ok || (be.Op != token.LSS && be.Op != token.GTR && be.Op != token.LEQ && be.Op != token.GEQ) {
			return true
		}
		isVal := func(e ast.Expr) bool {
			switch x := unparen(e).(type) {
			case *ast.BasicLit:
				return false
			case *ast.CallExpr:
				return false
			case *ast.Ident:
				return x.Name != "nil"
			}
			return true
		}
		if isVal(be.X) && isVal(be.Y) {
			out = append(out, sideIssue{be, fmt.Sprintf("orders %s %s %s directly although the generator only established that the type is basic, not that it is an ordered kind: bool and complex values have no `%s`, so the output does not compile for them", rs.src(be.X), be.Op, rs.src(be.Y), be.Op), "unordered-kind", ""})
		}
		return true
	})
	return out
}

// minMaxIssues checks a min (dir=-1) or max (dir=+1) residual.
func minMaxIssues(rs *Resid, fn *ast.FuncDecl, dir int) ([]sideIssue, string) {
	var out []sideIssue
	var names []string
	for _, f := range fn.Type.Params.List {
		for _, n := range f.Names {
			names = append(names, n.Name)
		}
	}
	if len(names) != 2 {
		return nil, "not a two-parameter function"
	}
	which := map[int]string{-1: "minimum", 1: "maximum"}[dir]
	// two-value form: both parameters are values of the same type
	isList := false
	if at, ok := fn.Type.Params.List[0].Type.(*ast.ArrayType); ok && at.Len == nil {
		isList = true
	}
	if !isList {
		s := newSided(rs, fn)
		paths, und := tabulateV(s, nil)
		if und != "" {
			return nil, und
		}
		for _, p := range paths {
			if p.val.side == "" {
				return nil, "returns something that is not one of the two arguments"
			}
			ord := 0
			for _, a := range p.atoms {
				if strings.HasPrefix(a.key, "ord:") {
					ord = a.val
				}
			}
			// ord: a relative to b. min: a<b => a ; a>b => b
			if ord != 0 {
				want := "A"
				if ord*dir < 0 {
					// for min (dir=-1): ord<0 → product>0 → want A ; ord>0 → product<0 → want B
					want = "B"
				}
				if p.val.side != want {
					out = append(out, sideIssue{p.node, fmt.Sprintf("returns %s although the other argument is the %s [state: %s]", rs.src(p.val.e), which, atomsDesc(p.atoms)), "wrong-choice", ""})
				}
			}
		}
		return out, ""
	}
	// list form
	list, def := names[0], names[1]
	w := &guardWalker{}
	var acc string
	// returns: def only when the list is known empty; otherwise the accumulator
	w.onStmt = func(st ast.Stmt, f Facts) {
		ret, ok := st.(*ast.ReturnStmt)
		if !ok || len(ret.Results) != 1 {
			return
		}
		r := canon(ret.Results[0])
		if r == def {
			if !f["eq:0|len("+list+")"] {
				out = append(out, sideIssue{ret, fmt.Sprintf("returns the default although the list is not known to be empty here: for a non-empty list the result must be an element of the list"), "default-for-nonempty", ""})
			}
			return
		}
		acc = r
	}
	w.block(fn.Body.List, Facts{})
	if acc == "" {
		return nil, "no accumulator is returned"
	}
	defs := localDefs(fn.Body)
	fromList := func(e ast.Expr) bool {
		x := expand(e, defs, 0)
		ok := false
		ast.Inspect(x, func(n ast.Node) bool {
			if id, isId := n.(*ast.Ident); isId && id.Name == list {
				ok = true
			}
			return true
		})
		bad := false
		ast.Inspect(x, func(n ast.Node) bool {
			if id, isId := n.(*ast.Ident); isId && id.Name == def {
				bad = true
			}
			return true
		})
		return ok && !bad
	}
	emptyGuard := false
	ast.Inspect(fn.Body, func(n ast.Node) bool {
		switch x := n.(type) {
		case *ast.IfStmt:
			for _, fct := range condFacts(x.Cond, true) {
				if fct == "eq:0|len("+list+")" && stmtsTerminate(x.Body.List) {
					emptyGuard = true
				}
			}
		case *ast.AssignStmt:
			for i, l := range x.Lhs {
				if canon(l) != acc || i >= len(x.Rhs) {
					continue
				}
				if !fromList(x.Rhs[i]) {
					out = append(out, sideIssue{x, fmt.Sprintf("sets the running %s to %s, which is not an element of the list", which, rs.src(x.Rhs[i])), "acc-not-element", ""})
				}
			}
		}
		return true
	})
	if !emptyGuard {
		out = append(out, sideIssue{fn, "does not return early for an empty list (indexing list[0] panics, or the default takes part in the comparison)", "no-empty-guard", ""})
	}
	// the replacement condition: inside the loop, `if COND { acc = ELEM }`
	var extra []ast.Stmt
	found := false
	var und string
	ast.Inspect(fn.Body, func(n ast.Node) bool {
		rng, ok := n.(*ast.RangeStmt)
		if !ok {
			// for i := 1; i < len(list); i++ { … list[i] … } is for _, v := range list[1:] { … v … }
			if fs, isFor := n.(*ast.ForStmt); isFor {
				if rng = rangeOfIndexLoop(fs); rng != nil {
					ok = true
				}
			}
			if !ok {
				return true
			}
		}
		for _, st := range rng.Body.List {
			ifs, ok := st.(*ast.IfStmt)
			if !ok || ifs.Else != nil || len(ifs.Body.List) != 1 {
				und = "loop body is not a single guarded replacement"
				extra = append(extra, st)
				continue
			}
			// an element that is skipped without being compared: `if v == nil { continue }`
			if br, isBr := ifs.Body.List[0].(*ast.BranchStmt); isBr && br.Tok == token.CONTINUE {
				skipsNil := false
				if be, ok := unparen(ifs.Cond).(*ast.BinaryExpr); ok && be.Op == token.EQL && isNilLit(be.Y) {
					if id, ok := rng.Value.(*ast.Ident); ok && canon(be.X) == id.Name {
						skipsNil = true
					}
				}
				switch {
				case skipsNil && dir > 0:
					// nil precedes every other value under derived Compare: it can never replace the running maximum
				case skipsNil:
					out = append(out, sideIssue{ifs, "skips nil elements without comparing them: nil precedes every other value under derived Compare, so a nil element after the first position is the minimum and is missed", "element-skipped", ""})
				default:
					out = append(out, sideIssue{ifs, fmt.Sprintf("skips elements (%s) without comparing them with the running %s", rs.src(ifs.Cond), which), "element-skipped", ""})
				}
				continue
			}
			as, ok := ifs.Body.List[0].(*ast.AssignStmt)
			if !ok || len(as.Lhs) != 1 || canon(as.Lhs[0]) != acc {
				und = "loop body does not assign the accumulator"
				extra = append(extra, st)
				continue
			}
			found = true
			// sides: A = the new element (range value / list[i]), B = the accumulator
			elem := canon(expand(as.Rhs[0], defs, 0))
			s := &sided{rs: rs, fn: fn, ptyp: map[string]ast.Expr{}, body: &ast.BlockStmt{List: []ast.Stmt{&ast.ReturnStmt{Results: []ast.Expr{ifs.Cond}}}}, defs: defs}
			// roots: the element expression and the accumulator; represent the element by its range variables
			var vname string
			if id, ok := rng.Value.(*ast.Ident); ok {
				vname = id.Name
			}
			s.A, s.B = vname, acc
			if vname == "" {
				und = "range without a value variable"
				continue
			}
			s.roots = map[string]bool{vname: true, acc: true}
			s.defs = Defs{} // keep v and m opaque
			paths, u := tabulateV(s, nil)
			if u != "" {
				und = u
				continue
			}
			for _, p := range paths {
				if !p.val.isBool {
					und = "replacement condition is not boolean"
					continue
				}
				ord := 0
				for _, a := range p.atoms {
					if strings.HasPrefix(a.key, "ord:") {
						ord = a.val
					}
				}
				// ord = element relative to accumulator. min: replace iff element < acc
				if ord != 0 {
					want := ord*dir > 0 // min(dir=-1): ord=-1 → 1>0 replace ; max(dir=+1): ord=+1 → replace
					if p.val.b != want {
						out = append(out, sideIssue{ifs, fmt.Sprintf("the running %s is %sreplaced when the new element %s it [state: %s]", which, map[bool]string{true: "", false: "not "}[p.val.b], map[int]string{-1: "precedes", 1: "follows"}[ord], atomsDesc(p.atoms)), "replace-direction", ""})
					}
				}
			}
			// replaced by that very element
			vdef, vkey := "", ""
			if d, ok := defs.lookup(vname, as.Pos()); ok {
				vdef = canon(expand(d, defs, 0))
				vkey = elemKey(expand(d, defs, 0))
			}
			// list[1:][i] and list[i+1] are the same element
			if elem != vname && elem != vdef && (vkey == "" || elemKey(expand(as.Rhs[0], defs, 0)) != vkey) {
				out = append(out, sideIssue{as, fmt.Sprintf("replaces the running %s by %s, not by the element that was just compared", which, rs.src(as.Rhs[0])), "replace-other-element", ""})
			}
		}
		return true
	})
	if !found && und == "" {
		und = "no replacement loop found"
	}
	if found && len(extra) > 0 {
		return nil, "the scan loop contains statements besides the guarded replacement (" + rs.src(extra[0]) + ")"
	}
	if !found {
		return out, und
	}
	return out, ""
}

// elemKey names the element an index expression denotes, with an index into a tail slice folded into the index:
// (x[a:])[i] and x[i+a] (and x[a+i]) get the same key. "" when the expression is not an index expression.
func elemKey(e ast.Expr) string {
	ix, ok := unparen(e).(*ast.IndexExpr)
	if !ok {
		return ""
	}
	var addends []string
	var add func(e ast.Expr)
	add = func(e ast.Expr) {
		if be, ok := unparen(e).(*ast.BinaryExpr); ok && be.Op == token.ADD {
			add(be.X)
			add(be.Y)
			return
		}
		if c := canon(e); c != "0" {
			addends = append(addends, c)
		}
	}
	add(ix.Index)
	base := unparen(ix.X)
	for {
		sl, ok := base.(*ast.SliceExpr)
		if !ok || sl.High != nil || sl.Max != nil {
			break
		}
		if sl.Low != nil {
			add(sl.Low)
		}
		base = unparen(sl.X)
	}
	sort.Strings(addends)
	return canon(base) + "[" + strings.Join(addends, "+") + "]"
}

// keysIssues: the loop ranges over the map parameter, appends the range key on every path, never leaves early,
// and the appended slice is what is returned.
func keysIssues(rs *Resid, fn *ast.FuncDecl) []sideIssue {
	var out []sideIssue
	if fn.Type.Params.NumFields() != 1 {
		return []sideIssue{{fn, "keys function does not take exactly the map", "shape", ""}}
	}
	m := fn.Type.Params.List[0].Names[0].Name
	var rng *ast.RangeStmt
	ast.Inspect(fn.Body, func(n ast.Node) bool {
		if r, ok := n.(*ast.RangeStmt); ok && rng == nil {
			rng = r
		}
		return true
	})
	if rng == nil || canon(rng.X) != m {
		return []sideIssue{{fn, "does not range over the map argument", "no-range", ""}}
	}
	key, _ := rng.Key.(*ast.Ident)
	if key == nil || key.Name == "_" {
		return []sideIssue{{rng, "the range does not bind the key", "no-key", ""}}
	}
	// the filling form: acc := make([]K, len(m)); i := 0; for key := range m { acc[i] = key; i++ } — every key stored at the
	// next index of a slice that has exactly len(m) elements
	if len(rng.Body.List) == 2 {
		as, ok1 := rng.Body.List[0].(*ast.AssignStmt)
		inc, ok2 := rng.Body.List[1].(*ast.IncDecStmt)
		if ok1 && ok2 && inc.Tok == token.INC && len(as.Lhs) == 1 && len(as.Rhs) == 1 && canon(as.Rhs[0]) == key.Name {
			if ix, ok := as.Lhs[0].(*ast.IndexExpr); ok && canon(ix.Index) == canon(inc.X) {
				acc, idx := canon(ix.X), canon(inc.X)
				okMake, okZero := false, false
				for _, st := range fn.Body.List {
					d, ok := st.(*ast.AssignStmt)
					if !ok || d.Tok != token.DEFINE || len(d.Lhs) != 1 || len(d.Rhs) != 1 || d.Pos() > rng.Pos() {
						continue
					}
					if canon(d.Lhs[0]) == acc {
						if c, ok := d.Rhs[0].(*ast.CallExpr); ok && canon(c.Fun) == "make" && len(c.Args) == 2 {
							if la := lenExprArg(c.Args[1]); la != nil && canon(la) == m {
								okMake = true
							}
						}
					}
					if canon(d.Lhs[0]) == idx && canon(d.Rhs[0]) == "0" {
						okZero = true
					}
				}
				last, isRet := fn.Body.List[len(fn.Body.List)-1].(*ast.ReturnStmt)
				if okMake && okZero && isRet && len(last.Results) == 1 && canon(last.Results[0]) == acc {
					// nothing else may touch the index or the slice
					n := 0
					ast.Inspect(fn.Body, func(x ast.Node) bool {
						if id, ok := x.(*ast.Ident); ok && (id.Name == idx) {
							n++
						}
						return true
					})
					if n == 3 {
						return out
					}
				}
			}
		}
	}
	// loop body: exactly appends of key to one slice, no branches
	var acc string
	for _, st := range rng.Body.List {
		as, ok := st.(*ast.AssignStmt)
		if !ok || len(as.Lhs) != 1 || len(as.Rhs) != 1 {
			out = append(out, sideIssue{st, fmt.Sprintf("the key loop contains `%s`: every key must be appended unconditionally, exactly once", rs.src(st)), "loop-body", ""})
			continue
		}
		c, ok := as.Rhs[0].(*ast.CallExpr)
		if !ok || canon(c.Fun) != "append" || len(c.Args) != 2 || canon(c.Args[0]) != canon(as.Lhs[0]) || canon(c.Args[1]) != key.Name {
			out = append(out, sideIssue{st, fmt.Sprintf("the key loop does `%s` instead of appending the range key", rs.src(st)), "loop-body", ""})
			continue
		}
		if acc != "" {
			out = append(out, sideIssue{st, "a key is appended more than once", "dup-append", ""})
		}
		acc = canon(as.Lhs[0])
	}
	if acc == "" {
		out = append(out, sideIssue{rng, "no key is appended", "no-append", ""})
	}
	// returned value is the accumulator, returned after the loop
	last, ok := fn.Body.List[len(fn.Body.List)-1].(*ast.ReturnStmt)
	if !ok || len(last.Results) != 1 || canon(last.Results[0]) != acc {
		out = append(out, sideIssue{fn, "does not return the slice the keys were appended to", "return", ""})
	}
	return out
}

func stripComments(text string) string {
	var b strings.Builder
	for _, l := range strings.Split(text, "\n") {
		if t := strings.TrimSpace(l); strings.HasPrefix(t, "//") {
			continue
		}
		b.WriteString(l + "\n")
	}
	return b.String()
}

func runR_C13(c *Ctx) {
	ps := []string{"sort", "keys", "min", "max"}
	sweepHealth(c, ps...)
	rR1(c, ps...)
	rR2(c, ps...)
	rConstIndex(c, ps...)
	// Sort, Min and Max are specified under derived Compare: what they return is only "sorted" / "an element no other one
	// precedes" if the order they are generated to use is a total order, so the compare plugin's own rules are part of this check
	// (as the equal and hash rules are part of C04, C14 and C18)
	compareCoreRules(c, true)
	sortLessRules(c)
	// keys
	for _, rs := range c.acceptedResids("keys") {
		if rs.Err != nil || len(rs.Funcs) != 1 {
			continue
		}
		if reportIssues(c, rs, "R-keys", "", keysIssues(rs, rs.Funcs[0])) {
			c.Rep.pass("R-keys")
			c.Rep.sample(map[string]interface{}{"plugin": "keys", "residual": rs.Run.Text})
		}
	}
	minMaxRules(c)
}

// sortLessRules: the sort plugin's residuals (used by C13, and by C03/C04/C18 whose map handling relies on sorted keys).
func sortLessRules(c *Ctx) {
	sweepHealth(c, "sort")
	for _, rs := range c.acceptedResids("sort") {
		if rs.Err != nil || len(rs.Funcs) != 1 {
			continue
		}
		fn := rs.Funcs[0]
		ok := true
		if fn.Type.Params.NumFields() != 1 || len(fn.Body.List) != 2 {
			c.Rep.fail(residFinding(c.Repo, rs, "R-sort", "shape", "sort: emitted function is not `sort…(list); return list`", fn))
			continue
		}
		list := fn.Type.Params.List[0].Names[0].Name
		es, isCall := fn.Body.List[0].(*ast.ExprStmt)
		ret, isRet := fn.Body.List[1].(*ast.ReturnStmt)
		var call *ast.CallExpr
		if isCall {
			call, _ = es.X.(*ast.CallExpr)
		}
		if call == nil || !isRet || len(ret.Results) != 1 || canon(ret.Results[0]) != list || len(call.Args) == 0 || canon(call.Args[0]) != list {
			c.Rep.fail(residFinding(c.Repo, rs, "R-sort", "shape", "sort: does not sort its argument in place and return it", fn))
			continue
		}
		sel, _ := call.Fun.(*ast.SelectorExpr)
		pk := ""
		if sel != nil {
			if id, isId := sel.X.(*ast.Ident); isId {
				if h := rs.hole(id.Name); h != nil && h.Kind == "PKG" {
					pk = h.Origin
				}
			}
		}
		if pk != "sort" {
			c.Rep.fail(residFinding(c.Repo, rs, "R-sort", "callee", "sort: the list is not sorted with package sort", call))
			continue
		}
		switch sel.Sel.Name {
		case "Strings", "Ints", "Float64s":
			// exact basic kind must have been established: the chosen Kind() candidate matches
			want := map[string]string{"Strings": "types.String", "Ints": "types.Int", "Float64s": "types.Float64"}[sel.Sel.Name]
			okKind := false
			exactBasic := false
			for _, d := range rs.Run.Decisions {
				if strings.Contains(d.Sym, ".Kind()") && d.Choice < len(d.Cands) && d.Cands[d.Choice] == want && !strings.Contains(d.Sym, "Underlying()") {
					okKind = true
				}
				if strings.HasPrefix(d.Sym, "K:") && strings.HasSuffix(d.Sym, ".Elem():*types.Basic") && d.Choice == 0 {
					exactBasic = true
				}
				// the same established by a type assertion on the element type itself (not on its Underlying())
				if strings.HasPrefix(d.Sym, "A:") && strings.HasSuffix(d.Sym, ".Elem():*types.Basic") && !strings.Contains(d.Sym, "Underlying().Elem()") && d.Choice == 0 {
					exactBasic = true
				}
			}
			if !okKind || !exactBasic {
				ok = false
				c.Rep.fail(residFinding(c.Repo, rs, "R-sort", "specialised "+sel.Sel.Name, fmt.Sprintf("sort: uses sort.%s although the element type was not established to be exactly %s (named types and other kinds do not convert)", sel.Sel.Name, strings.TrimPrefix(want, "types.")), call))
			}
		case "Slice", "SliceStable":
			lit, _ := call.Args[len(call.Args)-1].(*ast.FuncLit)
			if lit == nil {
				ok = false
				c.Rep.fail(residFinding(c.Repo, rs, "R-sort", "less-shape", "sort: sort.Slice is not given a function literal", call))
				break
			}
			s := sidedLit(rs, fn, lit)
			if s == nil {
				ok = false
				c.Rep.fail(residFinding(c.Repo, rs, "R-sort", "less-shape", "sort: less function does not take (i, j)", lit))
				break
			}
			// operands must be list[i] / list[j]
			ok = reportIssues(c, rs, "R6", "", s.mirrorIssues(true)) && ok
			issues, und := lessIssues(s)
			if und != "" {
				ok = false
				c.Rep.fail(Finding{Rule: "R8", Key: "R8|sort|undecided|" + firstLine(und), Kind: "undecided", Plugin: "sort", Script: rs.Run.Script, Msg: "sort: less function cannot be tabulated (" + und + ")", Detail: rs.Run.excerpt(30)})
			} else {
				ok = reportIssues(c, rs, "R8", "", issues) && ok
			}
			ok = reportIssues(c, rs, "R5b", "", orderedKindIssues(rs, lit.Body)) && ok
			ok = reportIssues(c, rs, "R8", "", compareMagnitudeIssues(rs, lit.Body)) && ok
			// the order must be the derived Compare's (or the natural < of an ordered basic type), not a library order
			ast.Inspect(lit.Body, func(n ast.Node) bool {
				call, isCall := n.(*ast.CallExpr)
				if !isCall {
					return true
				}
				// a method of the element itself (list[i].Compare(list[j])): the user's order, not the derived one
				if sel, isSel := call.Fun.(*ast.SelectorExpr); isSel && s.side(sel.X) != "" {
					ok = false
					c.Rep.fail(residFinding(c.Repo, rs, "R8", "less-foreign-order", "sort: elements are ordered with their own method "+rs.src(call.Fun)+", not with the derived compare function: the result is not non-decreasing under derived Compare (and a nil element makes the method call panic)", call))
					return true
				}
				if len(call.Args) != 2 || s.side(call.Args[0]) == "" || s.side(call.Args[1]) == "" {
					return true
				}
				if funcHoleWho(rs, call.Fun) != "compare" {
					ok = false
					c.Rep.fail(residFinding(c.Repo, rs, "R8", "less-foreign-order", "sort: elements are ordered with "+rs.src(call.Fun)+", not with the derived compare function: the result is not non-decreasing under derived Compare (which orders nil first, then by length)", call))
				}
				return true
			})
			// every index expression in the less function indexes the sorted list
			ast.Inspect(lit.Body, func(n ast.Node) bool {
				if ix, isIx := n.(*ast.IndexExpr); isIx && canon(ix.X) != list {
					ok = false
					c.Rep.fail(residFinding(c.Repo, rs, "R-sort", "less-foreign-index", "sort: the less function indexes "+rs.src(ix.X)+", not the slice being sorted", ix))
				}
				return true
			})
		default:
			ok = false
			c.Rep.fail(residFinding(c.Repo, rs, "R-sort", "callee "+sel.Sel.Name, "sort: unknown sort routine sort."+sel.Sel.Name, call))
		}
		if ok {
			c.Rep.pass("R-sort")
			c.Rep.pass("R8")
			c.Rep.sample(map[string]interface{}{"plugin": "sort", "path": rs.Run.shapeKey(), "residual": rs.Run.Text})
		}
	}
}

func minMaxRules(c *Ctx) {
	// min / max
	texts := map[string]map[string]string{"min": {}, "max": {}}
	for _, p := range []string{"min", "max"} {
		dir := map[string]int{"min": -1, "max": 1}[p]
		// the form rule is about what the *path* established, not about the text: a path that reaches the two-value form
		// through mere assignability prints the same text as the path through identity, so it must be looked at although
		// its text repeats
		for _, r := range c.R.Runs(p) {
			if r.Outcome != "accepted" || !r.Dup {
				continue
			}
			rs := parseResid(r)
			if rs.Err != nil || len(rs.Funcs) != 1 {
				continue
			}
			reportIssues(c, rs, "R8", "", minMaxFormIssues(rs, rs.Funcs[0]))
		}
		for _, rs := range c.acceptedResids(p) {
			if rs.Err != nil || len(rs.Funcs) != 1 {
				continue
			}
			issues, und := minMaxIssues(rs, rs.Funcs[0], dir)
			ok := true
			if und != "" {
				ok = false
				c.Rep.fail(Finding{Rule: "R8", Key: "R8|" + p + "|undecided|" + firstLine(und), Kind: "undecided", Plugin: p, Script: rs.Run.Script, Msg: p + ": residual cannot be tabulated (" + und + ")", Detail: rs.Run.excerpt(30)})
			}
			ok = reportIssues(c, rs, "R8", "", issues) && ok
			ok = reportIssues(c, rs, "R8", "", minMaxFormIssues(rs, rs.Funcs[0])) && ok
			ok = reportIssues(c, rs, "R5b", "", orderedKindIssues(rs, rs.Funcs[0].Body)) && ok
			ok = reportIssues(c, rs, "R8", "", compareMagnitudeIssues(rs, rs.Funcs[0].Body)) && ok
			if s := newSided(rs, rs.Funcs[0]); s != nil {
				ok = reportIssues(c, rs, "R10", "", writesThroughRoots(s, nil)) && ok
			}
			if ok {
				c.Rep.pass("R8")
			}
			t := stripComments(rs.Run.Text)
			t = holeRe.ReplaceAllString(t, "_")
			texts[p][fmt.Sprint(rs.Run.Script)] = t
			if len(c.Rep.Samples) < 10 {
				c.Rep.sample(map[string]interface{}{"plugin": p, "path": rs.Run.shapeKey(), "residual": rs.Run.Text})
			}
		}
	}
	// R9 mirror: max = min with the order operators flipped
	for k, tmin := range texts["min"] {
		tmax, ok := texts["max"][k]
		if !ok {
			c.Rep.fail(Finding{Rule: "R9", Key: "R9|min-max|unpaired", Plugin: "max", Msg: "min has an accepted path (script " + k + ") that max lacks: the two plugins no longer mirror each other"})
			continue
		}
		// the order operators between values are exchanged; a loop bound `i < len(list)` is not one of them
		flip := strings.NewReplacer(" < len(", " < len(", " < ", " > ", " > ", " < ").Replace(tmin)
		if flip == tmax {
			c.Rep.pass("R9")
		} else {
			c.Rep.fail(Finding{Rule: "R9", Key: "R9|min-max|differs", Plugin: "max", Msg: "max is not min with `<` and `>` exchanged on the same type shape (one of the two siblings was edited alone)", Detail: "min:\n" + tmin + "\nmax:\n" + tmax})
		}
	}
	g9Ordered(c, "min.isOrdered", "max.isOrdered")
	c.Rep.floor("R8", 8)
}

// compareMagnitudeIssues: the result of a compare helper / Compare method may only be tested against 0: derived Compare
// passes a user-defined Compare method's result through unnormalised, so `== -1` or `> 1` relies on a magnitude that
// is not part of the contract.
func compareMagnitudeIssues(rs *Resid, body ast.Node) []sideIssue {
	var out []sideIssue
	defs := localDefs(body)
	isCmp := func(e ast.Expr) bool {
		c, ok := unparen(expand(e, defs, 0)).(*ast.CallExpr)
		if !ok {
			return false
		}
		if funcHoleWho(rs, c.Fun) == "compare" {
			return true
		}
		if sel, ok := c.Fun.(*ast.SelectorExpr); ok && sel.Sel.Name == "Compare" {
			return true
		}
		return false
	}
	ast.Inspect(body, func(n ast.Node) bool {
		be, ok := n.(*ast.BinaryExpr)
		if !ok || !cmpOps[be.Op] {
			return true
		}
		var lit ast.Expr
		switch {
		case isCmp(be.X):
			lit = be.Y
		case isCmp(be.Y):
			lit = be.X
		default:
			return true
		}
		if canon(lit) != "0" {
			out = append(out, sideIssue{be, fmt.Sprintf("tests a compare result against %s: only the sign of a compare result is defined (a user Compare method may return any negative or positive number)", rs.src(lit)), "compare-magnitude", ""})
		}
		return true
	})
	return out
}

// minMaxFormIssues: deriveMin(a, b) is the two-value form exactly when its two argument types are identical; otherwise it is
// the list form (list, default). A generator that picks the two-value form because the second argument is merely assignable to
// the first (an untyped nil default next to a list of pointers) compares the list with the default instead of scanning it.
func minMaxFormIssues(rs *Resid, fn *ast.FuncDecl) []sideIssue {
	loops := false
	ast.Inspect(fn.Body, func(n ast.Node) bool {
		switch n.(type) {
		case *ast.RangeStmt, *ast.ForStmt:
			loops = true
		}
		return true
	})
	if loops || fn.Type.Params.NumFields() != 2 {
		return nil
	}
	for _, d := range rs.Run.Decisions {
		if d.Sym == "B:types.Identical(typs[0],typs[1])" && d.Choice == 0 {
			return nil
		}
	}
	return []sideIssue{{fn, "the two-value form (no scan of a list) is generated although this path did not establish that the two argument types are identical: for deriveMin(list, nil) with a list of pointers, slices or maps the untyped nil default is assignable to the list type, and the function compares the list with the default instead of returning the smallest element", "two-value-without-identity", ""}}
}
