package main

import (
	"fmt"
	"go/ast"
	"go/token"
	"go/types"
	"strings"
)

// C04 — hash rules on residuals of the hash plugin.

// allowed external inputs of a hash function: bit patterns of floats (documented pure functions of the value)
var hashAllowedPkgFuncs = map[string]map[string]bool{"math": {"Float32bits": true, "Float64bits": true}}

func hashInputIssues(s *sided) []sideIssue {
	var out []sideIssue
	rs := s.rs
	// the residual file may contain the function only (no package-level state such as seeds)
	for _, d := range rs.File.Decls {
		if gd, ok := d.(*ast.GenDecl); ok && gd.Tok != token.IMPORT {
			out = append(out, sideIssue{gd, "emits a package-level declaration next to the hash function: a hash must be a function of the value alone, not of per-process state", "package-state", ""})
		}
	}
	ast.Inspect(rs.File, func(n ast.Node) bool {
		switch x := n.(type) {
		case *ast.SelectorExpr:
			id, ok := x.X.(*ast.Ident)
			if !ok {
				return true
			}
			h := rs.hole(id.Name)
			if h == nil || h.Kind != "PKG" {
				return true
			}
			if !hashAllowedPkgFuncs[h.Origin][x.Sel.Name] {
				out = append(out, sideIssue{x, fmt.Sprintf("uses %s.%s: the hash would depend on something other than the value (address, per-process seed, reflection of layout)", h.Origin, x.Sel.Name), "foreign-input", h.Origin + "." + x.Sel.Name})
			}
		case *ast.CallExpr:
			if id, ok := x.Fun.(*ast.Ident); ok {
				switch id.Name {
				case "cap":
					out = append(out, sideIssue{x, "reads cap(...): spare capacity is not part of the value", "capacity", ""})
				case "uintptr":
					// the one value whose content is an address: a component of kind unsafe.Pointer (== compares it the same way)
					isUP := false
					for _, d := range rs.Run.Decisions {
						if strings.HasPrefix(d.Sym, "S:") && strings.Contains(d.Sym, ".Kind()#") && d.Choice < len(d.Cands) && d.Cands[d.Choice] == "types.UnsafePointer" {
							isUP = true
						}
						if strings.HasPrefix(d.Sym, "B:") && strings.HasSuffix(d.Sym, fmt.Sprintf(".Kind()==%d", int(types.UnsafePointer))) && d.Choice == 0 {
							isUP = true
						}
					}
					if !isUP {
						out = append(out, sideIssue{x, "converts to uintptr: an address is not part of the value", "address", ""})
					}
				}
				if h := rs.hole(id.Name); h != nil && h.Kind == "FUNC" {
					who := funcHoleWho(rs, id)
					if who != "hash" && who != "sort" && who != "keys" {
						out = append(out, sideIssue{x, fmt.Sprintf("calls a helper of plugin %s", who), "foreign-helper", who})
					}
				}
			}
		case *ast.BasicLit:
			if x.Kind == token.STRING && strings.Contains(x.Value, "%p") {
				out = append(out, sideIssue{x, "formats a pointer with %p", "address", ""})
			}
		}
		return true
	})
	// a pointer-kinded operand may only be nil-tested, dereferenced, or passed to a hash helper / Hash method
	for nm := range s.ptyp {
		if kindOfVal(s.valOfExpr(ast.NewIdent(nm))) != "*types.Pointer" {
			continue
		}
		par := parents(s.fn)
		ast.Inspect(s.body, func(n ast.Node) bool {
			id, ok := n.(*ast.Ident)
			if !ok || id.Name != nm {
				return true
			}
			p := par[id]
			for {
				if pe, ok := p.(*ast.ParenExpr); ok {
					p = par[pe]
					continue
				}
				break
			}
			switch px := p.(type) {
			case *ast.StarExpr, *ast.SelectorExpr:
				return true
			case *ast.BinaryExpr:
				if isNilLit(px.X) || isNilLit(px.Y) {
					return true
				}
			case *ast.CallExpr:
				if w := funcHoleWho(s.rs, px.Fun); w == "hash" || w == "keys" {
					return true
				}
				if sel, ok := px.Fun.(*ast.SelectorExpr); ok && sel.Sel.Name == "Hash" {
					return true
				}
			case *ast.Field:
				return true
			}
			out = append(out, sideIssue{id, fmt.Sprintf("uses the pointer %s itself (not what it points to) in the hash computation", nm), "pointer-identity", ""})
			return true
		})
	}
	return out
}

// floatBitsIssues (R17): a hash leaf that applies a bit-injective function to an operand whose equality leaf is `==`
// on a kind where == is coarser than bit identity (+0 == -0 for floats and complex).
func floatBitsIssues(s *sided) []sideIssue {
	var out []sideIssue
	ast.Inspect(s.body, func(n ast.Node) bool {
		c, ok := n.(*ast.CallExpr)
		if !ok {
			return true
		}
		sel, ok := c.Fun.(*ast.SelectorExpr)
		if !ok || (sel.Sel.Name != "Float64bits" && sel.Sel.Name != "Float32bits") {
			return true
		}
		id, ok := sel.X.(*ast.Ident)
		if !ok {
			return true
		}
		if h := s.rs.hole(id.Name); h == nil || h.Origin != "math" {
			return true
		}
		// x + 0 has the bits of +0 for x = -0 and the bits of x for every other x (IEEE 754 addition, round to nearest; frozen
		// fact, checked against the Go toolchain in this sandbox): the normalised operand is a function of the == class
		if len(c.Args) == 1 {
			if be, ok := unparen(c.Args[0]).(*ast.BinaryExpr); ok && be.Op == token.ADD {
				isZero := func(e ast.Expr) bool {
					bl, ok := unparen(e).(*ast.BasicLit)
					return ok && (bl.Value == "0" || bl.Value == "0.0")
				}
				if isZero(be.Y) || isZero(be.X) {
					return true
				}
			}
		}
		// … or the bits are taken only of a value that was established not to be a zero: `if x == 0 { return … }` before it
		if len(c.Args) == 1 {
			arg := c.Args[0]
			if cv, ok := unparen(arg).(*ast.CallExpr); ok && len(cv.Args) == 1 && isTypeExpr(s.rs, cv.Fun) {
				arg = cv.Args[0] // float64(x)
			} else if cv, ok := unparen(arg).(*ast.CallExpr); ok && len(cv.Args) == 1 {
				if id, ok := cv.Fun.(*ast.Ident); ok && (id.Name == "float64" || id.Name == "float32") {
					arg = cv.Args[0]
				}
			}
			nonZero := false
			for _, g := range guardsOf(s.body, c) {
				be, ok := unparen(g.e).(*ast.BinaryExpr)
				if !ok {
					continue
				}
				zero := func(e ast.Expr) bool {
					bl, ok := unparen(e).(*ast.BasicLit)
					return ok && (bl.Value == "0" || bl.Value == "0.0")
				}
				if ((be.Op == token.EQL && !g.pos) || (be.Op == token.NEQ && g.pos)) && zero(be.Y) && canon(be.X) == canon(arg) {
					nonZero = true
				}
			}
			if nonZero {
				return true
			}
		}
		// the bits of one part of a complex number: the part is a float that == on the complex value compares with ==
		// (a guard on the whole number does not make the part non-zero)
		sideArg := func(e ast.Expr) string {
			for {
				cv, ok := unparen(e).(*ast.CallExpr)
				if !ok || len(cv.Args) != 1 {
					break
				}
				if id, ok := cv.Fun.(*ast.Ident); ok && (id.Name == "real" || id.Name == "imag" || id.Name == "float64" || id.Name == "float32") {
					e = cv.Args[0]
					continue
				}
				if isTypeExpr(s.rs, cv.Fun) {
					e = cv.Args[0]
					continue
				}
				break
			}
			return s.side(e)
		}
		if len(c.Args) == 1 && sideArg(c.Args[0]) == "A" {
			out = append(out, sideIssue{c, fmt.Sprintf("hashes %s by its bit pattern (math.%s) while derived Equal compares the same leaf with ==: +0 and -0 are == but have different bit patterns, so Equal values hash differently", s.rs.src(c.Args[0]), sel.Sel.Name), "float-bits", ""})
		}
		return true
	})
	return out
}

// nilVsEmptyIssues: when the equality leaf for a slice kind ignores nil-ness (bytes.Equal, see C02's R-leaf), a hash that
// returns different values for a nil and an empty slice contradicts Equal => same hash.
func hashNilVsEmpty(c *Ctx) {
	// does equal use a nil-blind library comparison for some slice leaf?
	blind := false
	for _, rs := range c.acceptedResids("equal") {
		if rs.Err != nil || len(rs.Funcs) != 1 {
			continue
		}
		if s := newSided(rs, rs.Funcs[0]); s != nil && s.B != "" && len(nilBlindLibCalls(s)) > 0 {
			blind = true
			break
		}
	}
	if !blind {
		c.Rep.pass("R17")
		return
	}
	for _, rs := range c.acceptedResids("hash") {
		if rs.Err != nil || len(rs.Funcs) != 1 {
			continue
		}
		s := newSided(rs, rs.Funcs[0])
		if s == nil || kindOfVal(s.valOfExpr(ast.NewIdent(s.A))) != "*types.Slice" {
			continue
		}
		// `if object == nil { return K }` with K different from the seed returned for an empty slice
		nilRet, seed := "", ""
		ast.Inspect(s.body, func(n ast.Node) bool {
			switch x := n.(type) {
			case *ast.IfStmt:
				if be, ok := x.Cond.(*ast.BinaryExpr); ok && be.Op == token.EQL && isNilLit(be.Y) && canon(be.X) == s.A && len(x.Body.List) == 1 {
					if ret, ok := x.Body.List[0].(*ast.ReturnStmt); ok && len(ret.Results) == 1 {
						nilRet = canon(ret.Results[0])
					}
				}
			case *ast.AssignStmt:
				if x.Tok == token.DEFINE && len(x.Lhs) == 1 && len(x.Rhs) == 1 && seed == "" {
					if id, ok := x.Lhs[0].(*ast.Ident); ok && id.Name == "h" {
						seed = canon(x.Rhs[0])
					}
				}
			}
			return true
		})
		if nilRet != "" && seed != "" && !strings.Contains(seed, "("+nilRet+")") && seed != nilRet {
			c.Rep.fail(Finding{Rule: "R17", Key: "R17|hash|nil-vs-empty-slice", Where: []string{rs.where(c.Repo, rs.Funcs[0])}, Plugin: "hash", Script: rs.Run.Script,
				Msg:    fmt.Sprintf("hash returns %s for a nil slice and the seed %s for an empty one, while derived Equal compares []byte components with bytes.Equal, which treats nil and empty alike: two Equal values hash differently", nilRet, seed),
				Detail: "residual:\n" + rs.Run.excerpt(40)})
			return
		}
	}
	c.Rep.pass("R17")
}

func runR_C04(c *Ctx) {
	sweepHealth(c, "hash", "equal")
	rR1(c, "hash")
	hashCoreRules(c, true)
	hashNilVsEmpty(c)
	g9Methods(c, methodSpec{"hash.hasHashMethod", "Hash", 0, 1, types.Invalid})
	sortLessRules(c)
	// map keys are visited in the order of the derived compare function: its rules are part of "Equal values hash alike"
	compareCoreRules(c, false)
	c.Rep.floor("R16", 50)
}

// hashCoreRules: value-only inputs, ordered map traversal, purity, guards (and, with leafTable, R17's float-bits leaf).
func hashCoreRules(c *Ctx, leafTable bool) {
	sweepHealth(c, "hash")
	n := 0
	for _, rs := range c.acceptedResids("hash") {
		if rs.Err != nil || len(rs.Funcs) != 1 {
			continue
		}
		s := newSided(rs, rs.Funcs[0])
		if s == nil {
			continue
		}
		n++
		ok := true
		ok = reportIssues(c, rs, "R16", "", s.mapOrderIssues()) && ok
		ok = reportIssues(c, rs, "R-input", "", hashInputIssues(s)) && ok
		ok = reportIssues(c, rs, "R10", "", writesThroughRoots(s, nil)) && ok
		ok = reportIssues(c, rs, "R7", "", s.guardIssues(false)) && ok
		if leafTable {
			ok = reportIssues(c, rs, "R17", "", floatBitsIssues(s)) && ok
		}
		if ok {
			for _, r := range []string{"R16", "R-input", "R10", "R7", "R17"} {
				c.Rep.pass(r)
			}
		}
		if len(c.Rep.Samples) < 5 && rs.Run.Config == "leaf" {
			c.Rep.sample(map[string]interface{}{"plugin": "hash", "path": rs.Run.shapeKey(), "residual": rs.Run.Text})
		}
	}
	c.Rep.analysed("hash_residuals", n)
}
