package main

import (
	"fmt"
	"go/ast"
	"go/parser"
	"go/token"
	"go/types"
	"regexp"
	"sort"
	"strconv"
	"strings"
)

// funcAt names the generator function containing pos (stable construct identity for keys).
func (r *Repo) funcAt(pos token.Pos) string {
	if !pos.IsValid() {
		return "?"
	}
	for _, fi := range r.Decls {
		if fi.Decl.Pos() <= pos && pos < fi.Decl.End() {
			return funcKey(fi.Fn)
		}
	}
	return "?"
}

var posRe = regexp.MustCompile(`[A-Za-z_.]*residual\.go:\d+:\d+:?\s*`)
var holeRe = regexp.MustCompile(`__[A-Z]\d+`)

func normErr(err error) string {
	s := posRe.ReplaceAllString(err.Error(), "")
	s = holeRe.ReplaceAllString(s, "_")
	if i := strings.Index(s, " (and "); i >= 0 {
		s = s[:i]
	}
	return s
}

// sweepHealth: undecided runs and exhausted budgets fail the check; they are never a pass.
func sweepHealth(c *Ctx, plugins ...string) {
	c.R.Prefetch(plugins...)
	for _, p := range plugins {
		runs := c.R.Runs(p)
		acc := 0
		for _, r := range runs {
			c.Rep.mu.Lock()
			c.Rep.Evaluations++
			c.Rep.mu.Unlock()
			switch r.Outcome {
			case "undecided":
				c.Rep.fail(Finding{Rule: "R0", Key: "R0|" + p + "|undecided|" + firstLine(r.Msg), Kind: "undecided", Plugin: p, Script: r.Script,
					Msg: fmt.Sprintf("plugin %s: the abstract interpreter could not follow the generator (%s); nothing is claimed for this path", p, r.Msg), Detail: "abstract path: " + r.describe()})
			case "panic":
				// the generator (or the model of an API it calls) cannot get past this point: whatever it would emit afterwards
				// is not analysed. C09 reports the panic as such; for the emitted-code rules the path family is uncovered
				c.Rep.fail(Finding{Rule: "R0", Key: "R0|" + p + "|panic|" + c.R.repo.funcAt(r.Pos) + "|" + firstLine(r.Msg), Kind: "undecided", Where: []string{c.R.repo.pos(r.Pos)}, Plugin: p, Script: r.Script,
					Msg: fmt.Sprintf("plugin %s: an abstract path ends in a generator panic (%s): what is emitted on it is not analysed, so nothing is claimed for this path", p, r.Msg), Detail: "abstract path: " + r.describe()})
			case "accepted":
				acc++
				if !r.Dup {
					c.Rep.distinct(p + "\x00" + r.Text)
				}
			}
		}
		c.R.mu.Lock()
		over := c.R.over[p]
		c.R.mu.Unlock()
		if over != "" {
			c.Rep.fail(Finding{Rule: "R0", Key: "R0|" + p + "|budget", Kind: "undecided", Plugin: p, Msg: "abstract exploration budget exceeded (" + over + "): the path family is not covered, so nothing is claimed"})
		}
		if acc == 0 {
			c.Rep.fail(Finding{Rule: "R0", Key: "R0|" + p + "|no-accepted-run", Kind: "undecided", Plugin: p, Msg: "plugin " + p + ": no abstract run is accepted; every residual rule would pass vacuously"})
		} else {
			c.Rep.pass("R0")
		}
		c.Rep.analysed("abstract_runs:"+p, len(runs))
	}
	c.Rep.Bounds["tier"] = c.Tier
	var cfgs []string
	for _, p := range plugins {
		for _, cf := range configsFor(p, c.Tier) {
			s := fmt.Sprintf("%s arities=%v tie=%v nargs=%v budget=%d", cf.name, cf.arities, cf.tie, cf.nargs, cf.maxRuns)
			if !contains(cfgs, s) {
				cfgs = append(cfgs, s)
			}
		}
	}
	c.Rep.Bounds["configs"] = cfgs
	c.Rep.Bounds["recursion_cut"] = 2
}

func firstLine(s string) string {
	if i := strings.IndexByte(s, '\n'); i >= 0 {
		s = s[:i]
	}
	if len(s) > 100 {
		s = s[:100]
	}
	return s
}

// rPanics (C09): no abstract run, accepted by Add or not, may end in a definite generator panic.
func rPanics(c *Ctx, plugins ...string) {
	for _, p := range plugins {
		n := 0
		for _, r := range c.R.Runs(p) {
			if r.Outcome != "panic" {
				continue
			}
			n++
			c.Rep.fail(Finding{Rule: "R-panic", Key: fmt.Sprintf("R-panic|%s|%s|%s", p, c.R.repo.funcAt(r.Pos), firstLine(r.Msg)), Where: []string{c.R.repo.pos(r.Pos)}, Plugin: p, Script: r.Script,
				Msg: fmt.Sprintf("plugin %s: the generator would panic: %s", p, r.Msg), Detail: "abstract path: " + r.describe()})
		}
		if n == 0 {
			c.Rep.pass("R-panic")
		}
	}
}

// rR1: every accepted run emits text that parses and whose In/Out calls balance.
func rR1(c *Ctx, plugins ...string) {
	// built-in positive example of the assertion rule (its expected count on the tree is zero)
	if f, err := parser.ParseFile(token.NewFileSet(), "selftest.go", "package p\nfunc f(x interface{}) int { v, ok := x.(int); _ = ok; switch x.(type) {}; return v + x.(int) }", 0); err != nil || panickingAssertion(f) == nil {
		c.Rep.fail(Finding{Rule: "R1", Key: "R1|single-value-assertion|selftest", Kind: "undecided", Msg: "the single-value assertion rule does not fire on its built-in positive example"})
	}
	for _, p := range plugins {
		// a run whose text and type fingerprint repeat an earlier one is not analysed again, but what it established about the
		// names it emits may differ (an unexported field name renders like an exported one): the accessibility rule is
		// evaluated on the earlier residual with the decisions of every such run
		byText := map[string]*Resid{}
		for _, rs := range c.acceptedResids(p) {
			if rs.Err == nil {
				byText[rs.Run.Text] = rs
			}
		}
		reported := false
		for _, r := range c.R.Runs(p) {
			if r.Outcome != "accepted" || !r.Dup || reported {
				continue
			}
			rs := byText[r.Text]
			if rs == nil {
				continue
			}
			if bad, why := privateSelectorIssue(rs, r.Decisions); bad != nil {
				reported = true
				c.Rep.fail(Finding{Rule: "R1", Key: fmt.Sprintf("R1|%s|private-field-selector", p), Plugin: p, Script: r.Script,
					Msg:    fmt.Sprintf("plugin %s: %s — for a struct of another package with unexported fields goderive exits 0 and derived.gen.go does not compile (cannot refer to unexported field)", p, why),
					Detail: "abstract path: " + r.describe() + "\nresidual:\n" + rs.Run.excerpt(40)})
			}
		}
		for _, rs := range c.acceptedResids(p) {
			if rs.Err != nil {
				line := 0
				if el, ok := rs.Err.(interface{ Error() string }); ok {
					fmt.Sscanf(strings.TrimPrefix(el.Error(), p+".residual.go:"), "%d", &line)
				}
				fn := "?"
				where := []string{}
				if line > 0 && line-1 < len(rs.Run.LinePos) {
					fn = c.R.repo.funcAt(rs.Run.LinePos[line-1])
					where = append(where, rs.Run.where(c.Repo, line))
				}
				c.Rep.fail(Finding{Rule: "R1", Key: fmt.Sprintf("R1|%s|%s|%s", p, fn, normErr(rs.Err)), Where: where, Plugin: p, Script: rs.Run.Script,
					Msg:    fmt.Sprintf("plugin %s accepts the call and emits text that does not parse as Go (%s): goderive would exit 0 with an unusable derived.gen.go", p, normErr(rs.Err)),
					Detail: "abstract path: " + rs.Run.describe() + "\nresidual:\n" + rs.Run.excerpt(60)})
				continue
			}
			if rs.Run.Msg != "" {
				c.Rep.fail(Finding{Rule: "R1", Key: fmt.Sprintf("R1|%s|indent", p), Plugin: p, Script: rs.Run.Script,
					Msg: fmt.Sprintf("plugin %s: %s (In/Out calls do not balance on an accepted path)", p, rs.Run.Msg), Detail: "abstract path: " + rs.Run.describe()})
				continue
			}
			// a blank field cannot be selected: `x._` is a compile error ("cannot refer to blank field")
			blank := false
			ast.Inspect(rs.File, func(n ast.Node) bool {
				if sel, ok := n.(*ast.SelectorExpr); ok && sel.Sel.Name == "_" && !blank {
					blank = true
					line := rs.Fset.Position(sel.Pos()).Line
					fn := "?"
					where := []string{}
					if line > 0 && line-1 < len(rs.Run.LinePos) {
						fn = c.R.repo.funcAt(rs.Run.LinePos[line-1])
						where = append(where, rs.Run.where(c.Repo, line))
					}
					c.Rep.fail(Finding{Rule: "R1", Key: fmt.Sprintf("R1|%s|%s|blank-field", p, fn), Where: where, Plugin: p, Script: rs.Run.Script,
						Msg:    fmt.Sprintf("plugin %s emits %s for a struct whose field is blank (`_ T` padding or the `_ [0]func()` idiom): a blank field cannot be referred to, so goderive exits 0 and derived.gen.go does not compile", p, exprStr(sel)),
						Detail: "abstract path: " + rs.Run.describe() + "\nresidual:\n" + rs.Run.excerpt(40)})
				}
				return true
			})
			if blank {
				continue
			}
			// a single-value type assertion panics when the operand is the nil interface (or holds another dynamic type): emitted
			// code is total over the values of its argument types, so only the comma-ok form and the type switch may assert
			if bad := panickingAssertion(rs.File); bad != nil {
				line := rs.Fset.Position(bad.Pos()).Line
				fn := "?"
				where := []string{}
				if line > 0 && line-1 < len(rs.Run.LinePos) {
					fn = c.R.repo.funcAt(rs.Run.LinePos[line-1])
					where = append(where, rs.Run.where(c.Repo, line))
				}
				c.Rep.fail(Finding{Rule: "R1", Key: fmt.Sprintf("R1|%s|%s|single-value-assertion", p, fn), Where: where, Plugin: p, Script: rs.Run.Script,
					Msg:    fmt.Sprintf("plugin %s emits the single-value type assertion %s: it panics for a nil interface value (an item, element or result of interface type that is nil) — the generated function then neither returns nor delivers what it was given", p, exprStr(bad)),
					Detail: "abstract path: " + rs.Run.describe() + "\nresidual:\n" + rs.Run.excerpt(40)})
				continue
			}
			if bad, why := selectorProvenanceIssue(rs); bad != nil {
				line := rs.Fset.Position(bad.Pos()).Line
				fn := "?"
				where := []string{}
				if line > 0 && line-1 < len(rs.Run.LinePos) {
					fn = c.R.repo.funcAt(rs.Run.LinePos[line-1])
					where = append(where, rs.Run.where(c.Repo, line))
				}
				c.Rep.fail(Finding{Rule: "R1", Key: fmt.Sprintf("R1|%s|%s|selector-provenance", p, fn), Where: where, Plugin: p, Script: rs.Run.Script,
					Msg:    fmt.Sprintf("plugin %s: %s — the emitted selector relies on field promotion through an embedded struct: when the outer struct declares a field of the same name the selector means that field, the embedded struct's field is never reached (not compared, hashed, copied or printed), and with two embedded structs sharing the name the text does not compile", p, why),
					Detail: "abstract path: " + rs.Run.describe() + "\nresidual:\n" + rs.Run.excerpt(40)})
				continue
			}
			if bad, why := privateSelectorIssue(rs, rs.Run.Decisions); bad != nil {
				line := rs.Fset.Position(bad.Pos()).Line
				fn := "?"
				where := []string{}
				if line > 0 && line-1 < len(rs.Run.LinePos) {
					fn = c.R.repo.funcAt(rs.Run.LinePos[line-1])
					where = append(where, rs.Run.where(c.Repo, line))
				}
				c.Rep.fail(Finding{Rule: "R1", Key: fmt.Sprintf("R1|%s|%s|private-field-selector", p, fn), Where: where, Plugin: p, Script: rs.Run.Script,
					Msg:    fmt.Sprintf("plugin %s: %s — for a struct of another package with unexported fields goderive exits 0 and derived.gen.go does not compile (cannot refer to unexported field)", p, why),
					Detail: "abstract path: " + rs.Run.describe() + "\nresidual:\n" + rs.Run.excerpt(40)})
				continue
			}
			// TypeString is not pure: through the qualifier it registers the import of the type's package in the generated file.
			// A type rendered on an accepted path whose text is never emitted leaves an import that nothing uses ("imported and
			// not used": goderive exits 0, derived.gen.go does not compile)
			unusedType := ""
			var unusedIDs []string
			stripOrg := func(o string) string {
				return strings.TrimPrefix(strings.TrimPrefix(strings.TrimPrefix(o, "mangled:"), "bypass:"), "mangled:")
			}
			emitted := map[string]bool{} // origins of the type holes that occur in the text (a re-formatted copy counts for its original)
			for id, h := range rs.Run.Holes {
				if h.Kind == "TYPE" && strings.Contains(rs.Run.Text, id) {
					emitted[stripOrg(h.Origin)] = true
				}
			}
			for id, h := range rs.Run.Holes {
				if h.Kind == "TYPE" && !emitted[stripOrg(h.Origin)] {
					if o, ok := h.Val.(*VOpaque); ok && (o.built || (strings.HasPrefix(o.Kind, "*types.") && o.Kind != "*types.Named" && o.Kind != "*types.Alias")) {
						// a composite the abstract input space spells out (its text is emitted through its components), or a type
						// literal / predeclared type, whose own text names no package
						continue
					}
					// likewise a type whose components (fields, elements) occur in the text: it was spelled out there
					spelled := false
					for _, g := range rs.Run.Holes {
						if (g.Kind == "TYPE" || g.Kind == "NAME") && strings.Contains(rs.Run.Text, g.ID) && strings.HasPrefix(stripOrg(g.Origin), stripOrg(h.Origin)) {
							spelled = true
							break
						}
					}
					if spelled {
						continue
					}
					unusedIDs = append(unusedIDs, id)
				}
			}
			sort.Strings(unusedIDs)
			if len(unusedIDs) > 0 {
				unusedType = unusedIDs[0]
				h := rs.Run.Holes[unusedType]
				c.Rep.fail(Finding{Rule: "R1", Key: fmt.Sprintf("R1|%s|type-rendered-not-emitted", p), Plugin: p, Script: rs.Run.Script,
					Msg:    fmt.Sprintf("plugin %s renders the type %s with TypeString on an accepted path but never emits the text: rendering registers the import of the type's package, so for a type of another package derived.gen.go gets an import that nothing uses and does not compile", p, shortSym(h.Origin)),
					Detail: "abstract path: " + rs.Run.describe() + "\nresidual:\n" + rs.Run.excerpt(40)})
				continue
			}
			// the text of a type must come from TypeString (the qualifier of the generated file, which also registers the import)
			rawType := false
			for id, h := range rs.Run.Holes {
				if h.Kind != "RAWTYPE" || rawType {
					continue
				}
				for li, l := range strings.Split(rs.Run.Text, "\n") {
					if !strings.Contains(l, id) {
						continue
					}
					rawType = true
					fn := "?"
					where := []string{}
					if li < len(rs.Run.LinePos) {
						fn = c.R.repo.funcAt(rs.Run.LinePos[li])
						where = append(where, rs.Run.where(c.Repo, li+1))
					}
					c.Rep.fail(Finding{Rule: "R1", Key: fmt.Sprintf("R1|%s|%s|raw-type-text", p, fn), Where: where, Plugin: p, Script: rs.Run.Script,
						Msg:    fmt.Sprintf("plugin %s prints a go/types value (%s) with its own String method into the emitted code instead of through TypeString: the text is qualified with full import paths (`encoding/json.Number`, for a type of the package being generated `..Point`) and no import is registered, so for every type that is not predeclared goderive exits 0 and derived.gen.go does not parse or does not compile", p, h.Origin),
						Detail: "abstract path: " + rs.Run.describe() + "\nresidual:\n" + rs.Run.excerpt(40)})
					break
				}
			}
			if rawType {
				continue
			}
			// reflect+unsafe access to an unexported field of an imported struct: the cast type must be that field's own type
			badCast := false
			for _, m := range unsafeCastRe.FindAllStringSubmatch(rs.Run.Text, -1) {
				th, nh := rs.Run.Holes[m[1]], rs.Run.Holes[m[2]]
				if th == nil || nh == nil {
					continue
				}
				want := strings.TrimSuffix(nh.Origin, ".Name()") + ".Type()"
				// the same type with another struct tag (its text went through a format) has the same memory layout
				got := strings.TrimPrefix(strings.TrimPrefix(th.Origin, "mangled:"), "bypass:")
				// the underlying type of a field type that this path established not to be exported by its package (its name cannot
				// be written outside that package; the underlying type has the same memory layout)
				if got == want+".Underlying()" {
					if d, ok := rs.Run.decision("B:" + want + ".Obj().Exported()"); ok && d.Choice == 1 {
						got = want
					}
				}
				if got != want && !badCast {
					badCast = true
					c.Rep.fail(Finding{Rule: "R1", Key: fmt.Sprintf("R1|%s|unsafe-cast-type", p), Plugin: p, Script: rs.Run.Script,
						Msg: fmt.Sprintf("plugin %s reads the unexported field %s (%s) of an imported struct through *(*%s)(unsafe.Pointer(…)) where %s is the type of %s, not of that field: the field's memory is reinterpreted as another type (wrong comparisons/copies, or a compile error when the operator does not fit)",
							p, m[2], shortSym(nh.Origin), m[1], m[1], shortSym(th.Origin)),
						Detail: "abstract path: " + rs.Run.describe() + "\nresidual:\n" + rs.Run.excerpt(40)})
				}
			}
			if badCast {
				continue
			}
			c.Rep.pass("R1")
		}
	}
}

var unsafeCastRe = regexp.MustCompile(`\(\*(__T\d+)\)\(__P\d+\.Pointer\(\w+\.FieldByName\("(__N\d+)"\)\.UnsafeAddr\(\)\)\)`)

var universe = func() map[string]bool {
	m := map[string]bool{}
	for _, n := range types.Universe.Names() {
		m[n] = true
	}
	return m
}()

// freeIdents reports identifiers used in fn that are neither declared in it (before use), holes, nor universe names.
func freeIdents(rs *Resid, fn *ast.FuncDecl, fileDecls map[string]bool) []*ast.Ident {
	declPos := map[string][]token.Pos{}
	declare := func(id *ast.Ident) {
		if id != nil && id.Name != "_" {
			declPos[id.Name] = append(declPos[id.Name], id.Pos())
		}
	}
	fields := func(fl *ast.FieldList) {
		if fl == nil {
			return
		}
		for _, f := range fl.List {
			for _, n := range f.Names {
				declPos[n.Name] = append(declPos[n.Name], token.Pos(1)) // parameters are in scope everywhere in the body
			}
		}
	}
	skip := map[*ast.Ident]bool{}
	ast.Inspect(fn, func(n ast.Node) bool {
		switch x := n.(type) {
		case *ast.FuncDecl:
			fields(x.Recv)
			fields(x.Type.Params)
			fields(x.Type.Results)
			skip[x.Name] = true
		case *ast.FuncLit:
			// parameters of literals: visible inside; approximated as visible from their position on
			for _, fl := range []*ast.FieldList{x.Type.Params, x.Type.Results} {
				if fl == nil {
					continue
				}
				for _, f := range fl.List {
					for _, nm := range f.Names {
						declare(nm)
					}
				}
			}
		case *ast.FuncType:
			// names inside function types (parameter names of function-typed parameters) are not uses
			for _, fl := range []*ast.FieldList{x.Params, x.Results} {
				if fl == nil {
					continue
				}
				for _, f := range fl.List {
					for _, nm := range f.Names {
						skip[nm] = true
					}
				}
			}
		case *ast.AssignStmt:
			if x.Tok == token.DEFINE {
				for _, l := range x.Lhs {
					if id, ok := l.(*ast.Ident); ok {
						declare(id)
					}
				}
			}
		case *ast.RangeStmt:
			if x.Tok == token.DEFINE {
				if id, ok := x.Key.(*ast.Ident); ok {
					declare(id)
				}
				if id, ok := x.Value.(*ast.Ident); ok {
					declare(id)
				}
			}
		case *ast.ValueSpec:
			for _, nm := range x.Names {
				declare(nm)
			}
		case *ast.TypeSpec:
			declare(x.Name)
		case *ast.LabeledStmt:
			skip[x.Label] = true
		case *ast.BranchStmt:
			if x.Label != nil {
				skip[x.Label] = true
			}
		case *ast.SelectorExpr:
			skip[x.Sel] = true
		case *ast.KeyValueExpr:
			if id, ok := x.Key.(*ast.Ident); ok {
				skip[id] = true // struct literal field name (or map key variable: rare in templates)
			}
		case *ast.Field:
			// struct type fields
			for _, nm := range x.Names {
				skip[nm] = true
			}
		case *ast.CommClause:
			if as, ok := x.Comm.(*ast.AssignStmt); ok && as.Tok == token.DEFINE {
				for _, l := range as.Lhs {
					if id, ok := l.(*ast.Ident); ok {
						declare(id)
					}
				}
			}
		case *ast.TypeSwitchStmt:
			if as, ok := x.Assign.(*ast.AssignStmt); ok {
				for _, l := range as.Lhs {
					if id, ok := l.(*ast.Ident); ok {
						declare(id)
					}
				}
			}
		}
		return true
	})
	var out []*ast.Ident
	ast.Inspect(fn, func(n ast.Node) bool {
		id, ok := n.(*ast.Ident)
		if !ok || skip[id] || id.Name == "_" {
			return true
		}
		if rs.hole(id.Name) != nil || universe[id.Name] || fileDecls[id.Name] || strings.HasPrefix(id.Name, "__RECURSE_") {
			return true
		}
		okDecl := false
		for _, p := range declPos[id.Name] {
			if p <= id.Pos() {
				okDecl = true
			}
		}
		if !okDecl {
			out = append(out, id)
		}
		return true
	})
	return out
}

// rR2: scope closure of residual functions; literal package qualifiers are forbidden (they must be import holes).
func rR2(c *Ctx, plugins ...string) { rR2mode(c, true, true, plugins...) }

// rR2prefix: only the clauses C12 needs (names are holes; no literal derive-prefixed identifier).
func rR2prefix(c *Ctx, plugins ...string) { rR2mode(c, false, true, plugins...) }

func rR2mode(c *Ctx, scope, prefix bool, plugins ...string) {
	prefixes := []string{}
	for _, g := range pluginRegistry(c.Repo, newReport("", "")) {
		prefixes = append(prefixes, g.prefix)
	}
	for _, p := range plugins {
		for _, rs := range c.acceptedResids(p) {
			if rs.Err != nil {
				continue // R1's business
			}
			fileDecls := map[string]bool{}
			for _, d := range rs.File.Decls {
				switch x := d.(type) {
				case *ast.FuncDecl:
					fileDecls[x.Name.Name] = true
				case *ast.GenDecl:
					for _, sp := range x.Specs {
						switch s := sp.(type) {
						case *ast.ValueSpec:
							for _, nm := range s.Names {
								fileDecls[nm.Name] = true
							}
						case *ast.TypeSpec:
							fileDecls[s.Name.Name] = true
						}
					}
				}
			}
			bad := false
			for _, fn := range rs.Funcs {
				seen := map[string]bool{}
				for _, id := range freeIdents(rs, fn, fileDecls) {
					if !scope {
						break
					}
					if seen[id.Name] {
						continue
					}
					seen[id.Name] = true
					bad = true
					gf := c.R.repo.funcAt(rs.Run.LinePos[rs.line(id.Pos())-1])
					c.Rep.fail(Finding{Rule: "R2", Key: fmt.Sprintf("R2|%s|%s|undeclared %s", p, gf, id.Name), Where: []string{rs.where(c.Repo, id)}, Plugin: p, Script: rs.Run.Script,
						Msg:    fmt.Sprintf("plugin %s emits the identifier %q, which is neither declared in the emitted function, nor obtained from GetFuncName/TypeString/an import closure, nor predeclared: the generated file does not compile (or silently binds to a user identifier)", p, id.Name),
						Detail: "abstract path: " + rs.Run.describe() + "\nresidual:\n" + rs.Run.excerpt(60)})
				}
				// the emitted function's own name must be a hole (name obtained from the types map)
				if prefix && rs.hole(fn.Name.Name) == nil {
					bad = true
					c.Rep.fail(Finding{Rule: "R2", Key: fmt.Sprintf("R2|%s|literal-func-name %s", p, fn.Name.Name), Where: []string{rs.where(c.Repo, fn.Name)}, Plugin: p, Script: rs.Run.Script,
						Msg: fmt.Sprintf("plugin %s emits a function with the literal name %q instead of the name registered in its types map", p, fn.Name.Name)})
				}
			}
			// no literal identifier starting with a registered default prefix (C12 equivariance)
			ast.Inspect(rs.File, func(n ast.Node) bool {
				id, ok := n.(*ast.Ident)
				if !ok {
					return true
				}
				for _, pre := range prefixes {
					if prefix && strings.HasPrefix(id.Name, pre) {
						bad = true
						c.Rep.fail(Finding{Rule: "R2", Key: fmt.Sprintf("R2|%s|literal-derive-ident %s", p, id.Name), Where: []string{rs.where(c.Repo, id)}, Plugin: p, Script: rs.Run.Script,
							Msg: fmt.Sprintf("plugin %s emits the literal identifier %q: helper names must come from GetFuncName so that they follow -prefix/-pluginprefix and are put on the work list", p, id.Name)})
						break
					}
				}
				return true
			})
			if !bad {
				c.Rep.pass("R2")
			}
		}
	}
}

// rR3: imports requested through an Import closure are used in the emitted text of the same run, and vice versa.
func rR3(c *Ctx, plugins ...string) {
	for _, p := range plugins {
		for _, r := range c.R.Runs(p) {
			if r.Outcome != "accepted" {
				continue
			}
			var paths []string
			for path := range r.Imports {
				paths = append(paths, path)
			}
			sort.Strings(paths)
			ok := true
			for _, path := range paths {
				if !r.ImportUse[path] {
					ok = false
					c.Rep.fail(Finding{Rule: "R3", Key: fmt.Sprintf("R3|%s|unused-import %s", p, path), Plugin: p, Script: r.Script,
						Msg:    fmt.Sprintf("plugin %s calls the import closure for %q but the alias does not reach any emitted line on this path: derived.gen.go would import a package it does not use (compile error)", p, path),
						Detail: "abstract path: " + r.describe()})
				}
			}
			if ok {
				c.Rep.pass("R3")
			}
		}
	}
}

// rGenerating: every accepted Generate path marks exactly the registered types as generated (else the work list never drains
// or the function is emitted twice).
func rGenerating(c *Ctx, plugins ...string) {
	for _, p := range plugins {
		for _, r := range c.R.Runs(p) {
			if r.Outcome != "accepted" {
				continue
			}
			ok := false
			for _, g := range r.Generating {
				if len(g) == len(r.Registered) {
					same := true
					for i := range g {
						// the registered value itself: the lookup behind Generating matches by assignability, and only for the very
						// types an entry was registered with is that entry certain to be the one found (identical types are preferred);
						// for the Underlying() of a defined type every other defined type with that underlying type matches as well
						if g[i] != r.Registered[i] {
							same = false
						}
					}
					if same {
						ok = true
					}
				}
			}
			if ok {
				c.Rep.pass("R-generating")
			} else {
				c.Rep.fail(Finding{Rule: "R-generating", Key: fmt.Sprintf("R-generating|%s|nargs=%d", p, r.NArgs), Plugin: p, Script: r.Script,
					Msg:    fmt.Sprintf("plugin %s: Generate returns success without calling Generating(...) for the very types it was asked for (the underlying type of a defined type is not the same entry: with two defined types of one underlying type only one of them is ever marked): pkg.Generate's work loop does not terminate, or generates one function twice and the other never", p),
					Detail: "abstract path: " + r.describe()})
			}
		}
	}
}

// rUnsupportedKinds (C09): in the structural plugins a value whose dynamic kind is none of the kinds a type switch lists
// (chan, func, interface, tuple, …) must end in a generator error (or be rejected by Add) — never in an accepted run,
// which would be an exit-0 with a half-emitted or wrong function.
func rUnsupportedKinds(c *Ctx, plugins ...string) {
	for _, p := range plugins {
		n := 0
		for _, r := range c.R.Runs(p) {
			other := ""
			for _, d := range r.Decisions {
				if i := strings.LastIndex(d.Fn, "."); i >= 0 && leafPredNames[d.Fn[i+1:]] {
					continue // the default arm of a call-free predicate (nullable, isOrdered) answers false, it does not accept anything
				}
				if strings.HasPrefix(d.Sym, "K:") && d.Choice == d.N-1 && strings.Contains(d.Sym, "Underlying()") {
					// the switch is over the structure of a value's own type (<type>.Underlying()), not over something a
					// predicate computed from it (the parameter type of a method found on it, ...)
					if parts := strings.SplitN(d.Sym, ":", 3); len(parts) == 3 && !strings.HasSuffix(parts[1], ".Underlying()") {
						continue
					}
					other = d.Sym
				}
			}
			if other == "" {
				continue
			}
			n++
			if r.Outcome == "accepted" {
				c.Rep.fail(Finding{Rule: "R-unsupported", Key: fmt.Sprintf("R-unsupported|%s|%s", p, shortSym(strings.SplitN(other, ":", 3)[2])), Plugin: p, Script: r.Script,
					Msg:    fmt.Sprintf("plugin %s accepts a value whose kind is none of %s (e.g. chan, func, interface): it must be reported as unsupported, not silently skipped or half-emitted", p, strings.SplitN(other, ":", 3)[2]),
					Detail: "abstract path: " + r.describe() + "\nresidual:\n" + r.excerpt(40)})
			} else {
				c.Rep.pass("R-unsupported")
			}
		}
		c.Rep.analysed("unsupported_kind_runs:"+p, n)
	}
}

// helperArity: the number of arguments a residual passes to a helper obtained from GetFuncName matches the documented
// shape of that plugin's function for the number of types it was requested with (a curried equal/compare is requested with
// one type and called with one argument; the binary form with two and two; deepcopy with one type and (dst, src); …).
var helperCallArgs = map[string]map[int]int{
	"equal": {1: 1, 2: 2}, "compare": {1: 1, 2: 2}, "hash": {1: 1}, "deepcopy": {1: 2}, "clone": {1: 1}, "keys": {1: 1}, "sort": {1: 1},
	"set": {1: 1}, "contains": {2: 2}, "min": {2: 2}, "max": {2: 2}, "gostring": {1: 1}, "unique": {1: 1},
}

func rHelperArity(c *Ctx, plugins ...string) {
	for _, p := range plugins {
		for _, rs := range c.acceptedResids(p) {
			if rs.Err != nil {
				continue
			}
			ok := true
			self := map[string]bool{}
			for _, fd := range rs.Funcs {
				self[fd.Name.Name] = true
			}
			ast.Inspect(rs.File, func(n ast.Node) bool {
				call, isCall := n.(*ast.CallExpr)
				if !isCall {
					return true
				}
				id, isId := call.Fun.(*ast.Ident)
				if !isId {
					return true
				}
				h := rs.hole(id.Name)
				if h == nil || h.Kind != "FUNC" {
					return true
				}
				who := funcHoleWho(rs, id)
				want, known := helperCallArgs[who][len(h.Args)]
				if !known {
					return true
				}
				if len(call.Args) != want {
					ok = false
					gf := c.R.repo.funcAt(rs.Run.LinePos[rs.line(call.Pos())-1])
					c.Rep.fail(Finding{Rule: "R-helper", Key: fmt.Sprintf("R-helper|%s|%s|%s requested with %d types called with %d args", p, gf, who, len(h.Args), len(call.Args)), Where: []string{rs.where(c.Repo, call)}, Plugin: p, Script: rs.Run.Script,
						Msg:    fmt.Sprintf("plugin %s requests a %s function for %d type(s) and calls it with %d argument(s); that form of %s takes %d: the helper that is generated does not accept the call", p, who, len(h.Args), len(call.Args), who, want),
						Detail: "residual:\n" + rs.Run.excerpt(40)})
				}
				return true
			})
			if ok {
				c.Rep.pass("R-helper")
			}
		}
	}
}

// rConstIndex: a constant index into a slice-typed parameter (list[0], listOfLists[0]) must be dominated by a test that
// the slice is non-empty; otherwise the generated function panics on an empty (non-nil) argument.
func rConstIndex(c *Ctx, plugins ...string) {
	for _, p := range plugins {
		for _, rs := range c.acceptedResids(p) {
			if rs.Err != nil {
				continue
			}
			for _, fn := range rs.Funcs {
				slices := map[string]bool{}
				for _, f := range fn.Type.Params.List {
					if at, ok := f.Type.(*ast.ArrayType); ok && at.Len == nil {
						for _, n := range f.Names {
							slices[n.Name] = true
						}
					}
					if _, ok := f.Type.(*ast.Ellipsis); ok {
						for _, n := range f.Names {
							slices[n.Name] = true
						}
					}
				}
				if len(slices) == 0 {
					continue
				}
				ok := true
				w := &guardWalker{}
				w.onExpr = func(e ast.Expr, f Facts, stack []ast.Node) {
					ix, isIx := e.(*ast.IndexExpr)
					if !isIx {
						return
					}
					id, isId := ix.X.(*ast.Ident)
					bl, isLit := ix.Index.(*ast.BasicLit)
					if !isId || !isLit || !slices[id.Name] {
						return
					}
					if f["nonempty:"+id.Name] {
						return
					}
					ok = false
					gf := c.R.repo.funcAt(rs.Run.LinePos[rs.line(ix.Pos())-1])
					c.Rep.fail(Finding{Rule: "R7", Key: fmt.Sprintf("R7|%s|%s|const-index-unguarded", p, gf), Where: []string{rs.where(c.Repo, ix)}, Plugin: p, Script: rs.Run.Script,
						Msg:    fmt.Sprintf("plugin %s indexes the slice argument %s[%s] without a dominating test that it is non-empty: an empty (non-nil) argument makes the generated function panic", p, id.Name, bl.Value),
						Detail: "residual:\n" + rs.Run.excerpt(40)})
				}
				w.block(fn.Body.List, Facts{})
				if ok {
					c.Rep.pass("R7")
				}
			}
		}
	}
}

// rFormatData — Printer.P interprets its first argument as a format. The text of a type (TypeString) may contain a percent sign
// (a struct tag of an unnamed struct type: `format:"%d"`), so type text must be an operand of %s, never part of the format:
// otherwise the printed type differs from the user's type (`%!d(MISSING)`) and the generated code does not compile.
func rFormatData(c *Ctx, plugins ...string) {
	for _, p := range plugins {
		seen := map[token.Pos]bool{}
		n := 0
		for _, r := range c.R.Runs(p) {
			if r.Outcome != "accepted" {
				continue
			}
			n++
			for _, pos := range r.FormatData {
				if seen[pos] {
					continue
				}
				seen[pos] = true
				fn := c.R.repo.funcAt(pos)
				c.Rep.fail(Finding{Rule: "R-format", Key: "R-format|" + p + "|" + fn + "|type-text-in-format", Where: []string{c.R.repo.pos(pos)}, Plugin: p, Script: r.Script,
					Msg:    p + ": the text of a type is concatenated into the format argument of Printer.P: a percent sign inside that text (a struct tag such as `format:\"%d\"` of an unnamed struct type) is interpreted as a verb, the emitted type is not the user's type and the package does not compile",
					Detail: "abstract path: " + r.describe()})
			}
		}
		if len(seen) == 0 && n > 0 {
			c.Rep.pass("R-format")
		}
	}
}

// rUnusedTypeString — TypesMap.TypeString registers an import for the package of every named type it spells. A type string that
// is computed on an accepted path but never reaches the emitted text leaves that import without a use: for a type of a package
// nothing else in derived.gen.go mentions, the file does not compile ("imported and not used").
func rUnusedTypeString(c *Ctx, plugins ...string) {
	for _, p := range plugins {
		seen := map[token.Pos]bool{}
		n := 0
		for _, r := range c.R.Runs(p) {
			if r.Outcome != "accepted" {
				continue
			}
			n++
			for _, pos := range r.UnusedTypeStrings {
				if seen[pos] {
					continue
				}
				seen[pos] = true
				fn := c.R.repo.funcAt(pos)
				c.Rep.fail(Finding{Rule: "R3", Key: "R3|" + p + "|" + fn + "|type-string-unused", Where: []string{c.R.repo.pos(pos)}, Plugin: p, Script: r.Script,
					Msg:    p + ": TypeString is called for a type whose text does not reach the emitted code on this path: the call imports the type's package as a side effect, so for a type from a package that derived.gen.go does not otherwise mention the file has an unused import and does not compile",
					Detail: "abstract path: " + r.describe() + "\nresidual:\n" + r.excerpt(30)})
			}
		}
		if len(seen) == 0 && n > 0 {
			c.Rep.pass("R3")
		}
	}
}

// rangeOfIndexLoop presents `for i := K; i < len(X); i++ { … X[i] … }` as the range loop it abbreviates,
// `for i, elem := range X[K:] { … elem … }`, so that the loop rules, which are stated over range loops, apply to both spellings.
// Returned only when that is exact: i is not assigned in the body and (for K > 0) is used only to index X. The new loop shares
// the positions of the old one; the body is rebuilt with X[i] replaced, the original tree is left alone.
func rangeOfIndexLoop(fs *ast.ForStmt) *ast.RangeStmt {
	if fs.Init == nil || fs.Cond == nil || fs.Post == nil {
		return nil
	}
	init, ok1 := fs.Init.(*ast.AssignStmt)
	cond, ok2 := unparen(fs.Cond).(*ast.BinaryExpr)
	post, ok3 := fs.Post.(*ast.IncDecStmt)
	if !ok1 || !ok2 || !ok3 || init.Tok != token.DEFINE || len(init.Lhs) != 1 || len(init.Rhs) != 1 || cond.Op != token.LSS || post.Tok != token.INC {
		return nil
	}
	iv, isI := init.Lhs[0].(*ast.Ident)
	kl, isK := init.Rhs[0].(*ast.BasicLit)
	lc, isL := unparen(cond.Y).(*ast.CallExpr)
	if !isI || !isK || kl.Kind != token.INT || !isL || canon(lc.Fun) != "len" || len(lc.Args) != 1 || canon(cond.X) != iv.Name || canon(post.X) != iv.Name {
		return nil
	}
	x := lc.Args[0]
	xs := canon(x)
	elemName := "elem_" + iv.Name
	bad := false
	otherUses := 0
	var rewrite func(n ast.Node) ast.Node
	rewriteExpr := func(e ast.Expr) ast.Expr {
		if e == nil {
			return nil
		}
		return rewrite(e).(ast.Expr)
	}
	rewrite = func(n ast.Node) ast.Node {
		switch y := n.(type) {
		case *ast.IndexExpr:
			if canon(y.X) == xs && canon(y.Index) == iv.Name {
				return &ast.Ident{NamePos: y.Pos(), Name: elemName}
			}
		case *ast.Ident:
			if y.Name == iv.Name {
				otherUses++
			}
		case *ast.AssignStmt:
			for _, l := range y.Lhs {
				if canon(l) == iv.Name || canon(l) == xs || (func() bool { ix, ok := l.(*ast.IndexExpr); return ok && canon(ix.X) == xs })() {
					bad = true
				}
			}
		case *ast.IncDecStmt:
			if canon(y.X) == iv.Name {
				bad = true
			}
		}
		return n
	}
	// a shallow structural copy with replaced index expressions (astutil.Apply without the dependency)
	var copyStmt func(s ast.Stmt) ast.Stmt
	var copyExpr func(e ast.Expr) ast.Expr
	copyExprs := func(es []ast.Expr) []ast.Expr {
		out := make([]ast.Expr, len(es))
		for i, e := range es {
			out[i] = copyExpr(e)
		}
		return out
	}
	copyExpr = func(e ast.Expr) ast.Expr {
		if e == nil {
			return nil
		}
		e = rewriteExpr(e)
		switch y := e.(type) {
		case *ast.ParenExpr:
			return &ast.ParenExpr{Lparen: y.Lparen, X: copyExpr(y.X), Rparen: y.Rparen}
		case *ast.BinaryExpr:
			return &ast.BinaryExpr{X: copyExpr(y.X), OpPos: y.OpPos, Op: y.Op, Y: copyExpr(y.Y)}
		case *ast.UnaryExpr:
			return &ast.UnaryExpr{OpPos: y.OpPos, Op: y.Op, X: copyExpr(y.X)}
		case *ast.StarExpr:
			return &ast.StarExpr{Star: y.Star, X: copyExpr(y.X)}
		case *ast.CallExpr:
			return &ast.CallExpr{Fun: copyExpr(y.Fun), Lparen: y.Lparen, Args: copyExprs(y.Args), Ellipsis: y.Ellipsis, Rparen: y.Rparen}
		case *ast.SelectorExpr:
			return &ast.SelectorExpr{X: copyExpr(y.X), Sel: y.Sel}
		case *ast.IndexExpr:
			return &ast.IndexExpr{X: copyExpr(y.X), Lbrack: y.Lbrack, Index: copyExpr(y.Index), Rbrack: y.Rbrack}
		case *ast.SliceExpr:
			return &ast.SliceExpr{X: copyExpr(y.X), Lbrack: y.Lbrack, Low: copyExpr(y.Low), High: copyExpr(y.High), Max: copyExpr(y.Max), Slice3: y.Slice3, Rbrack: y.Rbrack}
		case *ast.Ident, *ast.BasicLit:
			return e
		}
		bad = true // a form the copy does not know (function literal, composite literal, …)
		return e
	}
	copyBlock := func(b *ast.BlockStmt) *ast.BlockStmt {
		if b == nil {
			return nil
		}
		nb := &ast.BlockStmt{Lbrace: b.Lbrace, Rbrace: b.Rbrace}
		for _, s := range b.List {
			nb.List = append(nb.List, copyStmt(s))
		}
		return nb
	}
	copyStmt = func(s ast.Stmt) ast.Stmt {
		if s == nil {
			return nil
		}
		rewrite(s)
		switch y := s.(type) {
		case *ast.ExprStmt:
			return &ast.ExprStmt{X: copyExpr(y.X)}
		case *ast.AssignStmt:
			return &ast.AssignStmt{Lhs: copyExprs(y.Lhs), TokPos: y.TokPos, Tok: y.Tok, Rhs: copyExprs(y.Rhs)}
		case *ast.IncDecStmt:
			return &ast.IncDecStmt{X: copyExpr(y.X), TokPos: y.TokPos, Tok: y.Tok}
		case *ast.ReturnStmt:
			return &ast.ReturnStmt{Return: y.Return, Results: copyExprs(y.Results)}
		case *ast.BranchStmt:
			return y
		case *ast.BlockStmt:
			return copyBlock(y)
		case *ast.IfStmt:
			var els ast.Stmt
			if y.Else != nil {
				els = copyStmt(y.Else)
			}
			return &ast.IfStmt{If: y.If, Init: copyStmt(y.Init), Cond: copyExpr(y.Cond), Body: copyBlock(y.Body), Else: els}
		}
		bad = true
		return s
	}
	body := copyBlock(fs.Body)
	if bad {
		return nil
	}
	var rx ast.Expr = x
	if kl.Value != "0" {
		if otherUses > 0 {
			return nil
		}
		rx = &ast.SliceExpr{X: x, Lbrack: x.End(), Low: kl, Rbrack: x.End()}
	}
	return &ast.RangeStmt{For: fs.For, Key: &ast.Ident{NamePos: iv.Pos(), Name: iv.Name}, Value: &ast.Ident{NamePos: iv.Pos(), Name: elemName}, TokPos: init.TokPos, Tok: token.DEFINE, X: rx, Body: body}
}

// panickingAssertion: the first type assertion of the file that is neither the right-hand side of a two-value assignment /
// declaration (v, ok := x.(T)) nor the guard of a type switch.
func panickingAssertion(f *ast.File) ast.Expr {
	safe := map[ast.Node]bool{}
	var bad ast.Expr
	ast.Inspect(f, func(n ast.Node) bool {
		if bad != nil {
			return false
		}
		switch x := n.(type) {
		case *ast.AssignStmt:
			if len(x.Lhs) == 2 && len(x.Rhs) == 1 {
				safe[ast.Unparen(x.Rhs[0])] = true
			}
		case *ast.ValueSpec:
			if len(x.Names) == 2 && len(x.Values) == 1 {
				safe[ast.Unparen(x.Values[0])] = true
			}
		case *ast.TypeAssertExpr:
			if x.Type != nil && !safe[x] {
				bad = x
				return false
			}
		}
		return true
	})
	return bad
}

// selectorProvenanceIssue — a field selected on a value must be a field of that value's own struct type. The emitted text names
// fields by the Name() of a *types.Var the generator took from some struct type S; selecting that name on a value of another
// struct type (the struct that embeds S, reached through Go's field promotion) resolves to the shallowest field of that name,
// which is a different field as soon as the outer struct declares one with the same name. Decided on what the residual lets the
// rule type: the function's parameters (their declared type holes) and chains of selections starting from them.
func selectorProvenanceIssue(rs *Resid) (ast.Expr, string) {
	norm := func(o string) string {
		o = strings.TrimPrefix(strings.TrimPrefix(strings.TrimPrefix(o, "mangled:"), "bypass:"), "mangled:")
		return tieRe.ReplaceAllString(strings.ReplaceAll(o, ".Underlying()", ""), "[*]")
	}
	fieldRe := regexp.MustCompile(`^(.*)\[(\d+|\*)\]\.Name\(\)$`)
	var bad ast.Expr
	why := ""
	for _, fn := range rs.Funcs {
		paramType := map[string]string{} // parameter name -> normalised origin of its type ("" unknown)
		var collect func(ft *ast.FuncType)
		collect = func(ft *ast.FuncType) {
			if ft == nil || ft.Params == nil {
				return
			}
			for _, f := range ft.Params.List {
				t := f.Type
				if st, ok := t.(*ast.StarExpr); ok {
					t = st.X
				}
				id, ok := t.(*ast.Ident)
				if !ok {
					continue
				}
				h := rs.hole(id.Name)
				if h == nil || h.Kind != "TYPE" {
					continue
				}
				org := norm(h.Origin)
				if _, isPtr := f.Type.(*ast.StarExpr); isPtr {
					org = "*" + org
				}
				for _, n := range f.Names {
					paramType[n.Name] = org
				}
			}
		}
		collect(fn.Type)
		shadowed := map[string]bool{}
		ast.Inspect(fn.Body, func(n ast.Node) bool {
			switch x := n.(type) {
			case *ast.FuncLit:
				collect(x.Type)
			case *ast.AssignStmt:
				if x.Tok == token.DEFINE {
					for _, l := range x.Lhs {
						if id, ok := l.(*ast.Ident); ok {
							shadowed[id.Name] = true
						}
					}
				}
			case *ast.RangeStmt:
				for _, l := range []ast.Expr{x.Key, x.Value} {
					if id, ok := l.(*ast.Ident); ok {
						shadowed[id.Name] = true
					}
				}
			}
			return true
		})
		// typeOf: normalised origin of the struct type a selection base has ("" unknown); pointers are auto-dereferenced
		var typeOf func(e ast.Expr) string
		typeOf = func(e ast.Expr) string {
			switch x := ast.Unparen(e).(type) {
			case *ast.Ident:
				if shadowed[x.Name] {
					return ""
				}
				return paramType[x.Name]
			case *ast.StarExpr:
				t := typeOf(x.X)
				if t == "" {
					return ""
				}
				if strings.HasPrefix(t, "*") {
					return t[1:]
				}
				return t + ".Elem()"
			case *ast.SelectorExpr:
				h := rs.hole(x.Sel.Name)
				if h == nil || h.Kind != "NAME" {
					return ""
				}
				if m := fieldRe.FindStringSubmatch(norm(h.Origin)); m != nil {
					return m[1] + "[" + m[2] + "].Type()"
				}
			}
			return ""
		}
		ast.Inspect(fn.Body, func(n ast.Node) bool {
			sel, ok := n.(*ast.SelectorExpr)
			if !ok || bad != nil {
				return bad == nil
			}
			h := rs.hole(sel.Sel.Name)
			if h == nil || h.Kind != "NAME" {
				return true
			}
			m := fieldRe.FindStringSubmatch(norm(h.Origin))
			if m == nil {
				return true
			}
			base := typeOf(sel.X)
			if base == "" {
				return true
			}
			owner := m[1]
			if strings.HasPrefix(base, "*") {
				base = base[1:] + "#" // the declared pointer is dereferenced automatically, and only once
			}
			if owner == strings.TrimSuffix(base, "#") || (!strings.HasSuffix(base, "#") && owner == base+".Elem()") {
				return true
			}
			base = strings.TrimSuffix(base, "#")
			bad = sel
			why = fmt.Sprintf("%s names a field of %s, but is selected on a value of type %s", exprStr(sel), shortSym(owner), shortSym(base))
			return false
		})
		if bad != nil {
			break
		}
	}
	return bad, why
}

// dependencyPlugins: the plugins that other plugins request functions from (deps["name"] in a New function).
func dependencyPlugins(r *Repo) map[string]bool {
	out := map[string]bool{}
	for _, name := range r.Plugins {
		p := r.ByName[name]
		if p == nil {
			continue
		}
		for _, f := range p.Syntax {
			ast.Inspect(f, func(n ast.Node) bool {
				ix, ok := n.(*ast.IndexExpr)
				if !ok {
					return true
				}
				if id, ok := ix.X.(*ast.Ident); ok && id.Name == "deps" {
					if bl, ok := ix.Index.(*ast.BasicLit); ok && bl.Kind == token.STRING {
						if s, err := strconv.Unquote(bl.Value); err == nil && s != name {
							out[s] = true
						}
					}
				}
				return true
			})
		}
	}
	return out
}

// rDepValidation (C09, C01): a plugin that serves other plugins is asked for functions through GetFuncName, which registers the
// types without calling Add. A type that Add rejects because of its shape must therefore be rejected by Generate too; otherwise
// the unsupported type is diagnosed for a direct call only, and silently turned into text that does not type-check when it is
// reached through another plugin (deriveHash of a map whose keys deriveSort cannot order).
func rDepValidation(c *Ctx, plugins ...string) {
	deps := dependencyPlugins(c.Repo)
	if len(deps) < 5 {
		c.Rep.fail(Finding{Rule: "R-dep", Key: "R-dep|vacuity", Kind: "undecided", Msg: fmt.Sprintf("only %d plugins are found to serve other plugins (deps[\"name\"] in New); confirmed by hand: compare, equal, hash, keys, sort, tuple, …", len(deps))})
		return
	}
	// which kinds of type the other plugins ask each plugin for (the first argument of GetFuncName on a dependency): "" = a type
	// whose kind the requesting path left open
	requested := map[string]map[string]bool{}
	for _, q := range c.Repo.Plugins {
		for _, r := range c.R.Runs(q) {
			for _, rq := range r.Requests {
				if rq.Who == "self" || len(rq.Args) == 0 {
					continue
				}
				k := ""
				if o, ok := rq.Args[0].(*VOpaque); ok && o != nil && strings.HasPrefix(o.Kind, "*types.") {
					k = o.Kind
				}
				if requested[rq.Who] == nil {
					requested[rq.Who] = map[string]bool{}
				}
				requested[rq.Who][k] = true
			}
		}
	}
	topKind := func(r *Run) string {
		for _, d := range r.Decisions {
			sym := strings.Replace(d.Sym, "typs[*]", "typs[0]", 1)
			if strings.HasPrefix(sym, "A:typs[0]:") && d.Choice == 0 {
				return strings.TrimPrefix(sym, "A:typs[0]:")
			}
			if strings.HasPrefix(sym, "K:typs[0]:") {
				cands := strings.Split(strings.TrimPrefix(sym, "K:typs[0]:"), ",")
				if d.Choice < len(cands) {
					return cands[d.Choice]
				}
			}
		}
		return ""
	}
	for _, p := range plugins {
		if !deps[p] {
			continue
		}
		n := 0
		for _, r := range c.R.Runs(p) {
			if r.Outcome != "rejected" {
				continue
			}
			n++
			// only shapes some other plugin can ask for: the kind of the rejected type is one that is requested (or left open)
			if k := topKind(r); r.DepAccepts && k != "" && !requested[p][k] && !requested[p][""] {
				continue
			}
			untypedNil := false
			for _, d := range r.Decisions {
				if (strings.HasSuffix(d.Sym, ".Kind()==25") && d.Choice == 0) || (strings.HasSuffix(d.Sym, ".Kind()!=25") && d.Choice == 1) {
					untypedNil = true // the type of a literal nil argument: only a direct call has one
				}
			}
			if r.DepAccepts && !untypedNil {
				c.Rep.fail(Finding{Rule: "R-dep", Key: "R-dep|" + p + "|validated-in-Add-only", Plugin: p, Script: r.Script,
					Msg:    fmt.Sprintf("plugin %s: Add rejects these argument types because of their shape, but Generate, given the same types, emits a function for them: other plugins request %s functions through GetFuncName, which never calls Add, so the unsupported type is only diagnosed for a direct call and becomes text that does not type-check when it is reached through another plugin", p, p),
					Detail: "abstract path: " + r.describe()})
				break
			}
		}
		for i := 0; i <= n; i++ {
			c.Rep.pass("R-dep")
		}
	}
}

// privateSelectorIssue — a field that is selected directly (x.f) must be one the generated file may name: the path has
// established that its name is exported, or that its struct type is not a type of another package (IsExternal answered no, or
// the struct type is not a defined type). Otherwise the emitted text selects an unexported field of an imported struct:
// goderive exits 0 and derived.gen.go does not compile ("cannot refer to unexported field").
func privateSelectorIssue(rs *Resid, decisions []Decision) (ast.Expr, string) {
	norm := func(o string) string {
		o = strings.TrimPrefix(strings.TrimPrefix(strings.TrimPrefix(o, "mangled:"), "bypass:"), "mangled:")
		return tieRe.ReplaceAllString(strings.ReplaceAll(o, ".Underlying()", ""), "[*]")
	}
	fieldRe := regexp.MustCompile(`^(.*)\[(\d+|\*)\]\.Name\(\)$`)
	exported := map[string]bool{} // normalised origin of a field name -> established exported
	local := map[string]bool{}    // normalised origin of a struct type -> established not external / not a defined type
	for _, d := range decisions {
		switch {
		case strings.HasPrefix(d.Sym, "B:token.IsExported(‹NAME:") && d.Choice == 0:
			exported[norm(strings.TrimSuffix(strings.TrimPrefix(d.Sym, "B:token.IsExported(‹NAME:"), "›)"))] = true
		case strings.Contains(d.Sym, ".IsExternal(") && strings.HasPrefix(d.Sym, "B:") && d.Choice == 1:
			i := strings.Index(d.Sym, ".IsExternal(")
			local[norm(strings.TrimSuffix(d.Sym[i+len(".IsExternal("):], ")"))] = true
		case strings.HasPrefix(d.Sym, "A:") && strings.HasSuffix(d.Sym, ":*types.Named") && d.Choice == 1:
			local[norm(strings.TrimSuffix(strings.TrimPrefix(d.Sym, "A:"), ":*types.Named"))] = true
		case strings.HasPrefix(d.Sym, "A:") && strings.HasSuffix(d.Sym, ":*types.Struct") && d.Choice == 0 && !strings.HasSuffix(d.Sym, ".Underlying():*types.Struct"):
			// the type itself (not its underlying type) is a struct type literal: not a defined type of another package
			local[norm(strings.TrimSuffix(strings.TrimPrefix(d.Sym, "A:"), ":*types.Struct"))] = true
		case strings.HasPrefix(d.Sym, "K:") && !strings.Contains(strings.SplitN(d.Sym, ":", 3)[1], ".Underlying()") || strings.HasPrefix(d.Sym, "K:") && !strings.HasSuffix(strings.SplitN(d.Sym, ":*", 2)[0], ".Underlying()"):
			parts := strings.SplitN(strings.TrimPrefix(d.Sym, "K:"), ":*", 2)
			if len(parts) == 2 && !strings.HasSuffix(parts[0], ".Underlying()") {
				cands := strings.Split("*"+parts[1], ",")
				if d.Choice < len(cands) && cands[d.Choice] == "*types.Struct" {
					local[norm(parts[0])] = true
				}
			}
		}
	}
	var bad ast.Expr
	why := ""
	for _, fn := range rs.Funcs {
		ast.Inspect(fn, func(n ast.Node) bool {
			sel, ok := n.(*ast.SelectorExpr)
			if !ok || bad != nil {
				return bad == nil
			}
			h := rs.hole(sel.Sel.Name)
			if h == nil || h.Kind != "NAME" {
				return true
			}
			o := norm(h.Origin)
			m := fieldRe.FindStringSubmatch(o)
			if m == nil || exported[o] || local[m[1]] {
				return true
			}
			if v, ok := h.Val.(*VOpaque); ok && v != nil && v.notNamed {
				return true
			}
			bad = sel
			why = fmt.Sprintf("%s selects the field %s although this path established neither that its name is exported nor that the struct type %s belongs to the package being generated", exprStr(sel), shortSym(h.Origin), shortSym(m[1]))
			return false
		})
		if bad != nil {
			break
		}
	}
	return bad, why
}
