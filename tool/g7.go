package main

import (
	"fmt"
	"go/ast"
	"go/token"
	"go/types"
	"sort"
	"strings"

	"golang.org/x/tools/go/cfg"
)

// G7 — registration decision table of (*typesMap).SetFuncName, fresh-name search of newName,
// GetFuncName registers what it returns, reserved names complete before first use.
//
// Atoms: H  = some name is already bound to these argument types (tm.nameOf hit)
//        S  = that name is the requested one
//        F  = the requested name is already bound (tm.funcToTyps hit)
//        E  = ... to the same argument types (eq)
//        D  = -dedup, A = -autoname
// Outcomes: requested | existing | fresh | error | register(+requested)

type g7Path struct {
	atoms   map[string]bool
	outcome string
	effects []string
	pos     token.Pos
}

func runG7(r *Repo, rep *Report) {
	fi := r.lookup("derive.(*typesMap).SetFuncName")
	if fi == nil {
		rep.fail(Finding{Rule: "G7", Key: "G7|SetFuncName-missing", Kind: "undecided", Msg: "(*typesMap).SetFuncName not found"})
		return
	}
	info := fi.Pkg.TypesInfo
	sig := fi.Fn.Type().(*types.Signature)
	if sig.Params().Len() != 2 {
		rep.fail(Finding{Rule: "G7", Key: "G7|SetFuncName-signature", Kind: "undecided", Msg: "SetFuncName no longer takes (name, typs...)"})
		return
	}
	reqName, reqTyps := sig.Params().At(0), sig.Params().At(1)
	nameOf := r.lookup("derive.(*typesMap).nameOf")
	getFuncName := r.lookup("derive.(*typesMap).GetFuncName")
	newNameFn := r.lookup("derive.(*typesMap).newName")
	eqFn := r.lookup("derive.eq")

	// symbolic environment: variable -> meaning
	type env struct {
		mean  map[types.Object]string // "hitName", "hitOK", "boundTyps", "boundOK"
		atoms map[string]bool
		eff   []string
	}
	var paths []g7Path
	undecided := ""

	// classify a condition into (atom, value-when-true)
	var evalCond func(e ast.Expr, en *env) (string, bool, bool)
	evalCond = func(e ast.Expr, en *env) (atom string, whenTrue bool, ok bool) {
		e = ast.Unparen(e)
		switch x := e.(type) {
		case *ast.UnaryExpr:
			if x.Op == token.NOT {
				a, w, ok := evalCond(x.X, en)
				return a, !w, ok
			}
		case *ast.Ident:
			switch en.mean[info.Uses[x]] {
			case "hitOK":
				return "H", true, true
			case "boundOK":
				return "F", true, true
			}
		case *ast.SelectorExpr:
			if s, ok := info.Selections[x]; ok && s.Kind() == types.FieldVal {
				switch x.Sel.Name {
				case "dedup":
					return "D", true, true
				case "autoname":
					return "A", true, true
				}
			}
		case *ast.BinaryExpr:
			if x.Op == token.EQL || x.Op == token.NEQ {
				m := func(y ast.Expr) string {
					if id, ok := ast.Unparen(y).(*ast.Ident); ok {
						o := info.Uses[id]
						if o == reqName {
							return "req"
						}
						return en.mean[o]
					}
					return ""
				}
				a, b := m(x.X), m(x.Y)
				if (a == "hitName" && b == "req") || (a == "req" && b == "hitName") {
					return "S", x.Op == token.EQL, true
				}
			}
		case *ast.CallExpr:
			if eqFn != nil && callee(info, x) == eqFn.Fn && len(x.Args) == 2 {
				m := func(y ast.Expr) string {
					if id, ok := ast.Unparen(y).(*ast.Ident); ok {
						o := info.Uses[id]
						if o == reqTyps {
							return "req"
						}
						return en.mean[o]
					}
					return ""
				}
				a, b := m(x.Args[0]), m(x.Args[1])
				if (a == "boundTyps" && b == "req") || (a == "req" && b == "boundTyps") {
					if a == "req" {
						// eq is one-directional (assignability): nameOf has already asked, for every registered function, whether it
						// accepts the requested types (eq(requested, bound)); asked again here it is false whenever nameOf found nothing,
						// so the branch that binds the call to the function of that name would be dead and a call such as
						// deriveMin(list, nil) followed by deriveMin(list, x) would be rejected as a conflict
						rep.fail(Finding{Rule: "G7", Key: "G7|SetFuncName|eq-direction", Where: []string{r.pos(x.Pos())},
							Msg: "SetFuncName asks eq(requested types, types bound to the name): that is the direction nameOf has already tested for every registered function, not the test whether the function that owns the name accepts this call's types — a later call with more specific argument types (nil first, a typed value later) is then rejected or renamed although the function of that name serves it"})
					}
					return "E", true, true
				}
			}
		}
		return "", false, false
	}
	classifyReturn := func(ret *ast.ReturnStmt, en *env) string {
		if len(ret.Results) != 2 {
			return "?"
		}
		isErr := !isNilIdent(info, ret.Results[1])
		if isErr {
			return "error"
		}
		switch x := ast.Unparen(ret.Results[0]).(type) {
		case *ast.Ident:
			o := info.Uses[x]
			if o == reqName {
				return "requested"
			}
			if en.mean[o] == "hitName" {
				return "existing"
			}
			if en.mean[o] == "minted" {
				return "fresh-inline"
			}
		case *ast.CallExpr:
			if getFuncName != nil && callee(info, x) == getFuncName.Fn {
				return "fresh"
			}
		}
		return "?"
	}
	cloneEnv := func(en *env) *env {
		n := &env{mean: map[types.Object]string{}, atoms: map[string]bool{}, eff: append([]string{}, en.eff...)}
		for k, v := range en.mean {
			n.mean[k] = v
		}
		for k, v := range en.atoms {
			n.atoms[k] = v
		}
		return n
	}
	var exec func(list []ast.Stmt, en *env, cont func(*env))
	exec = func(list []ast.Stmt, en *env, cont func(*env)) {
		if undecided != "" {
			return
		}
		if len(list) == 0 {
			cont(en)
			return
		}
		s, rest := list[0], list[1:]
		bind := func(as *ast.AssignStmt) bool {
			// x := tm.newName(typs)   |   y = x (a copy of a name with a meaning)
			if len(as.Lhs) == 1 && len(as.Rhs) == 1 {
				if l0, ok := as.Lhs[0].(*ast.Ident); ok {
					lo := info.Defs[l0]
					if lo == nil {
						lo = info.Uses[l0]
					}
					if c, isCall := ast.Unparen(as.Rhs[0]).(*ast.CallExpr); isCall && newNameFn != nil && callee(info, c) == newNameFn.Fn && len(c.Args) == 1 {
						if id, ok := c.Args[0].(*ast.Ident); ok && info.Uses[id] == reqTyps && lo != nil {
							en.mean[lo] = "minted"
							return true
						}
					}
					if rid, isID := ast.Unparen(as.Rhs[0]).(*ast.Ident); isID && lo != nil && en.mean[info.Uses[rid]] != "" {
						en.mean[lo] = en.mean[info.Uses[rid]]
						return true
					}
				}
			}
			// fName, ok := tm.nameOf(typs)   |   ts, ok := tm.funcToTyps[funcName]
			if len(as.Lhs) == 2 && len(as.Rhs) == 1 {
				l0, _ := as.Lhs[0].(*ast.Ident)
				l1, _ := as.Lhs[1].(*ast.Ident)
				if l0 == nil || l1 == nil {
					return false
				}
				obj := func(id *ast.Ident) types.Object {
					if o := info.Defs[id]; o != nil {
						return o
					}
					return info.Uses[id]
				}
				switch rh := as.Rhs[0].(type) {
				case *ast.CallExpr:
					if nameOf != nil && callee(info, rh) == nameOf.Fn && len(rh.Args) == 1 {
						if id, ok := rh.Args[0].(*ast.Ident); ok && info.Uses[id] == reqTyps {
							en.mean[obj(l0)], en.mean[obj(l1)] = "hitName", "hitOK"
							return true
						}
					}
				case *ast.IndexExpr:
					if sel, ok := rh.X.(*ast.SelectorExpr); ok && sel.Sel.Name == "funcToTyps" {
						if id, ok := rh.Index.(*ast.Ident); ok && info.Uses[id] == reqName {
							en.mean[obj(l0)], en.mean[obj(l1)] = "boundTyps", "boundOK"
							return true
						}
					}
				}
			}
			return false
		}
		switch x := s.(type) {
		case *ast.BlockStmt:
			exec(append(append([]ast.Stmt{}, x.List...), rest...), en, cont)
			return
		case *ast.SwitchStmt:
			// a switch without a tag is an if / else-if chain over its cases, in order
			if x.Tag != nil {
				undecided = "switch with a tag at " + r.pos(x.Pos())
				return
			}
			if x.Init != nil {
				as, ok := x.Init.(*ast.AssignStmt)
				if !ok || !bind(as) {
					undecided = "unrecognised switch-init " + r.pos(x.Init.Pos())
					return
				}
			}
			var chain ast.Stmt
			var def []ast.Stmt
			var clauses []*ast.CaseClause
			for _, c := range x.Body.List {
				cc := c.(*ast.CaseClause)
				for _, st := range cc.Body {
					if br, ok := st.(*ast.BranchStmt); ok && (br.Tok == token.FALLTHROUGH || br.Tok == token.BREAK) {
						undecided = "break/fallthrough inside a switch at " + r.pos(br.Pos())
						return
					}
				}
				if cc.List == nil {
					def = cc.Body
					continue
				}
				clauses = append(clauses, cc)
			}
			var tail ast.Stmt = &ast.BlockStmt{List: def}
			for i := len(clauses) - 1; i >= 0; i-- {
				cc := clauses[i]
				// case a, b:  is  if a { body } else if b { body }
				for j := len(cc.List) - 1; j >= 0; j-- {
					tail = &ast.IfStmt{Cond: cc.List[j], Body: &ast.BlockStmt{List: cc.Body}, Else: tail}
				}
			}
			chain = tail
			exec(append([]ast.Stmt{chain}, rest...), en, cont)
			return
		case *ast.IfStmt:
			if x.Init != nil {
				as, ok := x.Init.(*ast.AssignStmt)
				if !ok || !bind(as) {
					undecided = "unrecognised if-init " + r.pos(x.Init.Pos())
					return
				}
			}
			// a || b, a && b and !(…) are chains of the atomic tests
			els0 := x.Else
			if els0 == nil {
				els0 = &ast.BlockStmt{}
			}
			switch c := ast.Unparen(x.Cond).(type) {
			case *ast.BinaryExpr:
				if c.Op == token.LOR {
					inner := &ast.IfStmt{Cond: c.Y, Body: x.Body, Else: els0}
					exec(append([]ast.Stmt{&ast.IfStmt{Cond: c.X, Body: x.Body, Else: inner}}, rest...), en, cont)
					return
				}
				if c.Op == token.LAND {
					inner := &ast.IfStmt{Cond: c.Y, Body: x.Body, Else: els0}
					exec(append([]ast.Stmt{&ast.IfStmt{Cond: c.X, Body: &ast.BlockStmt{List: []ast.Stmt{inner}}, Else: els0}}, rest...), en, cont)
					return
				}
			case *ast.UnaryExpr:
				if _, isBin := ast.Unparen(c.X).(*ast.BinaryExpr); c.Op == token.NOT && isBin {
					if b := ast.Unparen(c.X).(*ast.BinaryExpr); b.Op == token.LOR || b.Op == token.LAND {
						body2, _ := els0.(*ast.BlockStmt)
						if body2 == nil {
							body2 = &ast.BlockStmt{List: []ast.Stmt{els0}}
						}
						exec(append([]ast.Stmt{&ast.IfStmt{Cond: c.X, Body: body2, Else: x.Body}}, rest...), en, cont)
						return
					}
				}
			}
			atom, whenTrue, ok := evalCond(x.Cond, en)
			if !ok {
				undecided = "unrecognised condition `" + exprStr(x.Cond) + "` at " + r.pos(x.Cond.Pos())
				return
			}
			branch := func(val bool, body []ast.Stmt) {
				if prev, known := en.atoms[atom]; known && prev != val {
					return // infeasible
				}
				e2 := cloneEnv(en)
				e2.atoms[atom] = val
				exec(body, e2, func(e3 *env) { exec(rest, e3, cont) })
			}
			branch(whenTrue, x.Body.List)
			var els []ast.Stmt
			switch e := x.Else.(type) {
			case *ast.BlockStmt:
				els = e.List
			case *ast.IfStmt:
				els = []ast.Stmt{e}
			}
			branch(!whenTrue, els)
			return
		case *ast.AssignStmt:
			if bind(x) {
				exec(rest, en, cont)
				return
			}
			// effects: tm.funcToTyps[funcName] = typs ; tm.typss = append(tm.typss, typs)
			for i, l := range x.Lhs {
				switch le := l.(type) {
				case *ast.IndexExpr:
					if sel, ok := le.X.(*ast.SelectorExpr); ok && sel.Sel.Name == "funcToTyps" {
						kid, _ := le.Index.(*ast.Ident)
						vid, _ := x.Rhs[i].(*ast.Ident)
						if kid != nil && vid != nil && info.Uses[kid] == reqName && info.Uses[vid] == reqTyps {
							en.eff = append(en.eff, "bind(requested,typs)")
							continue
						}
						if kid != nil && vid != nil && en.mean[info.Uses[kid]] == "minted" && info.Uses[vid] == reqTyps {
							en.eff = append(en.eff, "bind(minted,typs)")
							continue
						}
						en.eff = append(en.eff, "bind(?)")
						continue
					}
				case *ast.SelectorExpr:
					if le.Sel.Name == "typss" {
						if c, ok := x.Rhs[i].(*ast.CallExpr); ok && len(c.Args) == 2 {
							if vid, ok := c.Args[1].(*ast.Ident); ok && info.Uses[vid] == reqTyps {
								en.eff = append(en.eff, "enqueue(typs)")
								continue
							}
						}
						en.eff = append(en.eff, "enqueue(?)")
						continue
					}
					if _, isField := info.Selections[le]; isField {
						en.eff = append(en.eff, "store("+exprStr(le)+")")
						continue
					}
				}
				undecided = "unrecognised assignment at " + r.pos(x.Pos())
				return
			}
			exec(rest, en, cont)
			return
		case *ast.DeclStmt:
			// var res string: a local without a meaning yet
			if gd, ok := x.Decl.(*ast.GenDecl); ok && gd.Tok == token.VAR {
				plain := true
				for _, sp := range gd.Specs {
					if vs, ok := sp.(*ast.ValueSpec); !ok || len(vs.Values) != 0 {
						plain = false
					}
				}
				if plain {
					exec(rest, en, cont)
					return
				}
			}
			undecided = "unrecognised declaration at " + r.pos(x.Pos())
			return
		case *ast.ReturnStmt:
			paths = append(paths, g7Path{atoms: en.atoms, outcome: classifyReturn(x, en), effects: en.eff, pos: x.Pos()})
			return
		case *ast.ExprStmt:
			// logging is harmless; anything else is an effect we do not know
			if c, ok := x.X.(*ast.CallExpr); ok {
				if fn, ok := callee(info, c).(*types.Func); ok && fn.Pkg() != nil && fn.Pkg().Path() == "log" && !isNoReturn(info, c) {
					exec(rest, en, cont)
					return
				}
			}
			undecided = "unrecognised statement at " + r.pos(x.Pos())
			return
		default:
			undecided = fmt.Sprintf("unrecognised %T at %s", s, r.pos(s.Pos()))
			return
		}
	}
	exec(fi.Decl.Body.List, &env{mean: map[types.Object]string{}, atoms: map[string]bool{}}, func(en *env) {
		paths = append(paths, g7Path{atoms: en.atoms, outcome: "fallthrough", effects: en.eff})
	})
	if undecided != "" {
		rep.fail(Finding{Rule: "G7", Key: "G7|SetFuncName|undecided", Kind: "undecided", Where: []string{r.pos(fi.Decl.Pos())},
			Msg: "SetFuncName's decision structure could not be tabulated: " + undecided})
		return
	}
	// specification over complete valuations of the atoms
	spec := func(v map[string]bool) (string, bool) { // outcome, registers
		switch {
		case v["H"] && v["S"]:
			return "requested", false
		case v["H"] && !v["S"]:
			if v["D"] {
				return "existing", false
			}
			// the requested name belongs to a function for other types: the call is a conflict (not a second name for its own
			// types), and with -autoname it is renamed — to the function that already exists for its types (fix cf2a44b)
			if v["F"] && !v["E"] && v["A"] {
				return "existing", false
			}
			return "error", false
		case v["F"] && v["E"]:
			return "requested", false
		case v["F"] && !v["E"]:
			if v["A"] {
				return "fresh", false
			}
			return "error", false
		default:
			return "requested", true
		}
	}
	atomNames := []string{"H", "S", "F", "E", "D", "A"}
	rows := 0
	for mask := 0; mask < 1<<len(atomNames); mask++ {
		v := map[string]bool{}
		for i, a := range atomNames {
			v[a] = mask&(1<<i) != 0
		}
		// S only meaningful when H; E only when F: canonicalise to avoid duplicate rows
		if !v["H"] && v["S"] || !v["F"] && v["E"] {
			continue
		}
		rows++
		// find the path consistent with this valuation
		var hit *g7Path
		n := 0
		for i := range paths {
			ok := true
			for a, val := range paths[i].atoms {
				if v[a] != val {
					ok = false
				}
			}
			if ok {
				n++
				hit = &paths[i]
			}
		}
		row := fmt.Sprintf("H=%v S=%v F=%v E=%v dedup=%v autoname=%v", v["H"], v["S"], v["F"], v["E"], v["D"], v["A"])
		if n != 1 {
			rep.fail(Finding{Rule: "G7", Key: "G7|SetFuncName|row-paths", Kind: "undecided", Msg: fmt.Sprintf("SetFuncName: %d paths match state %s (expected exactly 1)", n, row)})
			continue
		}
		wantOut, wantReg := spec(v)
		gotReg := contains(hit.effects, "bind(requested,typs)") && contains(hit.effects, "enqueue(typs)")
		anyEff := len(hit.effects) > 0
		// where the bound name is the requested name (S), returning either of them is returning the same string
		if v["H"] && v["S"] && hit.outcome == "existing" && wantOut == "requested" {
			hit.outcome = "requested"
		}
		// -autoname resolved in place: a name minted by newName, registered for these types (both tables) and returned is what
		// GetFuncName does for a miss
		gotOut := hit.outcome
		if wantOut == "fresh" && gotOut == "fresh-inline" && len(hit.effects) == 2 && contains(hit.effects, "bind(minted,typs)") && contains(hit.effects, "enqueue(typs)") {
			gotOut, anyEff = "fresh", false
		}
		ok := gotOut == wantOut && gotReg == wantReg && (wantReg || !anyEff) && (!wantReg || len(hit.effects) == 2)
		if ok {
			rep.pass("G7")
			if mask%7 == 0 {
				rep.sample(map[string]interface{}{"rule": "G7 SetFuncName row", "state": row, "outcome": hit.outcome, "effects": hit.effects})
			}
		} else {
			kind := "outcome"
			if hit.outcome == wantOut {
				kind = "effects"
			}
			rep.fail(Finding{Rule: "G7", Key: fmt.Sprintf("G7|SetFuncName|%s|want=%s|got=%s", kind, wantOut, hit.outcome), Where: []string{r.pos(hit.pos)},
				Msg: fmt.Sprintf("SetFuncName in state {%s} yields %s with effects %v; the property requires %s (register=%v): "+g7Why(wantOut, hit.outcome), row, hit.outcome, hit.effects, wantOut, wantReg)})
		}
	}
	rep.analysed("SetFuncName_paths", len(paths))
	rep.analysed("SetFuncName_rows", rows)
	g7NewName(r, rep)
	g7GetFuncName(r, rep)
	g7Reserved(r, rep)
}

func g7Why(want, got string) string {
	switch {
	case want == "error" && got != "error":
		return "a conflict/duplicate is accepted without the flag that permits it"
	case want != "error" && got == "error":
		return "a package the flags make acceptable is rejected"
	case want == "existing":
		return "-dedup must redirect the call to the existing function"
	case want == "fresh":
		return "-autoname must mint a fresh name"
	}
	return "the name/argument-type table would no longer be a bijection"
}

// g7NewName: the returned name was tested (after its last update) against BOTH funcToTyps and reserved and found in neither;
// every candidate is built from tm.prefix.
func g7NewName(r *Repo, rep *Report) {
	fi := r.lookup("derive.(*typesMap).newName")
	if fi == nil {
		rep.fail(Finding{Rule: "G7", Key: "G7|newName-missing", Kind: "undecided", Msg: "(*typesMap).newName not found"})
		return
	}
	info := fi.Pkg.TypesInfo
	g := newGraph(fi.Decl.Body, mayReturnFn(info))
	rets := g.returnsOf()
	if len(rets) != 1 || len(rets[0].Results) != 1 {
		rep.fail(Finding{Rule: "G7", Key: "G7|newName|shape", Kind: "undecided", Where: []string{r.pos(fi.Decl.Pos())}, Msg: "newName no longer has a single return of one name"})
		return
	}
	rid, ok := ast.Unparen(rets[0].Results[0]).(*ast.Ident)
	if !ok {
		if _, isCall := ast.Unparen(rets[0].Results[0]).(*ast.CallExpr); isCall {
			rep.fail(Finding{Rule: "G7", Key: "G7|newName|returns-transformed-name", Where: []string{r.pos(rets[0].Pos())},
				Msg: "newName returns " + exprStr(rets[0].Results[0]) + ", a transformation of the name it tested against the registered and reserved names: the name handed out was never tested, so two helpers can get the same name (the second is not generated and its call sites call the first) or a helper can take a name the user calls"})
			return
		}
		rep.fail(Finding{Rule: "G7", Key: "G7|newName|shape", Kind: "undecided", Where: []string{r.pos(rets[0].Pos())}, Msg: "newName does not return a variable"})
		return
	}
	nameVar := info.Uses[rid]
	// collect: assignments to nameVar; lookups `_, x = tm.<table>[nameVar]`
	type lookup struct {
		ok    types.Object
		table string
		pos   token.Pos
	}
	var nameDefs []*ast.AssignStmt
	var lookups []lookup
	ast.Inspect(fi.Decl.Body, func(n ast.Node) bool {
		as, ok := n.(*ast.AssignStmt)
		if !ok {
			return true
		}
		for _, l := range as.Lhs {
			if id, ok := l.(*ast.Ident); ok && (info.Uses[id] == nameVar || info.Defs[id] == nameVar) {
				nameDefs = append(nameDefs, as)
			}
		}
		if len(as.Lhs) == 2 && len(as.Rhs) == 1 {
			if ix, ok := as.Rhs[0].(*ast.IndexExpr); ok {
				if sel, ok := ix.X.(*ast.SelectorExpr); ok {
					if kid, ok := ix.Index.(*ast.Ident); ok && info.Uses[kid] == nameVar {
						if oid, ok := as.Lhs[1].(*ast.Ident); ok {
							o := info.Defs[oid]
							if o == nil {
								o = info.Uses[oid]
							}
							lookups = append(lookups, lookup{o, sel.Sel.Name, as.Pos()})
						}
					}
				}
			}
		}
		return true
	})
	// prefix: every definition of the name starts with tm.prefix
	for _, d := range nameDefs {
		for i, l := range d.Lhs {
			id, ok := l.(*ast.Ident)
			if !ok || (info.Uses[id] != nameVar && info.Defs[id] != nameVar) || i >= len(d.Rhs) {
				continue
			}
			e := d.Rhs[i]
			for depth := 0; depth < 8; depth++ {
				if be, ok := ast.Unparen(e).(*ast.BinaryExpr); ok && be.Op == token.ADD {
					e = be.X
					continue
				}
				// a local variable with a single definition stands for that definition (base := tm.prefix + "_")
				if lid, ok := ast.Unparen(e).(*ast.Ident); ok {
					if lv, ok := info.Uses[lid].(*types.Var); ok && lv != nameVar {
						var defs []ast.Expr
						ast.Inspect(fi.Decl.Body, func(n ast.Node) bool {
							if as, ok := n.(*ast.AssignStmt); ok && len(as.Lhs) == len(as.Rhs) {
								for k, l := range as.Lhs {
									if id2, ok := l.(*ast.Ident); ok && (info.Defs[id2] == lv || info.Uses[id2] == lv) {
										defs = append(defs, as.Rhs[k])
									}
								}
							}
							return true
						})
						if len(defs) == 1 {
							e = defs[0]
							continue
						}
					}
				}
				break
			}
			sel, ok := ast.Unparen(e).(*ast.SelectorExpr)
			if ok && sel.Sel.Name == "prefix" {
				rep.pass("G7")
			} else {
				rep.fail(Finding{Rule: "G7", Key: "G7|newName|prefix", Where: []string{r.pos(d.Pos())},
					Msg: "newName builds a candidate name that does not start with the plugin's current prefix: helper names would not follow -prefix/-pluginprefix and could collide with user identifiers"})
			}
		}
	}
	// the loop: condition must be a disjunction mentioning an ok-variable per table {funcToTyps, reserved}
	var loop *ast.ForStmt
	ast.Inspect(fi.Decl.Body, func(n ast.Node) bool {
		if f, ok := n.(*ast.ForStmt); ok && loop == nil {
			loop = f
		}
		return true
	})
	if loop == nil || loop.Cond == nil {
		rep.fail(Finding{Rule: "G7", Key: "G7|newName|loop", Kind: "undecided", Where: []string{r.pos(fi.Decl.Pos())}, Msg: "newName has no search loop with a condition"})
		return
	}
	condVars := map[types.Object]bool{}
	condTables := map[string]bool{} // tables whose membership is asked by a call in the condition itself (always fresh)
	pureDisj := true
	// membership(recv, key): a method `func (s T) has(k K) bool { _, ok := s[k]; return ok }` of this package
	isMembership := func(c *ast.CallExpr) (table string, ok bool) {
		fn, isFn := callee(info, c).(*types.Func)
		if !isFn || len(c.Args) != 1 {
			return "", false
		}
		d := r.Decls[fn]
		if d == nil || d.Decl.Recv == nil || len(d.Decl.Recv.List) != 1 || len(d.Decl.Recv.List[0].Names) != 1 || d.Decl.Body == nil || len(d.Decl.Body.List) != 2 {
			return "", false
		}
		recv := d.Decl.Recv.List[0].Names[0].Name
		var param string
		if d.Decl.Type.Params.NumFields() == 1 && len(d.Decl.Type.Params.List[0].Names) == 1 {
			param = d.Decl.Type.Params.List[0].Names[0].Name
		}
		as, ok1 := d.Decl.Body.List[0].(*ast.AssignStmt)
		ret, ok2 := d.Decl.Body.List[1].(*ast.ReturnStmt)
		if !ok1 || !ok2 || len(as.Lhs) != 2 || len(as.Rhs) != 1 || len(ret.Results) != 1 || exprStr(as.Rhs[0]) != recv+"["+param+"]" || exprStr(ret.Results[0]) != exprStr(as.Lhs[1]) {
			return "", false
		}
		sel, isSel := ast.Unparen(c.Fun).(*ast.SelectorExpr)
		if !isSel {
			return "", false
		}
		tsel, isSel := ast.Unparen(sel.X).(*ast.SelectorExpr)
		if !isSel {
			return "", false
		}
		if kid, isID := ast.Unparen(c.Args[0]).(*ast.Ident); !isID || info.Uses[kid] != nameVar {
			return "", false
		}
		return tsel.Sel.Name, true
	}
	var collect func(e ast.Expr)
	collect = func(e ast.Expr) {
		switch x := ast.Unparen(e).(type) {
		case *ast.BinaryExpr:
			if x.Op == token.LOR {
				collect(x.X)
				collect(x.Y)
				return
			}
			pureDisj = false
		case *ast.Ident:
			condVars[info.Uses[x]] = true
		case *ast.CallExpr:
			if t, ok := isMembership(x); ok {
				condTables[t] = true
			} else if ts, ok := closureMembership(info, fi.Decl.Body, x, nameVar); ok {
				for _, t := range ts {
					condTables[t] = true
				}
			} else {
				pureDisj = false
			}
		default:
			pureDisj = false
		}
	}
	collect(loop.Cond)
	for _, table := range []string{"funcToTyps", "reserved"} {
		if condTables[table] && pureDisj {
			// asked in the condition itself, with the current candidate: nothing can be stale
			rep.pass("G7")
			continue
		}
		// an ok-variable of this table must be in the loop condition, and must be refreshed
		// (a) before the loop after the last pre-loop definition of the name, and (b) in the body after the last in-body definition.
		var v types.Object
		for _, l := range lookups {
			if l.table == table && condVars[l.ok] {
				v = l.ok
			}
		}
		if v == nil || !pureDisj {
			rep.fail(Finding{Rule: "G7", Key: "G7|newName|cond|" + table, Where: []string{r.pos(loop.Cond.Pos())},
				Msg: fmt.Sprintf("newName's search loop does not continue while the candidate is present in tm.%s: a fresh name could collide with %s", table,
					map[string]string{"funcToTyps": "an already bound derive function", "reserved": "a function the user calls"}[table])})
			continue
		}
		refreshedAfter := func(region ast.Node) bool {
			var lastDef, lastLookup token.Pos
			for _, d := range nameDefs {
				if region.Pos() <= d.Pos() && d.End() <= region.End() && d.Pos() > lastDef {
					lastDef = d.Pos()
				}
			}
			for _, l := range lookups {
				if l.table == table && l.ok == v && region.Pos() <= l.pos && l.pos < region.End() && l.pos > lastLookup {
					lastLookup = l.pos
				}
			}
			return lastLookup > lastDef && lastLookup.IsValid()
		}
		pre := &ast.BlockStmt{Lbrace: fi.Decl.Body.Lbrace, Rbrace: loop.Pos()}
		okPre := refreshedAfter(pre)
		okBody := refreshedAfter(loop.Body)
		if okPre && okBody {
			rep.pass("G7")
			rep.sample(map[string]string{"rule": "G7 newName freshness", "table": table, "loop": r.pos(loop.Pos())})
		} else {
			rep.fail(Finding{Rule: "G7", Key: fmt.Sprintf("G7|newName|stale-lookup|%s|pre=%v,body=%v", table, okPre, okBody), Where: []string{r.pos(loop.Pos())},
				Msg: fmt.Sprintf("newName tests tm.%s with a stale candidate (membership not re-evaluated after the name was last updated: before loop ok=%v, in loop ok=%v)", table, okPre, okBody)})
		}
	}
	// the loop body must change the candidate and advance the counter
	adv := nodeHas(loop.Body, func(n ast.Node) bool { _, ok := n.(*ast.IncDecStmt); return ok })
	if loop.Post != nil {
		// for n := 0; ...; n++
		if _, ok := loop.Post.(*ast.IncDecStmt); ok {
			adv = true
		}
	}
	upd := false
	for _, d := range nameDefs {
		if loop.Body.Pos() <= d.Pos() && d.End() <= loop.Body.End() {
			upd = true
		}
	}
	if adv && upd {
		rep.pass("G7")
	} else {
		rep.fail(Finding{Rule: "G7", Key: "G7|newName|progress", Where: []string{r.pos(loop.Pos())}, Msg: "newName's search loop does not advance its counter and update the candidate on every iteration (possible hang)"})
	}
}

// closureMembership: the call is taken(candidate) where taken is a local function literal with one parameter that answers
// "is the parameter a key of table T1 or of table T2 (…)": its body — comma-ok lookups tm.T[param], ifs over their oks,
// returns of oks and constants — is evaluated for every combination of memberships and must be their disjunction. Returns
// the tables.
func closureMembership(info *types.Info, body *ast.BlockStmt, call *ast.CallExpr, nameVar types.Object) ([]string, bool) {
	fid, ok := ast.Unparen(call.Fun).(*ast.Ident)
	if !ok || len(call.Args) != 1 {
		return nil, false
	}
	if aid, ok := ast.Unparen(call.Args[0]).(*ast.Ident); !ok || info.Uses[aid] != nameVar {
		return nil, false
	}
	var lit *ast.FuncLit
	defs := 0
	ast.Inspect(body, func(n ast.Node) bool {
		if as, ok := n.(*ast.AssignStmt); ok && len(as.Lhs) == len(as.Rhs) {
			for k, l := range as.Lhs {
				if id, ok := l.(*ast.Ident); ok && objOf(info, id) == info.Uses[fid] {
					defs++
					lit, _ = as.Rhs[k].(*ast.FuncLit)
				}
			}
		}
		return true
	})
	if defs != 1 || lit == nil || lit.Type.Params.NumFields() != 1 || len(lit.Type.Params.List[0].Names) != 1 {
		return nil, false
	}
	param := info.Defs[lit.Type.Params.List[0].Names[0]]
	// the tables looked up with the parameter
	okVar := map[types.Object]string{}
	var tables []string
	bad := false
	ast.Inspect(lit.Body, func(n ast.Node) bool {
		as, ok := n.(*ast.AssignStmt)
		if !ok {
			return true
		}
		if len(as.Lhs) == 2 && len(as.Rhs) == 1 {
			if ix, ok := ast.Unparen(as.Rhs[0]).(*ast.IndexExpr); ok {
				sel, isSel := ast.Unparen(ix.X).(*ast.SelectorExpr)
				kid, isID := ast.Unparen(ix.Index).(*ast.Ident)
				oid, isOK := as.Lhs[1].(*ast.Ident)
				if isSel && isID && isOK && info.Uses[kid] == param {
					okVar[objOf(info, oid)] = sel.Sel.Name
					tables = append(tables, sel.Sel.Name)
					return true
				}
			}
		}
		bad = true
		return true
	})
	if bad || len(tables) == 0 || len(tables) > 3 {
		return nil, false
	}
	for mask := 0; mask < 1<<len(tables); mask++ {
		member := map[string]bool{}
		want := false
		for i, t := range tables {
			member[t] = mask&(1<<i) != 0
			want = want || member[t]
		}
		var evalB func(e ast.Expr) (bool, bool)
		evalB = func(e ast.Expr) (bool, bool) {
			switch x := ast.Unparen(e).(type) {
			case *ast.Ident:
				if t, ok := okVar[info.Uses[x]]; ok {
					return member[t], true
				}
				if tv, ok := info.Types[x]; ok && tv.Value != nil {
					return tv.Value.String() == "true", true
				}
			case *ast.UnaryExpr:
				if x.Op == token.NOT {
					v, ok := evalB(x.X)
					return !v, ok
				}
			case *ast.BinaryExpr:
				a, ok1 := evalB(x.X)
				b, ok2 := evalB(x.Y)
				if ok1 && ok2 {
					switch x.Op {
					case token.LOR:
						return a || b, true
					case token.LAND:
						return a && b, true
					}
				}
			}
			return false, false
		}
		var run func(list []ast.Stmt) (val, done, ok bool)
		run = func(list []ast.Stmt) (bool, bool, bool) {
			for _, st := range list {
				switch x := st.(type) {
				case *ast.AssignStmt:
				case *ast.ReturnStmt:
					if len(x.Results) != 1 {
						return false, false, false
					}
					v, ok := evalB(x.Results[0])
					return v, true, ok
				case *ast.IfStmt:
					c, ok := evalB(x.Cond)
					if !ok {
						return false, false, false
					}
					if c {
						if v, done, ok := run(x.Body.List); !ok || done {
							return v, done, ok
						}
					} else if x.Else != nil {
						var els []ast.Stmt
						switch e := x.Else.(type) {
						case *ast.BlockStmt:
							els = e.List
						case *ast.IfStmt:
							els = []ast.Stmt{e}
						}
						if v, done, ok := run(els); !ok || done {
							return v, done, ok
						}
					}
				default:
					return false, false, false
				}
			}
			return false, false, true
		}
		v, done, ok := run(lit.Body.List)
		if !ok || !done || v != want {
			return nil, false
		}
	}
	return tables, true
}

// g7GetFuncName: returns nameOf's hit, else a name from newName that it registers through SetFuncName with the same types.
func g7GetFuncName(r *Repo, rep *Report) {
	fi := r.lookup("derive.(*typesMap).GetFuncName")
	if fi == nil {
		rep.fail(Finding{Rule: "G7", Key: "G7|GetFuncName-missing", Kind: "undecided", Msg: "(*typesMap).GetFuncName not found"})
		return
	}
	info := fi.Pkg.TypesInfo
	set := r.lookup("derive.(*typesMap).SetFuncName")
	newName := r.lookup("derive.(*typesMap).newName")
	nameOf := r.lookup("derive.(*typesMap).nameOf")
	g := newGraph(fi.Decl.Body, mayReturnFn(info))
	rets := g.returnsOf()
	// every return returns a name variable (one variable, or one for the hit and one for the minted name)
	nameVars := map[types.Object]bool{}
	okShape := len(rets) >= 1
	for _, ret := range rets {
		if len(ret.Results) != 1 {
			okShape = false
			continue
		}
		if id, ok := ast.Unparen(ret.Results[0]).(*ast.Ident); ok && info.Uses[id] != nil {
			nameVars[info.Uses[id]] = true
		} else {
			okShape = false
		}
	}
	if !okShape || len(nameVars) == 0 {
		rep.fail(Finding{Rule: "G7", Key: "G7|GetFuncName|shape", Kind: "undecided", Where: []string{r.pos(fi.Decl.Pos())}, Msg: "GetFuncName does not return a single name variable"})
		return
	}
	minted := map[types.Object]bool{}
	var fromNameOf, fromNew, registered bool
	var setCall *ast.CallExpr
	ast.Inspect(fi.Decl.Body, func(n ast.Node) bool {
		switch x := n.(type) {
		case *ast.AssignStmt:
			if len(x.Lhs) >= 1 {
				if id, ok := x.Lhs[0].(*ast.Ident); ok && (nameVars[info.Defs[id]] || nameVars[info.Uses[id]]) && len(x.Rhs) == 1 {
					if c, ok := x.Rhs[0].(*ast.CallExpr); ok {
						if nameOf != nil && callee(info, c) == nameOf.Fn {
							fromNameOf = true
						}
						if newName != nil && callee(info, c) == newName.Fn {
							fromNew = true
							if o := info.Defs[id]; o != nil {
								minted[o] = true
							} else {
								minted[info.Uses[id]] = true
							}
						}
					}
				}
			}
		case *ast.CallExpr:
			if set != nil && (callee(info, x) == set.Fn || (func() bool { o := callee(info, x); return o != nil && o.Name() == "SetFuncName" })()) {
				setCall = x
				if len(x.Args) >= 1 {
					if id, ok := x.Args[0].(*ast.Ident); ok && nameVars[info.Uses[id]] {
						registered = true
					}
				}
			}
		}
		return true
	})
	// registration must happen on the miss path before returning: setCall dominates... (miss branch only) — check it is reachable only when !ok and precedes return
	if registered && setCall != nil {
		// the name that is registered is the one newName minted
		if id, ok := setCall.Args[0].(*ast.Ident); !ok || !minted[info.Uses[id]] {
			registered = false
		}
	}
	// registered in place: tm.funcToTyps[minted] = typs together with tm.typss = append(tm.typss, typs)
	if setCall == nil && fromNew {
		var bindStmt, queueStmt ast.Node
		ast.Inspect(fi.Decl.Body, func(n ast.Node) bool {
			as, ok := n.(*ast.AssignStmt)
			if !ok || len(as.Lhs) != 1 || len(as.Rhs) != 1 {
				return true
			}
			switch l := as.Lhs[0].(type) {
			case *ast.IndexExpr:
				sel, isSel := ast.Unparen(l.X).(*ast.SelectorExpr)
				kid, isID := ast.Unparen(l.Index).(*ast.Ident)
				if isSel && isID && sel.Sel.Name == "funcToTyps" && minted[info.Uses[kid]] {
					bindStmt = as
				}
			case *ast.SelectorExpr:
				if c, isCall := as.Rhs[0].(*ast.CallExpr); isCall && l.Sel.Name == "typss" && exprStr(c.Fun) == "append" {
					queueStmt = as
				}
			}
			return true
		})
		if bindStmt != nil && queueStmt != nil {
			rep.pass("G7")
			rep.sample(map[string]string{"rule": "G7 GetFuncName registers what it returns (in place)", "site": r.pos(bindStmt.Pos())})
			return
		}
	}
	if fromNameOf && fromNew && registered && setCall != nil {
		rep.pass("G7")
		rep.sample(map[string]string{"rule": "G7 GetFuncName registers what it returns", "site": r.pos(setCall.Pos())})
	} else {
		rep.fail(Finding{Rule: "G7", Key: fmt.Sprintf("G7|GetFuncName|nameOf=%v,newName=%v,registered=%v", fromNameOf, fromNew, registered), Where: []string{r.pos(fi.Decl.Pos())},
			Msg: fmt.Sprintf("GetFuncName must return the bound name, or mint one with newName and register exactly that name (lookup=%v, mint=%v, registers returned name=%v): otherwise a helper is called but never generated", fromNameOf, fromNew, registered)})
	}
}

// g7Reserved: in newPackage the reserved-name set handed to newTypesMap is complete (all files merged) before the
// first table is created or any call is added; it is the union of every file's funcNames.
func g7Reserved(r *Repo, rep *Report) {
	fi := r.lookup("derive.newPackage")
	ntm := r.lookup("derive.newTypesMap")
	if fi == nil || ntm == nil {
		rep.fail(Finding{Rule: "G7", Key: "G7|reserved|missing", Kind: "undecided", Msg: "newPackage/newTypesMap not found"})
		return
	}
	info := fi.Pkg.TypesInfo
	g := newGraph(fi.Decl.Body, mayReturnFn(info))
	// the variable passed as `reserved`
	var resVar types.Object
	var ctorPos []token.Pos
	ast.Inspect(fi.Decl.Body, func(n ast.Node) bool {
		if c, ok := n.(*ast.CallExpr); ok && callee(info, c) == ntm.Fn {
			if o := reservedSetArg(info, fi.Decl.Body, ntm.Fn, c); o != nil {
				resVar = o
				ctorPos = append(ctorPos, c.Pos())
			}
		}
		return true
	})
	if resVar == nil {
		rep.fail(Finding{Rule: "G7", Key: "G7|reserved|arg", Kind: "undecided", Where: []string{r.pos(fi.Decl.Pos())}, Msg: "cannot identify the reserved-name set passed to newTypesMap"})
		return
	}
	// stores into resVar: `reserved = ...`, `reserved[k] = ...`, or passing it to union(...) as first arg
	resPar := parents(fi.Decl)
	var stores []token.Pos
	feedsFuncNames := false
	ast.Inspect(fi.Decl.Body, func(n ast.Node) bool {
		switch x := n.(type) {
		case *ast.AssignStmt:
			for _, l := range x.Lhs {
				root := l
				if ix, ok := l.(*ast.IndexExpr); ok {
					root = ix.X
				}
				if id, ok := root.(*ast.Ident); ok && info.Uses[id] == resVar && x.Tok != token.DEFINE {
					stores = append(stores, x.Pos())
					mentions := func(n ast.Node) bool {
						return nodeHas(n, func(m ast.Node) bool {
							s, ok := m.(*ast.SelectorExpr)
							return ok && s.Sel.Name == "funcNames"
						})
					}
					if mentions(x) {
						feedsFuncNames = true
					}
					// reserved[name] = … inside `for name := range <file>.funcNames`
					for p := resPar[x]; p != nil; p = resPar[p] {
						if rs, ok := p.(*ast.RangeStmt); ok && mentions(rs.X) {
							feedsFuncNames = true
						}
					}
				}
			}
		case *ast.CallExpr:
			if fn, ok := callee(info, x).(*types.Func); ok && (fn.Name() == "union" || isPkgFunc(fn, "maps", "Copy")) && len(x.Args) == 2 {
				if id, ok := x.Args[0].(*ast.Ident); ok && info.Uses[id] == resVar {
					if nodeHas(x.Args[1], func(m ast.Node) bool {
						s, ok := m.(*ast.SelectorExpr)
						return ok && s.Sel.Name == "funcNames"
					}) {
						feedsFuncNames = true
					}
					stores = append(stores, x.Pos())
				}
			}
		}
		return true
	})
	if !feedsFuncNames {
		rep.fail(Finding{Rule: "G7", Key: "G7|reserved|source", Where: []string{r.pos(fi.Decl.Pos())},
			Msg: "newPackage no longer fills the reserved-name set from every file's funcNames: fresh helper names may take names the user calls"})
	} else {
		rep.pass("G7")
	}
	// no store reachable from a constructor call or from a pkg.Add call
	add := r.lookup("derive.(*pkg).Add")
	var uses []token.Pos
	uses = append(uses, ctorPos...)
	ast.Inspect(fi.Decl.Body, func(n ast.Node) bool {
		if c, ok := n.(*ast.CallExpr); ok && add != nil && callee(info, c) == add.Fn {
			uses = append(uses, c.Pos())
		}
		return true
	})
	bad := false
	for _, u := range uses {
		ub, ui := g.locate(u)
		if ub == nil {
			continue
		}
		reach := g.reachable(ub.Succs, nil)
		for _, s := range stores {
			sb, si := g.locate(s)
			if sb == nil {
				continue
			}
			if reach[sb] || (sb == ub && si > ui) {
				bad = true
				rep.fail(Finding{Rule: "G7", Key: "G7|reserved|late-store", Where: []string{r.pos(s), r.pos(u)},
					Msg: "newPackage still adds reserved names after the name tables are in use: a fresh name chosen for an earlier file can collide with a function the user calls in a later file"})
			}
		}
	}
	if !bad {
		rep.pass("G7")
		rep.sample(map[string]string{"rule": "G7 reserved complete before use", "stores": fmt.Sprint(len(stores)), "uses": fmt.Sprint(len(uses))})
	}
	_ = cfg.KindBody
	_ = sort.Strings
	_ = strings.Contains
}
