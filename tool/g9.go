package main

import (
	"fmt"
	"go/ast"
	"go/token"
	"go/types"
	"os"
	"regexp"
	"sort"
	"strconv"
	"strings"
)

// G9 — sibling predicates ("plain ==/assignment is structural for this type") are tabulated by abstract interpretation
// of their own source over the go/types kinds: accepting set = {Basic (except untyped nil), Struct iff every field is
// accepted, Array iff its element is accepted}; everything else is rejected. derive.Zero is tabulated the same way.

func lookupPred(r *Repo, name string) *FuncInfo {
	// name: "equal.canEqual", "derive.IsComparable"
	return r.lookup(name)
}

func runG9(c *Ctx, names ...string) {
	for _, name := range names {
		fi := lookupPred(c.Repo, name)
		if fi == nil {
			c.Rep.fail(Finding{Rule: "G9", Key: "G9|" + name + "|missing", Kind: "undecided", Msg: "predicate " + name + " not found"})
			continue
		}
		g9Tabulate(c, name, fi)
	}
}

func g9Tabulate(c *Ctx, name string, fi *FuncInfo) {
	or := &Oracle{}
	rows := 0
	short := fi.Fn.Name()
	for n := 0; n < 2000; n++ {
		or.pos = 0
		in := &Interp{repo: c.Repo, plugin: "derive", decls: c.GDecls, or: or, memo: map[string]int{}, shape: 2,
			arities: []int{2, 1, 0}, preds: map[string]Value{}, stack: map[*ast.FuncDecl]int{}, imports: map[string]int{}, importUse: map[string]bool{},
			holes: map[string]*Hole{}, g9mode: true}
		arg := &VOpaque{Origin: "t"}
		var res Value
		msg := ""
		func() {
			defer func() {
				if e := recover(); e != nil {
					if a, ok := e.(abort); ok {
						msg = a.kind + ": " + a.msg
						return
					}
					msg = fmt.Sprint(e)
				}
			}()
			res = in.callFunc(&VFunc{Decl: fi.Decl, Pkg: fi.Pkg}, []Value{arg}, token.NoPos)
		}()
		rows++
		g9Row(c, name, short, fi, in, arg, res, msg)
		if !or.next() {
			break
		}
	}
	c.Rep.analysed("G9_rows:"+name, rows)
	if short == "canEqual" {
		// `==` on a struct is field-wise ==: it bypasses the Equal method of every component. The predicate that licenses `==`
		// must therefore refuse a type that declares its own Equal method (and with it every struct or array containing one).
		if !g9AsksMethod[name] {
			c.Rep.fail(Finding{Rule: "G9", Key: "G9|" + name + "|ignores-equal-method", Where: []string{c.Repo.pos(fi.Decl.Pos())},
				Msg: name + " never asks whether the type declares its own Equal method: a struct without an Equal method that contains a component with one (type W struct{ D Dec }) is compared with `==` wherever W is itself a component, so Dec's Equal method is bypassed there although it decides when W is compared at top level"})
		} else {
			c.Rep.pass("G9")
		}
	}
}

// g9AsksMethod: predicates whose tabulation met a method-lookup question (set by g9Row).
var g9AsksMethod = map[string]bool{}

func g9Row(c *Ctx, name, short string, fi *FuncInfo, in *Interp, arg *VOpaque, res Value, msg string) {
	if os.Getenv("GDV_DEBUG_G9") != "" {
		fmt.Fprintf(os.Stderr, "G9ROW %s %v res=%v msg=%s\n", name, in.decisions, res, msg)
	}
	for _, d := range in.decisions {
		if strings.Contains(d.Sym, "MethodInputParam(") || strings.HasSuffix(d.Fn, "MethodInputParam") || strings.HasSuffix(d.Fn, "hasEqualMethod") || strings.Contains(d.Sym, "hasEqualMethod(") {
			g9AsksMethod[name] = true
			// a type with its own Equal method must be refused
			if b, ok := res.(VBool); ok && d.Choice == 0 && (strings.HasSuffix(d.Sym, "!=nil") || strings.HasSuffix(d.Sym, "#1")) && b.Known && b.V && strings.Contains(d.Sym, "("+arg.Origin+",)") {
				c.Rep.fail(Finding{Rule: "G9", Key: "G9|" + name + "|accepts-type-with-equal-method", Where: []string{c.Repo.pos(fi.Decl.Pos())},
					Msg: name + " accepts a type that declares its own Equal method: `==` would be emitted for it and the method bypassed"})
			}
		}
	}
	desc := func() string {
		var ss []string
		for _, d := range in.decisions {
			ss = append(ss, fmt.Sprintf("%s=%d/%d", d.Sym, d.Choice, d.N))
		}
		return strings.Join(ss, "; ")
	}
	fail := func(kind, what string) {
		c.Rep.fail(Finding{Rule: "G9", Key: fmt.Sprintf("G9|%s|%s", name, kind), Where: []string{c.Repo.pos(fi.Decl.Pos())},
			Msg:    fmt.Sprintf("%s: %s. The predicate must accept exactly basic types, structs all of whose fields it accepts, and arrays whose element it accepts; for any other type plain ==/assignment is not structural (pointer identity, shared backing store)", name, what),
			Detail: "abstract path: " + desc()})
	}
	if msg != "" {
		c.Rep.fail(Finding{Rule: "G9", Key: "G9|" + name + "|undecided", Kind: "undecided", Where: []string{c.Repo.pos(fi.Decl.Pos())}, Msg: name + ": cannot be tabulated (" + msg + ")", Detail: desc()})
		return
	}
	b, ok := res.(VBool)
	if !ok {
		fail("result-type", fmt.Sprintf("returned %T", res))
		return
	}
	u := underlyingVal(arg)
	kind := ""
	if u != nil {
		kind = u.Kind
	}
	// nested answers of the same predicate
	nested := map[*VOpaque]bool{}
	for _, pc := range in.predCalls {
		if pc.name != short {
			continue
		}
		if a, ok := in.predAnswer(pc.name, pc.arg); ok {
			nested[pc.arg] = a
		}
	}
	// a predicate that walks the contained types itself (a work list instead of recursion): no nested answers to go by; the
	// specification is evaluated over the kinds the run decided for the type and for everything it contains
	if len(nested) == 0 && (kind == "*types.Struct" || kind == "*types.Array") && b.Known {
		nilBasic := false
		for _, d := range in.decisions {
			if strings.Contains(d.Sym, "UntypedNil") && d.Choice == 0 {
				nilBasic = true
			}
		}
		var spec func(o *VOpaque, depth int) int // 1 accepted, 0 refused, -1 not examined
		spec = func(o *VOpaque, depth int) int {
			if o == nil || depth > 6 {
				return -1
			}
			for _, d := range in.decisions {
				if (strings.Contains(d.Sym, "hasEqualMethod("+o.Origin+",)") || strings.Contains(d.Sym, "MethodInputParam("+o.Origin+",)")) && d.Choice == 0 {
					return 0
				}
			}
			uu := underlyingVal(o)
			if uu == nil {
				return -1
			}
			switch uu.Kind {
			case "*types.Basic":
				if nilBasic {
					return -1 // one of the basic components was the untyped nil: refused, but not known which
				}
				return 1
			case "*types.Struct":
				el, _ := uu.attrs["#elems"].(*VList)
				if el == nil {
					return -1
				}
				out := 1
				for _, e := range el.Elems {
					eo, _ := e.(*VOpaque)
					var ft *VOpaque
					if eo != nil {
						ft, _ = eo.attrs["Type"].(*VOpaque)
					}
					switch spec(ft, depth+1) {
					case 0:
						return 0
					case -1:
						out = -1
					}
				}
				return out
			case "*types.Array":
				e, _ := uu.attrs["Elem"].(*VOpaque)
				return spec(e, depth+1)
			case "":
				return -1
			}
			return 0
		}
		want := spec(arg, 0)
		switch {
		case b.V && want == 1, !b.V && want == 0, !b.V && want == -1:
			// (a refusal may stop at the first refused component; what was not examined then does not matter)
			c.Rep.pass("G9")
		case b.V && want == 0:
			fail(strings.TrimPrefix(kind, "*types."), "a "+strings.ToLower(strings.TrimPrefix(kind, "*types."))+" is accepted although it contains a component that must be refused")
		case b.V && want == -1:
			fail(strings.TrimPrefix(kind, "*types."), "a "+strings.ToLower(strings.TrimPrefix(kind, "*types."))+" is accepted although not every type it contains was examined")
		}
		return
	}
	switch kind {
	case "*types.Basic":
		if (b.Known && b.V) || (!b.Known && strings.Contains(b.Sym, ".Kind()")) {
			c.Rep.pass("G9")
		} else {
			fail("basic", "a basic type is not accepted")
		}
	case "*types.Struct":
		el, _ := u.attrs["#elems"].(*VList)
		nf := 0
		if el != nil {
			nf = len(el.Elems)
		}
		if !b.Known {
			fail("struct", "the answer for a struct is not determined by the answers for its fields ("+b.Sym+")")
			return
		}
		all := true
		asked := 0
		for _, a := range nested {
			asked++
			if !a {
				all = false
			}
		}
		switch {
		case b.V && (asked != nf || !all):
			fail("struct", fmt.Sprintf("a struct with %d fields is accepted although only %d fields were examined (all accepted: %v)", nf, asked, all))
		case !b.V && all:
			fail("struct", fmt.Sprintf("a struct with %d fields, all accepted, is rejected", nf))
		default:
			c.Rep.pass("G9")
		}
	case "*types.Array":
		want, have := false, false
		for _, a := range nested {
			want, have = a, true
		}
		if b.Known && have && b.V == want {
			c.Rep.pass("G9")
		} else if !b.Known && strings.HasPrefix(b.Sym, "pred:"+short+"(") && strings.Contains(b.Sym, ".Elem()") {
			// `return canEqual(typ.Elem())`: the answer is the nested call's answer
			c.Rep.pass("G9")
		} else {
			fail("array", "the answer for an array is not the answer for its element type")
		}
	default:
		if b.Known && !b.V {
			c.Rep.pass("G9")
		} else {
			k := kind
			if k == "" || k == "other" {
				k = "a kind outside {Basic, Struct, Array}"
			}
			fail("other", "a value of "+k+" is accepted (answer: "+boolDesc(b)+")")
		}
	}
}

func boolDesc(b VBool) string {
	if b.Known {
		return fmt.Sprint(b.V)
	}
	return "depends on " + b.Sym
}

// g9Zero tabulates derive.Zero: "nil" only for kinds that have a nil value, after Underlying().
func g9Zero(c *Ctx) {
	// the functions of package derive that the plugins ask for a zero value (derive.Zero, derive.ZeroOf, ...): every
	// package-level function of derive whose name starts with Zero and that a plugin calls
	used := map[*types.Func]bool{}
	for _, p := range c.Repo.Pkgs {
		if !strings.Contains(p.PkgPath, "/plugin/") {
			continue
		}
		for _, f := range p.Syntax {
			ast.Inspect(f, func(n ast.Node) bool {
				if call, ok := n.(*ast.CallExpr); ok {
					if fn, ok := callee(p.TypesInfo, call).(*types.Func); ok && fn.Pkg() != nil && strings.HasSuffix(fn.Pkg().Path(), "/derive") &&
						strings.HasPrefix(fn.Name(), "Zero") && fn.Type().(*types.Signature).Recv() == nil {
						used[fn] = true
					}
				}
				return true
			})
		}
	}
	var fis []*FuncInfo
	for fn := range used {
		if fi := c.Repo.Decls[fn]; fi != nil {
			fis = append(fis, fi)
		}
	}
	sort.Slice(fis, func(i, j int) bool { return fis[i].Fn.Name() < fis[j].Fn.Name() })
	if len(fis) == 0 {
		c.Rep.fail(Finding{Rule: "G9", Key: "G9|derive.Zero|missing", Kind: "undecided", Msg: "no zero-value function of package derive is called by a plugin (compose, fmap and join print zero values next to a returned error)"})
		return
	}
	for _, fi := range fis {
		g9ZeroFunc(c, fi)
	}
}

func g9ZeroFunc(c *Ctx, fi *FuncInfo) {
	or := &Oracle{}
	nilable := map[string]bool{"*types.Pointer": true, "*types.Slice": true, "*types.Map": true, "*types.Chan": true, "*types.Signature": true, "*types.Interface": true}
	for n := 0; n < 500; n++ {
		or.pos = 0
		in := &Interp{repo: c.Repo, plugin: "derive", decls: c.GDecls, or: or, memo: map[string]int{}, shape: 2,
			arities: []int{1}, preds: map[string]Value{}, stack: map[*ast.FuncDecl]int{}, imports: map[string]int{}, importUse: map[string]bool{}, holes: map[string]*Hole{}}
		arg := &VOpaque{Origin: "t"}
		var res Value
		msg := ""
		func() {
			defer func() {
				if e := recover(); e != nil {
					msg = fmt.Sprint(e)
				}
			}()
			args := []Value{arg}
			// further parameters: the text of the type (a TYPE hole), anything else is not understood
			sig := fi.Fn.Type().(*types.Signature)
			for i := 1; i < sig.Params().Len(); i++ {
				if b, ok := sig.Params().At(i).Type().(*types.Basic); !ok || b.Kind() != types.String {
					panic("parameter " + sig.Params().At(i).Name() + " of " + fi.Fn.Name() + " is not a string")
				}
				args = append(args, hole("TYPE", "t"))
			}
			res = in.callFunc(&VFunc{Decl: fi.Decl, Pkg: fi.Pkg}, args, token.NoPos)
		}()
		if msg != "" {
			c.Rep.fail(Finding{Rule: "G9", Key: "G9|derive.Zero|undecided", Kind: "undecided", Where: []string{c.Repo.pos(fi.Decl.Pos())}, Msg: "derive.Zero cannot be tabulated: " + msg})
			return
		}
		s, _ := res.(VStr)
		text, isLit := s.isLit()
		// which kind did this path establish? look at the value the switch was on: arg itself or its Underlying()
		kind := arg.Kind
		viaUnderlying := false
		if u, ok := arg.attrs["Underlying"].(*VOpaque); ok {
			kind, viaUnderlying = u.Kind, true
		}
		if isLit && text == "nil" {
			// the path's kind must be nilable, or unknown ("other") only when examined through Underlying()
			// among the basic kinds only unsafe.Pointer (and the untyped nil) have a nil value
			basicNil := false
			if kind == "*types.Basic" && viaUnderlying {
				for _, d := range in.decisions {
					if strings.Contains(d.Sym, ".Kind()") && d.Choice < len(d.Cands) && d.Choice < len(d.Cands)-1 {
						basicNil = true
						for _, one := range strings.Split(d.Cands[d.Choice], ",") {
							one = strings.TrimSpace(one)
							if one != "types.UnsafePointer" && one != "types.UntypedNil" {
								basicNil = false
							}
						}
					}
				}
			}
			switch {
			case nilable[kind] || basicNil:
				c.Rep.pass("G9")
			case (kind == "" || kind == "other") && viaUnderlying:
				// default arm after Underlying(): named types are already resolved; remaining non-nilable kinds are
				// Struct, Array (and Tuple): a genuine gap unless they have their own arm
				known := false
				for _, k := range arg.attrs["Underlying"].(*VOpaque).notKinds {
					if k == "*types.Struct" || k == "*types.Array" {
						known = true
					}
				}
				if known {
					c.Rep.pass("G9")
				} else {
					c.Rep.fail(Finding{Rule: "G9", Key: "G9|derive.Zero|nil-for-struct-array", Where: []string{c.Repo.pos(fi.Decl.Pos())},
						Msg: "derive.Zero returns \"nil\" for every non-basic underlying type, including struct and array types, which have no nil value: error-propagating helpers whose stages return structs or arrays emit `return nil, err` and do not compile"})
				}
			default:
				c.Rep.fail(Finding{Rule: "G9", Key: "G9|derive.Zero|nil-without-underlying", Where: []string{c.Repo.pos(fi.Decl.Pos())},
					Msg: "derive.Zero returns \"nil\" for a type it did not resolve with Underlying(): a named basic type (time.Duration) would get the zero value nil"})
			}
		} else {
			c.Rep.pass("G9")
		}
		if !or.next() {
			break
		}
	}
	_ = types.Typ
}

// g9Ordered tabulates the isOrdered predicates of min/max: true exactly for basic types whose Info() has IsOrdered.
func g9Ordered(c *Ctx, names ...string) {
	for _, name := range names {
		fi := c.Repo.lookup(name)
		if fi == nil {
			c.Rep.fail(Finding{Rule: "G9", Key: "G9|" + name + "|missing", Kind: "undecided", Msg: "predicate " + name + " not found (the rule that licenses `<`/`>` in min/max relies on it)"})
			continue
		}
		or := &Oracle{}
		for n := 0; n < 200; n++ {
			or.pos = 0
			in := &Interp{repo: c.Repo, plugin: "derive", decls: c.GDecls, or: or, memo: map[string]int{}, shape: 1, arities: []int{1},
				preds: map[string]Value{}, stack: map[*ast.FuncDecl]int{}, imports: map[string]int{}, importUse: map[string]bool{}, holes: map[string]*Hole{}, g9mode: true}
			arg := &VOpaque{Origin: "t"}
			var res Value
			msg := ""
			func() {
				defer func() {
					if e := recover(); e != nil {
						msg = fmt.Sprint(e)
					}
				}()
				res = in.callFunc(&VFunc{Decl: fi.Decl, Pkg: fi.Pkg}, []Value{arg}, token.NoPos)
			}()
			b, isBool := res.(VBool)
			switch {
			case msg != "" || !isBool:
				c.Rep.fail(Finding{Rule: "G9", Key: "G9|" + name + "|undecided", Kind: "undecided", Where: []string{c.Repo.pos(fi.Decl.Pos())}, Msg: name + " cannot be tabulated: " + msg})
			case arg.Kind == "*types.Basic":
				// with short-circuit evaluation the orderedness test has been decided by the oracle on this path
				asked := false
				for _, d := range in.decisions {
					if strings.Contains(d.Sym, "IsOrdered") {
						asked = true
						if (d.Choice == 0) != (b.Known && b.V) && b.Known {
							asked = false
						}
					}
				}
				if asked || (!b.Known && strings.Contains(b.Sym, "IsOrdered")) {
					c.Rep.pass("G9")
				} else {
					c.Rep.fail(Finding{Rule: "G9", Key: "G9|" + name + "|basic", Where: []string{c.Repo.pos(fi.Decl.Pos())},
						Msg: name + ": the answer for a basic type does not follow its IsOrdered flag (answer: " + boolDesc(b) + "): bool and complex values would be ordered with `<`/`>`"})
				}
			default:
				if b.Known && !b.V {
					c.Rep.pass("G9")
				} else {
					c.Rep.fail(Finding{Rule: "G9", Key: "G9|" + name + "|non-basic", Where: []string{c.Repo.pos(fi.Decl.Pos())}, Msg: name + ": a non-basic type is reported as ordered"})
				}
			}
			if !or.next() {
				break
			}
		}
	}
}

// G12 — (*call).HasUndefined is total over type constructors: a call whose argument type contains an unresolved
// ("invalid") constituent anywhere must be deferred, never handed to a plugin. The method is tabulated by abstract
// interpretation over one opaque argument type: on every path that answers "fully defined" (false) the method must have
// examined the whole type — through its String() rendering (which prints every constituent of an unnamed composite
// type), or by recursive calls on every constituent of the kind established on that path; a default arm that answers
// false for kinds that have constituents is a violation.
func g12HasUndefined(c *Ctx) {
	fi := c.Repo.lookup("derive.(*call).HasUndefined")
	if fi == nil {
		c.Rep.fail(Finding{Rule: "G12", Key: "G12|HasUndefined|missing", Kind: "undecided", Msg: "(*call).HasUndefined not found"})
		return
	}
	composite := []string{"*types.Pointer", "*types.Slice", "*types.Array", "*types.Chan", "*types.Map", "*types.Struct", "*types.Signature", "*types.Tuple"}
	constituents := map[string][]string{"*types.Pointer": {"Elem"}, "*types.Slice": {"Elem"}, "*types.Array": {"Elem"}, "*types.Chan": {"Elem"},
		"*types.Map": {"Key", "Elem"}, "*types.Signature": {"Params", "Results"}}
	or := &Oracle{}
	rows := 0
	for n := 0; n < 3000; n++ {
		or.pos = 0
		in := &Interp{repo: c.Repo, plugin: "derive", decls: c.GDecls, or: or, memo: map[string]int{}, shape: 1, arities: []int{1, 2},
			preds: map[string]Value{}, stack: map[*ast.FuncDecl]int{}, imports: map[string]int{}, importUse: map[string]bool{}, holes: map[string]*Hole{}, g9mode: true}
		arg := &VOpaque{Origin: "argtype"}
		recv := &VPtr{Elem: &VStruct{Fields: map[string]Value{"Expr": &VOpaque{Origin: "expr"}, "Name": hole("NAME", "callname"), "Args": &VList{Elems: []Value{arg}}}}}
		var res Value
		msg := ""
		func() {
			defer func() {
				if e := recover(); e != nil {
					if a, ok := e.(abort); ok {
						msg = a.kind + ": " + a.msg
						return
					}
					msg = fmt.Sprint(e)
				}
			}()
			res = in.callFunc(&VFunc{Decl: fi.Decl, Pkg: fi.Pkg, Recv: recv}, nil, token.NoPos)
		}()
		rows++
		desc := func() string {
			var ss []string
			for _, d := range in.decisions {
				ss = append(ss, fmt.Sprintf("%s=%d/%d", d.Sym, d.Choice, d.N))
			}
			return strings.Join(ss, "; ")
		}
		if msg != "" {
			c.Rep.fail(Finding{Rule: "G12", Key: "G12|HasUndefined|undecided", Kind: "undecided", Where: []string{c.Repo.pos(fi.Decl.Pos())}, Msg: "HasUndefined cannot be tabulated (" + msg + ")", Detail: desc()})
			return
		}
		b, ok := res.(VBool)
		if !ok {
			c.Rep.fail(Finding{Rule: "G12", Key: "G12|HasUndefined|result", Kind: "undecided", Where: []string{c.Repo.pos(fi.Decl.Pos())}, Msg: fmt.Sprintf("HasUndefined returned %T", res)})
			return
		}
		if !b.Known || b.V {
			c.Rep.pass("G12")
		} else {
			// answered "fully defined": what was examined?
			usedString := false
			for _, d := range in.decisions {
				if strings.Contains(d.Sym, ".String()") {
					usedString = true
				}
			}
			if usedString {
				c.Rep.pass("G12")
			} else {
				kind := arg.Kind
				bad := ""
				switch {
				case kind == "" || kind == "other":
					var missing []string
					for _, k := range composite {
						excluded := false
						for _, nk := range arg.notKinds {
							if nk == k {
								excluded = true
							}
						}
						if !excluded {
							missing = append(missing, strings.TrimPrefix(k, "*types."))
						}
					}
					if len(missing) > 0 {
						bad = "an argument of kind " + strings.Join(missing, "/") + " is reported as fully defined without looking at its constituents"
					}
				case kind == "*types.Struct" || kind == "*types.Tuple":
					el, _ := arg.attrs["#elems"].(*VList)
					asked := 0
					for _, pc := range in.predCalls {
						_ = pc
						asked++
					}
					if el == nil || asked < len(el.Elems) {
						bad = "a " + strings.TrimPrefix(kind, "*types.") + " argument is reported as fully defined although not all of its members were examined"
					}
				default:
					for _, attr := range constituents[kind] {
						sub, _ := arg.attrs[attr].(*VOpaque)
						found := false
						for _, pc := range in.predCalls {
							if pc.arg == sub && sub != nil {
								found = true
							}
						}
						if !found {
							bad = "a " + strings.TrimPrefix(kind, "*types.") + " argument is reported as fully defined without examining its " + attr
						}
					}
				}
				if bad == "" {
					c.Rep.pass("G12")
				} else {
					c.Rep.fail(Finding{Rule: "G12", Key: "G12|HasUndefined|" + strings.Fields(bad)[0] + " " + strings.Fields(bad)[1] + " " + strings.Fields(bad)[2], Where: []string{c.Repo.pos(fi.Decl.Pos())},
						Msg:    "(*call).HasUndefined: " + bad + ": a derive call whose argument type contains an unresolved type there is registered instead of deferred, and goderive exits 0 with `invalid type` in derived.gen.go",
						Detail: "abstract path: " + desc()})
				}
			}
		}
		if !or.next() {
			break
		}
	}
	c.Rep.analysed("HasUndefined_paths", rows)
}

// G13 — exportedness and import paths.
// (a) (*Field).Private is tabulated over the classes of first characters that Go's definition of an exported identifier
//
//	distinguishes (upper-case letter; lower-case letter; underscore; caseless letter): Private(name) == !token.IsExported(name).
//	The plugins choose between direct access and reflect/unsafe access to a field of an imported struct with it.
//
// (b) unvendor strips only whole `vendor` path elements: every search needle that mentions "vendor" is anchored by a
//
//	leading "/" or is used with HasPrefix.
func g13Fields(c *Ctx) {
	fi := c.Repo.lookup("derive.(*Field).Private")
	if fi == nil {
		c.Rep.fail(Finding{Rule: "G13", Key: "G13|Private|missing", Kind: "undecided", Msg: "(*Field).Private not found"})
	} else {
		for _, name := range []string{"Exported", "lower", "_under", "_", "世界", "Ünïcode", "ünïcode", "x", "X"} {
			in := &Interp{repo: c.Repo, plugin: "derive", decls: c.GDecls, or: &Oracle{}, memo: map[string]int{}, shape: 1, arities: []int{1},
				preds: map[string]Value{}, stack: map[*ast.FuncDecl]int{}, imports: map[string]int{}, importUse: map[string]bool{}, holes: map[string]*Hole{}, g9mode: true}
			recv := &VPtr{Elem: &VStruct{Fields: map[string]Value{"name": lit(name), "external": VBool{Sym: "external"}, "Type": &VOpaque{Origin: "fieldtype"}, "typeStr": VNil{}}}}
			var res Value
			msg := ""
			func() {
				defer func() {
					if e := recover(); e != nil {
						if a, ok := e.(abort); ok {
							msg = a.kind + ": " + a.msg
							return
						}
						msg = fmt.Sprint(e)
					}
				}()
				res = in.callFunc(&VFunc{Decl: fi.Decl, Pkg: fi.Pkg, Recv: recv}, nil, token.NoPos)
			}()
			b, ok := res.(VBool)
			want := !token.IsExported(name)
			switch {
			case msg != "" || !ok || !b.Known:
				c.Rep.fail(Finding{Rule: "G13", Key: "G13|Private|undecided", Kind: "undecided", Where: []string{c.Repo.pos(fi.Decl.Pos())},
					Msg: fmt.Sprintf("(*Field).Private cannot be tabulated for the field name %q (%s %v): it uses constructs outside the interpreter's string model", name, msg, res)})
			case b.V != want:
				c.Rep.fail(Finding{Rule: "G13", Key: fmt.Sprintf("G13|Private|class of %q", name), Where: []string{c.Repo.pos(fi.Decl.Pos())},
					Msg: fmt.Sprintf("(*Field).Private(%q) = %v but Go treats that field as %s: for a struct of another package the plugins would access it %s, and the generated code does not compile (or needlessly uses reflection)", name, b.V,
						map[bool]string{true: "unexported", false: "exported"}[want], map[bool]string{true: "directly", false: "through reflect/unsafe"}[want])})
			default:
				c.Rep.pass("G13")
			}
		}
	}
	uv := c.Repo.lookup("derive.unvendor")
	if uv == nil {
		c.Rep.fail(Finding{Rule: "G13", Key: "G13|unvendor|missing", Kind: "undecided", Msg: "derive.unvendor not found"})
		return
	}
	info := uv.Pkg.TypesInfo
	n := 0
	ast.Inspect(uv.Decl, func(x ast.Node) bool {
		call, ok := x.(*ast.CallExpr)
		if !ok {
			return true
		}
		fn, ok := callee(info, call).(*types.Func)
		if !ok || fn.Pkg() == nil || fn.Pkg().Path() != "strings" || len(call.Args) < 2 {
			return true
		}
		tv := info.Types[call.Args[1]]
		if tv.Value == nil {
			return true
		}
		needle := strings.Trim(tv.Value.ExactString(), `"`)
		if !strings.Contains(needle, "vendor") {
			return true
		}
		n++
		anchored := strings.HasPrefix(needle, "/") || fn.Name() == "HasPrefix"
		closed := strings.HasSuffix(needle, "/")
		if anchored && closed {
			c.Rep.pass("G13")
		} else {
			c.Rep.fail(Finding{Rule: "G13", Key: "G13|unvendor|unanchored " + fn.Name(), Where: []string{c.Repo.pos(call.Pos())},
				Msg: fmt.Sprintf("unvendor searches the import path with strings.%s(%q): the match is not confined to a whole `vendor` path element, so a directory such as `fruitvendor/` is cut out of the import path and the generated file imports a package that does not exist", fn.Name(), needle)})
		}
		return true
	})
	if n == 0 {
		c.Rep.fail(Finding{Rule: "G13", Key: "G13|unvendor|vacuity", Kind: "undecided", Where: []string{c.Repo.pos(uv.Decl.Pos())}, Msg: "unvendor no longer searches for vendor path elements with constant needles"})
	}
}

// G9b — method-lookup predicates (equalMethodInputParam, compareMethodInputParam, hasHashMethod, hasDeepCopyMethod):
// they decide whether a component's own method replaces the derived code. (1) they may only look at the methods
// declared on the named type itself (typ.Method(i), i < typ.NumMethods()): types.NewMethodSet / LookupFieldOrMethod also
// find methods promoted from embedded fields, whose receiver is only a part of the value; (2) tabulated by abstract
// interpretation: every path that answers "has the method" has tested the method's name, its parameter count, its result
// count and (where the contract fixes it) the basic kind of its result.
var kindCmpRe = regexp.MustCompile(`\.Kind\(\)(==|!=)(\d+)$`)

// methodResultKinds: predicate -> basic kinds (go/types numbering) of the method result that its accepting paths require.
var methodResultKinds = map[string][]int{}

func appendUniqueInt(l []int, k int) []int {
	for _, x := range l {
		if x == k {
			return l
		}
	}
	return append(l, k)
}

type methodSpec struct {
	fn       string
	method   string
	nparams  int
	nresults int
	kind     types.BasicKind // types.Invalid: no result kind to test
}

// methodPredicate: the function of a plugin that looks for the type's own method of the given name — by its documented
// name, or (after a rename) the one function of the plugin that walks NumMethods() and compares Name() with that name.
func methodPredicate(r *Repo, key, method string) *FuncInfo {
	if fi := r.lookup(key); fi != nil {
		return fi
	}
	plugin := key[:strings.Index(key, ".")]
	var found []*FuncInfo
	for _, fi := range r.sortedFuncs() {
		if !strings.HasPrefix(funcKey(fi.Fn), plugin+".") || fi.Decl.Recv != nil {
			continue
		}
		walks, names := false, false
		ast.Inspect(fi.Decl.Body, func(n ast.Node) bool {
			switch x := n.(type) {
			case *ast.SelectorExpr:
				if x.Sel.Name == "NumMethods" {
					walks = true
				}
			case *ast.BasicLit:
				if x.Value == strconv.Quote(method) {
					names = true
				}
			}
			return true
		})
		if walks && names {
			found = append(found, fi)
		}
	}
	if len(found) == 1 {
		return found[0]
	}
	return nil
}

// methodPredicateName: the bare name of that function (what decisions and predicate calls are recorded under).
func methodPredicateName(r *Repo, key, method string) string {
	if fi := methodPredicate(r, key, method); fi != nil {
		return fi.Fn.Name()
	}
	return key[strings.Index(key, ".")+1:]
}

func g9Methods(c *Ctx, specs ...methodSpec) {
	for _, sp := range specs {
		fi := methodPredicate(c.Repo, sp.fn, sp.method)
		if fi == nil {
			c.Rep.fail(Finding{Rule: "G9", Key: "G9|" + sp.fn + "|missing", Kind: "undecided", Msg: "method predicate " + sp.fn + " not found"})
			continue
		}
		info := fi.Pkg.TypesInfo
		banned := ""
		ast.Inspect(fi.Decl, func(n ast.Node) bool {
			call, ok := n.(*ast.CallExpr)
			if !ok {
				return true
			}
			if fn, ok := callee(info, call).(*types.Func); ok && fn.Pkg() != nil && fn.Pkg().Path() == "go/types" {
				switch fn.Name() {
				case "NewMethodSet", "LookupFieldOrMethod", "MissingMethod", "Implements", "Lookup":
					banned = fn.Name()
				}
			}
			return true
		})
		if banned != "" {
			c.Rep.fail(Finding{Rule: "G9", Key: "G9|" + sp.fn + "|promoted-methods", Where: []string{c.Repo.pos(fi.Decl.Pos())},
				Msg: fmt.Sprintf("%s looks the %s method up with types.%s, which also finds methods promoted from embedded fields: a struct that merely embeds a type with a %s method would be handled by that method, which sees only the embedded part of the value", sp.fn, sp.method, banned, sp.method)})
			continue
		}
		or := &Oracle{}
		accepted := 0
		for n := 0; n < 4000; n++ {
			or.pos = 0
			ar := []int{1, 0, 2}
			in := &Interp{repo: c.Repo, plugin: "derive", decls: c.GDecls, or: or, memo: map[string]int{}, shape: 1, arities: ar,
				preds: map[string]Value{}, stack: map[*ast.FuncDecl]int{}, imports: map[string]int{}, importUse: map[string]bool{}, holes: map[string]*Hole{}, g9mode: true}
			arg := &VOpaque{Origin: "t", Kind: "*types.Named"}
			var res Value
			msg := ""
			func() {
				defer func() {
					if e := recover(); e != nil {
						if a, ok := e.(abort); ok {
							msg = a.kind + ": " + a.msg
							return
						}
						msg = fmt.Sprint(e)
					}
				}()
				res = in.callFunc(&VFunc{Decl: fi.Decl, Pkg: fi.Pkg}, []Value{arg}, token.NoPos)
			}()
			if msg != "" {
				c.Rep.fail(Finding{Rule: "G9", Key: "G9|" + sp.fn + "|undecided", Kind: "undecided", Where: []string{c.Repo.pos(fi.Decl.Pos())}, Msg: sp.fn + " cannot be tabulated: " + msg})
				break
			}
			yes := false
			switch v := res.(type) {
			case VBool:
				yes = v.Known && v.V
				if !v.Known {
					yes = true // depends on something unmodelled: treat as a possible acceptance
				}
			case *VPtr:
				yes = true
			case VNil:
			case VTuple:
				// (parameter type, found): the last result says whether the method was found
				yes = true
				if len(v.Vals) > 0 {
					if b, ok := v.Vals[len(v.Vals)-1].(VBool); ok && b.Known && !b.V {
						yes = false
					}
				}
			default:
				yes = true
			}
			if !yes {
				// completeness: a method with the right name, arity and result kind must be recognised whatever else is true of it
				// (its parameter may be the type itself, a pointer, an interface literal or a declared interface type): a rejecting
				// path on which one method passed every shape test was turned down by a further test
				for k := 0; k < 3; k++ {
					mk := fmt.Sprintf("t[%d]", k)
					hasM := func(pred func(d Decision) bool) bool {
						for _, d := range in.decisions {
							if strings.Contains(d.Sym, mk) && pred(d) {
								return true
							}
						}
						return false
					}
					nameOK := hasM(func(d Decision) bool {
						if !strings.Contains(d.Sym, ".Name()") || !strings.HasSuffix(strings.TrimPrefix(d.Sym, "B:"), sp.method) {
							return false
						}
						neq := strings.Contains(d.Sym, "!="+sp.method)
						return (neq && d.Choice == 1) || (!neq && d.Choice == 0)
					})
					arityOK := func(which string, want int) bool {
						return hasM(func(d Decision) bool {
							return strings.HasPrefix(d.Sym, "N:") && strings.HasSuffix(d.Sym, "."+which+"()") && d.Choice < len(ar) && ar[d.Choice] == want
						})
					}
					kindOK := true
					if sp.kind != types.Invalid {
						kk := fmt.Sprint(int(sp.kind))
						kindOK = hasM(func(d Decision) bool {
							if !strings.Contains(d.Sym, ".Kind()") {
								return false
							}
							neq := strings.HasSuffix(d.Sym, "!="+kk)
							eq := strings.HasSuffix(d.Sym, "=="+kk)
							return (neq && d.Choice == 1) || (eq && d.Choice == 0)
						})
					}
					if sp.kind == types.Invalid && hasM(func(d Decision) bool { return strings.Contains(d.Sym, ".Results()[") }) {
						// the predicate is free to restrict the result type where the specification leaves it open (Hash)
						kindOK = false
					}
					if nameOK && arityOK("Params", sp.nparams) && arityOK("Results", sp.nresults) && kindOK {
						var ss []string
						for _, d := range in.decisions {
							ss = append(ss, fmt.Sprintf("%s=%d/%d", d.Sym, d.Choice, d.N))
						}
						c.Rep.fail(Finding{Rule: "G9", Key: "G9|" + sp.fn + "|rejects a method of the right shape", Where: []string{c.Repo.pos(fi.Decl.Pos())},
							Msg:    fmt.Sprintf("%s does not recognise a method called %s with %d parameter(s) and %d result(s) of the right kind because of a further test on it: the type's own method is then silently ignored and the component is compared (hashed, copied) structurally, although the method decides wherever it is recognised", sp.fn, sp.method, sp.nparams, sp.nresults),
							Detail: "path: " + strings.Join(ss, "; ")})
						break
					}
				}
			}
			if yes {
				accepted++
				// the basic kind of the method's result that this accepting path insisted on (if any)
				for _, d := range in.decisions {
					if !strings.Contains(d.Sym, ".Kind()") {
						continue
					}
					if m := kindCmpRe.FindStringSubmatch(d.Sym); m != nil {
						k, _ := strconv.Atoi(m[2])
						if (m[1] == "!=" && d.Choice == 1) || (m[1] == "==" && d.Choice == 0) {
							methodResultKinds[sp.fn] = appendUniqueInt(methodResultKinds[sp.fn], k)
						}
					}
				}
				var missing []string
				has := func(pred func(d Decision) bool) bool {
					for _, d := range in.decisions {
						if pred(d) {
							return true
						}
					}
					return false
				}
				// name test: a comparison of a method's Name() with the literal, taken on its "equal" outcome
				if !has(func(d Decision) bool {
					if !strings.Contains(d.Sym, ".Name()") || !strings.HasSuffix(strings.TrimPrefix(d.Sym, "B:"), sp.method) {
						return false
					}
					neq := strings.Contains(d.Sym, "!="+sp.method)
					return (neq && d.Choice == 1) || (!neq && d.Choice == 0)
				}) {
					missing = append(missing, "the method's name")
				}
				arity := func(which string, want int) bool {
					return has(func(d Decision) bool {
						return strings.HasPrefix(d.Sym, "N:") && strings.HasSuffix(d.Sym, "."+which+"()") && d.Choice < len(ar) && ar[d.Choice] == want
					})
				}
				if !arity("Params", sp.nparams) {
					missing = append(missing, fmt.Sprintf("that it takes %d parameter(s)", sp.nparams))
				}
				if !arity("Results", sp.nresults) {
					missing = append(missing, fmt.Sprintf("that it has %d result(s)", sp.nresults))
				}
				if sp.kind != types.Invalid {
					k := fmt.Sprint(int(sp.kind))
					if !has(func(d Decision) bool {
						if !strings.Contains(d.Sym, ".Kind()") {
							return false
						}
						neq := strings.HasSuffix(d.Sym, "!="+k)
						eq := strings.HasSuffix(d.Sym, "=="+k)
						return (neq && d.Choice == 1) || (eq && d.Choice == 0)
					}) {
						missing = append(missing, "the basic kind of its result")
					}
				}
				if len(missing) == 0 {
					c.Rep.pass("G9")
				} else {
					var ss []string
					for _, d := range in.decisions {
						ss = append(ss, fmt.Sprintf("%s=%d/%d", d.Sym, d.Choice, d.N))
					}
					c.Rep.fail(Finding{Rule: "G9", Key: "G9|" + sp.fn + "|unchecked " + strings.Join(missing, ","), Where: []string{c.Repo.pos(fi.Decl.Pos())},
						Msg:    fmt.Sprintf("%s accepts a method as the type's own %s without having tested %s: a method of a different shape would be called by the generated code (compile error or wrong semantics)", sp.fn, sp.method, strings.Join(missing, " and ")),
						Detail: "abstract path: " + strings.Join(ss, "; ")})
				}
			}
			if !or.next() {
				break
			}
		}
		if accepted == 0 {
			c.Rep.fail(Finding{Rule: "G9", Key: "G9|" + sp.fn + "|never-accepts", Kind: "undecided", Where: []string{c.Repo.pos(fi.Decl.Pos())}, Msg: sp.fn + ": no abstract path finds a method (the tabulation is vacuous)"})
		}
	}
}
