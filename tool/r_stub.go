package main

func runR_C01(c *Ctx) {}
func runR_C09(c *Ctx) {}
func runR_C12(c *Ctx) {}
