package main

func runR_C01(c *Ctx) {
	ps := c.Repo.Plugins
	sweepHealth(c, ps...)
	rR1(c, ps...)
	rR2(c, ps...)
	rR3(c, ps...)
	rGenerating(c, ps...)
	rHelperArity(c, ps...)
	rUnusedTypeString(c, ps...)
	rDepValidation(c, ps...)
	rR4(c, ps...)
}

func runR_C09(c *Ctx) {
	ps := c.Repo.Plugins
	sweepHealth(c, ps...)
	rPanics(c, ps...)
	rDepValidation(c, ps...)
	rR1(c, ps...)
	rUnsupportedKinds(c, "equal", "compare", "hash", "deepcopy", "gostring")
	rR4(c, ps...)
}

func runR_C12(c *Ctx) {
	ps := c.Repo.Plugins
	sweepHealth(c, ps...)
	rR2prefix(c, ps...)
}
