package main

import (
	"fmt"
	"go/ast"
	"go/token"
	"go/types"

	"golang.org/x/tools/go/cfg"
)

// G1 — error discipline: every error produced by a call in main/derive/plugin/* is returned, wrapped and
// returned, or tested with the non-nil branch ending in a non-nil error return / fatal exit.
//
// Accepted idioms (frozen after reading the tree; keyed by callee + caller, one reason each):
var g1Allow = map[string]string{
	"(*bytes.Buffer).WriteString|derive.(*printer).WriteTo":         "bytes.Buffer writes cannot fail (documented: err is always nil)",
	"fmt.Fprintf|derive.(*printer).P":                               "destination is the printer's *bytes.Buffer; cannot fail",
	"(derive.TypesMap).SetFuncName|derive.(*typesMap).GetFuncName":  "name comes from newName: unbound in both tables, so registration cannot fail",
	"(*derive.typesMap).SetFuncName|derive.(*typesMap).GetFuncName": "name comes from newName: unbound in both tables, so registration cannot fail",
	"(*os.File).Close|derive.newPackage":                            "deferred close of the rewritten source file after format.Node's own error was checked (I/O-error atomicity is outside C10's static clause)",
}

// classification calls that legitimise recovering from an error
func isClassifier(info *types.Info, c *ast.CallExpr) bool {
	o := callee(info, c)
	fn, ok := o.(*types.Func)
	if !ok || fn.Pkg() == nil {
		return false
	}
	switch fn.Pkg().Path() + "." + fn.Name() {
	case "os.IsNotExist", "os.IsExist", "os.IsPermission", "errors.Is", "errors.As":
		return true
	}
	return false
}

func calleeName(o types.Object) string {
	if fn, ok := o.(*types.Func); ok {
		sig := fn.Type().(*types.Signature)
		if sig.Recv() != nil {
			t := sig.Recv().Type()
			return fmt.Sprintf("(%s).%s", types.TypeString(t, func(p *types.Package) string { return p.Name() }), fn.Name())
		}
		if fn.Pkg() != nil {
			return fn.Pkg().Name() + "." + fn.Name()
		}
		return fn.Name()
	}
	if o != nil {
		return o.Name()
	}
	return "<dynamic>"
}

// writesToMemoryOnly: a write whose destination is an in-memory buffer cannot fail — the Write* methods of bytes.Buffer
// and strings.Builder always return a nil error (documented), and fmt.Fprint/Fprintf/Fprintln return the error of the
// destination's Write, so with a *bytes.Buffer or *strings.Builder destination (by static type) they cannot fail either.
func writesToMemoryOnly(info *types.Info, c *ast.CallExpr, o types.Object) bool {
	fn, ok := o.(*types.Func)
	if !ok || fn.Pkg() == nil {
		return false
	}
	isMem := func(t types.Type) bool {
		if p, ok := t.(*types.Pointer); ok {
			t = p.Elem()
		}
		n, ok := t.(*types.Named)
		if !ok || n.Obj().Pkg() == nil {
			return false
		}
		q := n.Obj().Pkg().Path() + "." + n.Obj().Name()
		return q == "bytes.Buffer" || q == "strings.Builder"
	}
	sig := fn.Type().(*types.Signature)
	if sig.Recv() != nil {
		switch fn.Name() {
		case "Write", "WriteString", "WriteByte", "WriteRune":
			return isMem(sig.Recv().Type())
		}
		return false
	}
	if fn.Pkg().Path() == "fmt" && (fn.Name() == "Fprintf" || fn.Name() == "Fprint" || fn.Name() == "Fprintln") && len(c.Args) > 0 {
		if t := info.TypeOf(c.Args[0]); t != nil {
			return isMem(t)
		}
	}
	return false
}

// errIndex returns the index of the trailing error result of a call, or -1.
func errIndex(info *types.Info, c *ast.CallExpr) (int, int) {
	t := info.TypeOf(c)
	if t == nil {
		return -1, 0
	}
	if tup, ok := t.(*types.Tuple); ok {
		n := tup.Len()
		if n > 0 && isErrorType(tup.At(n-1).Type()) {
			return n - 1, n
		}
		return -1, n
	}
	if isErrorType(t) {
		return 0, 1
	}
	return -1, 1
}

func runG1(r *Repo, rep *Report) {
	for _, b := range r.bodies() {
		g1Body(r, rep, b)
	}
}

func g1Body(r *Repo, rep *Report, b *Body) {
	info := b.Pkg.TypesInfo
	var graph *Graph
	getGraph := func() *Graph {
		if graph == nil {
			graph = newGraph(b.Block, mayReturnFn(info))
		}
		return graph
	}
	report := func(kind string, c *ast.CallExpr, o types.Object, msg string, extra ...token.Pos) {
		where := []string{r.pos(c.Pos())}
		for _, p := range extra {
			where = append(where, r.pos(p))
		}
		rep.fail(Finding{Rule: "G1", Key: fmt.Sprintf("G1|%s|%s|%s", b.Name, calleeName(o), kind), Where: where,
			Msg: fmt.Sprintf("%s: error from %s %s", b.Name, calleeName(o), msg)})
	}
	inspectOwn(b.Block, func(n ast.Node) bool {
		c, ok := n.(*ast.CallExpr)
		if !ok {
			return true
		}
		if tv, ok := info.Types[c.Fun]; ok && tv.IsType() {
			return true
		}
		ei, nres := errIndex(info, c)
		if ei < 0 {
			return true
		}
		o := callee(info, c)
		rep.distinct("G1@" + r.pos(c.Pos()))
		if writesToMemoryOnly(info, c, o) {
			// documented never to return a non-nil error: there is nothing to drop
			rep.pass("G1")
			return true
		}
		allowKey := calleeName(o) + "|" + b.Name
		par := b.Parent[c]
		for {
			if p, ok := par.(*ast.ParenExpr); ok {
				par = b.Parent[p]
				continue
			}
			break
		}
		switch p := par.(type) {
		case *ast.ReturnStmt:
			// return f(...) / return x, f(...): propagated as is
			rep.pass("G1")
			return true
		case *ast.ExprStmt:
			if _, ok := g1Allow[allowKey]; ok {
				rep.pass("G1")
				return true
			}
			if isNoReturn(info, c) {
				rep.pass("G1")
				return true
			}
			report("dropped", c, o, "is dropped (call used as a statement)")
			return true
		case *ast.DeferStmt, *ast.GoStmt:
			if _, ok := g1Allow[allowKey]; ok {
				rep.pass("G1")
				return true
			}
			report("dropped", c, o, "is dropped (deferred/spawned call)")
			return true
		case *ast.CallExpr:
			// f(g()) with g's results spread, or error passed as an argument (fmt.Errorf("..", errors.New(..)))
			rep.pass("G1")
			return true
		case *ast.AssignStmt:
			var lhs ast.Expr
			if len(p.Rhs) == 1 && len(p.Lhs) == nres {
				lhs = p.Lhs[ei]
			} else {
				for i, rh := range p.Rhs {
					if ast.Unparen(rh) == c && i < len(p.Lhs) {
						lhs = p.Lhs[i]
					}
				}
			}
			g1Assigned(r, rep, b, getGraph(), c, o, lhs, p, allowKey, report)
			return true
		case *ast.ValueSpec:
			var lhs ast.Expr
			if len(p.Values) == 1 && len(p.Names) == nres {
				lhs = p.Names[ei]
			}
			g1Assigned(r, rep, b, getGraph(), c, o, lhs, p, allowKey, report)
			return true
		}
		// any other context (binary expression, composite literal, ...): the value is used as data
		if nres == 1 {
			rep.pass("G1")
			return true
		}
		report("unrecognised", c, o, "is used in a context the rule does not know")
		return true
	})
}

func g1Assigned(r *Repo, rep *Report, b *Body, g *Graph, c *ast.CallExpr, o types.Object, lhs ast.Expr, def ast.Node, allowKey string,
	report func(string, *ast.CallExpr, types.Object, string, ...token.Pos)) {
	info := b.Pkg.TypesInfo
	id, ok := lhs.(*ast.Ident)
	if !ok || lhs == nil {
		// stored into a field / element: treat as data
		rep.pass("G1")
		return
	}
	if id.Name == "_" {
		if _, ok := g1Allow[allowKey]; ok {
			rep.pass("G1")
			return
		}
		report("blank", c, o, "is assigned to the blank identifier")
		return
	}
	var v types.Object = info.Defs[id]
	if v == nil {
		v = info.Uses[id]
	}
	if v == nil {
		report("unrecognised", c, o, "is assigned to an unresolved identifier")
		return
	}
	// forward walk from the definition
	blk, idx := g.locate(c.Pos())
	if blk == nil {
		// unreachable code
		rep.pass("G1")
		return
	}
	type item struct {
		b *cfg.Block
		i int
	}
	okAll := true
	var walk func(v types.Object, blk *cfg.Block, idx int)
	walk = func(v types.Object, blk *cfg.Block, idx int) {
		seen := map[*cfg.Block]bool{}
		work := []item{{blk, idx}}
		for len(work) > 0 && okAll {
			it := work[len(work)-1]
			work = work[:len(work)-1]
			consumed := false
			for i := it.i; i < len(it.b.Nodes) && !consumed; i++ {
				n := it.b.Nodes[i]
				if !usesVar(info, n, v) && !isBareReturnOfNamed(b, n, v) {
					if as, ok := n.(*ast.AssignStmt); ok && assignsVar(info, as, v) {
						report("overwritten", c, o, "is overwritten before it is examined", n.Pos())
						okAll = false
						consumed = true
					}
					if ret, ok := n.(*ast.ReturnStmt); ok {
						report("unchecked", c, o, "is not examined on a path to this return", ret.Pos())
						okAll = false
						consumed = true
					}
					continue
				}
				switch x := n.(type) {
				case *ast.ReturnStmt:
					consumed = true
				case ast.Expr:
					// a condition
					if i == len(it.b.Nodes)-1 && len(it.b.Succs) == 2 {
						// if errors.Is(err, X) { … } / if os.IsNotExist(err) { … }: the branch for the recognised kind of error
						// has examined it (classification legitimises recovering); the other branch still owes the examination
						if neg, ok := classifierCond(info, x, v); ok {
							consumed = true
							other := it.b.Succs[1]
							if neg {
								other = it.b.Succs[0]
							}
							if !seen[other] {
								seen[other] = true
								work = append(work, item{other, 0})
							}
							break
						}
						if op, ok := findNilCompare(info, x, v); ok {
							consumed = true
							if !g1NonNilSide(r, rep, b, x, op, v, c, o, report) {
								okAll = false
							}
							break
						}
					}
					// other use: keep walking
				default:
					// statement using v: assignment wrapping it (err = fmt.Errorf("..", err)) re-defines v from a call that
					// is itself checked as its own instance; passing it to a no-return call consumes it.
					if es, ok := n.(*ast.ExprStmt); ok {
						if call, ok := es.X.(*ast.CallExpr); ok && isNoReturn(info, call) {
							consumed = true
						}
					}
					if as, ok := n.(*ast.AssignStmt); ok && assignsVar(info, as, v) {
						consumed = true
					}
					// a plain copy (w := v, w = v, var w T = v): the obligation moves to w
					if w := copyOf(info, n, v); w != nil && !consumed {
						consumed = true
						walk(w, it.b, i+1)
					}
				}
			}
			if consumed {
				continue
			}
			if len(it.b.Succs) == 0 {
				// fell off the function end (or no-return call)
				if blockEndsNoReturn(info, it.b) {
					continue
				}
				report("unchecked", c, o, "is not examined on a path to the end of the function")
				okAll = false
				continue
			}
			for _, s := range it.b.Succs {
				if !seen[s] {
					seen[s] = true
					work = append(work, item{s, 0})
				}
			}
		}
	}
	walk(v, blk, idx+1)
	if okAll {
		rep.pass("G1")
	}
}

// classifierCond: e is classifier(v, …) or its negation (errors.Is, errors.As, os.IsNotExist, …).
func classifierCond(info *types.Info, e ast.Expr, v types.Object) (neg bool, ok bool) {
	e = ast.Unparen(e)
	if u, isU := e.(*ast.UnaryExpr); isU && u.Op == token.NOT {
		neg = true
		e = ast.Unparen(u.X)
	}
	c, isCall := e.(*ast.CallExpr)
	if !isCall || !isClassifier(info, c) || len(c.Args) == 0 {
		return false, false
	}
	id, isID := ast.Unparen(c.Args[0]).(*ast.Ident)
	if !isID || info.Uses[id] != v {
		return false, false
	}
	return neg, true
}

// copyOf: n is a statement that does nothing with v but copy it into another local variable, which is returned.
func copyOf(info *types.Info, n ast.Node, v types.Object) types.Object {
	isV := func(e ast.Expr) bool {
		id, ok := ast.Unparen(e).(*ast.Ident)
		return ok && info.Uses[id] == v
	}
	obj := func(id *ast.Ident) types.Object {
		if id.Name == "_" {
			return nil
		}
		if o := info.Defs[id]; o != nil {
			return o
		}
		return info.Uses[id]
	}
	switch x := n.(type) {
	case *ast.AssignStmt:
		if len(x.Lhs) == len(x.Rhs) {
			for i := range x.Rhs {
				if isV(x.Rhs[i]) {
					if id, ok := x.Lhs[i].(*ast.Ident); ok {
						return obj(id)
					}
				}
			}
		}
	case *ast.ValueSpec:
		if len(x.Names) == len(x.Values) {
			for i := range x.Values {
				if isV(x.Values[i]) {
					return obj(x.Names[i])
				}
			}
		}
	case *ast.DeclStmt:
		if gd, ok := x.Decl.(*ast.GenDecl); ok {
			for _, sp := range gd.Specs {
				if vs, ok := sp.(*ast.ValueSpec); ok && len(vs.Names) == len(vs.Values) {
					for i := range vs.Values {
						if isV(vs.Values[i]) {
							return obj(vs.Names[i])
						}
					}
				}
			}
		}
	}
	return nil
}

func blockEndsNoReturn(info *types.Info, b *cfg.Block) bool {
	if len(b.Nodes) == 0 {
		return false
	}
	if es, ok := b.Nodes[len(b.Nodes)-1].(*ast.ExprStmt); ok {
		if c, ok := es.X.(*ast.CallExpr); ok {
			return isNoReturn(info, c)
		}
	}
	return false
}

func isBareReturnOfNamed(b *Body, n ast.Node, v types.Object) bool {
	ret, ok := n.(*ast.ReturnStmt)
	if !ok || len(ret.Results) != 0 || b.Type.Results == nil {
		return false
	}
	for _, f := range b.Type.Results.List {
		for _, nm := range f.Names {
			if b.Pkg.TypesInfo.Defs[nm] == v {
				return true
			}
		}
	}
	return false
}

func assignsVar(info *types.Info, as *ast.AssignStmt, v types.Object) bool {
	for _, l := range as.Lhs {
		if id, ok := l.(*ast.Ident); ok && (info.Uses[id] == v || info.Defs[id] == v) {
			return true
		}
	}
	return false
}

// findNilCompare finds `v ==/!= nil` as the condition or as a conjunct/disjunct of it.
func findNilCompare(info *types.Info, e ast.Expr, v types.Object) (token.Token, bool) {
	if op, ok := nilCompare(info, e, v); ok {
		return op, true
	}
	return 0, false
}

// g1NonNilSide checks the branch taken when v != nil: it must end in a non-nil error return or a fatal call,
// and must not return a nil error unless under a classification guard on v.
func g1NonNilSide(r *Repo, rep *Report, b *Body, cond ast.Expr, op token.Token, v types.Object, c *ast.CallExpr, o types.Object,
	report func(string, *ast.CallExpr, types.Object, string, ...token.Pos)) bool {
	info := b.Pkg.TypesInfo
	ifs, ok := b.Parent[cond].(*ast.IfStmt)
	for !ok {
		p := b.Parent[cond]
		if pe, isParen := p.(*ast.ParenExpr); isParen {
			cond = pe
			ifs, ok = b.Parent[cond].(*ast.IfStmt)
			continue
		}
		break
	}
	var side []ast.Stmt
	if ifs == nil {
		// a case of a tagless switch is the condition of an if / else-if chain
		if cc, isCase := b.Parent[cond].(*ast.CaseClause); isCase && len(cc.List) == 1 {
			if blk, isBlk := b.Parent[cc].(*ast.BlockStmt); isBlk {
				if sw, isSw := b.Parent[blk].(*ast.SwitchStmt); isSw && sw.Tag == nil {
					idx := -1
					for i, cl := range sw.Body.List {
						if cl == ast.Stmt(cc) {
							idx = i
						}
					}
					if idx >= 0 {
						after := stmtsAfter(b, sw)
						if op == token.NEQ {
							side = append(append([]ast.Stmt{}, cc.Body...), after...)
							if terminates(info, cc.Body) {
								side = cc.Body
							}
						} else {
							if !terminates(info, cc.Body) {
								report("unrecognised", c, o, "is tested with == nil but both outcomes continue", cond.Pos())
								return false
							}
							rest := &ast.SwitchStmt{Switch: sw.Switch, Body: &ast.BlockStmt{Lbrace: sw.Body.Lbrace, List: sw.Body.List[idx+1:], Rbrace: sw.Body.Rbrace}}
							side = append([]ast.Stmt{rest}, after...)
						}
						return g1SideOK(b, side, v, c, o, cond, report)
					}
				}
			}
		}
		report("unrecognised", c, o, "is compared with nil outside an if statement", cond.Pos())
		return false
	}
	if op == token.NEQ {
		side = ifs.Body.List
	} else {
		// v == nil {A} else {B}: B is the non-nil side; without else, the code after the if is.
		// an else branch that does not leave goes on with what follows the whole if statement
		withRest := func(l []ast.Stmt) []ast.Stmt {
			if terminates(info, l) {
				return l
			}
			return append(append([]ast.Stmt{}, l...), stmtsAfter(b, ifs)...)
		}
		switch e := ifs.Else.(type) {
		case *ast.BlockStmt:
			side = withRest(e.List)
		case *ast.IfStmt:
			side = withRest([]ast.Stmt{e})
		default:
			// `if err == nil { … }` without else: when the error is not nil the body is skipped and what follows the if runs
			// (whether or not the body, on the other outcome, falls through to it as well)
			side = stmtsAfter(b, ifs)
			if len(side) == 0 {
				report("unrecognised", c, o, "is tested with == nil but both outcomes continue", cond.Pos())
				return false
			}
		}
	}
	return g1SideOK(b, side, v, c, o, cond, report)
}

// g1SideOK judges the statements that run when the error is not nil.
func g1SideOK(b *Body, side []ast.Stmt, v types.Object, c *ast.CallExpr, o types.Object, cond ast.Expr,
	report func(string, *ast.CallExpr, types.Object, string, ...token.Pos)) bool {
	info := b.Pkg.TypesInfo
	ok2 := true
	// (1) no nil-error return in the non-nil region unless classified
	var walk func(list []ast.Stmt, classified bool)
	walk = func(list []ast.Stmt, classified bool) {
		for _, s := range list {
			switch x := s.(type) {
			case *ast.ReturnStmt:
				if !classified && returnsNilError(b, x) {
					report("swallowed", c, o, "is swallowed: the error branch returns a nil error", x.Pos())
					ok2 = false
				}
			case *ast.IfStmt:
				cl := classified
				if nodeHas(x.Cond, func(m ast.Node) bool {
					cc, ok := m.(*ast.CallExpr)
					return ok && isClassifier(info, cc) && usesVar(info, cc, v)
				}) {
					cl = true
				}
				// if !classifier(err) { return …, err }: what follows is reached only for the recognised kind of error
				if u, isNot := ast.Unparen(x.Cond).(*ast.UnaryExpr); isNot && u.Op == token.NOT && x.Else == nil && terminates(info, x.Body.List) {
					if cc, isCall := ast.Unparen(u.X).(*ast.CallExpr); isCall && isClassifier(info, cc) && usesVar(info, cc, v) {
						walk(x.Body.List, classified)
						classified = true
						continue
					}
				}
				walk(x.Body.List, cl)
				switch e := x.Else.(type) {
				case *ast.BlockStmt:
					walk(e.List, classified)
				case *ast.IfStmt:
					walk([]ast.Stmt{e}, classified)
				}
			case *ast.BlockStmt:
				walk(x.List, classified)
			case *ast.ForStmt:
				walk(x.Body.List, classified)
			case *ast.RangeStmt:
				walk(x.Body.List, classified)
			case *ast.SwitchStmt:
				for _, cc := range x.Body.List {
					cl := classified
					if x.Tag == nil {
						for _, ce := range cc.(*ast.CaseClause).List {
							if nodeHas(ce, func(m ast.Node) bool {
								k, ok := m.(*ast.CallExpr)
								return ok && isClassifier(info, k) && usesVar(info, k, v)
							}) {
								cl = true
							}
						}
					}
					walk(cc.(*ast.CaseClause).Body, cl)
				}
			}
		}
	}
	walk(side, false)
	// (2) the region must not fall through into the success path
	if !terminates(info, side) {
		report("continues", c, o, "is tested but the error branch continues into the success path", cond.Pos())
		ok2 = false
	}
	return ok2
}

func stmtsAfter(b *Body, s ast.Stmt) []ast.Stmt {
	if blk, ok := b.Parent[s].(*ast.BlockStmt); ok {
		for i, x := range blk.List {
			if x == s {
				return blk.List[i+1:]
			}
		}
	}
	return nil
}

// terminates: the statement list always ends in return / no-return call. `continue`/`break` do not count: an error branch
// that stays inside a work loop neither reports the error nor guarantees progress (no such idiom exists in the tree).
func terminates(info *types.Info, list []ast.Stmt) bool {
	if len(list) == 0 {
		return false
	}
	switch x := list[len(list)-1].(type) {
	case *ast.ReturnStmt:
		return true
	case *ast.ExprStmt:
		if c, ok := x.X.(*ast.CallExpr); ok {
			return isNoReturn(info, c)
		}
	case *ast.BlockStmt:
		return terminates(info, x.List)
	case *ast.IfStmt:
		if x.Else == nil {
			return false
		}
		var els []ast.Stmt
		switch e := x.Else.(type) {
		case *ast.BlockStmt:
			els = e.List
		case *ast.IfStmt:
			els = []ast.Stmt{e}
		}
		return terminates(info, x.Body.List) && terminates(info, els)
	}
	return false
}

// returnsNilError: the return statement yields the nil constant at the function's error result position.
func returnsNilError(b *Body, ret *ast.ReturnStmt) bool {
	info := b.Pkg.TypesInfo
	if b.Sig == nil {
		return false
	}
	res := b.Sig.Results()
	if res.Len() == 0 || !isErrorType(res.At(res.Len()-1).Type()) {
		return false
	}
	if len(ret.Results) != res.Len() {
		return false // bare return or spread call
	}
	return isNilIdent(info, ret.Results[len(ret.Results)-1])
}
