package main

import (
	"fmt"
	"go/ast"
	"go/token"
	"go/types"
	"sort"
	"strings"
)

// C18 — mem (R15): memo protocol of the returned closure.

func memIssues(rs *Resid, fn *ast.FuncDecl) []sideIssue {
	var out []sideIssue
	iss := func(n ast.Node, kind, format string, a ...interface{}) {
		out = append(out, sideIssue{n, fmt.Sprintf(format, a...), kind, ""})
	}
	names := fieldNames(fn.Type.Params)
	if len(names) != 1 {
		return []sideIssue{{fn, "mem does not take exactly the function", "shape", ""}}
	}
	f := names[0]
	// the returned closure
	var lit *ast.FuncLit
	for _, st := range fn.Body.List {
		if ret, ok := st.(*ast.ReturnStmt); ok && len(ret.Results) == 1 {
			lit, _ = ret.Results[0].(*ast.FuncLit)
		}
	}
	if lit == nil {
		return []sideIssue{{fn, "mem does not return a closure", "shape", ""}}
	}
	body := lit.Body
	binders := fieldNames(lit.Type.Params)
	// exactly one call of f, with the closure's parameters in order
	var fcall *ast.CallExpr
	nref := 0
	ast.Inspect(fn.Body, func(n ast.Node) bool {
		if id, ok := n.(*ast.Ident); ok && id.Name == f {
			nref++
		}
		if c, ok := n.(*ast.CallExpr); ok {
			if id, ok := c.Fun.(*ast.Ident); ok && id.Name == f {
				fcall = c
			}
		}
		return true
	})
	if fcall == nil || nref != 1 {
		iss(fn, "call-count", "f is referenced %d times; the closure must contain exactly one call", nref)
		return out
	}
	if args, ok := identNames(fcall.Args); !ok || !eqStrings(args, binders) {
		iss(fcall, "arg-order", "calls f with %v; the closure's parameters, in order, are %v", args, binders)
	}
	if !containsNode(body, fcall) {
		iss(fcall, "eager", "f is called when the memoised function is created, not when it is invoked")
		return out
	}
	// the statement that calls f and the variables it defines
	var callStmt ast.Stmt
	var resVars []string
	par := parents(body)
	for n := ast.Node(fcall); n != nil; n = par[n] {
		if st, ok := n.(ast.Stmt); ok {
			callStmt = st
			break
		}
	}
	if as, ok := callStmt.(*ast.AssignStmt); ok {
		resVars, _ = identNames(as.Lhs)
	}
	defs := localDefs(body)
	x := func(e ast.Expr) string { return canon(expand(e, defs, 0)) }
	gs := guardsOf(body, callStmt)

	if len(binders) == 0 {
		// zero-argument form: a flag guards the single evaluation
		var flag string
		for _, g := range gs {
			if id, ok := g.e.(*ast.Ident); ok && !g.pos {
				flag = id.Name
			}
		}
		if flag == "" {
			iss(callStmt, "unguarded", "f is called on every invocation: no `already evaluated` flag guards the call")
			return out
		}
		if d := firstDefine(fn, flag); d == nil || canon(d) != "false" {
			iss(fn, "flag-init", "the flag %s does not start as false", flag)
		}
		// flag = true follows the call in the same block
		blk, _ := par[callStmt].(*ast.BlockStmt)
		set := false
		if blk != nil {
			after := false
			for _, st := range blk.List {
				if st == callStmt {
					after = true
					continue
				}
				if as, ok := st.(*ast.AssignStmt); ok && after && len(as.Lhs) == 1 && canon(as.Lhs[0]) == flag && canon(as.Rhs[0]) == "true" {
					set = true
				}
			}
		}
		if !set {
			iss(callStmt, "flag-not-set", "the flag %s is not set after the evaluation: f runs again on the next call", flag)
		}
		for _, r := range returnsIn(&ast.FuncDecl{Body: body}) {
			vals, _ := identNames(r.Results)
			if !eqStrings(vals, resVars) {
				iss(r, "results", "returns %v; the memoised results are %v", vals, resVars)
			}
		}
		return out
	}

	// the table only grows: an entry, once stored, is never overwritten, moved or removed (at most one evaluation per
	// argument class needs every stored result to stay findable). The only writes to table storage are `m[k] = …`
	// on the table map itself; indexed stores into a bucket, copy(…) into one and delete(…) are violations.
	tableMaps := map[string]bool{}
	for _, st := range fn.Body.List {
		if as, ok := st.(*ast.AssignStmt); ok && as.Tok == token.DEFINE && len(as.Lhs) == 1 && len(as.Rhs) == 1 {
			if c, ok := as.Rhs[0].(*ast.CallExpr); ok {
				if id, ok := c.Fun.(*ast.Ident); ok && id.Name == "make" && len(c.Args) > 0 {
					if _, isMap := c.Args[0].(*ast.MapType); isMap {
						tableMaps[canon(as.Lhs[0])] = true
					}
				}
			}
		}
	}
	ast.Inspect(body, func(n ast.Node) bool {
		switch x := n.(type) {
		case *ast.AssignStmt:
			for _, l := range x.Lhs {
				if ix, ok := unparen(l).(*ast.IndexExpr); ok {
					if !tableMaps[canon(ix.X)] {
						iss(x, "table-overwrite", "stores into %s: an entry of the memo table is overwritten or moved after it was stored, so a result that was already computed can be lost and f evaluated again for its arguments", rs.src(l))
					}
				}
			}
		case *ast.CallExpr:
			if id, ok := x.Fun.(*ast.Ident); ok && (id.Name == "copy" || id.Name == "delete" || id.Name == "clear") {
				iss(x, "table-overwrite", "calls %s on table storage: stored results can be lost and f evaluated again for their arguments", id.Name)
			}
		}
		return true
	})
	// keyed forms. The key: the single parameter, or a struct literal of all parameters in order.
	key := ""
	if len(binders) == 1 {
		key = binders[0]
	}
	ast.Inspect(body, func(n ast.Node) bool {
		as, ok := n.(*ast.AssignStmt)
		if !ok || as.Tok != token.DEFINE || len(as.Rhs) != 1 {
			return true
		}
		if cl, ok := as.Rhs[0].(*ast.CompositeLit); ok {
			if els, ok := identNames(litValues(cl)); ok && eqStrings(els, binders) {
				key = canon(as.Lhs[0])
			}
		}
		return true
	})
	if key == "" {
		iss(body, "key", "cannot identify the memo key built from the parameters %v", binders)
		return out
	}
	// the call sits at the top level of the closure body (the miss path is what remains after the hit returns)
	if blk, _ := par[callStmt].(*ast.BlockStmt); blk != body {
		iss(callStmt, "conditional-call", "f is called inside a nested block: it may be skipped on a miss or repeated")
	}
	// table: the map defined in the outer function
	table := ""
	for _, st := range fn.Body.List {
		if as, ok := st.(*ast.AssignStmt); ok && as.Tok == token.DEFINE && len(as.Rhs) == 1 {
			if c, ok := as.Rhs[0].(*ast.CallExpr); ok && canon(c.Fun) == "make" {
				if _, isMap := c.Args[0].(*ast.MapType); isMap {
					table = canon(as.Lhs[0])
				}
			}
		}
	}
	if table == "" {
		iss(fn, "table", "no memo table is created once, outside the closure")
		return out
	}
	// direct or bucketed? look at the table's key type in make(map[K]…)
	bucketed := false
	var lookupKey string // expression the table is indexed with
	var lookupExpanded string
	ast.Inspect(body, func(n ast.Node) bool {
		ix, ok := n.(*ast.IndexExpr)
		if ok && canon(ix.X) == table && lookupKey == "" {
			lookupKey = canon(ix.Index)
			lookupExpanded = x(ix)
		}
		return true
	})
	if lookupKey == "" {
		iss(body, "no-lookup", "the table is never consulted")
		return out
	}
	if lookupKey != key {
		// must be hash(key)
		d := x(ast.NewIdent(lookupKey))
		if id, okd := defs.lookup(lookupKey, body.End()-1); okd {
			d = x(id)
		}
		bucketed = true
		okHash := false
		if id, okd := defs.lookup(lookupKey, body.End()-1); okd {
			if c, ok := unparen(id).(*ast.CallExpr); ok && funcHoleWho(rs, c.Fun) == "hash" && len(c.Args) == 1 && canon(c.Args[0]) == key {
				okHash = true
			}
		}
		if !okHash {
			iss(body, "bucket-key", "the table is indexed with %s (= %s), which is neither the argument key nor its derived hash", lookupKey, d)
		}
	} else if !operatorLicensed(rs, "IsComparable") {
		iss(body, "map-key-unlicensed", "the arguments are used directly as a map key although IsComparable was not established for them: pointer or interface arguments would be memoised by identity, non-comparable ones do not compile")
	}
	// hit returns: every return before the call must be under a hit guard and must not involve fresh results
	for _, r := range returnsIn(&ast.FuncDecl{Body: body}) {
		if r.Pos() > callStmt.Pos() {
			vals, _ := identNames(r.Results)
			if !eqStrings(vals, resVars) {
				iss(r, "miss-results", "after evaluating f returns %v instead of its results %v", vals, resVars)
			}
			continue
		}
		rg := guardsOf(body, r)
		hit := false
		for _, g := range rg {
			if !g.pos {
				continue
			}
			if bucketed {
				if c, ok := unparen(g.e).(*ast.CallExpr); ok && funcHoleWho(rs, c.Fun) == "equal" && len(c.Args) == 2 {
					a0, a1 := canon(c.Args[0]), canon(c.Args[1])
					if (a1 == key && strings.HasSuffix(a0, ".in")) || (a0 == key && strings.HasSuffix(a1, ".in")) {
						hit = true
					}
				}
			} else if id, ok := g.e.(*ast.Ident); ok {
				// ok of `v, ok := table[key]`
				ast.Inspect(body, func(n ast.Node) bool {
					as, isAs := n.(*ast.AssignStmt)
					if isAs && len(as.Lhs) == 2 && len(as.Rhs) == 1 && canon(as.Lhs[1]) == id.Name {
						if ix, isIx := as.Rhs[0].(*ast.IndexExpr); isIx && canon(ix.X) == table && canon(ix.Index) == key {
							hit = true
						}
					}
					return true
				})
			}
		}
		if !hit {
			iss(r, "hit-unguarded", "returns before evaluating f without having found the arguments in the table (by derived Equal in the bucket of their derived Hash, or by a comma-ok lookup)")
		}
		// in the bucket form the scanned entries must come from the bucket of this key's hash
		if bucketed {
			okBucket := false
			ast.Inspect(body, func(n ast.Node) bool {
				rng, isR := n.(*ast.RangeStmt)
				if isR && containsNode(rng.Body, r) {
					if x(rng.X) == lookupExpanded {
						okBucket = true
					}
				}
				return true
			})
			if !okBucket {
				iss(r, "bucket-scan", "the stored entries compared with the arguments are not the bucket %s[%s]", table, lookupKey)
			}
		}
	}
	// store: after the call, before the final return: table[lookupKey] = … containing the key and the results
	stored := false
	if blk, _ := par[callStmt].(*ast.BlockStmt); blk != nil {
		after := false
		for _, st := range blk.List {
			if st == callStmt {
				after = true
				continue
			}
			as, ok := st.(*ast.AssignStmt)
			if !after || !ok || len(as.Lhs) != 1 || len(as.Rhs) != 1 {
				continue
			}
			ix, ok := as.Lhs[0].(*ast.IndexExpr)
			if !ok || canon(ix.X) != table {
				continue
			}
			stored = true
			if canon(ix.Index) != lookupKey {
				iss(as, "store-key", "stores the results under %s although the lookup used %s", rs.src(ix.Index), lookupKey)
			}
			rhs := canon(as.Rhs[0])
			for _, rv := range resVars {
				if !mentionsIdent(rhs, rv) {
					iss(as, "store-results", "the stored entry does not contain the result %s", rv)
				}
			}
			if bucketed {
				c, ok := as.Rhs[0].(*ast.CallExpr)
				if !ok || canon(c.Fun) != "append" || len(c.Args) != 2 {
					iss(as, "store-shape", "the bucket is not extended with append")
					continue
				}
				if canon(c.Args[0]) != canon(ix) {
					iss(as, "stale-bucket", "extends %s, a snapshot of the bucket taken before f ran, instead of the current %s: entries added while f was running (re-entrant or recursive use) are lost", rs.src(c.Args[0]), rs.src(ix))
				}
				if cl, ok := c.Args[1].(*ast.CompositeLit); !ok || len(cl.Elts) == 0 || canon(litValues(cl)[0]) != key {
					iss(as, "store-entry-key", "the stored entry does not start with the argument key %s", key)
				}
			}
		}
	}
	if !stored {
		iss(callStmt, "not-stored", "the results of f are not stored in the table before returning: f is evaluated again for the same arguments")
	}
	return out
}

// litValues: the element values of a struct literal in field order. The generator declares these struct types itself with
// fields named <Word><index> (Param0, Param1, ...; Res0, ...) or in/out, in that order: a literal with field names lists
// the same values, sorted by field name (numeric suffix first).
func litValues(cl *ast.CompositeLit) []ast.Expr {
	type kv struct {
		name string
		num  int
		val  ast.Expr
	}
	var kvs []kv
	for _, e := range cl.Elts {
		x, ok := e.(*ast.KeyValueExpr)
		if !ok {
			return cl.Elts
		}
		id, ok := x.Key.(*ast.Ident)
		if !ok {
			return cl.Elts
		}
		name, num := id.Name, -1
		i := len(name)
		for i > 0 && name[i-1] >= '0' && name[i-1] <= '9' {
			i--
		}
		if i < len(name) {
			fmt.Sscanf(name[i:], "%d", &num)
			name = name[:i]
		}
		kvs = append(kvs, kv{name, num, x.Value})
	}
	sort.SliceStable(kvs, func(i, j int) bool {
		if kvs[i].name != kvs[j].name {
			return kvs[i].name < kvs[j].name
		}
		return kvs[i].num < kvs[j].num
	})
	var out []ast.Expr
	for _, k := range kvs {
		out = append(out, k.val)
	}
	return out
}

func runR_C18(c *Ctx) {
	sweepHealth(c, "mem")
	rR1(c, "mem")
	rR2(c, "mem")
	n := 0
	for _, rs := range c.acceptedResids("mem") {
		if rs.Err != nil || len(rs.Funcs) != 1 {
			continue
		}
		n++
		if reportIssues(c, rs, "R15", "", memIssues(rs, rs.Funcs[0])) {
			c.Rep.pass("R15")
			if n%9 == 1 {
				c.Rep.sample(map[string]interface{}{"plugin": "mem", "path": rs.Run.shapeKey(), "residual": rs.Run.Text})
			}
		}
	}
	c.Rep.analysed("mem_residuals", n)
	runG9(c, "derive.IsComparable")
	// at-most-once per Equal class relies on the bucket key being a function of the value: the hash plugin's
	// value-only / ordered-traversal rules and the sort plugin's order rules are part of this property's mechanism
	// with the float leaf rule: +0 and -0 are Equal (==) but hash by bit pattern, so two Equal argument tuples that are not
	// ==-comparable land in different buckets and f is invoked twice (confirmed on the real binary; known finding shared with C04)
	hashCoreRules(c, true)
	sortLessRules(c)
	compareCoreRules(c, false)
	// without the leaf-semantics rule: Equal's nil-blindness for []byte components is masked in mem by the hash, which
	// separates nil from empty (checked on the real binary: both are evaluated, both results are right)
	equalCoreRules(c, false)
	// a user's Hash/Equal methods define the classes: which methods the generators find is part of the mechanism
	g9Methods(c, methodSpec{"hash.hasHashMethod", "Hash", 0, 1, types.Invalid}, methodSpec{"equal.equalMethodInputParam", "Equal", 1, 1, types.Bool})
	c.Rep.floor("R15", 30)
}
