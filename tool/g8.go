package main

import (
	"fmt"
	"go/ast"
	"go/constant"
	"go/parser"
	"go/token"
	"go/types"
	"sort"
	"strings"

	"golang.org/x/tools/go/cfg"
)

// G8 — plugin registry, prefix rewriting, longest-prefix-first ordering, first-match dispatch.

type pluginReg struct {
	pkg, name, prefix string
	pos               token.Pos
}

func pluginRegistry(r *Repo, rep *Report) []pluginReg {
	var regs []pluginReg
	for _, pn := range r.Plugins {
		p := r.ByName[pn]
		info := p.TypesInfo
		n := 0
		for _, f := range p.Syntax {
			ast.Inspect(f, func(x ast.Node) bool {
				c, ok := x.(*ast.CallExpr)
				if !ok || !isPkgFunc(callee(info, c), modPath+"/derive", "NewPlugin") || len(c.Args) != 3 {
					return true
				}
				n++
				nv, pv := info.Types[c.Args[0]].Value, info.Types[c.Args[1]].Value
				if nv == nil || pv == nil || nv.Kind() != constant.String || pv.Kind() != constant.String {
					rep.fail(Finding{Rule: "G8", Key: "G8|" + pn + "|non-constant-registration", Kind: "undecided", Where: []string{r.pos(c.Pos())},
						Msg: "plugin " + pn + " registers with a non-constant name or prefix"})
					return true
				}
				regs = append(regs, pluginReg{pn, constant.StringVal(nv), constant.StringVal(pv), c.Pos()})
				return true
			})
		}
		if n != 1 {
			rep.fail(Finding{Rule: "G8", Key: "G8|" + pn + "|registrations", Kind: "undecided", Msg: fmt.Sprintf("plugin package %s has %d derive.NewPlugin calls (expected 1)", pn, n)})
		}
	}
	return regs
}

func runG8(r *Repo, rep *Report) {
	regs := pluginRegistry(r, rep)
	rep.analysed("plugins", len(regs))
	names, prefixes := map[string]string{}, map[string]string{}
	for _, g := range regs {
		if o, dup := names[g.name]; dup {
			rep.fail(Finding{Rule: "G8", Key: "G8|dup-name|" + g.name, Where: []string{r.pos(g.pos)}, Msg: fmt.Sprintf("plugins %s and %s register the same name %q: deps[%q] and the generators table become ambiguous", o, g.pkg, g.name, g.name)})
		} else {
			rep.pass("G8")
		}
		names[g.name] = g.pkg
		if o, dup := prefixes[g.prefix]; dup {
			rep.fail(Finding{Rule: "G8", Key: "G8|dup-prefix|" + g.prefix, Where: []string{r.pos(g.pos)}, Msg: fmt.Sprintf("plugins %s and %s register the same default prefix %q", o, g.pkg, g.prefix)})
		} else {
			rep.pass("G8")
		}
		prefixes[g.prefix] = g.pkg
		if !strings.HasPrefix(g.prefix, "derive") || strings.Count(g.prefix, "derive") != 1 {
			rep.fail(Finding{Rule: "G8", Key: "G8|prefix-shape|" + g.pkg, Where: []string{r.pos(g.pos)},
				Msg: fmt.Sprintf("plugin %s's default prefix %q does not begin with exactly one \"derive\": -prefix substitution (strings.Replace(p, \"derive\", prefix, 1)) is not a pure renaming for it", g.pkg, g.prefix)})
		} else {
			rep.pass("G8")
		}
	}
	// main.main lists every plugin package exactly once
	mainPkg := r.ByName["main"]
	minfo := mainPkg.TypesInfo
	listed := map[string]int{}
	mainFn := r.lookup("main.main")
	if mainFn == nil {
		rep.fail(Finding{Rule: "G8", Key: "G8|main-missing", Kind: "undecided", Msg: "main.main not found"})
		return
	}
	ast.Inspect(mainFn.Decl, func(x ast.Node) bool {
		c, ok := x.(*ast.CallExpr)
		if !ok {
			return true
		}
		if fn, ok := callee(minfo, c).(*types.Func); ok && fn.Name() == "NewPlugin" && fn.Pkg() != nil && strings.HasPrefix(fn.Pkg().Path(), modPath+"/plugin/") {
			listed[strings.TrimPrefix(fn.Pkg().Path(), modPath+"/plugin/")]++
		}
		return true
	})
	for _, pn := range r.Plugins {
		if listed[pn] == 1 {
			rep.pass("G8")
		} else {
			rep.fail(Finding{Rule: "G8", Key: "G8|main-list|" + pn, Where: []string{r.pos(mainFn.Decl.Pos())},
				Msg: fmt.Sprintf("main.main lists plugin %s %d times (expected once): its derive calls would not be generated, or deps[%q] would be nil for dependants", pn, listed[pn], pn)})
		}
	}
	// every constant deps[...] key used by a plugin's New is a registered name
	for _, pn := range r.Plugins {
		p := r.ByName[pn]
		info := p.TypesInfo
		for _, f := range p.Syntax {
			ast.Inspect(f, func(x ast.Node) bool {
				ix, ok := x.(*ast.IndexExpr)
				if !ok {
					return true
				}
				t := info.TypeOf(ix.X)
				if t == nil || !strings.Contains(t.String(), "map[string]") || !strings.Contains(t.String(), "derive.Dependency") {
					return true
				}
				v := info.Types[ix.Index].Value
				if v == nil {
					rep.fail(Finding{Rule: "G8", Key: "G8|" + pn + "|deps-nonconst", Kind: "undecided", Where: []string{r.pos(ix.Pos())}, Msg: pn + " indexes deps with a non-constant key"})
					return true
				}
				k := constant.StringVal(v)
				if _, ok := names[k]; ok {
					rep.pass("G8")
				} else {
					rep.fail(Finding{Rule: "G8", Key: "G8|" + pn + "|deps|" + k, Where: []string{r.pos(ix.Pos())},
						Msg: fmt.Sprintf("plugin %s asks for deps[%q], which no plugin registers: the dependency is nil and the first GetFuncName through it panics", pn, k)})
				}
				return true
			})
		}
	}
	g8Prefix(r, rep, mainFn)
	g8Sort(r, rep)
	g8Dispatch(r, rep)
	g8CallsReachAdd(r, rep)
}

// g8Prefix: SetPrefix is called only from main.main, before NewPlugins; the rewritten prefix is derived from GetPrefix by
// strings.Replace(…, "derive", *prefix, 1) or the per-plugin override.
func g8Prefix(r *Repo, rep *Report, mainFn *FuncInfo) {
	for _, b := range r.bodies() {
		if b.Lit != nil {
			continue
		}
		info := b.Pkg.TypesInfo
		ast.Inspect(b.Owner.Decl, func(x ast.Node) bool {
			c, ok := x.(*ast.CallExpr)
			if !ok {
				return true
			}
			fn, ok := callee(info, c).(*types.Func)
			if !ok || fn.Name() != "SetPrefix" || fn.Pkg() == nil || fn.Pkg().Path() != modPath+"/derive" {
				return true
			}
			if b.Name == "main.main" {
				rep.pass("G8")
			} else {
				rep.fail(Finding{Rule: "G8", Key: "G8|SetPrefix|" + b.Name, Where: []string{r.pos(c.Pos())}, Msg: b.Name + " calls SetPrefix: prefixes may only be set by main before the plugins are sorted"})
			}
			return true
		})
	}
	// stores to the prefix field outside SetPrefix / NewPlugin
	dinfo := r.ByName["derive"].TypesInfo
	for _, fi := range r.sortedFuncs() {
		if fi.Pkg != r.ByName["derive"] {
			continue
		}
		ast.Inspect(fi.Decl, func(x ast.Node) bool {
			as, ok := x.(*ast.AssignStmt)
			if !ok {
				return true
			}
			for _, l := range as.Lhs {
				if sel, ok := l.(*ast.SelectorExpr); ok && sel.Sel.Name == "prefix" {
					if s, ok := dinfo.Selections[sel]; ok && s.Kind() == types.FieldVal {
						k := funcKey(fi.Fn)
						if k == "derive.(*plugin).SetPrefix" {
							rep.pass("G8")
						} else {
							rep.fail(Finding{Rule: "G8", Key: "G8|prefix-store|" + k, Where: []string{r.pos(as.Pos())}, Msg: k + " writes a prefix field"})
						}
					}
				}
			}
			return true
		})
	}
	info := mainFn.Pkg.TypesInfo
	g := newGraph(mainFn.Decl.Body, mayReturnFn(info))
	var setPos, newPos token.Pos
	var setCall *ast.CallExpr
	_ = setCall
	ast.Inspect(mainFn.Decl, func(x ast.Node) bool {
		c, ok := x.(*ast.CallExpr)
		if !ok {
			return true
		}
		if fn, ok := callee(info, c).(*types.Func); ok && fn.Pkg() != nil && fn.Pkg().Path() == modPath+"/derive" {
			switch fn.Name() {
			case "SetPrefix":
				setPos, setCall = c.Pos(), c
			case "NewPlugins":
				newPos = c.Pos()
			}
		}
		return true
	})
	if !setPos.IsValid() || !newPos.IsValid() {
		rep.fail(Finding{Rule: "G8", Key: "G8|main-shape", Kind: "undecided", Where: []string{r.pos(mainFn.Decl.Pos())}, Msg: "main.main no longer calls SetPrefix and NewPlugins"})
		return
	}
	// NewPlugins must not be able to run before the SetPrefix loop has finished: no path from NewPlugins back to SetPrefix,
	// and SetPrefix's loop dominates NewPlugins
	sb, _ := g.locate(setPos)
	nb, _ := g.locate(newPos)
	ok := sb != nil && nb != nil && !g.reachable(nb.Succs, nil)[sb] && g.reachable(sb.Succs, nil)[nb]
	// the loop header of SetPrefix's loop dominates NewPlugins
	if ok {
		rep.pass("G8")
	} else {
		rep.fail(Finding{Rule: "G8", Key: "G8|SetPrefix-order", Where: []string{r.pos(setPos), r.pos(newPos)}, Msg: "main.main can sort/construct the plugins before all prefixes are set: ordering by prefix length would use stale prefixes"})
	}
	// SetPrefix argument provenance, for every SetPrefix call of main: the argument is strings.Replace(<plugin>.GetPrefix(),
	// "derive", *prefix, 1) — directly or through a variable that is defined so on every path — or the -pluginprefix
	// override looked up in a map, under the ok of that lookup; and no path through the plugin loop skips SetPrefix.
	isReplace := func(e ast.Expr) (*ast.CallExpr, bool) {
		x, ok := ast.Unparen(e).(*ast.CallExpr)
		if !ok || !isPkgFunc(callee(info, x), "strings", "Replace") || len(x.Args) != 4 {
			return nil, false
		}
		old := info.Types[x.Args[1]].Value
		n := info.Types[x.Args[3]].Value
		if old == nil || old.Kind() != constant.String || constant.StringVal(old) != "derive" || n == nil {
			return nil, false
		}
		nv, _ := constant.Int64Val(n)
		return x, nv == 1
	}
	var replaceOperandOK func(x *ast.CallExpr) bool
	defsOf := func(v types.Object) []ast.Expr {
		var defs []ast.Expr
		ast.Inspect(mainFn.Decl, func(x ast.Node) bool {
			as, ok := x.(*ast.AssignStmt)
			if !ok {
				return true
			}
			for i, l := range as.Lhs {
				if lid, ok := l.(*ast.Ident); ok && (info.Defs[lid] == v || info.Uses[lid] == v) {
					if len(as.Rhs) == len(as.Lhs) {
						defs = append(defs, as.Rhs[i])
					} else if len(as.Rhs) == 1 {
						defs = append(defs, as.Rhs[0]) // v, ok := m[k]
					}
				}
			}
			return true
		})
		return defs
	}
	isMapLookup := func(e ast.Expr) bool {
		ix, ok := ast.Unparen(e).(*ast.IndexExpr)
		if !ok {
			return false
		}
		_, isMap := info.TypeOf(ix.X).Underlying().(*types.Map)
		return isMap && nodeHas(ix.Index, func(m ast.Node) bool { s, ok := m.(*ast.SelectorExpr); return ok && s.Sel.Name == "Name" })
	}
	// what is rewritten is the plugin's default prefix: the first operand of the substitution is <plugin>.GetPrefix(), or a
	// variable that holds nothing else when the substitution is evaluated (no override assigned to it can reach the call)
	replaceOperandOK = func(x *ast.CallExpr) bool {
		isGet := func(e ast.Expr) bool {
			c, ok := ast.Unparen(e).(*ast.CallExpr)
			if !ok {
				return false
			}
			fn, ok := callee(info, c).(*types.Func)
			return ok && fn.Name() == "GetPrefix"
		}
		op := ast.Unparen(x.Args[0])
		if isGet(op) {
			return true
		}
		id, ok := op.(*ast.Ident)
		if !ok {
			return false
		}
		v := info.Uses[id]
		xb, _ := g.locate(x.Pos())
		okAll := true
		ast.Inspect(mainFn.Decl, func(n ast.Node) bool {
			as, ok := n.(*ast.AssignStmt)
			if !ok {
				return true
			}
			for i, l := range as.Lhs {
				lid, ok := l.(*ast.Ident)
				if !ok || (info.Defs[lid] != v && info.Uses[lid] != v) {
					continue
				}
				var rhs ast.Expr
				if len(as.Rhs) == len(as.Lhs) {
					rhs = as.Rhs[i]
				} else {
					rhs = as.Rhs[0]
				}
				if isGet(rhs) {
					continue
				}
				if rc, isRep := isReplace(rhs); isRep && rc == x {
					continue
				}
				// any other definition must not reach the substitution within one iteration
				db, _ := g.locate(as.Pos())
				if db == nil || xb == nil {
					okAll = false
					continue
				}
				if db == xb && as.Pos() < x.Pos() {
					okAll = false
					continue
				}
				if g.reachable(db.Succs, func(b *cfg.Block) bool { return b.Kind == cfg.KindRangeLoop })[xb] {
					okAll = false
				}
			}
			return true
		})
		return okAll
	}
	var setCalls []*ast.CallExpr
	ast.Inspect(mainFn.Decl, func(x ast.Node) bool {
		if c, ok := x.(*ast.CallExpr); ok {
			if fn, ok := callee(info, c).(*types.Func); ok && fn.Pkg() != nil && fn.Pkg().Path() == modPath+"/derive" && fn.Name() == "SetPrefix" {
				setCalls = append(setCalls, c)
			}
		}
		return true
	})
	okProv := len(setCalls) > 0
	for _, sc := range setCalls {
		if len(sc.Args) != 1 {
			okProv = false
			continue
		}
		arg := ast.Unparen(sc.Args[0])
		if rc, ok := isReplace(arg); ok {
			if !replaceOperandOK(rc) {
				okProv = false
			}
			continue
		}
		id, ok := arg.(*ast.Ident)
		if !ok {
			okProv = false
			continue
		}
		defs := defsOf(info.Uses[id])
		onlyLookup := len(defs) > 0
		for _, d := range defs {
			if !isMapLookup(d) {
				onlyLookup = false
			}
		}
		if onlyLookup {
			// the override itself: only where the lookup found one
			guarded := false
			sb, _ := g.locate(sc.Pos())
			for _, b := range g.Blocks {
				if len(b.Succs) != 2 || len(b.Nodes) == 0 || sb == nil {
					continue
				}
				cond, isE := b.Nodes[len(b.Nodes)-1].(ast.Expr)
				if !isE {
					continue
				}
				cid, isID := ast.Unparen(cond).(*ast.Ident)
				if !isID {
					continue
				}
				for _, d := range defsOf(info.Uses[cid]) {
					if isMapLookup(d) && (b.Succs[0] == sb || g.dominates(b.Succs[0], sb)) && !g.reachable([]*cfg.Block{b.Succs[1]}, func(x *cfg.Block) bool { return x.Kind == cfg.KindRangeLoop })[sb] {
						guarded = true
					}
				}
			}
			if !guarded {
				okProv = false
				rep.fail(Finding{Rule: "G8", Key: "G8|prefix-rewrite|override-unguarded", Where: []string{r.pos(sc.Pos())},
					Msg: "main.main sets a plugin's prefix to the -pluginprefix override without being under the ok of the lookup: plugins without an override get the empty prefix"})
			}
			continue
		}
		// a variable: defined by GetPrefix(), the substitution, and possibly the override
		hasReplace, onlyKnown, replaceConditional := false, true, false
		for _, d := range defs {
			if x, ok := isReplace(d); ok {
				hasReplace = true
				if !replaceOperandOK(x) {
					onlyKnown = false
				}
				// the substitution applies to every plugin: it is executed on every path to SetPrefix
				if !g.posDominates(x.Pos(), sc.Pos()) {
					replaceConditional = true
				}
				continue
			}
			switch x := ast.Unparen(d).(type) {
			case *ast.CallExpr:
				if fn, ok := callee(info, x).(*types.Func); ok && fn.Name() == "GetPrefix" {
					continue
				}
				onlyKnown = false
			case *ast.Ident:
				// override value from the overridePrefixes map lookup
				continue
			case *ast.IndexExpr:
				if isMapLookup(x) {
					continue
				}
				onlyKnown = false
			default:
				onlyKnown = false
			}
		}
		if !(hasReplace && onlyKnown) {
			okProv = false
		}
		if hasReplace && onlyKnown && replaceConditional {
			rep.fail(Finding{Rule: "G8", Key: "G8|prefix-rewrite|conditional", Where: []string{r.pos(sc.Pos())},
				Msg: `main.main substitutes -prefix for "derive" only under a condition: for the plugins (or prefixes) the condition excludes, the default prefix stays, their calls match nothing and no function is generated for them (goderive exits 0 with an incomplete derived.gen.go)`})
			return
		}
	}
	// no way round the plugin loop without SetPrefix
	if okProv {
		for _, b := range g.Blocks {
			if b.Kind != cfg.KindRangeLoop {
				continue
			}
			rs, ok := b.Stmt.(*ast.RangeStmt)
			if !ok {
				continue
			}
			inLoop := false
			for _, sc := range setCalls {
				if rs.Body.Pos() <= sc.Pos() && sc.End() <= rs.Body.End() {
					inLoop = true
				}
			}
			if !inLoop {
				continue
			}
			isSet := func(n ast.Node) bool {
				c, ok := n.(*ast.CallExpr)
				if !ok {
					return false
				}
				for _, sc := range setCalls {
					if sc == c {
						return true
					}
				}
				return false
			}
			var body []*cfg.Block
			for _, sx := range b.Succs {
				if sx.Kind == cfg.KindRangeBody {
					body = append(body, sx)
				}
			}
			reach := g.reachable(body, func(x *cfg.Block) bool { return blockHas(x, isSet) })
			skip := reach[b]
			for _, bb := range body {
				if blockHas(bb, isSet) {
					skip = false
				}
			}
			if skip {
				okProv = false
				rep.fail(Finding{Rule: "G8", Key: "G8|prefix-rewrite|conditional", Where: []string{r.pos(rs.Pos())},
					Msg: `main.main substitutes -prefix for "derive" only under a condition: for the plugins (or prefixes) the condition excludes, the default prefix stays, their calls match nothing and no function is generated for them (goderive exits 0 with an incomplete derived.gen.go)`})
				return
			}
		}
	}
	if okProv {
		rep.pass("G8")
		rep.sample(map[string]string{"rule": "G8 prefix rewriting", "site": r.pos(setPos), "form": `strings.Replace(GetPrefix(), "derive", *prefix, 1) | override[Name()]`})
	} else {
		rep.fail(Finding{Rule: "G8", Key: "G8|prefix-rewrite", Where: []string{r.pos(setPos)},
			Msg: `main.main no longer computes each plugin prefix as strings.Replace(default, "derive", *prefix, 1) or the -pluginprefix override: prefix customisation would do more than rename`})
	}
}

// g8Sort: NewPlugins sorts before storing; the comparator orders strictly-longer prefixes first and is a strict weak order.
func g8Sort(r *Repo, rep *Report) {
	np := r.lookup("derive.NewPlugins")
	sp := r.lookup("derive.sortPlugins")
	if np == nil || sp == nil {
		rep.fail(Finding{Rule: "G8", Key: "G8|sort-missing", Kind: "undecided", Msg: "NewPlugins/sortPlugins not found"})
		return
	}
	info := np.Pkg.TypesInfo
	g := newGraph(np.Decl.Body, mayReturnFn(info))
	var sortPos token.Pos
	var sortArg types.Object
	var litPos token.Pos
	litUses := false
	ast.Inspect(np.Decl, func(x ast.Node) bool {
		switch n := x.(type) {
		case *ast.CallExpr:
			if callee(info, n) == sp.Fn && len(n.Args) == 1 {
				sortPos = n.Pos()
				if id, ok := n.Args[0].(*ast.Ident); ok {
					sortArg = info.Uses[id]
				}
			}
		case *ast.CompositeLit:
			litPos = n.Pos()
			if sortArg != nil && usesVar(info, n, sortArg) {
				litUses = true
			}
		}
		return true
	})
	if sortPos.IsValid() && litPos.IsValid() && litUses && g.posDominates(sortPos, litPos) {
		rep.pass("G8")
	} else {
		rep.fail(Finding{Rule: "G8", Key: "G8|NewPlugins-sorts", Where: []string{r.pos(np.Decl.Pos())},
			Msg: "NewPlugins does not sort the plugin slice (sortPlugins) before storing it: dispatch order would follow registration order, not prefix length"})
	}
	// no other function sorts / permutes a []Plugin
	for _, b := range r.bodies() {
		if b.Lit != nil || b.Owner.Pkg != np.Pkg {
			continue
		}
		binfo := b.Pkg.TypesInfo
		ast.Inspect(b.Owner.Decl, func(x ast.Node) bool {
			as, ok := x.(*ast.AssignStmt)
			if !ok {
				return true
			}
			for _, l := range as.Lhs {
				if ix, ok := l.(*ast.IndexExpr); ok {
					if t := binfo.TypeOf(ix.X); t != nil && strings.HasSuffix(t.String(), "[]"+modPath+"/derive.Plugin") {
						rep.fail(Finding{Rule: "G8", Key: "G8|plugin-slice-store|" + b.Name, Where: []string{r.pos(as.Pos())}, Msg: b.Name + " permutes a []Plugin slice outside sortPlugins"})
					}
				}
			}
			return true
		})
	}
	// comparator table
	var less *ast.FuncLit
	var sorted types.Object
	ast.Inspect(sp.Decl, func(x ast.Node) bool {
		c, ok := x.(*ast.CallExpr)
		if !ok || len(c.Args) != 2 {
			return true
		}
		fn, ok := callee(info, c).(*types.Func)
		if ok && fn.Pkg() != nil && fn.Pkg().Path() == "sort" && (fn.Name() == "Slice" || fn.Name() == "SliceStable") {
			less, _ = c.Args[1].(*ast.FuncLit)
			if id, ok := c.Args[0].(*ast.Ident); ok {
				sorted = info.Uses[id]
			}
		}
		return true
	})
	var swapDecl *ast.FuncDecl
	_ = swapDecl
	if less == nil {
		// sort.Sort(T(ps)) / sort.Stable(T(ps)) with a slice type T of this package: Less is the comparator, its receiver the
		// slice being sorted; Len and Swap must be the canonical ones
		ast.Inspect(sp.Decl, func(x ast.Node) bool {
			c, ok := x.(*ast.CallExpr)
			if !ok || len(c.Args) != 1 {
				return true
			}
			fn, ok := callee(info, c).(*types.Func)
			if !ok || fn.Pkg() == nil || fn.Pkg().Path() != "sort" || (fn.Name() != "Sort" && fn.Name() != "Stable") {
				return true
			}
			nt, _ := info.TypeOf(c.Args[0]).(*types.Named)
			if nt == nil {
				return true
			}
			if _, isSlice := nt.Underlying().(*types.Slice); !isSlice {
				return true
			}
			var lessD, lenD, swapD *FuncInfo
			for i := 0; i < nt.NumMethods(); i++ {
				m := nt.Method(i)
				switch m.Name() {
				case "Less":
					lessD = r.Decls[m]
				case "Len":
					lenD = r.Decls[m]
				case "Swap":
					swapD = r.Decls[m]
				}
			}
			if lessD == nil || lenD == nil || swapD == nil || lessD.Decl.Recv == nil || len(lessD.Decl.Recv.List) != 1 || len(lessD.Decl.Recv.List[0].Names) != 1 {
				return true
			}
			recvName := func(d *FuncInfo) string {
				if d.Decl.Recv != nil && len(d.Decl.Recv.List) == 1 && len(d.Decl.Recv.List[0].Names) == 1 {
					return d.Decl.Recv.List[0].Names[0].Name
				}
				return "?"
			}
			// Len: return len(recv)
			okLen := len(lenD.Decl.Body.List) == 1
			if okLen {
				ret, isRet := lenD.Decl.Body.List[0].(*ast.ReturnStmt)
				okLen = isRet && len(ret.Results) == 1 && exprStr(ret.Results[0]) == "len("+recvName(lenD)+")"
			}
			// Swap: recv[i], recv[j] = recv[j], recv[i]
			okSwap := len(swapD.Decl.Body.List) == 1 && swapD.Decl.Type.Params.NumFields() == 2
			if okSwap {
				var pn []string
				for _, f := range swapD.Decl.Type.Params.List {
					for _, n := range f.Names {
						pn = append(pn, n.Name)
					}
				}
				as, isAs := swapD.Decl.Body.List[0].(*ast.AssignStmt)
				rn := recvName(swapD)
				okSwap = isAs && len(pn) == 2 && len(as.Lhs) == 2 && len(as.Rhs) == 2 && as.Tok == token.ASSIGN &&
					exprStr(as.Lhs[0]) == rn+"["+pn[0]+"]" && exprStr(as.Lhs[1]) == rn+"["+pn[1]+"]" &&
					exprStr(as.Rhs[0]) == rn+"["+pn[1]+"]" && exprStr(as.Rhs[1]) == rn+"["+pn[0]+"]"
			}
			if !okLen || !okSwap {
				rep.fail(Finding{Rule: "G8", Key: "G8|comparator|sort-interface", Where: []string{r.pos(c.Pos())},
					Msg: fmt.Sprintf("sortPlugins sorts through %s, whose Len/Swap are not the canonical `len(s)` and `s[i], s[j] = s[j], s[i]` (Len ok: %v, Swap ok: %v): the plugins would not end up in the order Less describes", nt.Obj().Name(), okLen, okSwap)})
				return true
			}
			less = &ast.FuncLit{Type: lessD.Decl.Type, Body: lessD.Decl.Body}
			sorted = info.Defs[lessD.Decl.Recv.List[0].Names[0]]
			swapDecl = swapD.Decl
			return true
		})
	}
	if less != nil {
		// the comparator may index only the slice being sorted: sort.Slice permutes its argument and nothing else,
		// so any side table indexed by position goes stale after the first swap.
		bad := false
		ast.Inspect(less.Body, func(x ast.Node) bool {
			ix, ok := x.(*ast.IndexExpr)
			if !ok {
				return true
			}
			if base, ok := ast.Unparen(ix.X).(*ast.Ident); ok && info.Uses[base] == sorted {
				return true
			}
			bad = true
			rep.fail(Finding{Rule: "G8", Key: "G8|comparator|side-table", Where: []string{r.pos(ix.Pos())},
				Msg: "sortPlugins' comparator reads " + exprStr(ix) + ", a table indexed by position that sort.Slice does not permute together with the plugin slice: after the first swap the comparison no longer refers to the plugins at i and j"})
			return true
		})
		if bad {
			return
		}
	}
	if less == nil || less.Type.Params.NumFields() != 2 {
		rep.fail(Finding{Rule: "G8", Key: "G8|comparator|shape", Kind: "undecided", Where: []string{r.pos(sp.Decl.Pos())}, Msg: "sortPlugins no longer uses sort.Slice with a less function literal"})
		return
	}
	var pi, pj types.Object
	k := 0
	for _, f := range less.Type.Params.List {
		for _, n := range f.Names {
			if k == 0 {
				pi = info.Defs[n]
			} else {
				pj = info.Defs[n]
			}
			k++
		}
	}
	// locals of the comparator that are defined once stand for their definition (left, right := ps[i].GetPrefix(), ps[j].GetPrefix())
	env := map[types.Object]ast.Expr{}
	res := func(e ast.Expr) ast.Expr {
		for k := 0; k < 4; k++ {
			id, ok := ast.Unparen(e).(*ast.Ident)
			if !ok {
				break
			}
			d, ok := env[info.Uses[id]]
			if !ok {
				break
			}
			e = d
		}
		return e
	}
	// side(e): "i" if e is ps[i].GetPrefix(), "j" for ps[j].GetPrefix()
	side := func(e ast.Expr) string {
		c, ok := ast.Unparen(res(e)).(*ast.CallExpr)
		if !ok {
			return ""
		}
		sel, ok := c.Fun.(*ast.SelectorExpr)
		if !ok || sel.Sel.Name != "GetPrefix" {
			return ""
		}
		ix, ok := sel.X.(*ast.IndexExpr)
		if !ok {
			return ""
		}
		if base, ok := ix.X.(*ast.Ident); !ok || info.Uses[base] != sorted {
			return ""
		}
		id, ok := ix.Index.(*ast.Ident)
		if !ok {
			return ""
		}
		switch info.Uses[id] {
		case pi:
			return "i"
		case pj:
			return "j"
		}
		return ""
	}
	type state struct{ lenCmp, strCmp int } // a=prefix(i) vs b=prefix(j): -1 a<b, 0 equal, +1 a>b
	undec := ""
	cmpHolds := func(c int, op token.Token) bool {
		switch op {
		case token.LSS:
			return c < 0
		case token.LEQ:
			return c <= 0
		case token.GTR:
			return c > 0
		case token.GEQ:
			return c >= 0
		case token.EQL:
			return c == 0
		case token.NEQ:
			return c != 0
		}
		undec = "operator " + op.String()
		return false
	}
	var evalB func(e ast.Expr, st state) bool
	evalB = func(e ast.Expr, st state) bool {
		switch x := ast.Unparen(e).(type) {
		case *ast.BinaryExpr:
			switch x.Op {
			case token.LAND:
				return evalB(x.X, st) && evalB(x.Y, st)
			case token.LOR:
				return evalB(x.X, st) || evalB(x.Y, st)
			}
			// len(A) op len(B) or A op B
			lenOf := func(y ast.Expr) string {
				c, ok := ast.Unparen(res(y)).(*ast.CallExpr)
				if !ok || len(c.Args) != 1 {
					return ""
				}
				if b, ok := callee(info, c).(*types.Builtin); ok && b.Name() == "len" {
					return side(c.Args[0])
				}
				return ""
			}
			if l, rr := lenOf(x.X), lenOf(x.Y); l != "" && rr != "" && l != rr {
				c := st.lenCmp
				if l == "j" {
					c = -c
				}
				return cmpHolds(c, x.Op)
			}
			if l, rr := side(x.X), side(x.Y); l != "" && rr != "" && l != rr {
				c := st.strCmp
				if l == "j" {
					c = -c
				}
				return cmpHolds(c, x.Op)
			}
			undec = "atom `" + exprStr(x) + "`"
			return false
		case *ast.UnaryExpr:
			if x.Op == token.NOT {
				return !evalB(x.X, st)
			}
		case *ast.Ident:
			if v := info.Types[x].Value; v != nil && v.Kind() == constant.Bool {
				return constant.BoolVal(v)
			}
		}
		undec = "expression `" + exprStr(e) + "`"
		return false
	}
	var run func(list []ast.Stmt, st state) (bool, bool)
	run = func(list []ast.Stmt, st state) (bool, bool) {
		for _, s := range list {
			switch x := s.(type) {
			case *ast.ReturnStmt:
				if len(x.Results) != 1 {
					undec = "return shape"
					return false, true
				}
				return evalB(x.Results[0], st), true
			case *ast.IfStmt:
				if x.Init != nil {
					undec = "if-init"
					return false, true
				}
				if evalB(x.Cond, st) {
					if v, done := run(x.Body.List, st); done {
						return v, true
					}
				} else if x.Else != nil {
					var els []ast.Stmt
					switch e := x.Else.(type) {
					case *ast.BlockStmt:
						els = e.List
					case *ast.IfStmt:
						els = []ast.Stmt{e}
					}
					if v, done := run(els, st); done {
						return v, true
					}
				}
			case *ast.AssignStmt:
				// a := e, b := f: single definitions of locals, pure (calls of GetPrefix and len only)
				if x.Tok != token.DEFINE || len(x.Lhs) != len(x.Rhs) {
					undec = "assignment in comparator"
					return false, true
				}
				for k, l := range x.Lhs {
					id, ok := l.(*ast.Ident)
					if !ok || info.Defs[id] == nil {
						undec = "assignment in comparator"
						return false, true
					}
					if side(x.Rhs[k]) == "" {
						if c, ok := ast.Unparen(x.Rhs[k]).(*ast.CallExpr); !ok || len(c.Args) != 1 || exprStr(c.Fun) != "len" || side(c.Args[0]) == "" {
							undec = "local `" + id.Name + "` defined as `" + exprStr(x.Rhs[k]) + "`"
							return false, true
						}
					}
					env[info.Defs[id]] = x.Rhs[k]
				}
			default:
				undec = fmt.Sprintf("%T in comparator", s)
				return false, true
			}
		}
		undec = "comparator falls off its end"
		return false, true
	}
	lessAt := func(st state) bool { v, _ := run(less.Body.List, st); return v }
	rows := 0
	bad := []string{}
	for _, lc := range []int{-1, 0, 1} {
		for _, sc := range []int{-1, 0, 1} {
			if sc == 0 && lc != 0 {
				continue // equal strings have equal lengths
			}
			rows++
			st := state{lc, sc}
			ij := lessAt(st)
			ji := lessAt(state{-lc, -sc})
			row := fmt.Sprintf("len(a)%slen(b), a%sb", cmpSym(lc), cmpSym(sc))
			switch {
			case lc > 0 && !ij:
				bad = append(bad, row+": longer prefix is not ordered first")
			case lc < 0 && ij:
				bad = append(bad, row+": shorter prefix is ordered first")
			case sc == 0 && ij:
				bad = append(bad, row+": less(x,x) is true (not irreflexive)")
			case ij && ji:
				bad = append(bad, row+": less(i,j) and less(j,i) both true (not asymmetric)")
			case lc == 0 && sc != 0 && !ij && !ji:
				bad = append(bad, row+": two different prefixes of equal length are unordered (order would depend on registration order)")
			}
		}
	}
	if undec != "" {
		rep.fail(Finding{Rule: "G8", Key: "G8|comparator|undecided", Kind: "undecided", Where: []string{r.pos(less.Pos())}, Msg: "sortPlugins' comparator uses " + undec + ", outside the table's vocabulary (len/prefix comparisons)"})
		return
	}
	if len(bad) == 0 {
		rep.pass("G8")
		rep.sample(map[string]interface{}{"rule": "G8 comparator table", "rows": rows, "site": r.pos(less.Pos()), "obligations": "longer-first, irreflexive, asymmetric, total on equal lengths"})
	} else {
		sort.Strings(bad)
		rep.fail(Finding{Rule: "G8", Key: "G8|comparator|" + strings.Join(bad, ";"), Where: []string{r.pos(less.Pos())},
			Msg: "sortPlugins' comparator violates longest-prefix-first ordering: " + strings.Join(bad, "; ")})
	}
	rep.analysed("comparator_rows", rows)
}

func cmpSym(c int) string {
	switch {
	case c < 0:
		return "<"
	case c > 0:
		return ">"
	}
	return "="
}

// g8Dispatch: every loop that matches a call name against plugin prefixes iterates the sorted slice and leaves at the first match.
func g8Dispatch(r *Repo, rep *Report) {
	n := 0
	for _, b := range r.bodies() {
		if b.Owner.Pkg != r.ByName["derive"] {
			continue
		}
		info := b.Pkg.TypesInfo
		var g *Graph
		inspectOwn(b.Block, func(x ast.Node) bool {
			rs, ok := asWalkLoop(info, x)
			if !ok {
				return true
			}
			// does the body test strings.HasPrefix(_, p.GetPrefix())?
			var test *ast.CallExpr
			inspectOwn(rs.Body, func(y ast.Node) bool {
				if c, ok := y.(*ast.CallExpr); ok && isPkgFunc(callee(info, c), "strings", "HasPrefix") && len(c.Args) == 2 {
					if nodeHas(c.Args[1], func(m ast.Node) bool { s, ok := m.(*ast.SelectorExpr); return ok && s.Sel.Name == "GetPrefix" }) {
						test = c
					}
				}
				return true
			})
			if test == nil {
				return true
			}
			// only the innermost loop around the test is the dispatch loop
			inner := false
			inspectOwn(rs.Body, func(y ast.Node) bool {
				if r2, ok := asWalkLoop(info, y); ok && r2.Pos() <= test.Pos() && test.End() <= r2.End() {
					inner = true
				}
				return true
			})
			if inner {
				return true
			}
			n++
			key := "G8|dispatch|" + b.Name
			// operand: a []Plugin held in a field/parameter named plugins (never a map, never a locally built slice)
			t := info.TypeOf(rs.X)
			okOperand := false
			if _, isSlice := t.Underlying().(*types.Slice); isSlice {
				switch ox := ast.Unparen(rs.X).(type) {
				case *ast.SelectorExpr:
					okOperand = ox.Sel.Name == "plugins"
				case *ast.Ident:
					if v, ok := info.Uses[ox].(*types.Var); ok {
						// must be a parameter
						sig := b.Sig
						for i := 0; sig != nil && i < sig.Params().Len(); i++ {
							if sig.Params().At(i) == v {
								okOperand = true
							}
						}
					}
				}
			}
			if !okOperand {
				rep.fail(Finding{Rule: "G8", Key: key + "|operand", Where: []string{r.pos(rs.Pos())}, Msg: b.Name + " matches prefixes over " + exprStr(rs.X) + ", which is not the sorted plugin slice"})
				return true
			}
			// first match leaves the loop: from the match outcome of the HasPrefix condition the loop head is unreachable
			if g == nil {
				g = newGraph(b.Block, mayReturnFn(info))
			}
			cb, _ := g.locate(test.Pos())
			if cb == nil || len(cb.Succs) != 2 {
				rep.fail(Finding{Rule: "G8", Key: key + "|cond", Kind: "undecided", Where: []string{r.pos(test.Pos())}, Msg: b.Name + ": HasPrefix test is not a branch condition"})
				return true
			}
			cond := cb.Nodes[len(cb.Nodes)-1].(ast.Expr)
			neg := false
			if u, ok := ast.Unparen(cond).(*ast.UnaryExpr); ok && u.Op == token.NOT {
				neg = true
			} else if ast.Unparen(cond) != ast.Expr(test) {
				rep.fail(Finding{Rule: "G8", Key: key + "|cond", Kind: "undecided", Where: []string{r.pos(test.Pos())}, Msg: b.Name + ": HasPrefix test is combined with other conditions (`" + exprStr(cond) + "`)"})
				return true
			}
			match := cb.Succs[0]
			if neg {
				match = cb.Succs[1]
			}
			var head *cfg.Block
			for _, blk := range g.Blocks {
				if (blk.Kind == cfg.KindRangeLoop || blk.Kind == cfg.KindForLoop) && blk.Stmt == rs.Stmt {
					head = blk
				}
			}
			// stay inside this loop: its done-block is an exit, not a way round an enclosing loop
			// (a block that belongs to a statement outside the loop has left it too: a labelled break, a return)
			reach := g.reachable([]*cfg.Block{match}, func(x *cfg.Block) bool {
				if (x.Kind == cfg.KindRangeDone || x.Kind == cfg.KindForDone) && x.Stmt == rs.Stmt {
					return true
				}
				return x.Stmt != nil && (x.Stmt.Pos() < rs.Pos() || x.Stmt.Pos() >= rs.End())
			})
			if head != nil && !reach[head] {
				rep.pass("G8")
				rep.sample(map[string]string{"rule": "G8 first-match dispatch", "function": b.Name, "loop": r.pos(rs.Pos())})
			} else {
				rep.fail(Finding{Rule: "G8", Key: key + "|continues", Where: []string{r.pos(rs.Pos())},
					Msg: b.Name + ": after a plugin prefix matches, the loop can continue to later (shorter-prefix) plugins: the call is not handled by the longest matching prefix only"})
			}
			return true
		})
	}
	// slices.ContainsFunc / slices.IndexFunc over the plugin slice with a prefix test as the predicate is the same walk, front
	// to back, stopping at the first match
	walkParams := map[types.Object]bool{}
	for _, b := range r.bodies() {
		if b.Pkg.Name != "derive" && b.Pkg.Name != "main" {
			continue
		}
		info := b.Pkg.TypesInfo
		inspectOwn(b.Block, func(x ast.Node) bool {
			c, ok := x.(*ast.CallExpr)
			if !ok || len(c.Args) != 2 {
				return true
			}
			fn, ok := callee(info, c).(*types.Func)
			if !ok || fn.Pkg() == nil || fn.Pkg().Path() != "slices" || (fn.Name() != "ContainsFunc" && fn.Name() != "IndexFunc") {
				return true
			}
			lit, ok := ast.Unparen(c.Args[1]).(*ast.FuncLit)
			if !ok || lit.Type.Params.NumFields() != 1 || len(lit.Type.Params.List[0].Names) != 1 {
				return true
			}
			hasTest := nodeHas(lit.Body, func(m ast.Node) bool {
				hc, ok := m.(*ast.CallExpr)
				return ok && isPkgFunc(callee(info, hc), "strings", "HasPrefix")
			})
			if !hasTest {
				return true
			}
			okOperand := false
			switch ox := ast.Unparen(c.Args[0]).(type) {
			case *ast.SelectorExpr:
				okOperand = ox.Sel.Name == "plugins"
			case *ast.Ident:
				if v, ok := info.Uses[ox].(*types.Var); ok && b.Sig != nil {
					for i := 0; i < b.Sig.Params().Len(); i++ {
						if b.Sig.Params().At(i) == v {
							okOperand = true
						}
					}
				}
			}
			if !okOperand {
				rep.fail(Finding{Rule: "G8", Key: "G8|dispatch|" + b.Name + "|operand", Where: []string{r.pos(c.Pos())}, Msg: b.Name + " matches prefixes over " + exprStr(c.Args[0]) + ", which is not the sorted plugin slice"})
				return true
			}
			n++
			walkParams[info.Defs[lit.Type.Params.List[0].Names[0]]] = true
			rep.pass("G8")
			return true
		})
	}
	if n < 2 {
		rep.fail(Finding{Rule: "G8", Key: "G8|dispatch|vacuity", Kind: "undecided", Msg: fmt.Sprintf("only %d prefix-dispatch loops found (2 confirmed by hand: (*pkg).Add, newPackage)", n)})
	}
	// a prefix is matched only as a step of the ordered walk: the plugin whose prefix is tested is the range value of a loop
	// over a plugin slice — a remembered plugin (the one of the previous call, a cache) tested first answers with a shorter
	// prefix than the walk would have found
	for _, b := range r.bodies() {
		if b.Pkg.Name != "derive" && b.Pkg.Name != "main" {
			continue
		}
		info := b.Pkg.TypesInfo
		rangeVals := map[types.Object]bool{}
		indexed := map[string]bool{} // text of X[i] for the index walks over a slice X
		inspectOwn(b.Block, func(x ast.Node) bool {
			if wl, ok := asWalkLoop(info, x); ok && wl.Idx != nil {
				indexed[exprStr(wl.X)+"["+wl.Idx.Name()+"]"] = true
			}
			if rs, ok := x.(*ast.RangeStmt); ok && rs.Value != nil {
				if id, ok := rs.Value.(*ast.Ident); ok {
					if t := info.TypeOf(rs.X); t != nil {
						if _, isSlice := t.Underlying().(*types.Slice); isSlice {
							rangeVals[info.Defs[id]] = true
						}
					}
				}
			}
			return true
		})
		inspectOwn(b.Block, func(x ast.Node) bool {
			c, ok := x.(*ast.CallExpr)
			if !ok || !isPkgFunc(callee(info, c), "strings", "HasPrefix") || len(c.Args) != 2 {
				return true
			}
			gp, ok := ast.Unparen(c.Args[1]).(*ast.CallExpr)
			if !ok {
				return true
			}
			sel, ok := ast.Unparen(gp.Fun).(*ast.SelectorExpr)
			if !ok || sel.Sel.Name != "GetPrefix" {
				return true
			}
			if id, ok := ast.Unparen(sel.X).(*ast.Ident); ok && (rangeVals[info.Uses[id]] || walkParams[info.Uses[id]]) {
				rep.pass("G8")
				return true
			}
			if ix, ok := ast.Unparen(sel.X).(*ast.IndexExpr); ok && indexed[exprStr(ix)] {
				rep.pass("G8")
				return true
			}
			rep.fail(Finding{Rule: "G8", Key: "G8|dispatch|" + b.Name + "|outside-walk", Where: []string{r.pos(c.Pos())},
				Msg: b.Name + " matches a name against the prefix of " + exprStr(sel.X) + ", which is not the plugin the ordered walk over the plugin slice is at: a plugin tried out of order (remembered from the previous call, cached) wins over the plugin with the longest matching prefix"})
			return true
		})
	}
}

// g8CallsReachAdd: in newPackage every discovered call is either handed to (*pkg).Add or examined by HasUndefined (and then
// deferred): no path round the call loop skips both — a pre-filter on the call's name would make prefix customisation drop calls.
func g8CallsReachAdd(r *Repo, rep *Report) {
	fi := r.lookup("derive.newPackage")
	add := r.lookup("derive.(*pkg).Add")
	hasU := r.lookup("derive.(*call).HasUndefined")
	if fi == nil || add == nil || hasU == nil {
		rep.fail(Finding{Rule: "G8", Key: "G8|calls-reach-add|missing", Kind: "undecided", Msg: "newPackage / (*pkg).Add / (*call).HasUndefined not found"})
		return
	}
	info := fi.Pkg.TypesInfo
	g := newGraph(fi.Decl.Body, mayReturnFn(info))
	// the loop whose body calls pkg.Add
	var loop *ast.RangeStmt
	ast.Inspect(fi.Decl.Body, func(n ast.Node) bool {
		rs, ok := n.(*ast.RangeStmt)
		if !ok {
			return true
		}
		direct := false
		inspectOwn(rs.Body, func(m ast.Node) bool {
			if c, ok := m.(*ast.CallExpr); ok && callee(info, c) == add.Fn {
				direct = true
			}
			return true
		})
		if direct {
			loop = rs // innermost wins (visited last)
		}
		return true
	})
	if loop == nil {
		rep.fail(Finding{Rule: "G8", Key: "G8|calls-reach-add|no-loop", Kind: "undecided", Where: []string{r.pos(fi.Decl.Pos())}, Msg: "newPackage: the loop that adds calls was not found"})
		return
	}
	var head, body *cfg.Block
	for _, b := range g.Blocks {
		if b.Stmt == ast.Stmt(loop) {
			switch b.Kind {
			case cfg.KindRangeLoop:
				head = b
			case cfg.KindRangeBody:
				body = b
			}
		}
	}
	if head == nil || body == nil {
		rep.fail(Finding{Rule: "G8", Key: "G8|calls-reach-add|cfg", Kind: "undecided", Msg: "newPackage: call loop not found in the CFG"})
		return
	}
	examines := func(b *cfg.Block) bool {
		return blockHas(b, func(n ast.Node) bool {
			c, ok := n.(*ast.CallExpr)
			return ok && (callee(info, c) == add.Fn || callee(info, c) == hasU.Fn)
		})
	}
	reach := g.reachable([]*cfg.Block{body}, examines)
	if examines(body) {
		rep.pass("G8")
		return
	}
	if reach[head] {
		rep.fail(Finding{Rule: "G8", Key: "G8|calls-reach-add|skipped", Where: []string{r.pos(loop.Pos())},
			Msg: "newPackage can skip a discovered call without handing it to (*pkg).Add or examining it with HasUndefined: calls written with a customised prefix can be dropped silently (goderive exits 0 and the function is never generated)"})
	} else {
		rep.pass("G8")
	}
}

// g8EveryRecordedCallRegistered: in newFileInfos every call expression the finder recorded (f.calls) is turned into its own call
// record with its own argument types: on every iteration of the loop over the finder's list, newCall is applied to that element
// (no path round the loop skips it). Two calls with the same source text can have different argument types (method receivers,
// parameters and shadowed locals of the same name), so registering one per text hides conflicts and leaves the others
// pointing at a function generated for other types.
func g8EveryRecordedCallRegistered(r *Repo, rep *Report) {
	fi := r.lookup("derive.newFileInfos")
	nc := r.lookup("derive.newCall")
	if fi == nil || nc == nil {
		rep.fail(Finding{Rule: "G8", Key: "G8|calls-recorded|missing", Kind: "undecided", Msg: "newFileInfos / newCall not found"})
		return
	}
	info := fi.Pkg.TypesInfo
	g := newGraph(fi.Decl.Body, func(*ast.CallExpr) bool { return true })
	loops := 0
	ast.Inspect(fi.Decl.Body, func(n ast.Node) bool {
		var body *ast.BlockStmt
		var over ast.Expr
		switch x := n.(type) {
		case *ast.RangeStmt:
			body, over = x.Body, x.X
		case *ast.ForStmt:
			// for i := range / i < len(f.calls)
			body = x.Body
			if be, ok := x.Cond.(*ast.BinaryExpr); ok {
				if c, ok := be.Y.(*ast.CallExpr); ok && exprStr(c.Fun) == "len" && len(c.Args) == 1 {
					over = c.Args[0]
				}
			}
		default:
			return true
		}
		// the calls the finder recorded: its field `calls`, or a local list of call expressions
		if over == nil {
			return true
		}
		switch ox := ast.Unparen(over).(type) {
		case *ast.SelectorExpr:
			if ox.Sel.Name != "calls" {
				return true
			}
		case *ast.Ident:
		default:
			return true
		}
		if t := info.TypeOf(over); t == nil || !strings.HasSuffix(t.String(), "[]*go/ast.CallExpr") {
			return true
		}
		loops++
		// blocks of the loop body; a path from the body's entry to its exit (falling off the end or `continue`) must pass newCall
		var entry *cfg.Block
		inBody := map[*cfg.Block]bool{}
		for _, b := range g.Blocks {
			for _, nd := range b.Nodes {
				if nd.Pos() >= body.Pos() && nd.End() <= body.End() {
					inBody[b] = true
				}
			}
			if (b.Kind == cfg.KindRangeBody || b.Kind == cfg.KindForBody) && b.Stmt == n.(ast.Stmt) {
				entry = b
				inBody[b] = true
			}
		}
		if entry == nil {
			rep.fail(Finding{Rule: "G8", Key: "G8|calls-recorded|shape", Kind: "undecided", Where: []string{r.pos(n.Pos())}, Msg: "the loop over the finder's calls has no body block in the control-flow graph"})
			return true
		}
		callsNew := func(b *cfg.Block) bool {
			return blockHas(b, func(k ast.Node) bool {
				c, ok := k.(*ast.CallExpr)
				return ok && callee(info, c) == nc.Fn
			})
		}
		// reach the outside of the body (loop head / after the loop) without passing a newCall block
		seen := map[*cfg.Block]bool{}
		escaped := false
		var walk func(b *cfg.Block)
		walk = func(b *cfg.Block) {
			if seen[b] || escaped {
				return
			}
			seen[b] = true
			if callsNew(b) {
				return
			}
			for _, s := range b.Succs {
				if !inBody[s] {
					escaped = true
					return
				}
				walk(s)
			}
		}
		walk(entry)
		if escaped {
			rep.fail(Finding{Rule: "G8", Key: "G8|calls-recorded|skipped", Where: []string{r.pos(n.Pos())},
				Msg: "newFileInfos can go round the loop over the finder's recorded calls without turning the call into a record of its own (newCall): a call that is skipped is never registered with its own argument types — two calls with the same text but different types (method receivers, parameters of the same name) are then treated as one, conflicts between them go unreported and one of them ends up calling a function generated for other types"})
		} else {
			rep.pass("G8")
			rep.sample(map[string]string{"rule": "G8 every recorded call becomes a call record", "loop": r.pos(n.Pos())})
		}
		return true
	})
	rep.analysed("recorded_call_loops", loops)
	if loops == 0 {
		rep.fail(Finding{Rule: "G8", Key: "G8|calls-recorded|floor", Kind: "undecided", Where: []string{r.pos(fi.Decl.Pos())}, Msg: "no loop over the finder's recorded calls found in newFileInfos (confirmed by hand)"})
	}
}

// loopBodyMustPass: on every path from the entry of the loop's body to its exit (falling off the end, continue, break) a block
// satisfying pred is passed. Returns (found loop body, ok).
func loopBodyMustPass(g *Graph, loop ast.Stmt, body *ast.BlockStmt, pred func(*cfg.Block) bool) (bool, bool) {
	var entry *cfg.Block
	inBody := map[*cfg.Block]bool{}
	for _, b := range g.Blocks {
		for _, nd := range b.Nodes {
			if nd.Pos() >= body.Pos() && nd.End() <= body.End() {
				inBody[b] = true
			}
		}
		if (b.Kind == cfg.KindRangeBody || b.Kind == cfg.KindForBody) && b.Stmt == loop {
			entry = b
			inBody[b] = true
		}
	}
	if entry == nil {
		return false, false
	}
	seen := map[*cfg.Block]bool{}
	escaped := false
	var walk func(b *cfg.Block)
	walk = func(b *cfg.Block) {
		if seen[b] || escaped {
			return
		}
		seen[b] = true
		if pred(b) {
			return
		}
		for _, s := range b.Succs {
			if !inBody[s] {
				escaped = true
				return
			}
			walk(s)
		}
	}
	walk(entry)
	return true, !escaped
}

// g27ProgressMeasure — the reload loop of generatePackage goes on while the list of calls that cannot be typed yet changes from
// one pass to the next. The list must hold one entry for every such call: if entries are dropped (de-duplicated by their text,
// filtered), a pass in which one of two textually identical calls became typeable looks like a pass without progress and the
// run ends with "cannot generate" although another pass would have generated everything. In the loop over the package's
// undefined calls every iteration stores an entry (indexed store or append) on every path.
func g27ProgressMeasure(r *Repo, rep *Report) {
	fi := r.lookup("derive.(*program).generatePackage")
	if fi == nil {
		rep.fail(Finding{Rule: "G27", Key: "G27|progress|missing", Kind: "undecided", Msg: "(*program).generatePackage not found"})
		return
	}
	info := fi.Pkg.TypesInfo
	g := newGraph(fi.Decl.Body, func(*ast.CallExpr) bool { return true })
	loops := 0
	ast.Inspect(fi.Decl.Body, func(n ast.Node) bool {
		rs, ok := n.(*ast.RangeStmt)
		if !ok {
			return true
		}
		sel, ok := ast.Unparen(rs.X).(*ast.SelectorExpr)
		if !ok || sel.Sel.Name != "undefined" {
			return true
		}
		loops++
		stores := func(b *cfg.Block) bool {
			return blockHas(b, func(k ast.Node) bool {
				as, ok := k.(*ast.AssignStmt)
				if !ok || len(as.Lhs) != 1 || len(as.Rhs) != 1 {
					return false
				}
				if ix, ok := as.Lhs[0].(*ast.IndexExpr); ok {
					if t := info.TypeOf(ix.X); t != nil && t.String() == "[]string" {
						return true
					}
				}
				if c, ok := as.Rhs[0].(*ast.CallExpr); ok && exprStr(c.Fun) == "append" {
					if t := info.TypeOf(as.Lhs[0]); t != nil && t.String() == "[]string" {
						return true
					}
				}
				return false
			})
		}
		found, ok2 := loopBodyMustPass(g, rs, rs.Body, stores)
		switch {
		case !found:
			rep.fail(Finding{Rule: "G27", Key: "G27|progress|shape", Kind: "undecided", Where: []string{r.pos(rs.Pos())}, Msg: "the loop over the undefined calls has no body block in the control-flow graph"})
		case !ok2:
			rep.fail(Finding{Rule: "G27", Key: "G27|progress|entries-dropped", Where: []string{r.pos(rs.Pos())},
				Msg: "generatePackage can skip an undefined call when it builds the list whose change from pass to pass decides whether another pass is made: with two calls of the same text of which one becomes typeable, the list does not change, the loop gives up and goderive ends with `cannot generate` for a package that one more pass would have completed"})
		default:
			rep.pass("G27")
			rep.sample(map[string]string{"rule": "G27 one progress entry per undefined call", "loop": r.pos(rs.Pos())})
		}
		return true
	})
	rep.analysed("undefined_call_loops", loops)
	if loops == 0 {
		rep.fail(Finding{Rule: "G27", Key: "G27|progress|floor", Kind: "undecided", Where: []string{r.pos(fi.Decl.Pos())}, Msg: "no loop over the package's undefined calls found in generatePackage"})
	}
}

// g8PluginOrderFixed — dispatch is "first plugin whose prefix matches" over a slice that NewPlugins sorted longest prefix first.
// That slice is shared by the plugins value, every program and every pkg: nothing but sortPlugins may reorder it or store into it
// (sort.*, slices.Sort*, an indexed store or a swap on a []Plugin), or a later dispatch walks the plugins in another order and a
// call with the longer prefix is handed to the plugin with the shorter one.
func g8PluginOrderFixed(r *Repo, rep *Report) {
	n := 0
	// slice types that sortPlugins — and nobody else — converts the plugin slice to in order to sort it through
	// sort.Interface: their Swap method is sortPlugins' own permutation (its shape is decided by g8Sort)
	sortTypes := map[*types.TypeName]bool{}
	for pass := 0; pass < 2; pass++ {
		for _, b := range r.bodies() {
			if b.Pkg.Name != "derive" && b.Pkg.Name != "main" {
				continue
			}
			inSort := b.Name == "derive.sortPlugins" || strings.HasPrefix(b.Name, "derive.sortPlugins$")
			info := b.Pkg.TypesInfo
			inspectOwn(b.Block, func(m ast.Node) bool {
				c, ok := m.(*ast.CallExpr)
				if !ok || len(c.Args) != 1 {
					return true
				}
				tv, ok := info.Types[c.Fun]
				if !ok || !tv.IsType() {
					return true
				}
				nt, ok := tv.Type.(*types.Named)
				if !ok {
					return true
				}
				if pass == 0 && inSort {
					sortTypes[nt.Obj()] = true
				}
				if pass == 1 && !inSort {
					delete(sortTypes, nt.Obj())
				}
				return true
			})
		}
	}
	for _, b := range r.bodies() {
		if b.Pkg.Name != "derive" && b.Pkg.Name != "main" {
			continue
		}
		if b.Name == "derive.sortPlugins" || strings.HasPrefix(b.Name, "derive.sortPlugins$") {
			continue
		}
		if b.Sig != nil && b.Sig.Recv() != nil && b.Owner != nil && b.Owner.Fn.Name() == "Swap" {
			if nt, ok := b.Sig.Recv().Type().(*types.Named); ok && sortTypes[nt.Obj()] {
				continue
			}
		}
		info := b.Pkg.TypesInfo
		isPluginSlice := func(e ast.Expr) bool {
			t := info.TypeOf(e)
			if t == nil {
				return false
			}
			sl, ok := t.Underlying().(*types.Slice)
			if !ok {
				return false
			}
			nt, ok := sl.Elem().(*types.Named)
			return ok && nt.Obj().Name() == "Plugin" && nt.Obj().Pkg() != nil && strings.HasSuffix(nt.Obj().Pkg().Path(), "/derive")
		}
		inspectOwn(b.Block, func(m ast.Node) bool {
			switch x := m.(type) {
			case *ast.CallExpr:
				fn, ok := callee(info, x).(*types.Func)
				if !ok || fn.Pkg() == nil || len(x.Args) == 0 {
					return true
				}
				mutates := fn.Pkg().Path() == "sort" && !strings.HasPrefix(fn.Name(), "Search") && !strings.Contains(fn.Name(), "AreSorted") && !strings.HasPrefix(fn.Name(), "IsSorted")
				if fn.Pkg().Path() == "slices" {
					for _, pre := range []string{"Sort", "Reverse", "Insert", "Delete", "Compact", "Replace"} {
						if strings.HasPrefix(fn.Name(), pre) {
							mutates = true
						}
					}
				}
				if mutates && isPluginSlice(x.Args[0]) {
					n++
					rep.fail(Finding{Rule: "G8", Key: "G8|plugin-order|" + b.Name + "|reordered", Where: []string{r.pos(x.Pos())},
						Msg: b.Name + " reorders a []Plugin (" + exprStr(x.Fun) + "): the slice is the one NewPlugins sorted longest prefix first and that every dispatch walks, so after this call a name with the longer of two nested prefixes can be handed to the plugin with the shorter one"})
				}
			case *ast.AssignStmt:
				for _, l := range x.Lhs {
					if ix, ok := l.(*ast.IndexExpr); ok && isPluginSlice(ix.X) {
						n++
						rep.fail(Finding{Rule: "G8", Key: "G8|plugin-order|" + b.Name + "|store", Where: []string{r.pos(x.Pos())},
							Msg: b.Name + " stores into a []Plugin: the order NewPlugins established (longest prefix first) is what dispatch relies on"})
					}
				}
			}
			return true
		})
	}
	rep.analysed("plugin_slice_mutations", n)
	if n == 0 {
		rep.pass("G8")
	}
}

// g8PrefixOpaque — "-prefix and -pluginprefix only rename": whether a run is carried out must not depend on how a prefix is
// spelled. A prefix is the first part of a function name, never a name of its own: `go`, `map`, `min` or `copy` are fine
// prefixes of goEqual, mapKeys, minOf and copyTo. The rule lists every condition in main and derive that reads a prefix value
// (the -prefix flag, a value that reaches SetPrefix, the result of GetPrefix()/Prefix(), a field called prefix) outside the two
// uses the property names — strings.HasPrefix(call name, prefix) in the dispatch and the ordering of two prefixes in the sort —
// and reports it when one of its branches ends the run (a non-nil error return, log.Fatal, panic, os.Exit).
func g8PrefixOpaque(r *Repo, rep *Report) {
	sites, bad := 0, 0
	for _, b := range r.bodies() {
		if b.Pkg.Name != "derive" && b.Pkg.Name != "main" {
			continue
		}
		if b.Lit != nil {
			continue // literals are walked with their owner
		}
		info := b.Pkg.TypesInfo
		// prefix-valued locals: arguments of SetPrefix and what is copied into them
		pv := map[types.Object]bool{}
		isPrefixCall := func(c *ast.CallExpr) bool {
			fn, ok := callee(info, c).(*types.Func)
			if !ok || fn.Pkg() == nil || !strings.HasSuffix(fn.Pkg().Path(), "/derive") {
				return false
			}
			sig, _ := fn.Type().(*types.Signature)
			return sig != nil && sig.Recv() != nil && (fn.Name() == "GetPrefix" || fn.Name() == "Prefix")
		}
		isFlagPrefix := func(e ast.Expr) bool {
			st, ok := ast.Unparen(e).(*ast.StarExpr)
			if !ok {
				return false
			}
			id, ok := ast.Unparen(st.X).(*ast.Ident)
			if !ok {
				return false
			}
			v, ok := info.Uses[id].(*types.Var)
			if !ok || v.Parent() != v.Pkg().Scope() {
				return false
			}
			// var prefix = flag.String("prefix", …)
			found := false
			for _, f := range b.Pkg.Syntax {
				ast.Inspect(f, func(m ast.Node) bool {
					vs, ok := m.(*ast.ValueSpec)
					if !ok {
						return true
					}
					for i, n := range vs.Names {
						if info.Defs[n] != v || i >= len(vs.Values) {
							continue
						}
						if c, ok := vs.Values[i].(*ast.CallExpr); ok && len(c.Args) >= 1 {
							if fn, ok := callee(info, c).(*types.Func); ok && fn.Pkg() != nil && fn.Pkg().Path() == "flag" && constIs(info, c.Args[0], "prefix") {
								found = true
							}
						}
					}
					return true
				})
			}
			return found
		}
		for changed := true; changed; {
			changed = false
			ast.Inspect(b.Block, func(m ast.Node) bool {
				switch x := m.(type) {
				case *ast.CallExpr:
					if fn, ok := callee(info, x).(*types.Func); ok && fn.Name() == "SetPrefix" && len(x.Args) == 1 {
						if id, ok := ast.Unparen(x.Args[0]).(*ast.Ident); ok && info.Uses[id] != nil && !pv[info.Uses[id]] {
							pv[info.Uses[id]] = true
							changed = true
						}
					}
				case *ast.AssignStmt:
					for i, l := range x.Lhs {
						lid, ok := l.(*ast.Ident)
						if !ok {
							continue
						}
						lo := objOf(info, lid)
						if lo == nil {
							continue
						}
						var rhs ast.Expr
						if len(x.Rhs) == len(x.Lhs) {
							rhs = x.Rhs[i]
						} else if len(x.Rhs) == 1 && i == 0 {
							rhs = x.Rhs[0]
						}
						if rhs == nil {
							continue
						}
						// backwards: what is copied into a prefix-valued variable is prefix-valued
						if pv[lo] {
							if rid, ok := ast.Unparen(rhs).(*ast.Ident); ok && info.Uses[rid] != nil && !pv[info.Uses[rid]] {
								if _, isVar := info.Uses[rid].(*types.Var); isVar {
									pv[info.Uses[rid]] = true
									changed = true
								}
							}
						}
						// forwards: a variable that receives a prefix
						if !pv[lo] {
							if c, ok := ast.Unparen(rhs).(*ast.CallExpr); ok && isPrefixCall(c) {
								pv[lo] = true
								changed = true
							} else if isFlagPrefix(rhs) {
								pv[lo] = true
								changed = true
							} else if rid, ok := ast.Unparen(rhs).(*ast.Ident); ok && pv[info.Uses[rid]] {
								pv[lo] = true
								changed = true
							}
						}
					}
				}
				return true
			})
		}
		isPrefixValue := func(e ast.Expr) bool {
			switch x := ast.Unparen(e).(type) {
			case *ast.Ident:
				return pv[info.Uses[x]]
			case *ast.CallExpr:
				return isPrefixCall(x)
			case *ast.StarExpr:
				return isFlagPrefix(x)
			case *ast.SelectorExpr:
				if sel, ok := info.Selections[x]; ok && sel.Kind() == types.FieldVal && x.Sel.Name == "prefix" {
					return true
				}
			}
			return false
		}
		// reads: a prefix value mentioned in the condition outside the two licensed contexts
		var reads func(e ast.Expr) ast.Expr
		reads = func(e ast.Expr) ast.Expr {
			var hit ast.Expr
			ast.Inspect(e, func(m ast.Node) bool {
				if hit != nil {
					return false
				}
				switch x := m.(type) {
				case *ast.FuncLit:
					return false
				case *ast.CallExpr:
					if fn, ok := callee(info, x).(*types.Func); ok && fn.Pkg() != nil && fn.Pkg().Path() == "strings" && fn.Name() == "HasPrefix" && len(x.Args) == 2 && isPrefixValue(x.Args[1]) {
						if h := reads(x.Args[0]); h != nil {
							hit = h
						}
						return false
					}
				case *ast.BinaryExpr:
					// an ordering / equality between two prefixes (or their lengths)
					strip := func(y ast.Expr) ast.Expr {
						if c, ok := ast.Unparen(y).(*ast.CallExpr); ok && len(c.Args) == 1 {
							if bi, ok := callee(info, c).(*types.Builtin); ok && bi.Name() == "len" {
								return c.Args[0]
							}
						}
						return y
					}
					if isPrefixValue(strip(x.X)) && isPrefixValue(strip(x.Y)) {
						return false
					}
				}
				if ex, ok := m.(ast.Expr); ok && isPrefixValue(ex) {
					hit = ex
					return false
				}
				return true
			})
			return hit
		}
		exits := func(n ast.Node) ast.Node {
			var out ast.Node
			if n == nil {
				return nil
			}
			ast.Inspect(n, func(m ast.Node) bool {
				if out != nil {
					return false
				}
				switch x := m.(type) {
				case *ast.FuncLit:
					return false
				case *ast.ReturnStmt:
					if b.Sig != nil && b.Sig.Results().Len() > 0 && isErrorType(b.Sig.Results().At(b.Sig.Results().Len()-1).Type()) && len(x.Results) == b.Sig.Results().Len() && !isNilIdent(info, x.Results[len(x.Results)-1]) {
						out = x
					}
				case *ast.CallExpr:
					if isNoReturn(info, x) {
						out = x
					}
				}
				return true
			})
			return out
		}
		ast.Inspect(b.Block, func(m ast.Node) bool {
			ifs, ok := m.(*ast.IfStmt)
			if !ok {
				return true
			}
			hit := reads(ifs.Cond)
			if hit == nil {
				return true
			}
			sites++
			ex := exits(ifs.Body)
			if ex == nil && ifs.Else != nil {
				ex = exits(ifs.Else)
			}
			if ex == nil {
				rep.pass("G8")
				return true
			}
			bad++
			rep.fail(Finding{Rule: "G8", Key: "G8|prefix-opaque|" + b.Name, Where: []string{r.pos(ifs.Cond.Pos()), r.pos(ex.Pos())},
				Msg: fmt.Sprintf("%s ends the run depending on how a prefix is spelled (`%s` reads %s): a prefix is only the first part of the generated names — `go`, `map`, `min`, `copy` are prefixes of the valid names goEqual, mapKeys, minOf, copyTo — so a run with such a -prefix/-pluginprefix must yield the default run's functions renamed, not a refusal", b.Name, exprStr(ifs.Cond), exprStr(hit))})
			return true
		})
	}
	rep.analysed("conditions_reading_a_prefix", sites)
	if bad == 0 {
		rep.pass("G8")
		// the rule's expected count is zero: a positive example evaluated on every run keeps it from passing vacuously
		if !g8PrefixOpaqueSelfTest() {
			rep.fail(Finding{Rule: "G8", Key: "G8|prefix-opaque|selftest", Kind: "undecided", Msg: "the built-in positive example of the prefix-opaque rule is no longer recognised"})
		}
	}
}

// g8PrefixOpaqueSelfTest parses a small main with `if !token.IsIdentifier(*prefix) { log.Fatal(…) }` and checks that the
// syntactic core of the rule (a condition on the dereferenced flag guarding a fatal call) is found in it.
func g8PrefixOpaqueSelfTest() bool {
	src := "package main\nimport (\"flag\"; \"go/token\"; \"log\")\nvar prefix = flag.String(\"prefix\", \"derive\", \"\")\nfunc main() { if !token.IsIdentifier(*prefix) { log.Fatal(\"bad\") } }\n"
	fset := token.NewFileSet()
	f, err := parser.ParseFile(fset, "selftest.go", src, 0)
	if err != nil {
		return false
	}
	found := false
	ast.Inspect(f, func(m ast.Node) bool {
		ifs, ok := m.(*ast.IfStmt)
		if !ok {
			return true
		}
		readsFlag := nodeHas(ifs.Cond, func(k ast.Node) bool {
			st, ok := k.(*ast.StarExpr)
			if !ok {
				return false
			}
			id, ok := st.X.(*ast.Ident)
			return ok && id.Name == "prefix"
		})
		fatal := nodeHas(ifs.Body, func(k ast.Node) bool {
			c, ok := k.(*ast.CallExpr)
			return ok && exprStr(c.Fun) == "log.Fatal"
		})
		found = found || (readsFlag && fatal)
		return true
	})
	return found
}

// walkLoop: a loop that visits the elements of a slice X front to back — `for [i], v := range X`, `for i := range X`
// or `for i := 0; i < len(X); i++`.
type walkLoop struct {
	Stmt ast.Stmt
	Body *ast.BlockStmt
	X    ast.Expr
	Idx  types.Object // the index variable, if any
}

func (w *walkLoop) Pos() token.Pos { return w.Stmt.Pos() }
func (w *walkLoop) End() token.Pos { return w.Stmt.End() }

func asWalkLoop(info *types.Info, n ast.Node) (*walkLoop, bool) {
	switch lp := n.(type) {
	case *ast.RangeStmt:
		w := &walkLoop{Stmt: lp, Body: lp.Body, X: lp.X}
		if k, ok := lp.Key.(*ast.Ident); ok && lp.Key != nil && k.Name != "_" {
			w.Idx = objOf(info, k)
		}
		return w, true
	case *ast.ForStmt:
		if lp.Init == nil || lp.Cond == nil || lp.Post == nil {
			return nil, false
		}
		init, ok1 := lp.Init.(*ast.AssignStmt)
		cond, ok2 := ast.Unparen(lp.Cond).(*ast.BinaryExpr)
		post, ok3 := lp.Post.(*ast.IncDecStmt)
		if !ok1 || !ok2 || !ok3 || len(init.Lhs) != 1 || len(init.Rhs) != 1 || exprStr(init.Rhs[0]) != "0" || cond.Op != token.LSS || post.Tok != token.INC {
			return nil, false
		}
		iv, isI := init.Lhs[0].(*ast.Ident)
		lc, isL := ast.Unparen(cond.Y).(*ast.CallExpr)
		if !isI || !isL || exprStr(lc.Fun) != "len" || len(lc.Args) != 1 || exprStr(cond.X) != iv.Name || exprStr(post.X) != iv.Name {
			return nil, false
		}
		return &walkLoop{Stmt: lp, Body: lp.Body, X: lc.Args[0], Idx: objOf(info, iv)}, true
	}
	return nil, false
}
