package main

import (
	"fmt"
	"go/ast"
	"go/constant"
	"go/token"
	"go/types"
	"strings"
)

// G15: constant-offset indexing in the driver (packages main and derive; plugin code is covered by the abstract interpreter's
// constant-index rule). An index x[c], x[len(x)-c], a slice bound x[c:], x[:len(x)-c] or a length make(T, len(x)-c) panics at
// run time unless len(x) is large enough. For every such site a lower bound for len(x) must follow from the code around it:
//   - an enclosing `if` whose condition (or, in the else branch, its negation) compares len(x) with a constant,
//   - an earlier sibling `if <cond> { return / continue / panic / log.Fatal }` (the negation holds afterwards),
//   - strings.HasPrefix(x, "lit") in an enclosing condition (len(x) >= len(lit)),
//   - x is the result of strings.Split / bytes.Split (at least one element).
//
// A site whose bound does not follow is a finding: "depends on the shape of data nothing here checks".
func runG15(r *Repo, rep *Report) {
	sites := 0
	for _, b := range r.bodies() {
		if b.Pkg.Name != "derive" && b.Pkg.Name != "main" {
			continue
		}
		info := b.Pkg.TypesInfo
		constInt := func(e ast.Expr) (int, bool) {
			if tv, ok := info.Types[e]; ok && tv.Value != nil && tv.Value.Kind() == constant.Int {
				if v, ok := constant.Int64Val(tv.Value); ok {
					return int(v), true
				}
			}
			return 0, false
		}
		// lenMinus: e is `len(x) - c` (c >= 0) or `len(x)`; returns x's text and c
		lenOf := func(e ast.Expr) (string, bool) {
			c, ok := ast.Unparen(e).(*ast.CallExpr)
			if !ok || len(c.Args) != 1 {
				return "", false
			}
			if bi, ok := callee(info, c).(*types.Builtin); ok && bi.Name() == "len" {
				return exprStr(c.Args[0]), true
			}
			return "", false
		}
		lenMinus := func(e ast.Expr) (string, int, bool) {
			e = ast.Unparen(e)
			if x, ok := lenOf(e); ok {
				return x, 0, true
			}
			if be, ok := e.(*ast.BinaryExpr); ok && be.Op == token.SUB {
				if x, ok := lenOf(be.X); ok {
					if c, ok := constInt(be.Y); ok && c >= 0 {
						return x, c, true
					}
				}
			}
			return "", 0, false
		}
		// facts from a condition known to be true (neg=false) or false (neg=true): lower bounds for len(x)
		var factsOf func(cond ast.Expr, neg bool, out map[string]int)
		factsOf = func(cond ast.Expr, neg bool, out map[string]int) {
			cond = ast.Unparen(cond)
			set := func(x string, n int) {
				if n > out[x] {
					out[x] = n
				}
			}
			switch c := cond.(type) {
			case *ast.UnaryExpr:
				if c.Op == token.NOT {
					factsOf(c.X, !neg, out)
				}
			case *ast.BinaryExpr:
				switch c.Op {
				case token.LAND:
					if !neg {
						factsOf(c.X, false, out)
						factsOf(c.Y, false, out)
					}
					return
				case token.LOR:
					if neg {
						factsOf(c.X, true, out)
						factsOf(c.Y, true, out)
					}
					return
				}
				x, okx := lenOf(c.X)
				k, okk := constInt(c.Y)
				op := c.Op
				if !okx || !okk {
					// constant on the left
					x, okx = lenOf(c.Y)
					k, okk = constInt(c.X)
					if !okx || !okk {
						return
					}
					switch op {
					case token.LSS:
						op = token.GTR
					case token.LEQ:
						op = token.GEQ
					case token.GTR:
						op = token.LSS
					case token.GEQ:
						op = token.LEQ
					}
				}
				if neg {
					switch op {
					case token.LSS:
						op = token.GEQ
					case token.LEQ:
						op = token.GTR
					case token.EQL:
						op = token.NEQ
					case token.NEQ:
						op = token.EQL
					case token.GTR, token.GEQ:
						return
					}
				}
				switch op {
				case token.GTR:
					set(x, k+1)
				case token.GEQ, token.EQL:
					set(x, k)
				case token.NEQ:
					if k == 0 {
						set(x, 1)
					}
				}
			case *ast.CallExpr:
				if neg {
					return
				}
				if fn, ok := callee(info, c).(*types.Func); ok && fn.Pkg() != nil && (fn.Pkg().Path() == "strings" || fn.Pkg().Path() == "bytes") &&
					(fn.Name() == "HasPrefix" || fn.Name() == "HasSuffix") && len(c.Args) == 2 {
					if tv, ok := info.Types[c.Args[1]]; ok && tv.Value != nil && tv.Value.Kind() == constant.String {
						set(exprStr(c.Args[0]), len(constant.StringVal(tv.Value)))
					}
				}
			}
		}
		terminates := func(blk *ast.BlockStmt) bool {
			if len(blk.List) == 0 {
				return false
			}
			switch last := blk.List[len(blk.List)-1].(type) {
			case *ast.ReturnStmt:
				return true
			case *ast.BranchStmt:
				return last.Tok == token.CONTINUE || last.Tok == token.BREAK || last.Tok == token.GOTO
			case *ast.ExprStmt:
				if c, ok := last.X.(*ast.CallExpr); ok {
					return isNoReturn(info, c)
				}
			}
			return false
		}
		boundsAt := func(n ast.Node) map[string]int {
			out := map[string]int{}
			for p, child := b.Parent[n], n; p != nil; child, p = p, b.Parent[p] {
				switch x := p.(type) {
				case *ast.IfStmt:
					if child == x.Body {
						factsOf(x.Cond, false, out)
					} else if child == x.Else {
						factsOf(x.Cond, true, out)
					}
				case *ast.BlockStmt:
					for _, s := range x.List {
						if s == child {
							break
						}
						if is, ok := s.(*ast.IfStmt); ok && is.Else == nil && terminates(is.Body) {
							factsOf(is.Cond, true, out)
						}
					}
				case *ast.CaseClause:
					// the statements of a switch arm are a statement list like a block's
					for _, s := range x.Body {
						if s == child {
							break
						}
						if is, ok := s.(*ast.IfStmt); ok && is.Else == nil && terminates(is.Body) {
							factsOf(is.Cond, true, out)
						}
					}
				case *ast.FuncLit:
					return out
				}
			}
			return out
		}
		// x defined once as strings.Split(...) / bytes.Split(...)
		splitResult := func(x ast.Expr) bool {
			id, ok := ast.Unparen(x).(*ast.Ident)
			if !ok {
				return false
			}
			o := info.Uses[id]
			if o == nil {
				return false
			}
			defs, isSplit := 0, false
			ast.Inspect(b.Block, func(m ast.Node) bool {
				as, ok := m.(*ast.AssignStmt)
				if !ok {
					return true
				}
				for i, l := range as.Lhs {
					lid, ok := l.(*ast.Ident)
					if !ok || (info.Defs[lid] != o && info.Uses[lid] != o) {
						continue
					}
					defs++
					if len(as.Rhs) == len(as.Lhs) {
						if c, ok := as.Rhs[i].(*ast.CallExpr); ok {
							if fn, ok := callee(info, c).(*types.Func); ok && fn.Pkg() != nil && (fn.Pkg().Path() == "strings" || fn.Pkg().Path() == "bytes") && fn.Name() == "Split" {
								isSplit = true
							}
						}
					}
				}
				return true
			})
			return defs == 1 && isSplit
		}
		need := func(site ast.Node, x ast.Expr, want int, what string) {
			if want <= 0 {
				return
			}
			// fixed-size arrays are checked by the compiler
			if t := info.TypeOf(x); t != nil {
				u := t.Underlying()
				if p, ok := u.(*types.Pointer); ok {
					u = p.Elem().Underlying()
				}
				switch u.(type) {
				case *types.Array, *types.Map:
					return
				}
			}
			sites++
			have := boundsAt(site)[exprStr(x)]
			if splitResult(x) && have < 1 {
				have = 1
			}
			if have >= want {
				rep.pass("G15")
				rep.sample(map[string]string{"rule": "G15 constant offset within established length", "site": r.pos(site.Pos()), "needs": fmt.Sprintf("len(%s) >= %d", exprStr(x), want), "established": fmt.Sprintf(">= %d", have)})
				return
			}
			rep.fail(Finding{Rule: "G15", Key: fmt.Sprintf("G15|%s|%s|%s", b.Name, what, exprStr(x)), Where: []string{r.pos(site.Pos())},
				Msg: fmt.Sprintf("%s: %s needs len(%s) >= %d but the surrounding code establishes only >= %d: for inputs where %s is shorter goderive panics (index/slice bounds out of range or makeslice: len out of range) instead of ending with a diagnostic", b.Name, exprStr(site), exprStr(x), want, have, exprStr(x))})
		}
		// varBound: x[:v] / x[v:] with a variable offset v needs v <= len(x). Accepted grounds: a condition on the way to the cut that
		// compares v with len of the very operand that is cut (`v > len(x)` false, `v <= len(x)` / `v < len(x)` true); v is the key of
		// an enclosing range over x; v is an offset that strings.Index/LastIndex returned for x, plus at most the length of the
		// literal searched for. A test against the length of something else (the byte length of the string whose runes are cut)
		// establishes nothing about x.
		varBound := func(site *ast.SliceExpr, x ast.Expr, v *types.Var) {
			if t := info.TypeOf(x); t != nil {
				if _, isArr := t.Underlying().(*types.Array); isArr {
					return
				}
			}
			sites++
			xs := exprStr(x)
			isV := func(e ast.Expr) bool {
				id, ok := ast.Unparen(e).(*ast.Ident)
				return ok && info.Uses[id] == v
			}
			isLenX := func(e ast.Expr) bool {
				t, ok := lenOf(e)
				return ok && t == xs
			}
			var holds func(cond ast.Expr, neg bool) bool
			holds = func(cond ast.Expr, neg bool) bool {
				cond = ast.Unparen(cond)
				switch c := cond.(type) {
				case *ast.UnaryExpr:
					if c.Op == token.NOT {
						return holds(c.X, !neg)
					}
				case *ast.BinaryExpr:
					switch c.Op {
					case token.LAND:
						if !neg {
							return holds(c.X, false) || holds(c.Y, false)
						}
						return false
					case token.LOR:
						if neg {
							return holds(c.X, true) || holds(c.Y, true)
						}
						return false
					}
					op := c.Op
					a, bb := c.X, c.Y
					if isLenX(a) && isV(bb) {
						a, bb = bb, a
						switch op {
						case token.LSS:
							op = token.GTR
						case token.LEQ:
							op = token.GEQ
						case token.GTR:
							op = token.LSS
						case token.GEQ:
							op = token.LEQ
						}
					}
					if !isV(a) || !isLenX(bb) {
						return false
					}
					if !neg {
						return op == token.LEQ || op == token.LSS || op == token.EQL
					}
					return op == token.GTR
				}
				return false
			}
			ok := false
			why := ""
			var child ast.Node = site
			for p := b.Parent[child]; p != nil && !ok; child, p = p, b.Parent[p] {
				stop := false
				switch y := p.(type) {
				case *ast.IfStmt:
					if (child == ast.Node(y.Body) && holds(y.Cond, false)) || (y.Else != nil && child == ast.Node(y.Else) && holds(y.Cond, true)) {
						ok, why = true, "condition "+exprStr(y.Cond)
					}
				case *ast.BlockStmt:
					for _, st := range y.List {
						if ast.Node(st) == child {
							break
						}
						if is, isIf := st.(*ast.IfStmt); isIf && is.Else == nil && terminates(is.Body) && holds(is.Cond, true) {
							ok, why = true, "earlier exit under "+exprStr(is.Cond)
						}
					}
				case *ast.RangeStmt:
					if kid, isID := y.Key.(*ast.Ident); isID && info.Defs[kid] == v && exprStr(y.X) == xs {
						ok, why = true, "range key of "+xs
					}
				case *ast.ForStmt:
					if y.Cond != nil && child == ast.Node(y.Body) && holds(y.Cond, false) {
						ok, why = true, "loop condition "+exprStr(y.Cond)
					}
				case *ast.FuncLit:
					stop = true
				}
				if stop {
					break
				}
			}
			if !ok {
				// every definition of v: strings.Index*/LastIndex*(x, lit) or v = v + c with c <= len(lit)
				litLen, searched, good := 0, false, true
				ast.Inspect(b.Block, func(m ast.Node) bool {
					as, isAs := m.(*ast.AssignStmt)
					if !isAs || len(as.Lhs) != len(as.Rhs) {
						return true
					}
					for i, l := range as.Lhs {
						id, isID := l.(*ast.Ident)
						if !isID || objOf(info, id) != types.Object(v) {
							continue
						}
						rhs := ast.Unparen(as.Rhs[i])
						if call, isCall := rhs.(*ast.CallExpr); isCall && len(call.Args) == 2 {
							if fn, isFn := callee(info, call).(*types.Func); isFn && fn.Pkg() != nil && (fn.Pkg().Path() == "strings" || fn.Pkg().Path() == "bytes") &&
								(strings.HasPrefix(fn.Name(), "Index") || strings.HasPrefix(fn.Name(), "LastIndex")) && exprStr(call.Args[0]) == xs {
								searched = true
								n := 1
								if tv, isC := info.Types[call.Args[1]]; isC && tv.Value != nil && tv.Value.Kind() == constant.String {
									n = len(constant.StringVal(tv.Value))
								}
								if litLen == 0 || n < litLen {
									litLen = n
								}
								continue
							}
						}
						if be, isBin := rhs.(*ast.BinaryExpr); isBin && be.Op == token.ADD && isV(be.X) {
							if cst, isC := constInt(be.Y); isC && cst >= 0 && cst <= litLen {
								continue
							}
						}
						good = false
					}
					return true
				})
				if searched && good {
					ok, why = true, "offset of a search in "+xs
				}
			}
			if ok {
				rep.pass("G15")
				rep.sample(map[string]string{"rule": "G15 variable offset within the length of the operand that is cut", "site": r.pos(site.Pos()), "ground": why})
				return
			}
			rep.fail(Finding{Rule: "G15", Key: fmt.Sprintf("G15|%s|variable-offset|%s", b.Name, xs), Where: []string{r.pos(site.Pos())},
				Msg: fmt.Sprintf("%s: %s cuts %s at the variable offset %s, and nothing on the way to the cut compares %s with len(%s) (a test against the length of another value — the byte length of the string whose runes are cut — establishes nothing about %s): for inputs where %s is shorter goderive panics with slice bounds out of range, or silently reads the zeroed spare capacity of a freshly converted slice into a name it prints", b.Name, exprStr(site), xs, v.Name(), v.Name(), xs, xs, xs)})
		}
		inspectOwn(b.Block, func(m ast.Node) bool {
			switch e := m.(type) {
			case *ast.IndexExpr:
				if tv, ok := info.Types[e.X]; ok && tv.IsType() {
					return true
				}
				if _, isSig := info.TypeOf(e.X).(*types.Signature); isSig {
					return true
				}
				if c, ok := constInt(e.Index); ok {
					need(e, e.X, c+1, "index")
				} else if x, c, ok := lenMinus(e.Index); ok && x == exprStr(e.X) {
					if c == 0 {
						need(e, e.X, 1<<30, "index") // x[len(x)] always panics
					} else {
						need(e, e.X, c, "index")
					}
				}
			case *ast.SliceExpr:
				for _, bound := range []ast.Expr{e.Low, e.High} {
					if bound == nil {
						continue
					}
					if id, ok := ast.Unparen(bound).(*ast.Ident); ok {
						if v, isVar := info.Uses[id].(*types.Var); isVar {
							if _, isConst := constInt(bound); !isConst {
								varBound(e, e.X, v)
							}
						}
					}
				}
				lo := 0
				if e.Low != nil {
					if c, ok := constInt(e.Low); ok {
						lo = c
						need(e, e.X, c, "slice")
					}
				}
				if e.High != nil {
					if x, c, ok := lenMinus(e.High); ok && x == exprStr(e.X) && c > 0 {
						need(e, e.X, c+lo, "slice")
					} else if c, ok := constInt(e.High); ok {
						need(e, e.X, c, "slice")
					}
				}
			case *ast.CallExpr:
				if bi, ok := callee(info, e).(*types.Builtin); ok && bi.Name() == "make" && len(e.Args) >= 2 {
					for _, a := range e.Args[1:] {
						if x, c, ok := lenMinus(a); ok && c > 0 {
							// find the expression node for x
							var xe ast.Expr
							ast.Inspect(a, func(k ast.Node) bool {
								if ce, ok := k.(*ast.CallExpr); ok && len(ce.Args) == 1 && exprStr(ce.Args[0]) == x {
									xe = ce.Args[0]
								}
								return true
							})
							if xe != nil {
								need(e, xe, c, "make")
							}
						}
					}
				}
			}
			return true
		})
	}
	rep.analysed("driver_constant_offset_sites", sites)
	if sites < 6 {
		rep.fail(Finding{Rule: "G15", Key: "G15|floor", Kind: "undecided", Msg: fmt.Sprintf("only %d constant-offset sites found in the driver (8 were confirmed by hand)", sites)})
	}
	_ = strings.Contains
}

// g15StringCuts — identifiers (type names, field names, function names) need not be ASCII. A string that holds one may be cut
// (s[:i], s[i:], s[i]) only at offsets that are known to lie between characters: a constant 0, len(s), or an offset that a strings
// search for an ASCII literal returned. In package derive every other cut of a string must go through []rune. The rule lists
// every variable-offset cut of a string-typed operand and accepts those whose offsets come from strings.Index/LastIndex (+ len of
// a literal) or utf8 decoding; the rest is reported.
func g15StringCuts(r *Repo, rep *Report) {
	n := 0
	for _, b := range r.bodies() {
		if b.Pkg.Name != "derive" {
			continue
		}
		info := b.Pkg.TypesInfo
		isString := func(e ast.Expr) bool {
			t := info.TypeOf(e)
			if t == nil {
				return false
			}
			bt, ok := t.Underlying().(*types.Basic)
			return ok && bt.Info()&types.IsString != 0
		}
		// offsets that are safe: constants, len(x), results of strings.Index*/utf8 functions (possibly plus a constant or len of a literal)
		visiting := map[types.Object]bool{}
		var safe func(e ast.Expr, depth int) bool
		safe = func(e ast.Expr, depth int) bool {
			if e == nil {
				return true
			}
			if tv, ok := info.Types[e]; ok && tv.Value != nil {
				return true
			}
			switch x := ast.Unparen(e).(type) {
			case *ast.CallExpr:
				if exprStr(x.Fun) == "len" {
					return true
				}
				if fn, ok := callee(info, x).(*types.Func); ok && fn.Pkg() != nil && (fn.Pkg().Path() == "strings" || fn.Pkg().Path() == "unicode/utf8" || fn.Pkg().Path() == "bytes") {
					return true
				}
			case *ast.BinaryExpr:
				return safe(x.X, depth) && safe(x.Y, depth)
			case *ast.Ident:
				if depth > 3 {
					return false
				}
				o := info.Uses[x]
				if o == nil {
					return false
				}
				if visiting[o] {
					return true // the variable itself inside one of its own updates (offset = offset + len("/vendor/"))
				}
				visiting[o] = true
				defer delete(visiting, o)
				// every assignment to the variable in this body is safe
				all, any := true, false
				inspectOwn(b.Block, func(m ast.Node) bool {
					switch s := m.(type) {
					case *ast.AssignStmt:
						for i, l := range s.Lhs {
							if id, ok := l.(*ast.Ident); ok && objOf(info, id) == o {
								any = true
								if len(s.Rhs) == len(s.Lhs) {
									if !safe(s.Rhs[i], depth+1) {
										all = false
									}
								} else if len(s.Rhs) == 1 {
									if !safe(s.Rhs[0], depth+1) {
										all = false
									}
								}
							}
						}
					case *ast.IncDecStmt:
						if id, ok := s.X.(*ast.Ident); ok && objOf(info, id) == o {
							all = false // a counter walks through every offset
						}
					case *ast.RangeStmt:
						if id, ok := s.Key.(*ast.Ident); ok && objOf(info, id) == o {
							any = true
							if !isString(s.X) {
								all = false // an index of something else than the string itself
							}
						}
					}
					return true
				})
				return any && all
			}
			return false
		}
		inspectOwn(b.Block, func(m ast.Node) bool {
			se, ok := m.(*ast.SliceExpr)
			if !ok || !isString(se.X) {
				return true
			}
			n++
			if safe(se.Low, 0) && safe(se.High, 0) {
				rep.pass("G15")
				return true
			}
			rep.fail(Finding{Rule: "G15", Key: "G15|string-cut|" + b.Name, Where: []string{r.pos(se.Pos())},
				Msg: b.Name + " cuts the string " + exprStr(se.X) + " at an offset that is a running byte count (" + exprStr(se) + "): when the string holds an identifier with a character outside ASCII (type Ünit) the cut falls inside a character and the result is not valid UTF-8 — as a function name it makes derived.gen.go (and, with -autoname, the rewritten user file) unparsable"})
			return true
		})
	}
	rep.analysed("string_cuts", n)
}
