package main

import (
	"go/ast"
	"go/token"
	"go/types"
	"strings"

	"golang.org/x/tools/go/packages"
)

// parents builds a child->parent map for a subtree.
func parents(root ast.Node) map[ast.Node]ast.Node {
	m := map[ast.Node]ast.Node{}
	var stack []ast.Node
	ast.Inspect(root, func(n ast.Node) bool {
		if n == nil {
			stack = stack[:len(stack)-1]
			return true
		}
		if len(stack) > 0 {
			m[n] = stack[len(stack)-1]
		}
		stack = append(stack, n)
		return true
	})
	return m
}

// Body is a function body (declared function or literal) analysed on its own.
type Body struct {
	Pkg    *packages.Package
	Owner  *FuncInfo // enclosing declared function
	Lit    *ast.FuncLit
	Type   *ast.FuncType
	Block  *ast.BlockStmt
	Sig    *types.Signature
	Name   string // key name; literals get owner$lit<n>
	Parent map[ast.Node]ast.Node
}

// bodies lists all function bodies of the repo (declared functions and nested literals), deterministic order.
func (r *Repo) bodies() []*Body {
	var out []*Body
	for _, fi := range r.sortedFuncs() {
		par := parents(fi.Decl)
		sig, _ := fi.Fn.Type().(*types.Signature)
		out = append(out, &Body{Pkg: fi.Pkg, Owner: fi, Type: fi.Decl.Type, Block: fi.Decl.Body, Sig: sig, Name: funcKey(fi.Fn), Parent: par})
		n := 0
		ast.Inspect(fi.Decl.Body, func(x ast.Node) bool {
			if l, ok := x.(*ast.FuncLit); ok {
				n++
				s, _ := fi.Pkg.TypesInfo.TypeOf(l).(*types.Signature)
				out = append(out, &Body{Pkg: fi.Pkg, Owner: fi, Lit: l, Type: l.Type, Block: l.Body, Sig: s,
					Name: funcKey(fi.Fn) + "$lit" + string(rune('0'+n)), Parent: par})
			}
			return true
		})
	}
	return out
}

// inspectOwn walks the body without descending into nested function literals.
func inspectOwn(root ast.Node, f func(ast.Node) bool) {
	ast.Inspect(root, func(n ast.Node) bool {
		if n == nil {
			return false
		}
		if _, ok := n.(*ast.FuncLit); ok && n != root {
			return false
		}
		return f(n)
	})
}

func mayReturnFn(info *types.Info) func(*ast.CallExpr) bool {
	return func(c *ast.CallExpr) bool {
		return !isNoReturn(info, c)
	}
}

func isNoReturn(info *types.Info, c *ast.CallExpr) bool {
	o := callee(info, c)
	if b, ok := o.(*types.Builtin); ok && b.Name() == "panic" {
		return true
	}
	if fn, ok := o.(*types.Func); ok && fn.Pkg() != nil {
		switch fn.Pkg().Path() {
		case "log":
			return strings.HasPrefix(fn.Name(), "Fatal") || strings.HasPrefix(fn.Name(), "Panic")
		case "os":
			return fn.Name() == "Exit"
		}
	}
	return false
}

func isNilIdent(info *types.Info, e ast.Expr) bool {
	id, ok := ast.Unparen(e).(*ast.Ident)
	if !ok {
		return false
	}
	_, isNil := info.Uses[id].(*types.Nil)
	return isNil
}

// usesVar reports whether node n references variable v (outside nested func literals).
func usesVar(info *types.Info, n ast.Node, v types.Object) bool {
	return nodeHas(n, func(m ast.Node) bool {
		id, ok := m.(*ast.Ident)
		return ok && info.Uses[id] == v
	})
}

// nilCompare: is e of the form `v != nil` / `v == nil` (either order)? returns op.
func nilCompare(info *types.Info, e ast.Expr, v types.Object) (token.Token, bool) {
	b, ok := ast.Unparen(e).(*ast.BinaryExpr)
	if !ok || (b.Op != token.NEQ && b.Op != token.EQL) {
		return 0, false
	}
	isV := func(x ast.Expr) bool {
		id, ok := ast.Unparen(x).(*ast.Ident)
		return ok && (info.Uses[id] == v)
	}
	if (isV(b.X) && isNilIdent(info, b.Y)) || (isV(b.Y) && isNilIdent(info, b.X)) {
		return b.Op, true
	}
	return 0, false
}

func exprStr(e ast.Node) string {
	if e == nil {
		return ""
	}
	if x, ok := e.(ast.Expr); ok {
		return types.ExprString(x)
	}
	return ""
}
