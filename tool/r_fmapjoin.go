package main

import (
	"fmt"
	"go/ast"
	"go/token"
)

// C17 — fmap over slices/strings, join of slices/strings.

func paramType(fn *ast.FuncDecl, name string) ast.Expr {
	for _, f := range fn.Type.Params.List {
		for _, n := range f.Names {
			if n.Name == name {
				return f.Type
			}
		}
	}
	return nil
}

func fmapSeqIssues(rs *Resid, fn *ast.FuncDecl) []sideIssue {
	var out []sideIssue
	iss := func(n ast.Node, kind, format string, a ...interface{}) {
		out = append(out, sideIssue{n, fmt.Sprintf(format, a...), kind, ""})
	}
	names := fieldNames(fn.Type.Params)
	if len(names) != 2 {
		return []sideIssue{{fn, "fmap does not take (f, sequence)", "shape", ""}}
	}
	f, seq := names[0], names[1]
	l := newListFn(rs, fn)
	if l.loop == nil {
		if l.forSt != nil {
			return []sideIssue{{fn, "the elements are visited with a hand-written for loop instead of `range`: outside the rule's vocabulary (index/width arithmetic is not decided), so nothing is claimed for this form", "loop-form-undecided", ""}}
		}
		return []sideIssue{{fn, "no element loop", "no-loop", ""}}
	}
	ranged := l.x(l.loop.X)
	// the ranged operand is the sequence, or []rune(sequence) for strings; never the string itself
	isString := false
	if id, ok := paramType(fn, seq).(*ast.Ident); ok && id.Name == "string" {
		isString = true
	}
	// append form: the result starts empty (make([]B, 0, n)) and every iteration appends f(element); no position is computed,
	// so for a string the range over the string itself visits exactly its runes, in order
	outVar0 := ""
	for _, r := range returnsIn(fn) {
		outVar0 = retVal(r)
	}
	appendForm := false
	if c, ok := firstDefine(fn, outVar0).(*ast.CallExpr); ok && canon(c.Fun) == "make" && len(c.Args) >= 2 && canon(c.Args[1]) == "0" {
		appendForm = true
	}
	if isString && appendForm && ranged == seq && keyName(l.loop) == "_" {
		// for _, r := range s: the runes of s
	} else if isString {
		if ranged != "[]rune("+seq+")" {
			iss(l.loop, "string-range", "ranges over %s: ranging over a string yields byte offsets, not rune positions; the runes must be taken from []rune(%s)", rs.src(l.loop.X), seq)
		}
	} else if ranged != seq {
		iss(l.loop, "wrong-operand", "ranges over %s instead of the input slice", rs.src(l.loop.X))
	}
	// early exits
	ast.Inspect(l.loop.Body, func(n ast.Node) bool {
		switch x := n.(type) {
		case *ast.BranchStmt:
			iss(x, "early-exit", "leaves or skips inside the element loop (%s)", x.Tok)
		case *ast.ReturnStmt:
			iss(x, "early-exit", "returns from inside the element loop")
		}
		return true
	})
	// f once per iteration on the range value (or on the ranged operand indexed with the range key)
	cs := callsOf(l.loop.Body, f)
	if len(cs) != 1 || len(callsOf(fn.Body, f)) != 1 {
		iss(l.loop, "call-count", "f is called %d times per element (expected exactly once, inside the loop only)", len(cs))
	}
	for _, c := range cs {
		if len(c.Args) != 1 || !isCurrentElem(l.loop, c.Args[0]) {
			iss(c, "call-arg", "calls %s, not f on the current element", rs.src(c))
		}
	}
	// the output: made with the length of the very operand that is ranged over, filled at the range key
	outVar := ""
	for _, r := range returnsIn(fn) {
		outVar = retVal(r)
	}
	if appendForm {
		n := 0
		for _, st := range l.loop.Body.List {
			as, ok := st.(*ast.AssignStmt)
			if !ok || len(as.Lhs) != 1 || len(as.Rhs) != 1 || canon(as.Lhs[0]) != outVar {
				continue
			}
			c, ok := as.Rhs[0].(*ast.CallExpr)
			if !ok || canon(c.Fun) != "append" || len(c.Args) != 2 || canon(c.Args[0]) != outVar {
				iss(as, "slot", "assigns the result list something other than append(%s, f(element))", outVar)
				continue
			}
			n++
			stored := c.Args[1]
			if id, isID := unparen(stored).(*ast.Ident); isID {
				for _, st2 := range l.loop.Body.List {
					if d, isD := st2.(*ast.AssignStmt); isD && d.Tok == token.DEFINE && len(d.Lhs) == 1 && len(d.Rhs) == 1 && canon(d.Lhs[0]) == id.Name && d.Pos() < as.Pos() {
						stored = d.Rhs[0]
					}
				}
			}
			if fc, ok := stored.(*ast.CallExpr); !ok || canon(fc.Fun) != f {
				iss(as, "slot-value", "appends %s instead of f(element)", rs.src(c.Args[1]))
			}
		}
		if n != 1 {
			iss(l.loop, "store-count", "appends %d results per element, unconditionally (expected one)", n)
		}
		if sd := newSided(rs, fn); sd != nil {
			out = append(out, writesThroughRoots(sd, nil)...)
		}
		return out
	}
	d := firstDefine(fn, outVar)
	okLen := false
	if c, ok := d.(*ast.CallExpr); ok && canon(c.Fun) == "make" && len(c.Args) == 2 {
		if la := lenExprArg(c.Args[1]); la != nil && l.x(la) == ranged {
			okLen = true
		}
	}
	if !okLen {
		iss(fn, "length", "the result is not made with len(%s), the length of the operand the loop ranges over: the result length differs from the number of elements visited", ranged)
	}
	key := keyName(l.loop)
	stores := 0
	ast.Inspect(l.loop.Body, func(n ast.Node) bool {
		as, ok := n.(*ast.AssignStmt)
		if !ok || len(as.Lhs) != 1 || len(as.Rhs) != 1 {
			return true
		}
		ix, ok := as.Lhs[0].(*ast.IndexExpr)
		if !ok {
			return true
		}
		stores++
		if canon(ix.X) != outVar || canon(ix.Index) != key || key == "_" {
			iss(as, "slot", "stores at %s; the i-th result belongs at %s[%s]", rs.src(as.Lhs[0]), outVar, key)
		}
		stored := as.Rhs[0]
		// b := f(elem); out[i] = b — the result bound to a local of the loop body first
		if id, isID := unparen(stored).(*ast.Ident); isID {
			for _, st := range l.loop.Body.List {
				if d, isD := st.(*ast.AssignStmt); isD && d.Tok == token.DEFINE && len(d.Lhs) == 1 && len(d.Rhs) == 1 && canon(d.Lhs[0]) == id.Name && d.Pos() < as.Pos() {
					stored = d.Rhs[0]
				}
			}
		}
		if c, ok := stored.(*ast.CallExpr); !ok || canon(c.Fun) != f {
			iss(as, "slot-value", "stores %s instead of f(element)", rs.src(as.Rhs[0]))
		}
		return true
	})
	if stores != 1 {
		iss(l.loop, "store-count", "stores %d results per element (expected one)", stores)
	}
	if s := newSided(rs, fn); s != nil {
		out = append(out, writesThroughRoots(s, nil)...)
	}
	return out
}

func joinSliceIssues(rs *Resid, fn *ast.FuncDecl) []sideIssue {
	var out []sideIssue
	iss := func(n ast.Node, kind, format string, a ...interface{}) {
		out = append(out, sideIssue{n, fmt.Sprintf(format, a...), kind, ""})
	}
	L := fieldNames(fn.Type.Params)[0]
	// `if L != nil { … return res }; return nil` is the guard clause `if L == nil { return nil }; …` with the branches exchanged
	if len(fn.Body.List) == 2 {
		if ifs, ok := fn.Body.List[0].(*ast.IfStmt); ok && ifs.Else == nil && ifs.Init == nil {
			if be, ok := unparen(ifs.Cond).(*ast.BinaryExpr); ok && be.Op == token.NEQ && isNilLit(be.Y) && canon(be.X) == L {
				if ret, ok := fn.Body.List[1].(*ast.ReturnStmt); ok && len(ret.Results) == 1 && isNilLit(ret.Results[0]) && len(ifs.Body.List) > 0 {
					if _, endsInReturn := ifs.Body.List[len(ifs.Body.List)-1].(*ast.ReturnStmt); endsInReturn {
						guard := &ast.IfStmt{If: ifs.If, Cond: &ast.BinaryExpr{X: be.X, OpPos: be.OpPos, Op: token.EQL, Y: be.Y}, Body: &ast.BlockStmt{Lbrace: ret.Pos(), List: []ast.Stmt{ret}, Rbrace: ret.End()}}
						fn2 := *fn
						fn2.Body = &ast.BlockStmt{Lbrace: fn.Body.Lbrace, List: append([]ast.Stmt{guard}, ifs.Body.List...), Rbrace: fn.Body.Rbrace}
						return joinSliceIssues(rs, &fn2)
					}
				}
			}
		}
	}
	// nil ⇒ nil
	okNil := false
	if len(fn.Body.List) > 0 {
		if ifs, ok := fn.Body.List[0].(*ast.IfStmt); ok {
			if be, ok := unparen(ifs.Cond).(*ast.BinaryExpr); ok && be.Op == token.EQL && isNilLit(be.Y) && canon(be.X) == L && len(ifs.Body.List) == 1 {
				if ret, ok := ifs.Body.List[0].(*ast.ReturnStmt); ok && len(ret.Results) == 1 && isNilLit(ret.Results[0]) {
					okNil = true
				}
			}
		}
	}
	if !okNil {
		iss(fn, "nil", "a nil list of lists is not joined to nil")
	}
	res := ""
	for _, r := range returnsIn(fn) {
		if len(r.Results) == 1 && !isNilLit(r.Results[0]) {
			res = canon(r.Results[0])
		}
	}
	d := firstDefine(fn, res)
	if d == nil || !isFresh(d) {
		src := "?"
		if d != nil {
			src = rs.src(d)
		}
		iss(fn, "alias", "the result starts as %s, not as a freshly made slice: appending can write into the caller's backing array (inputs are modified) and the result can alias an input", src)
	}
	// the appending loop: forward range over L, res = append(res, elem...) unconditionally, no early exit
	nApp := 0
	ast.Inspect(fn.Body, func(n ast.Node) bool {
		rng, ok := n.(*ast.RangeStmt)
		if !ok {
			return true
		}
		val := ""
		if id, ok := rng.Value.(*ast.Ident); ok {
			val = id.Name
		}
		for _, st := range rng.Body.List {
			as, ok := st.(*ast.AssignStmt)
			if !ok || len(as.Rhs) != 1 {
				continue
			}
			c, ok := as.Rhs[0].(*ast.CallExpr)
			if !ok || canon(c.Fun) != "append" {
				continue
			}
			nApp++
			if canon(rng.X) != L {
				iss(rng, "wrong-operand", "appends while ranging over %s instead of the list of lists", rs.src(rng.X))
			}
			if canon(as.Lhs[0]) != res || len(c.Args) != 2 || canon(c.Args[0]) != res || !isCurrentElem(rng, c.Args[1]) || !c.Ellipsis.IsValid() {
				iss(as, "append-what", "does `%s` instead of %s = append(%s, %s...)", rs.src(as), res, res, val)
			}
			for _, g := range guardsOf(fn.Body, as) {
				if be, ok := g.e.(*ast.BinaryExpr); ok && isNilLit(be.Y) && canon(be.X) == L {
					continue // the leading nil ⇒ nil test
				}
				iss(as, "append-conditional", "an inner list is appended only under the condition %s", rs.src(g.e))
			}
		}
		ast.Inspect(rng.Body, func(m ast.Node) bool {
			switch x := m.(type) {
			case *ast.BranchStmt:
				iss(x, "early-exit", "leaves or skips inside the loop (%s)", x.Tok)
			case *ast.ReturnStmt:
				iss(x, "early-exit", "returns from inside the loop")
			}
			return true
		})
		return true
	})
	if nApp != 1 {
		iss(fn, "append-count", "inner lists are appended at %d places (expected one)", nApp)
	}
	if s := newSided(rs, fn); s != nil {
		out = append(out, writesThroughRoots(s, nil)...)
	}
	return out
}

// isCurrentElem: e denotes the element the loop is at — the range value, or the ranged operand indexed with the range key.
func isCurrentElem(rng *ast.RangeStmt, e ast.Expr) bool {
	if id, ok := rng.Value.(*ast.Ident); ok && id.Name != "_" && canon(e) == id.Name {
		return true
	}
	if ix, ok := unparen(e).(*ast.IndexExpr); ok {
		if k, ok := rng.Key.(*ast.Ident); ok && k.Name != "_" && canon(ix.Index) == k.Name && canon(ix.X) == canon(rng.X) {
			return true
		}
	}
	return false
}

func joinStringsIssues(rs *Resid, fn *ast.FuncDecl) []sideIssue {
	list := fieldNames(fn.Type.Params)[0]
	if len(fn.Body.List) == 1 {
		if ret, ok := fn.Body.List[0].(*ast.ReturnStmt); ok && len(ret.Results) == 1 {
			if c, ok := ret.Results[0].(*ast.CallExpr); ok && len(c.Args) == 2 {
				if sel, ok := c.Fun.(*ast.SelectorExpr); ok && sel.Sel.Name == "Join" {
					if id, ok := sel.X.(*ast.Ident); ok {
						if h := rs.hole(id.Name); h != nil && h.Origin == "strings" && canon(c.Args[0]) == list && canon(c.Args[1]) == `""` {
							return nil
						}
					}
				}
			}
		}
	}
	return []sideIssue{{fn, "join of strings is not strings.Join(list, \"\")", "strings-join", ""}}
}

func runR_C17(c *Ctx) {
	sweepHealth(c, "fmap", "join")
	rR1(c, "fmap", "join")
	rR2(c, "fmap", "join")
	rConstIndex(c, "fmap", "join")
	counts := map[string]int{}
	for _, rs := range c.acceptedResids("fmap") {
		if rs.Err != nil || len(rs.Funcs) != 1 {
			continue
		}
		fn := rs.Funcs[0]
		if fn.Type.Params.NumFields() != 2 || fn.Type.Results.NumFields() != 1 {
			continue
		}
		// slice and string forms: second parameter is []T or string, result is a slice
		t := fn.Type.Params.List[len(fn.Type.Params.List)-1].Type
		_, isSlice := t.(*ast.ArrayType)
		id, _ := t.(*ast.Ident)
		if !isSlice && !(id != nil && id.Name == "string") {
			continue
		}
		if _, resSlice := fn.Type.Results.List[0].Type.(*ast.ArrayType); !resSlice {
			continue
		}
		counts["fmap"]++
		if reportIssues(c, rs, "R-fmap", "", fmapSeqIssues(rs, fn)) {
			c.Rep.pass("R-fmap")
			c.Rep.sample(map[string]interface{}{"plugin": "fmap", "path": rs.Run.shapeKey(), "residual": rs.Run.Text})
		}
	}
	for _, rs := range c.acceptedResids("join") {
		if rs.Err != nil || len(rs.Funcs) != 1 {
			continue
		}
		fn := rs.Funcs[0]
		if fn.Type.Params.NumFields() != 1 {
			continue
		}
		at, ok := fn.Type.Params.List[0].Type.(*ast.ArrayType)
		if !ok {
			continue
		}
		var issues []sideIssue
		switch et := at.Elt.(type) {
		case *ast.ArrayType:
			issues = joinSliceIssues(rs, fn)
			counts["join-slice"]++
		case *ast.Ident:
			if et.Name != "string" {
				continue
			}
			issues = joinStringsIssues(rs, fn)
			counts["join-strings"]++
		default:
			continue
		}
		if reportIssues(c, rs, "R-join", "", issues) {
			c.Rep.pass("R-join")
			c.Rep.sample(map[string]interface{}{"plugin": "join", "path": rs.Run.shapeKey(), "residual": rs.Run.Text})
		}
	}
	for _, k := range []string{"fmap", "join-slice", "join-strings"} {
		if counts[k] == 0 {
			c.Rep.fail(Finding{Rule: "R-fmap", Key: "R-fmap|" + k + "|vacuity", Kind: "undecided", Msg: k + ": no residual analysed"})
		}
	}
	if counts["fmap"] < 2 {
		c.Rep.fail(Finding{Rule: "R-fmap", Key: "R-fmap|forms|vacuity", Kind: "undecided", Msg: "expected both the slice and the string form of fmap"})
	}
}
