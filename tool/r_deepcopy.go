package main

import (
	"fmt"
	"go/ast"
	"go/token"
	"go/types"
	"strings"
)

// C05 — deepcopy / clone rules. Root A = dst (first parameter), root B = src.

type exprInfo struct {
	norm string
	side string
}

func (s *sided) exprIndex() map[string][]exprInfo {
	m := map[string][]exprInfo{}
	ast.Inspect(s.body, func(n ast.Node) bool {
		if e, ok := n.(ast.Expr); ok {
			k := canon(e)
			// same text may denote different variables in different scopes: keep every reading
			m[k] = append(m[k], exprInfo{s.norm(e), s.side(e)})
		}
		return true
	})
	return m
}

// tiedDecision looks up an oracle decision of the run by symbol, honouring tie canonicalisation.
func (r *Run) decision(sym string) (Decision, bool) {
	for _, d := range r.Decisions {
		if d.Sym == sym {
			return d, true
		}
	}
	c := tieRe.ReplaceAllString(sym, "[*]")
	for _, d := range r.Decisions {
		if d.Sym == c {
			return d, true
		}
	}
	// a method predicate may return (type, found) instead of a pointer that is nil when nothing was found: "…!=nil" is then
	// the second result, and the pointee "*pred:…" the first
	if strings.HasPrefix(sym, "B:pred:") && strings.HasSuffix(sym, "!=nil") {
		alt := strings.TrimSuffix(sym, "!=nil") + "#1"
		for _, cand := range []string{alt, tieRe.ReplaceAllString(alt, "[*]")} {
			for _, d := range r.Decisions {
				if d.Sym == cand {
					return Decision{Sym: sym, Choice: d.Choice, N: 2, Fn: d.Fn}, true
				}
			}
		}
	}
	if strings.HasPrefix(sym, "A:*pred:") {
		if i := strings.LastIndex(sym, ":"); i > 8 {
			alt := "A:pred:" + sym[len("A:*pred:"):i] + "#0" + sym[i:]
			if d, ok := r.decision(alt); ok {
				d.Sym = sym
				return d, true
			}
		}
	}
	// a type assertion question "A:<value>:<kind>" is also answered by a type switch over that value
	// ("K:<value>:<kind>,<kind>,..."): yes (0) when the switch took that kind's arm, no (1) when the kind was listed and
	// another arm (or none) was taken
	if strings.HasPrefix(sym, "A:") {
		if i := strings.LastIndex(sym, ":"); i > 2 {
			val, kind := sym[2:i], sym[i+1:]
			for _, pre := range []string{"K:" + val + ":", "K:" + tieRe.ReplaceAllString(val, "[*]") + ":"} {
				for _, d := range r.Decisions {
					if !strings.HasPrefix(d.Sym, pre) {
						continue
					}
					ks := strings.Split(strings.TrimPrefix(d.Sym, pre), ",")
					for j, k := range ks {
						if k == kind {
							if d.Choice == j {
								return Decision{Sym: sym, Choice: 0, N: 2, Fn: d.Fn}, true
							}
							return Decision{Sym: sym, Choice: 1, N: 2, Fn: d.Fn}, true
						}
					}
				}
			}
		}
	}
	return Decision{}, false
}

func (r *Run) predTrue(pred string, o *VOpaque) (bool, bool) {
	if o == nil {
		return false, false
	}
	d, ok := r.decision("B:pred:" + pred + "(" + o.Origin + ",)")
	if !ok {
		return false, false
	}
	return d.Choice == 0, true
}

// copyTaintIssues (R11): a value rooted in src may reach a dst location by plain assignment / copy() only when the
// generator established canCopy for the type of that component on this very path; helper and method calls are
// (dst, src) / src.DeepCopy(dst) with mirror operands.
func copyTaintIssues(s *sided) []sideIssue {
	var out []sideIssue
	run := s.rs.Run
	plain := func(node ast.Node, dstE, srcE ast.Expr, typeOf *VOpaque, what string) {
		if stripAddr(s.norm(dstE)) != stripAddr(s.norm(srcE)) {
			out = append(out, sideIssue{node, fmt.Sprintf("%s copies %s into %s, which is a different component", what, s.rs.src(srcE), s.rs.src(dstE)), "mismatch", ""})
			return
		}
		if typeOf == nil {
			out = append(out, sideIssue{node, fmt.Sprintf("%s of %s: the type of the copied component cannot be resolved, so its copyability is not established", what, s.rs.src(srcE)), "untyped-copy", ""})
			return
		}
		ans, asked := run.predTrue("canCopy", typeOf)
		if !asked {
			// canCopy may have been asked on the Underlying() of the same value
			if u, ok := typeOf.attrs["Underlying"].(*VOpaque); ok {
				ans, asked = run.predTrue("canCopy", u)
			}
		}
		if !asked {
			// ... or on the named type whose Underlying() this is (a field read through the underlying type of a type that
			// cannot be spelled): canCopy is tabulated over Underlying()
			if n, ok := typeOf.attrs["#underlyingOf"].(*VOpaque); ok {
				ans, asked = run.predTrue("canCopy", n)
			}
		}
		if !asked || !ans {
			k := kindOfVal(typeOf)
			out = append(out, sideIssue{node, fmt.Sprintf("%s of %s into %s although canCopy was not established for its type (kind %s) on this path: pointers, slices or maps inside it stay shared between source and copy", what, s.rs.src(srcE), s.rs.src(dstE), strings.TrimPrefix(k, "*types.")), "shallow-copy", strings.TrimPrefix(k, "*types.")})
		}
	}
	ast.Inspect(s.body, func(n ast.Node) bool {
		switch x := n.(type) {
		case *ast.AssignStmt:
			if x.Tok != token.ASSIGN || len(x.Lhs) != len(x.Rhs) {
				return true
			}
			for i, l := range x.Lhs {
				r := x.Rhs[i]
				sl, sr := s.side(l), s.flowSide(r)
				if sr == "B" && sl == "A" {
					// rebinding the dst parameter itself (top-level copyable value) is a plain copy too
					plain(x, l, r, s.valOfExpr(l), "plain assignment")
				} else if sr == "B" && sl != "A" {
					if _, isId := unparen(l).(*ast.Ident); !isId {
						out = append(out, sideIssue{x, fmt.Sprintf("stores the source value %s into %s", s.rs.src(r), s.rs.src(l)), "src-escapes", ""})
					}
				} else if sr == "AB" {
					out = append(out, sideIssue{x, fmt.Sprintf("assigns the mixed expression %s", s.rs.src(r)), "mixed", ""})
				}
			}
		case *ast.CallExpr:
			var ops []ast.Expr
			var recv ast.Expr
			if sel, ok := x.Fun.(*ast.SelectorExpr); ok && s.side(sel.X) != "" {
				recv = sel.X
				ops = append(ops, sel.X)
			}
			for _, a := range x.Args {
				if s.side(a) != "" {
					ops = append(ops, a)
				}
			}
			if len(ops) < 2 {
				return true
			}
			for _, o := range ops {
				if s.side(o) == "AB" {
					return true
				}
			}
			if len(ops) != 2 {
				out = append(out, sideIssue{x, fmt.Sprintf("call %s takes %d operands derived from dst/src", s.rs.src(x), len(ops)), "arity", ""})
				return true
			}
			id, _ := x.Fun.(*ast.Ident)
			switch {
			case id != nil && id.Name == "copy":
				if s.side(ops[0]) != "A" || s.side(ops[1]) != "B" {
					out = append(out, sideIssue{x, fmt.Sprintf("copy(%s, %s) does not copy from src into dst", s.rs.src(ops[0]), s.rs.src(ops[1])), "reversed", ""})
					return true
				}
				var elem *VOpaque
				if b := underlyingVal(s.valOfExpr(ops[0])); b != nil {
					elem, _ = b.attrs["Elem"].(*VOpaque)
				}
				plain(x, ops[0], ops[1], elem, "element-wise copy()")
			case id != nil && funcHoleWho(s.rs, id) == "deepcopy":
				if s.side(ops[0]) != "A" || s.side(ops[1]) != "B" {
					out = append(out, sideIssue{x, fmt.Sprintf("helper call %s does not pass (dst, src)", s.rs.src(x)), "reversed", ""})
				} else if stripAddr(s.norm(ops[0])) != stripAddr(s.norm(ops[1])) {
					out = append(out, sideIssue{x, fmt.Sprintf("helper call %s pairs different components", s.rs.src(x)), "mismatch", ""})
				}
			case recv != nil:
				sel := x.Fun.(*ast.SelectorExpr)
				if sel.Sel.Name == "DeepCopy" {
					if s.side(ops[0]) != "B" || s.side(ops[1]) != "A" {
						out = append(out, sideIssue{x, fmt.Sprintf("method call %s is not src.DeepCopy(dst)", s.rs.src(x)), "reversed", ""})
					} else if stripAddr(s.norm(ops[0])) != stripAddr(s.norm(ops[1])) {
						out = append(out, sideIssue{x, fmt.Sprintf("method call %s pairs different components", s.rs.src(x)), "mismatch", ""})
					}
				} else {
					out = append(out, sideIssue{x, fmt.Sprintf("unexpected two-sided method call %s", s.rs.src(x)), "foreign-call", sel.Sel.Name})
				}
			default:
				out = append(out, sideIssue{x, fmt.Sprintf("unexpected two-sided call %s", s.rs.src(x)), "foreign-call", ""})
			}
		}
		return true
	})
	return out
}

// freshIssues: a dst component of nilable kind gets nil exactly under `src component == nil` and a fresh allocation
// (new/make/self-reslice) under `!= nil`, before it is filled; helper/method/copy calls on non-root components happen
// only after such an allocation.
func freshIssues(s *sided) []sideIssue {
	var out []sideIssue
	idx := s.exprIndex()
	mirrorFact := func(f Facts, prefix string, dst ast.Expr) bool {
		want := stripAddr(s.norm(dst))
		for k := range f {
			if !strings.HasPrefix(k, prefix) {
				continue
			}
			for _, inf := range idx[strings.TrimPrefix(k, prefix)] {
				if inf.side == "B" && stripAddr(inf.norm) == want {
					return true
				}
			}
		}
		return false
	}
	nilProp := map[string]bool{}
	type alloc struct {
		node ast.Node
		dst  ast.Expr
		ok   bool
	}
	var allocs []alloc
	fresh := map[string]bool{} // norm of dst components freshly allocated somewhere
	w := &guardWalker{}
	w.onStmt = func(st ast.Stmt, f Facts) {
		as, ok := st.(*ast.AssignStmt)
		if !ok || as.Tok != token.ASSIGN || len(as.Lhs) != 1 || len(as.Rhs) != 1 {
			return
		}
		l, r := as.Lhs[0], as.Rhs[0]
		if s.side(l) != "A" {
			return
		}
		if _, isRootIdent := unparen(l).(*ast.Ident); isRootIdent && canon(l) == s.A {
			// top-level reslice/make of the parameter itself has no effect for the caller; judged by the resize rule
		}
		switch {
		case isNilLit(r):
			if mirrorFact(f, "nil:", l) {
				nilProp[stripAddr(s.norm(l))] = true
			} else {
				out = append(out, sideIssue{as, fmt.Sprintf("sets %s to nil although the source component is not known to be nil here", s.rs.src(l)), "nil-unconditional", ""})
			}
		case isFresh(r):
			fresh[stripAddr(s.norm(l))] = true
			allocs = append(allocs, alloc{as, l, mirrorFact(f, "nn:", l)})
		}
	}
	w.block(s.body.List, Facts{})
	for _, a := range allocs {
		n := stripAddr(s.norm(a.dst))
		k := kindOfVal(s.valOfExpr(a.dst))
		if k == "*types.Struct" || k == "*types.Array" {
			continue
		}
		if !a.ok || !nilProp[n] {
			out = append(out, sideIssue{a.node, fmt.Sprintf("allocates %s without the matching nil propagation: it must be set to nil when the source component is nil and freshly allocated only when it is not (guarded: %v, nil branch present: %v)", s.rs.src(a.dst), a.ok, nilProp[n]), "nil-not-propagated", ""})
		}
	}
	// fills of non-root components need a fresh destination
	par := parents(s.fn)
	ast.Inspect(s.body, func(n ast.Node) bool {
		c, ok := n.(*ast.CallExpr)
		if !ok {
			return true
		}
		var dst ast.Expr
		if id, ok := c.Fun.(*ast.Ident); ok && (id.Name == "copy" || funcHoleWho(s.rs, id) == "deepcopy") && len(c.Args) == 2 {
			dst = c.Args[0]
		} else if sel, ok := c.Fun.(*ast.SelectorExpr); ok && sel.Sel.Name == "DeepCopy" && len(c.Args) == 1 {
			dst = c.Args[0]
		}
		if dst == nil || s.side(dst) != "A" {
			return true
		}
		d := unparen(dst)
		if id, ok := d.(*ast.Ident); ok && id.Name == s.A {
			return true // the caller's own destination (documented precondition)
		}
		if u, ok := d.(*ast.UnaryExpr); ok && u.Op == token.AND {
			return true // address of an existing dst struct/array component: no allocation needed
		}
		k := kindOfVal(s.valOfExpr(dst))
		if k == "*types.Array" || k == "*types.Struct" {
			return true
		}
		if !fresh[stripAddr(s.norm(dst))] {
			out = append(out, sideIssue{c, fmt.Sprintf("fills %s, which was not freshly allocated (new/make) in this function: the copy writes into storage that may be shared with, or left over from, another value", s.rs.src(dst)), "fill-without-alloc", ""})
			return true
		}
		// a map destination must be fresh on every path to the fill: a reused map keeps the keys it held before
		if k == "*types.Map" {
			dominated := false
			want := stripAddr(s.norm(dst))
			for _, a := range allocs {
				if stripAddr(s.norm(a.dst)) != want {
					continue
				}
				// the allocation is an earlier statement of a block that encloses the fill
				ab, ai := enclosingBlock(par, a.node)
				for n := ast.Node(c); n != nil; n = par[n] {
					if blk, ok := par[n].(*ast.BlockStmt); ok && blk == ab {
						for i, st := range blk.List {
							if st == n && ai >= 0 && ai < i {
								dominated = true
							}
						}
					}
				}
			}
			if !dominated {
				out = append(out, sideIssue{c, fmt.Sprintf("fills the map %s although its fresh allocation (make) does not happen on every path to this point: when the destination map is reused, keys it held before survive in the copy", s.rs.src(dst)), "map-reused", ""})
			}
		}
		return true
	})
	return out
}

// enclosingBlock: the block statement a node is a direct statement of, and its index there.
func enclosingBlock(par map[ast.Node]ast.Node, n ast.Node) (*ast.BlockStmt, int) {
	for ; n != nil; n = par[n] {
		if blk, ok := par[n].(*ast.BlockStmt); ok {
			for i, st := range blk.List {
				if st == n {
					return blk, i
				}
			}
		}
	}
	return nil, -1
}

// resizeIssues: the destination-slice reuse code is evaluated over {dst nil?, len(dst)?len(src), cap(dst)>=len(src)}:
// on every consistent row dst must end up non-nil with len(dst)==len(src), and a reslice must not exceed the capacity.
func resizeIssues(s *sided) []sideIssue {
	var out []sideIssue
	// find `if SRC == nil { DST = nil } else { BODY }` / `if SRC != nil { BODY } else { DST = nil }` with slice-kinded DST
	ast.Inspect(s.body, func(n ast.Node) bool {
		ifs, ok := n.(*ast.IfStmt)
		if !ok || ifs.Else == nil {
			return true
		}
		be, ok := unparen(ifs.Cond).(*ast.BinaryExpr)
		if !ok || (be.Op != token.EQL && be.Op != token.NEQ) || !isNilLit(be.Y) || s.side(be.X) != "B" {
			return true
		}
		src := be.X
		els, ok := ifs.Else.(*ast.BlockStmt)
		if !ok {
			return true
		}
		nonNil := els.List
		nilBranch := ifs.Body.List
		if be.Op == token.NEQ {
			nonNil, nilBranch = ifs.Body.List, els.List
		}
		// the dst operand: from the nil branch `DST = nil`
		var dst ast.Expr
		for _, st := range nilBranch {
			if as, ok := st.(*ast.AssignStmt); ok && len(as.Lhs) == 1 && len(as.Rhs) == 1 && isNilLit(as.Rhs[0]) && s.side(as.Lhs[0]) == "A" {
				dst = as.Lhs[0]
			}
		}
		if dst == nil || stripAddr(s.norm(dst)) != stripAddr(s.norm(src)) {
			return true
		}
		if k := kindOfVal(s.valOfExpr(dst)); k != "*types.Slice" {
			// kind unknown: only treat as a slice when the code measures len/cap of it
			if k != "" {
				return true
			}
			uses := false
			ast.Inspect(&ast.BlockStmt{List: nonNil}, func(m ast.Node) bool {
				if c, ok := m.(*ast.CallExpr); ok {
					if id, ok := c.Fun.(*ast.Ident); ok && (id.Name == "len" || id.Name == "cap") {
						uses = true
					}
				}
				return true
			})
			if !uses {
				return true
			}
		}
		out = append(out, evalResize(s, ifs, nonNil, dst, src)...)
		return true
	})
	return out
}

type rzState struct {
	isNil  bool
	lenRel int  // len(dst) relative to len(src): -1, 0, +1
	capGE  bool // cap(dst) >= len(src)
	fresh  bool
}

func evalResize(s *sided, at ast.Node, body []ast.Stmt, dst, src ast.Expr) []sideIssue {
	var out []sideIssue
	d, sr := canon(dst), canon(src)
	states := []rzState{}
	for _, isNil := range []bool{true, false} {
		for _, lr := range []int{-1, 0, 1} {
			for _, cg := range []bool{true, false} {
				if lr >= 0 && !cg {
					continue // cap >= len(dst) >= len(src)
				}
				if isNil && (lr > 0 || (lr < 0 && cg) || (lr == 0 && !cg)) {
					continue // nil: len = cap = 0
				}
				states = append(states, rzState{isNil: isNil, lenRel: lr, capGE: cg})
			}
		}
	}
	desc := func(st rzState) string {
		return fmt.Sprintf("dst nil=%v, len(dst)%slen(src), cap(dst)>=len(src)=%v", st.isNil, cmpSym(st.lenRel), st.capGE)
	}
	for _, init := range states {
		st := init
		undecided := ""
		var evalCond func(e ast.Expr) (bool, bool)
		term := func(e ast.Expr) string {
			c, ok := unparen(e).(*ast.CallExpr)
			if !ok || len(c.Args) != 1 {
				return ""
			}
			id, ok := c.Fun.(*ast.Ident)
			if !ok {
				return ""
			}
			a := canon(c.Args[0])
			switch {
			case id.Name == "len" && a == d:
				return "Ld"
			case id.Name == "len" && a == sr:
				return "Ls"
			case id.Name == "cap" && a == d:
				return "Cd"
			}
			return ""
		}
		evalCond = func(e ast.Expr) (bool, bool) {
			e = unparen(e)
			switch x := e.(type) {
			case *ast.UnaryExpr:
				if x.Op == token.NOT {
					v, ok := evalCond(x.X)
					return !v, ok
				}
			case *ast.BinaryExpr:
				switch x.Op {
				case token.LAND:
					l, ok := evalCond(x.X)
					if !ok {
						return false, false
					}
					if !l {
						return false, true
					}
					return evalCond(x.Y)
				case token.LOR:
					l, ok := evalCond(x.X)
					if !ok {
						return false, false
					}
					if l {
						return true, true
					}
					return evalCond(x.Y)
				}
				if isNilLit(x.Y) && canon(x.X) == d {
					return st.isNil == (x.Op == token.EQL), true
				}
				tx, ty := term(x.X), term(x.Y)
				op := x.Op
				if tx == "Ls" && (ty == "Ld" || ty == "Cd") {
					// flip to put dst term first
					tx, ty = ty, tx
					op = map[token.Token]token.Token{token.LSS: token.GTR, token.GTR: token.LSS, token.LEQ: token.GEQ, token.GEQ: token.LEQ, token.EQL: token.EQL, token.NEQ: token.NEQ}[op]
				}
				if tx == "Ld" && ty == "Ls" {
					return cmpInt(st.lenRel, op, 0), true
				}
				if tx == "Cd" && ty == "Ls" {
					switch op {
					case token.GEQ:
						return st.capGE, true
					case token.LSS:
						return !st.capGE, true
					}
				}
			}
			undecided = "condition `" + s.rs.src(e) + "`"
			return false, false
		}
		filled := false
		var exec func(list []ast.Stmt) bool // returns false to stop
		exec = func(list []ast.Stmt) bool {
			for _, stt := range list {
				if undecided != "" || filled {
					return false
				}
				switch x := stt.(type) {
				case *ast.IfStmt:
					c, ok := evalCond(x.Cond)
					if !ok {
						return false
					}
					if c {
						if !exec(x.Body.List) {
							return false
						}
					} else if x.Else != nil {
						switch e := x.Else.(type) {
						case *ast.BlockStmt:
							if !exec(e.List) {
								return false
							}
						case *ast.IfStmt:
							if !exec([]ast.Stmt{e}) {
								return false
							}
						}
					}
				case *ast.AssignStmt:
					if len(x.Lhs) == 1 && len(x.Rhs) == 1 && canon(x.Lhs[0]) == d {
						r := unparen(x.Rhs[0])
						if c, ok := r.(*ast.CallExpr); ok {
							if id, ok := c.Fun.(*ast.Ident); ok && id.Name == "make" && len(c.Args) >= 2 {
								if la := lenArg(c.Args[1]); la == sr {
									st = rzState{isNil: false, lenRel: 0, capGE: true, fresh: true}
									continue
								}
								undecided = "make with length `" + s.rs.src(c.Args[1]) + "`"
								return false
							}
						}
						if sl, ok := r.(*ast.SliceExpr); ok && canon(sl.X) == d && sl.Low == nil && sl.High != nil && lenArg(sl.High) == sr {
							if !st.capGE {
								out = append(out, sideIssue{x, fmt.Sprintf("reslices %s to len(src) although its capacity may be smaller (panic) [row: %s]", s.rs.src(dst), desc(init)), "reslice-beyond-cap", ""})
							}
							st.lenRel = 0
							continue
						}
						if isNilLit(r) {
							st.isNil, st.lenRel = true, -1
							continue
						}
						undecided = "assignment `" + s.rs.src(x) + "`"
						return false
					}
					// any other statement mentioning both sides is the fill
					if s.side(x.Lhs[0]) != "" || s.side(x.Rhs[0]) != "" {
						filled = true
						return false
					}
				default:
					// first two-sided statement (copy/helper/loop) = the fill
					filled = true
					return false
				}
			}
			return true
		}
		exec(body)
		if undecided != "" {
			out = append(out, sideIssue{at, "the destination-slice reuse code uses " + undecided + ", outside the resize table's vocabulary", "resize-undecided", ""})
			return out
		}
		if st.isNil {
			out = append(out, sideIssue{at, fmt.Sprintf("leaves %s nil although the source slice is non-nil (nil-ness of the slice is not reproduced) [row: %s]", s.rs.src(dst), desc(init)), "resize-nil", ""})
		} else if st.lenRel != 0 {
			out = append(out, sideIssue{at, fmt.Sprintf("leaves len(%s) %s len(src) before filling it [row: %s]", s.rs.src(dst), cmpSym(st.lenRel), desc(init)), "resize-length", ""})
		}
	}
	return out
}

func runR_C05(c *Ctx) {
	sweepHealth(c, "deepcopy", "clone")
	rR1(c, "deepcopy", "clone")
	rR2(c, "deepcopy", "clone")
	n := 0
	for _, rs := range c.acceptedResids("deepcopy") {
		if rs.Err != nil || len(rs.Funcs) != 1 {
			continue
		}
		s := newSided(rs, rs.Funcs[0])
		if s == nil || s.B == "" {
			c.Rep.fail(residFinding(c.Repo, rs, "R6", "shape", "deepcopy: emitted function does not have (dst, src) operands", rs.Funcs[0]))
			continue
		}
		if len(freeIdents(rs, rs.Funcs[0], map[string]bool{})) > 0 {
			continue // does not compile (reported by R2); the semantic rules would only echo that
		}
		n++
		ok := true
		ok = reportIssues(c, rs, "R10", "", writesThroughRoots(s, map[string]bool{"A": true})) && ok
		ok = reportIssues(c, rs, "R11", "", copyTaintIssues(s)) && ok
		ok = reportIssues(c, rs, "R11", "", freshIssues(s)) && ok
		ok = reportIssues(c, rs, "R11", "", resizeIssues(s)) && ok
		ok = reportIssues(c, rs, "R11", "", loopExitIssues(rs.Funcs[0])) && ok
		if !rs.Run.RecCut {
			ok = reportIssues(c, rs, "R19", "", s.fieldCoverage("AB")) && ok
		}
		if ok {
			for _, r := range []string{"R10", "R11", "R19"} {
				c.Rep.pass(r)
			}
		}
		if len(c.Rep.Samples) < 5 && rs.Run.Config == "leaf" && !strings.Contains(rs.Run.Text, "FieldByName") {
			c.Rep.sample(map[string]interface{}{"plugin": "deepcopy", "path": rs.Run.shapeKey(), "residual": rs.Run.Text})
		}
	}
	c.Rep.analysed("deepcopy_residuals", n)
	cloneRules(c)
	runG9(c, "deepcopy.canCopy")
	g9Methods(c, methodSpec{"deepcopy.hasDeepCopyMethod", "DeepCopy", 1, 0, types.Invalid})
	c.Rep.floor("R11", 100)
}

// cloneRules: clone allocates per kind, propagates nil, and delegates to deepcopy(dst, src).
func cloneRules(c *Ctx) {
	for _, rs := range c.acceptedResids("clone") {
		if rs.Err != nil || len(rs.Funcs) != 1 {
			continue
		}
		fn := rs.Funcs[0]
		if fn.Type.Params.NumFields() != 1 || fn.Type.Results.NumFields() != 1 {
			c.Rep.fail(residFinding(c.Repo, rs, "R11", "clone-shape", "clone: emitted function is not func(src T) T", fn))
			continue
		}
		src := fn.Type.Params.List[0].Names[0].Name
		ok := true
		// every return is nil, src itself under canCopy... or a freshly allocated dst filled by deepcopy(dst, src)
		var dstName string
		delegated := false
		ast.Inspect(fn.Body, func(n ast.Node) bool {
			switch x := n.(type) {
			case *ast.AssignStmt:
				if x.Tok == token.DEFINE && len(x.Lhs) == 1 && len(x.Rhs) == 1 && isFresh(x.Rhs[0]) {
					dstName = x.Lhs[0].(*ast.Ident).Name
				}
			case *ast.DeclStmt:
				// var dst T: a fresh zero value, filled through its address
				if gd, isG := x.Decl.(*ast.GenDecl); isG && gd.Tok == token.VAR && len(gd.Specs) == 1 {
					if vs, isV := gd.Specs[0].(*ast.ValueSpec); isV && len(vs.Names) == 1 && len(vs.Values) == 0 {
						dstName = vs.Names[0].Name
					}
				}
			case *ast.CallExpr:
				if funcHoleWho(rs, x.Fun) == "deepcopy" && len(x.Args) == 2 {
					a0, a1 := canon(x.Args[0]), canon(x.Args[1])
					if strings.TrimPrefix(a0, "&(") != a0 {
						a0 = strings.TrimSuffix(strings.TrimPrefix(a0, "&("), ")")
					}
					if strings.TrimPrefix(a1, "&(") != a1 {
						a1 = strings.TrimSuffix(strings.TrimPrefix(a1, "&("), ")")
					}
					if a0 == dstName && a1 == src {
						delegated = true
					} else {
						ok = false
						c.Rep.fail(residFinding(c.Repo, rs, "R11", "clone-args", fmt.Sprintf("clone: delegates with %s instead of deepcopy(<fresh dst>, src)", rs.src(x)), x))
					}
				}
			}
			return true
		})
		k := ""
		if id, okk := fn.Type.Params.List[0].Type.(*ast.Ident); okk {
			if h := rs.hole(id.Name); h != nil {
				k = kindOfVal(h.Val)
			}
		}
		if !delegated {
			// acceptable only for plainly copyable types: `return src`
			okPlain := false
			if len(fn.Body.List) == 1 {
				if ret, isRet := fn.Body.List[0].(*ast.ReturnStmt); isRet && len(ret.Results) == 1 && canon(ret.Results[0]) == src {
					okPlain = true
				}
			}
			if !okPlain {
				ok = false
				c.Rep.fail(residFinding(c.Repo, rs, "R11", "clone-no-delegate", "clone: does not fill a freshly allocated destination through deepcopy(dst, src)", fn))
			}
		}
		// nil propagation for nilable kinds
		if k == "*types.Pointer" || k == "*types.Slice" || k == "*types.Map" {
			hasNil := false
			ast.Inspect(fn.Body, func(n ast.Node) bool {
				if ifs, isIf := n.(*ast.IfStmt); isIf {
					if be, isB := ifs.Cond.(*ast.BinaryExpr); isB && be.Op == token.EQL && isNilLit(be.Y) && canon(be.X) == src {
						if len(ifs.Body.List) == 1 {
							if ret, isRet := ifs.Body.List[0].(*ast.ReturnStmt); isRet && len(ret.Results) == 1 && isNilLit(ret.Results[0]) {
								hasNil = true
							}
						}
					}
				}
				return true
			})
			if !hasNil {
				ok = false
				c.Rep.fail(residFinding(c.Repo, rs, "R11", "clone-nil", "clone: a nil "+strings.TrimPrefix(k, "*types.")+" is not cloned to nil", fn))
			}
		}
		if ok {
			c.Rep.pass("R11")
			c.Rep.sample(map[string]interface{}{"plugin": "clone", "path": rs.Run.shapeKey(), "residual": rs.Run.Text})
		}
	}
}

// flowSide is side() restricted to value flow: lengths/capacities of a value and fresh allocations carry none of it.
func (s *sided) flowSide(e ast.Expr) string {
	x := s.exp(e)
	r := map[string]bool{}
	var walk func(n ast.Expr)
	walk = func(n ast.Expr) {
		switch y := n.(type) {
		case nil:
		case *ast.Ident:
			if s.roots[y.Name] {
				r[y.Name] = true
			}
		case *ast.ParenExpr:
			walk(y.X)
		case *ast.StarExpr:
			walk(y.X)
		case *ast.UnaryExpr:
			walk(y.X)
		case *ast.SelectorExpr:
			walk(y.X)
		case *ast.IndexExpr:
			walk(y.X)
		case *ast.SliceExpr:
			walk(y.X)
		case *ast.BinaryExpr:
			walk(y.X)
			walk(y.Y)
		case *ast.CallExpr:
			if id, ok := y.Fun.(*ast.Ident); ok && (id.Name == "len" || id.Name == "cap" || id.Name == "make" || id.Name == "new") {
				return
			}
			walk(y.Fun)
			for _, a := range y.Args {
				walk(a)
			}
		case *ast.CompositeLit:
			for _, el := range y.Elts {
				if kv, ok := el.(*ast.KeyValueExpr); ok {
					walk(kv.Value)
				} else {
					walk(el)
				}
			}
		}
	}
	walk(x)
	switch {
	case r[s.A] && r[s.B]:
		return "AB"
	case r[s.A]:
		return "A"
	case r[s.B]:
		return "B"
	}
	return ""
}

// loopExitIssues — a deep copy visits every element of an array, slice or map: a `return`, `break` or `goto` inside an element loop
// (not inside a function literal, and a break not belonging to an inner switch/select) leaves the elements after it uncopied — the
// destination keeps whatever it held there, or the zero value. A `continue` skips only the rest of one element's copy and is judged
// by the other rules.
func loopExitIssues(fn *ast.FuncDecl) []sideIssue {
	var out []sideIssue
	var walk func(n ast.Node, inLoop bool, breakable bool)
	walk = func(n ast.Node, inLoop, breakable bool) {
		ast.Inspect(n, func(m ast.Node) bool {
			if m == nil || m == n {
				return true
			}
			switch x := m.(type) {
			case *ast.FuncLit:
				return false
			case *ast.ForStmt:
				walk(x.Body, true, true)
				return false
			case *ast.RangeStmt:
				walk(x.Body, true, true)
				return false
			case *ast.SwitchStmt, *ast.TypeSwitchStmt, *ast.SelectStmt:
				// an unlabelled break inside belongs to the switch
				var body *ast.BlockStmt
				switch y := x.(type) {
				case *ast.SwitchStmt:
					body = y.Body
				case *ast.TypeSwitchStmt:
					body = y.Body
				case *ast.SelectStmt:
					body = y.Body
				}
				walk(body, inLoop, false)
				return false
			case *ast.ReturnStmt:
				if inLoop {
					out = append(out, sideIssue{x, "returns from inside the loop over the elements: the elements after the one that took this path are never copied", "exit-inside-element-loop", ""})
				}
			case *ast.BranchStmt:
				if inLoop && (x.Tok == token.GOTO || (x.Tok == token.BREAK && (breakable || x.Label != nil))) {
					out = append(out, sideIssue{x, "leaves the loop over the elements early (" + x.Tok.String() + "): the elements after the one that took this path are never copied", "exit-inside-element-loop", ""})
				}
			}
			return true
		})
	}
	walk(fn.Body, false, false)
	return out
}
