package main

import (
	"fmt"
	"go/ast"
	"go/token"
	"go/types"
	"regexp"
	"strings"
)

// nilnessIssues: every root operand of nilable kind (pointer, slice, map) that the residual examines must have its
// nil-ness tested on both sides (else nil and empty/zero are conflated).
func (s *sided) nilnessIssues() []sideIssue {
	var out []sideIssue
	for _, nm := range []string{s.A, s.B} {
		o := s.valOfExpr(ast.NewIdent(nm))
		k := kindOfVal(o)
		if k != "*types.Pointer" && k != "*types.Slice" && k != "*types.Map" {
			continue
		}
		tested := false
		ast.Inspect(s.body, func(n ast.Node) bool {
			be, ok := n.(*ast.BinaryExpr)
			if !ok {
				return true
			}
			if (isNilLit(be.Y) && canon(be.X) == nm) || (isNilLit(be.X) && canon(be.Y) == nm) {
				tested = true
			}
			return true
		})
		// delegation of the whole value to a helper/method (named types) is fine: then the body is a single return of a call
		if !tested && !delegatesWhole(s) {
			out = append(out, sideIssue{s.fn, fmt.Sprintf("the %s %s is examined without testing whether it is nil: nil and empty values are treated alike", strings.TrimPrefix(k, "*types."), nm), "nilness-ignored", strings.TrimPrefix(k, "*types.")})
		}
	}
	return out
}

func delegatesWhole(s *sided) bool {
	if len(s.body.List) != 1 {
		return false
	}
	ret, ok := s.body.List[0].(*ast.ReturnStmt)
	if !ok || len(ret.Results) != 1 {
		return false
	}
	_, isCall := unparen(ret.Results[0]).(*ast.CallExpr)
	return isCall
}

var numericConv = map[string]bool{"int": true, "int8": true, "int16": true, "int32": true, "int64": true, "uint": true, "uint8": true, "uint16": true, "uint32": true,
	"uint64": true, "uintptr": true, "float32": true, "float64": true, "complex64": true, "complex128": true, "byte": true, "rune": true}

// conversionIssues: operands may not be pushed through a numeric conversion before being compared: for an unknown source
// kind the conversion is not order-preserving (uint64 -> int64 wraps, int64 -> float64 rounds).
func (s *sided) conversionIssues() []sideIssue {
	var out []sideIssue
	ast.Inspect(s.body, func(n ast.Node) bool {
		c, ok := n.(*ast.CallExpr)
		if !ok || len(c.Args) != 1 {
			return true
		}
		id, ok := c.Fun.(*ast.Ident)
		if !ok {
			return true
		}
		if h := s.rs.hole(id.Name); h != nil {
			if h.Kind == "FUNC" || h.Kind == "PKG" {
				return true
			}
		} else if !numericConv[id.Name] {
			return true
		}
		if sd := s.side(c.Args[0]); sd == "A" || sd == "B" {
			out = append(out, sideIssue{c, fmt.Sprintf("converts the operand with %s(…) before comparing it: the conversion is not order-preserving for every source type", id.Name), "numeric-conversion", ""})
		}
		return true
	})
	return out
}

// mapOrderIssues (R16): a map-kinded operand may not be ranged over directly; its keys must come from sort(keys(m)).
func (s *sided) mapOrderIssues() []sideIssue {
	var out []sideIssue
	isMapRoot := func(e ast.Expr) bool {
		if o := s.valOfExpr(e); o != nil && kindOfVal(o) == "*types.Map" {
			return true
		}
		return false
	}
	ast.Inspect(s.body, func(n ast.Node) bool {
		rs, ok := n.(*ast.RangeStmt)
		if !ok {
			return true
		}
		if isMapRoot(rs.X) {
			out = append(out, sideIssue{rs, fmt.Sprintf("ranges over the map %s directly: the result depends on Go's randomised map iteration order", s.rs.src(rs.X)), "map-range", ""})
			return true
		}
		// ranged slice derived from a map must be sort(keys(map))
		x := s.exp(rs.X)
		usesMap := false
		ast.Inspect(x, func(m ast.Node) bool {
			if e, ok := m.(ast.Expr); ok && isMapRoot(e) {
				usesMap = true
			}
			return true
		})
		if usesMap && !isSortedKeys(s.rs, x) {
			out = append(out, sideIssue{rs, fmt.Sprintf("iterates over %s, which is derived from a map but is not sort(keys(map))", s.rs.src(rs.X)), "keys-unsorted", ""})
		}
		return true
	})
	// indexing a keys slice that is not sorted
	ast.Inspect(s.body, func(n ast.Node) bool {
		ix, ok := n.(*ast.IndexExpr)
		if !ok {
			return true
		}
		x := s.exp(ix.X)
		if c, ok := unparen(x).(*ast.CallExpr); ok {
			usesMap := false
			ast.Inspect(c, func(m ast.Node) bool {
				if e, ok := m.(ast.Expr); ok && isMapRoot(e) {
					usesMap = true
				}
				return true
			})
			if usesMap && funcHoleWho(s.rs, c.Fun) != "" && !isSortedKeys(s.rs, x) {
				out = append(out, sideIssue{ix, fmt.Sprintf("indexes %s, a key list that is not sort(keys(map))", s.rs.src(ix.X)), "keys-unsorted", ""})
			}
		}
		return true
	})
	return out
}

// funcHoleWho returns the plugin a FUNC-hole callee belongs to ("" if e is not a FUNC hole).
func funcHoleWho(rs *Resid, e ast.Expr) string {
	id, ok := unparen(e).(*ast.Ident)
	if !ok {
		return ""
	}
	h := rs.hole(id.Name)
	if h == nil || h.Kind != "FUNC" {
		return ""
	}
	if h.Who == "self" {
		return rs.Run.Plugin
	}
	return h.Who
}

func isSortedKeys(rs *Resid, e ast.Expr) bool {
	outer, ok := unparen(e).(*ast.CallExpr)
	if !ok || funcHoleWho(rs, outer.Fun) != "sort" || len(outer.Args) != 1 {
		return false
	}
	inner, ok := unparen(outer.Args[0]).(*ast.CallExpr)
	return ok && funcHoleWho(rs, inner.Fun) == "keys" && len(inner.Args) == 1
}

func runR_C03(c *Ctx) {
	compareCoreRules(c, true)
	sortLessRules(c)
	c.Rep.floor("R8", 50)
}

// compareCoreRules: the compare plugin's own residual rules (also part of C04 and C18, whose map handling sorts keys with
// the derived compare function).
func compareCoreRules(c *Ctx, leafSemantics bool) {
	sweepHealth(c, "compare")
	rR1(c, "compare")
	namedFieldConsultsMethod(c, "compare", methodPredicateName(c.R.repo, "compare.compareMethodInputParam", "Compare"), "Compare")
	bodies := map[string]map[int]string{}
	bodyRun := map[string]*Resid{}
	n, rows, und := 0, 0, 0
	for _, rs := range c.acceptedResids("compare") {
		if rs.Err != nil || len(rs.Funcs) != 1 {
			continue
		}
		s := newSided(rs, rs.Funcs[0])
		if s == nil {
			c.Rep.fail(residFinding(c.Repo, rs, "R6", "shape", "compare: emitted function does not have two operands", rs.Funcs[0]))
			continue
		}
		n++
		ok := true
		ok = reportIssues(c, rs, "R6", "", s.mirrorIssues(true)) && ok
		ok = reportIssues(c, rs, "R19", "", s.fieldCoverage("AB")) && ok
		ok = reportIssues(c, rs, "R7", "", s.guardIssues(true)) && ok
		ok = reportIssues(c, rs, "R10", "", writesThroughRoots(s, nil)) && ok
		ok = reportIssues(c, rs, "R-nilness", "", s.nilnessIssues()) && ok
		ok = reportIssues(c, rs, "R-conv", "", s.conversionIssues()) && ok
		ok = reportIssues(c, rs, "R16", "", s.mapOrderIssues()) && ok
		ok = reportIssues(c, rs, "R-method", "", s.operatorBeforeMethodIssues(methodPredicateName(c.R.repo, "compare.compareMethodInputParam", "Compare"))) && ok
		if leafSemantics {
			// C03: values that differ in the nil-ness of a slice are ordered (nil first); bytes.Compare treats nil and empty alike
			ok = reportIssues(c, rs, "R-leaf", "", nilBlindLibCalls(s)) && ok
		}
		if rs.Run.RecCut {
			// a residual with a recursion marker is structurally checked only
		}
		issues, np, undecided := compareTableIssues(s)
		if undecided != "" {
			und++
			c.Rep.fail(Finding{Rule: "R8", Key: "R8|compare|undecided|" + firstLine(undecided), Kind: "undecided", Plugin: "compare", Script: rs.Run.Script,
				Msg:    "compare: the residual cannot be tabulated over operand orderings (" + undecided + ")",
				Detail: "abstract path: " + rs.Run.describe() + "\nresidual:\n" + rs.Run.excerpt(70)})
			ok = false
		} else {
			rows += np
			ok = reportIssues(c, rs, "R8", "", issues) && ok
		}
		if ok {
			for _, r := range []string{"R6", "R7", "R8", "R19", "R10", "R16"} {
				c.Rep.pass(r)
			}
		}
		if len(c.Rep.Samples) < 5 && rs.Run.Config == "leaf" {
			c.Rep.sample(map[string]interface{}{"plugin": "compare", "path": rs.Run.shapeKey(), "table_rows": np, "residual": rs.Run.Text})
		}
		// curried vs two-argument agreement (same construction as for equal)
		var ds []string
		for _, d := range rs.Run.Decisions {
			if d.Sym == "ARGS" || strings.HasPrefix(d.Sym, "B:types.Identical(") {
				continue
			}
			ds = append(ds, fmt.Sprintf("%s=%d", d.Sym, d.Choice))
		}
		k := rs.Run.Config + "|" + strings.Join(ds, ";")
		if bodies[k] == nil {
			bodies[k] = map[int]string{}
		}
		text := rs.src(s.body)
		text = replaceIdent(text, s.A, "§A")
		text = replaceIdent(text, s.B, "§B")
		text = holeRe.ReplaceAllString(text, "_")
		bodies[k][rs.Run.NArgs] = strings.Join(strings.Fields(text), " ")
		bodyRun[k] = rs
	}
	for k, m := range bodies {
		if len(m) == 2 && m[1] != m[2] {
			c.Rep.fail(residFinding(c.Repo, bodyRun[k], "R-curried", "differs", "compare: the one-argument (curried) form and the two-argument form emit different comparison bodies for the same type shape", bodyRun[k].Funcs[0]))
		}
	}
	curriedCompat(c, "compare", bodies, bodyRun)
	g9Methods(c, methodSpec{"compare.compareMethodInputParam", "Compare", 1, 1, types.Int})
	c.Rep.analysed("compare_residuals", n)
	c.Rep.analysed("compare_table_rows", rows)
	_ = strings.TrimSpace
}

// operatorBeforeMethodIssues — compare consults a component's own Compare method before anything else (field: a named type with a
// Compare method is compared by calling it). An ordering or equality operator between mirror components is therefore only sound for
// a component type about which this path established that it is not a named type, or that it is one without such a method.
// The function's own parameters are exempt (the user asked for the derived order of that very type); operands the residual does not
// let the rule type are skipped.
func (s *sided) operatorBeforeMethodIssues(methodPred string) []sideIssue {
	var out []sideIssue
	run := s.rs.Run
	facts := kindFacts(run)
	norm := func(o string) string { return strings.ReplaceAll(o, ".Underlying()", "") }
	methodAsked := func(org string) bool {
		for _, d := range run.Decisions {
			if strings.HasPrefix(d.Sym, "B:pred:"+methodPred+"("+org+",)") {
				return true
			}
		}
		return false
	}
	ast.Inspect(s.body, func(n ast.Node) bool {
		be, ok := n.(*ast.BinaryExpr)
		if !ok {
			return true
		}
		switch be.Op {
		case token.LSS, token.GTR, token.LEQ, token.GEQ, token.EQL, token.NEQ:
		default:
			return true
		}
		if isNilLit(be.X) || isNilLit(be.Y) || lenExprArg(be.X) != nil || lenExprArg(be.Y) != nil {
			return true
		}
		sx, sy := s.side(be.X), s.side(be.Y)
		if !((sx == "A" && sy == "B") || (sx == "B" && sy == "A")) {
			return true
		}
		// the parameters themselves
		if id, ok := unparen(be.X).(*ast.Ident); ok && (id.Name == s.A || id.Name == s.B) {
			return true
		}
		o := s.valOfExpr(be.X)
		if o == nil || o.built || o.notNamed || strings.HasSuffix(o.Origin, ".Underlying()") {
			return true
		}
		key := norm(o.Origin)
		switch facts["named:"+key] {
		case "no":
			return true
		case "yes":
			if methodAsked(o.Origin) || methodAsked(key) {
				return true
			}
		}
		out = append(out, sideIssue{be, fmt.Sprintf("orders the components %s and %s with `%s` although this path never asked whether their type is a named type with its own Compare method: everywhere else a component with a Compare method is compared by calling it, so here the user's order is bypassed (Compare says 0 where Equal, which calls the Equal method, says false; sorting by the derived order disagrees with the type's own)", s.rs.src(be.X), s.rs.src(be.Y), be.Op), "operator-before-method", ""})
		return true
	})
	return out
}

// namedFieldConsultsMethod — on every accepted path, a struct field whose type this path established to be a named type has had
// the plugin's method predicate asked about that very type (not about its underlying type, which has no methods): otherwise the
// field type's own method is bypassed on this path while the sibling plugin (Equal ~ Compare) still calls its own.
func namedFieldConsultsMethod(c *Ctx, plugin, methodPred, method string) {
	fieldType := regexp.MustCompile(`\]\.Type\(\)$`)
	for _, r := range c.R.Runs(plugin) {
		if r.Outcome != "accepted" {
			continue
		}
		for _, d := range r.Decisions {
			if !strings.HasPrefix(d.Sym, "A:") || !strings.HasSuffix(d.Sym, ":*types.Named") || d.Choice != 0 {
				continue
			}
			org := strings.TrimSuffix(strings.TrimPrefix(d.Sym, "A:"), ":*types.Named")
			if !fieldType.MatchString(org) {
				continue
			}
			asked := false
			for _, e := range r.Decisions {
				if strings.Contains(e.Sym, "pred:"+methodPred+"("+org+",") {
					asked = true
					break
				}
			}
			if asked {
				c.Rep.pass("R-method")
				continue
			}
			c.Rep.fail(Finding{Rule: "R-method", Key: "R-method|" + plugin + "|named-field-without-method-lookup", Plugin: plugin, Script: r.Script,
				Msg:    fmt.Sprintf("%s: on an accepted path the type of a struct field (%s) is a named type, but %s was never asked about it: a %s method of that type is bypassed for this field (for example when the field is then handled as its underlying type), although it decides wherever else the type occurs", plugin, shortSym(org), methodPred, method),
				Detail: "abstract path: " + r.describe()})
			break
		}
	}
}
