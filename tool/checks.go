package main

// Property checks: which rules decide which property (DESIGN.md §4).

var commonAssumptions = []string{
	"the Go toolchain's parser/type checker (go/packages, go/types) model the generator source correctly",
	"third-party and standard-library code called by the generator (go/loader, go/format, gotool, sort, fmt) behaves as documented",
}

func init() {
	checks["C01"] = &checkDef{
		run: func(c *Ctx) {
			runG11(c.Repo, c.Rep)
			runG1(c.Raw, c.Rep)
			g8Registry(c)
			g13Fields(c)
			g8CallsReachAdd(c.Repo, c.Rep)
			g8EveryRecordedCallRegistered(c.Repo, c.Rep)
			g14VisitContinues(c.Repo, c.Rep)
			g16Load(c)
			g12HasUndefined(c)
			g20AliasInjective(c)
			g14ReservedBeforeNaming(c)
			g25FieldRendering(c.Repo, c.Rep)
			g33SpellableCastType(c.Repo, c.Rep)
			g27ProgressMeasure(c.Repo, c.Rep)
			g15StringCuts(c.Repo, c.Rep)
			runG15(c.Repo, c.Rep)
			// a leftover derived.gen.go is part of the package directory goderive is run on: it must not decide whether the
			// package loads (G22), and a successful run must have replaced or removed it (G10)
			g22PreviousOutputHidden(c)
			runG10(c.Repo, c.Rep)
			g23BreakOnlyWithoutProgress(c.Repo, c.Rep)
			g31NoPackageSkipped(c.Repo, c.Rep)
			g30GeneratorStateless(c.Repo, c.Rep)
			// every call is bound to the function generated for it: the naming table must accept a call that the function of
			// that name serves (G7), and dispatch by longest prefix uses the prefixes of this run (G8)
			runG7(c.Repo, c.Rep)
			if mainFn := c.Repo.lookup("main.main"); mainFn != nil {
				g8Prefix(c.Repo, c.Rep, mainFn)
			}
			// which operator or helper is emitted for a component is decided by these predicates: accepting a type Go cannot
			// compare or copy gives text that does not type-check
			runG9(c, "equal.canEqual", "deepcopy.canCopy", "contains.canEqual", "derive.IsComparable")
			c.Rep.floor("G11", 6)
			c.Rep.floor("G1", 350)
			runR_C01(c)
		},
		explanation: "Structural necessary conditions of C01 decided statically: (G11) the work list cannot report success before every generator is Done and name lookup answers only under the type comparison; (G1) no generator error is dropped or swallowed; (G8) every plugin is registered once, every deps[...] key is bound and every discovered call reaches Add or the deferred list; (G13) Field.Private agrees with Go's exportedness on every class of first characters and unvendor strips whole vendor path elements only; (Engine R) every accepted abstract run of every plugin emits text that parses and gofmt-s (R1), refers only to holes / universe names / identifiers it declares (R2), uses exactly the imports it requested (R3), marks what it generates (Generating must-pass-through) and, where kinds are determined, type-checks against the documented helper signatures (R4, thorough). Not decided: import-alias collisions, the multi-pass reload loop, _test files, shapes beyond the stated bounds. Added: (R4, every tier) every accepted run of every plugin — also runs whose text repeats but whose holes stand for other types — is type-checked with go/types against declarations built from the path (kinds, exact basic kinds, struct fields incl. a blank first field, defined vs literal types, identities, directional assignability, user methods found by the lookup predicates, documented helper signatures); runs the model cannot express are counted as untyped. (G12) HasUndefined examines whole types; (G14) the finder always continues into the children of a node; (G16) every load includes test files, tolerates errors, and nobody reads a package's Errors list; (R1) no blank field is selected, unsafe casts use the field's own type. Fourth session: FieldStrings interpreted; struct tags containing a percent sign in the input space; mangled twin for type text in format position; alternative basic kinds / untyped nil / slice / channel-direction declarations for whatever a path left open (each alternative a possible input: a type error is a definite compile error for it); (G14) reserved set complete before naming; (G9) canEqual/canCopy/IsComparable tabulated; (G8) every recorded call becomes a call record. Since wave 6: a TypeString result (which registers an import) must reach the output (R3); the cast type that reads a private field of an imported struct is the field's own type or, exactly when that type was established unexported, its Underlying() (G33/R1); blank named results are part of the abstract input space; Generating is asked about the value that was registered; string cuts in helper names are rune-aligned (G15); canEqual asks for Equal methods before licensing == (G9). Engine G analyses the helper-inlined view of the driver (normalise.go; notes in this evidence say what was inlined). Wave 8: a leftover derived.gen.go must not decide whether the package loads (G22: the FindPackage hook hides the file from the directory listing go/build reads — dropping the name after Import is reported), every successful run passed Print or Delete (G10) for every initial package (G31: none skipped), the reload loop goes on while a pass generated something (G23 header) and variable cut offsets are bounded by the operand that is cut (G15). Since wave 10: the naming table accepts a call that the function of its name serves (G7, including the direction of the one-directional eq), dispatch uses the prefixes of this run (G8), and a plugin that serves other plugins rejects in Generate what it rejects in Add (R-dep).",
		assumptions: commonAssumptions,
		technique:   "custom static analysis: CFG dominance lints over the driver + abstract interpretation of plugins into residual programs checked with go/parser, go/format and go/types",
	}
	checks["C02"] = &checkDef{
		run:         func(c *Ctx) { premises(c); runR_C02(c) },
		explanation: "Engine R on the equal plugin: every accepted abstract path's residual is checked for (R6) two-sidedness — every comparison and helper/method call pairs mirror-image components of the two values, nil tests come in mirrored pairs; (R19) every field of every inlined struct takes part on both sides; (R7) every dereference, pointer field read, cross-indexing and looked-up map value is guarded (non-nil / equal length / ok) in the guard set; (R10) no write through an argument; curried and binary forms emit the same body; the user's Equal method is consulted before `==` is chosen (decision order); library comparisons that ignore nil-ness are flagged. G9 tabulates canEqual over go/types kinds. Not decided: extensional equality, reflexivity/symmetry/transitivity as semantic facts, NaN/cycles (excluded), shapes beyond the bounds. Since wave 6: library calls that are blind to nil-ness (bytes.Equal) are leaves only together with a nil-ness agreement test (R-leaf); canEqual refuses a type (or a component, also behind an alias) that has its own Equal method (G9). Since wave 9: the method-lookup predicate is also complete — a method with the right name, arities and result kind is not turned down by any further test (G9 on rejecting paths). Premises shared by every property about emitted code (Engine G, wave 8): a successful run has passed Print or Delete for every initial package (G10, G31: no package is skipped), and the plugins are ordered by the prefixes of this run (G8: every prefix is set before the plugins are constructed and sorted).",
		assumptions: commonAssumptions,
		technique:   "abstract interpretation of the equal generator into residual programs + AST/guard-set (dominance) analyses of the residuals; predicate tabulation",
	}
	checks["C03"] = &checkDef{
		run:         func(c *Ctx) { premises(c); runR_C03(c) },
		explanation: "Engine R on the compare plugin: every residual is (R8) evaluated abstractly over the finite orderings of the operand pairs it mentions (pair ∈ {<,=,>}, nil test ∈ {nil,non-nil}, length pair ∈ {<,=,>}): results stay in {-1,0,+1}, 0 exactly when every examined component is equal, a single differing component decides in its natural direction, nil orders first, and swapping the values negates the result on every row; (R6) helper/method calls and comparisons pair mirror components in (this, that) order; (R19) every field takes part; (R7) guards; nil-ness of every nilable operand is examined (agreement with Equal); no numeric conversion of operands; (R16) maps are traversed through sort(keys(m)) only. Not decided: transitivity across helper boundaries, user Compare methods, stdlib Compare functions. Since wave 6: the nil-blind library-leaf rule (bytes.Compare) is part of this check. Premises shared by every property about emitted code (Engine G, wave 8): a successful run has passed Print or Delete for every initial package (G10, G31: no package is skipped), and the plugins are ordered by the prefixes of this run (G8: every prefix is set before the plugins are constructed and sorted). Wave 8: an ordering or equality operator between mirror components is emitted only where the path established that the component's type is not a named type with its own Compare method (R-method for compare). Since wave 10: on every accepted path a struct field whose type is a named type has had the Compare-method predicate asked about that very type (R-method); emitted selectors name fields of the value's own struct type (R1 selector provenance); no single-value type assertions; every type rendered with TypeString is emitted.",
		assumptions: append([]string{"a compare helper / Compare method / strings.Compare / bytes.Compare returns the sign of the ordering of its two operands"}, commonAssumptions...),
		technique:   "abstract interpretation of the compare generator into residual programs + abstract evaluation of each residual over a finite ordering table; AST/guard-set lints",
	}
	checks["C04"] = &checkDef{
		run:         func(c *Ctx) { premises(c); runR_C04(c) },
		explanation: "Engine R on the hash plugin: every residual (R16) reaches map entries only through sort(keys(m)); (R-input) reads nothing but the value: no package-level state, no package other than math.Float32bits/Float64bits, no cap/uintptr/%p, no helper other than hash/sort/keys, a pointer operand is only nil-tested, dereferenced or handed to a hash helper; (R10) writes nothing through its argument; (R7) dereferences are nil-guarded; (R17) leaf-table contradiction: a bit-injective leaf function over a kind whose Equal leaf is the coarser `==`, and nil-vs-empty seeds against a nil-blind Equal leaf. Not decided: collision quality, user Hash methods, that Equal implies equal inputs to the fold beyond the listed mechanisms. Since wave 6: float bits are hashed only after canonicalising the sign of zero (x+0 or a zero guard) (R17); nil and empty slices hash apart only where Equal tells them apart. Premises shared by every property about emitted code (Engine G, wave 8): a successful run has passed Print or Delete for every initial package (G10, G31: no package is skipped), and the plugins are ordered by the prefixes of this run (G8: every prefix is set before the plugins are constructed and sorted).",
		assumptions: append([]string{"math.Float32bits/Float64bits are bit-injective and == on floats identifies +0 and -0 (Go specification facts frozen in the checker)"}, commonAssumptions...),
		technique:   "abstract interpretation of the hash generator into residual programs + AST lints (input whitelist, ordered-map-traversal, leaf-table contradiction)",
	}
	checks["C05"] = &checkDef{
		run:         func(c *Ctx) { premises(c); runR_C05(c) },
		explanation: "Engine R on deepcopy and clone: (R10) only dst-rooted locations are written; (R11 copy-taint) a src-rooted value reaches dst by plain assignment / *dst = *src / copy() only on paths where the generator established canCopy for exactly that component's type (resolved through the symbolic type graph), helper and method calls are (dst, src) / src.DeepCopy(dst) on mirror components; every nilable component is set to nil exactly under src==nil and freshly allocated (new/make) under src!=nil before it is filled; the destination-slice reuse code is evaluated over {dst nil?, len(dst)?len(src), cap(dst)>=len(src)}: every consistent row must end non-nil with equal length and no reslice beyond capacity; (R19) every field is copied; clone = nil-propagation + fresh allocation + deepcopy(dst, src). G9 tabulates canCopy. Not decided: value equality of the copy, user DeepCopy methods, aliasing inside the prior destination. Premises shared by every property about emitted code (Engine G, wave 8): a successful run has passed Print or Delete for every initial package (G10, G31: no package is skipped), and the plugins are ordered by the prefixes of this run (G8: every prefix is set before the plugins are constructed and sorted). Wave 8: no return/break/goto inside an element loop (R11 exit-inside-element-loop). Since wave 10: emitted selectors name fields of the value's own struct type, never a promoted field of an embedded struct (R1 selector provenance); a path that ends in a generator panic is reported as uncovered (R0).",
		assumptions: commonAssumptions,
		technique:   "abstract interpretation of the deepcopy/clone generators into residual programs + taint/guard-set analyses and a finite resize-state table; predicate tabulation",
	}
	checks["C13"] = &checkDef{
		run:         func(c *Ctx) { premises(c); runR_C13(c) },
		explanation: "Engine R on sort/keys/min/max: sort sorts its own argument in place with package sort and returns it; sort.Strings/Ints/Float64s only on paths that established the exact basic type; sort.Slice's less function is tabulated over element-pair orderings (irreflexive, asymmetric, ascending; indexes only the sorted slice; mirror operands in (i, j) order). keys ranges over the map, appends every range key exactly once unconditionally and returns that slice. min/max: two-value forms tabulated (returns the preceding / following argument); list forms: early return of the default only for an empty list, accumulator seeded and replaced only by list elements, replaced exactly when the new element precedes (min) / follows (max) it and by that very element; min and max residuals mirror each other (R9). R5b: `<`/`>` between values only after an ordered basic kind was established. Not decided: that sort.Slice sorts (stdlib), permutation-ness beyond in-place stdlib sort. Added: two-value form of min/max only under types.Identical. Premises shared by every property about emitted code (Engine G, wave 8): a successful run has passed Print or Delete for every initial package (G10, G31: no package is skipped), and the plugins are ordered by the prefixes of this run (G8: every prefix is set before the plugins are constructed and sorted). Wave 8: the compare plugin's own rules (R6/R7/R8/R16/R19/R-method) are part of this check: Sort/Min/Max are specified under derived Compare, which must be a total order.",
		assumptions: append([]string{"a compare helper returns the sign of the ordering of its operands; package sort sorts"}, commonAssumptions...),
		technique:   "abstract interpretation into residual programs + ordering-table evaluation of less/min/max decisions + structural loop rules",
	}
	checks["C14"] = &checkDef{
		run:         func(c *Ctx) { premises(c); runR_C14(c) },
		explanation: "Engine R on contains/unique/set/union/intersect/filter/takewhile/all/any: guard→effect obligations on each residual, decided with the guard set (conditions with polarity that hold at a statement: enclosing ifs and negations of earlier leaving ifs). contains: `return true` only under an equality test (== licensed by canEqual, else the derived equal helper) of the current element and the item, `return false` only after the loop; union/intersect: the single append/insert is of the current element, into the right result, only under ¬contains(this, v) / contains(that, v) / a comma-ok lookup; filter: slot write list[j]=list[i] and j++ only under predicate(elem), result list[:j]; takewhile: break only under ¬predicate, append only under predicate; all/any: inner/outer constants and polarity; predicate called exactly once per iteration on the range element, forward range; set inserts every element; unique: membership only through derived Equal against an element drawn from the bucket of the element's own derived Hash, write cursor/slot/table updated only for first occurrences, the table records the write cursor. Inputs are not written except by the documented in-place helpers. G9 tabulates contains.canEqual and derive.IsComparable. Not decided: set semantics as such, order of keys(set(..)). Added: contains leaves an iteration only after comparing the element; Hash/Equal lookups tabulated. Since wave 6: a nil map is never inserted into (union: the result map is made when the first argument is nil); contains.canEqual asks for Equal methods (G9). Premises shared by every property about emitted code (Engine G, wave 8): a successful run has passed Print or Delete for every initial package (G10, G31: no package is skipped), and the plugins are ordered by the prefixes of this run (G8: every prefix is set before the plugins are constructed and sorted). Since wave 10: the hash rules include the float-bits leaf rule (two Equal elements fall into the same bucket).",
		assumptions: commonAssumptions,
		technique:   "abstract interpretation into residual programs + guard-set (polarity) effect rules on the residual ASTs; predicate tabulation",
	}
	checks["C15"] = &checkDef{
		run:         func(c *Ctx) { premises(c); runR_C15(c) },
		explanation: "Engine R on curry/uncurry/flip/apply/tuple for every naming of the parameters (named, blank, unnamed) and 0..2 results at arities up to the bound: (R14) the innermost closure references the original function exactly once, calls it with its own parameter names in order (and, for uncurry, the returned function with its parameters), returns the results unchanged; the closure binders are exactly the parameters, each once, in the transformed order (curry: first | rest; flip: first two swapped; apply: last pre-bound; uncurry: outer ++ inner); tuple returns its arguments in order; hygiene: a template-literal identifier referenced under user-named binders is a capture hazard; (R4) each residual is type-checked with pairwise distinct opaque parameter types — since the generators never inspect those types, this decides positional correctness for all types; (R1) blank/unnamed parameters must still give parsable output. Not decided: runtime behaviour of f, variadic signatures. Since wave 6: named results may be blank in the abstract input space (a blank result must not be renamed into a clash). Premises shared by every property about emitted code (Engine G, wave 8): a successful run has passed Print or Delete for every initial package (G10, G31: no package is skipped), and the plugins are ordered by the prefixes of this run (G8: every prefix is set before the plugins are constructed and sorted). Wave 8: a go/types value printed with its own String method into emitted code (instead of through TypeString) is reported (R1 raw-type-text).",
		assumptions: commonAssumptions,
		technique:   "abstract interpretation into residual programs + structural plumbing rules + go/types check of residuals under distinct opaque types (parametricity)",
	}
	checks["C16"] = &checkDef{
		run:         func(c *Ctx) { premises(c); runR_C16(c) },
		explanation: "Engine R on compose, the error forms of fmap and join, traverse and toerror, for 2..3 stages x 0..2 intermediate/final results (arity bounds) and every zero-value kind: (R13) every stage function is called exactly once, in straight-line code, in data-flow order, with exactly the values the previous step produced, in order; each failing-capable stage's error variable is tested immediately after the call and the failure branch returns that very variable with only zero literals next to it; a failing-capable stage is never tail-called or called inside a function literal; the success path returns the last stage's values and nil. traverse: f once per element on the range element, result stored at the element's index, `return nil, err` immediately after the call. toerror: f once with the closure's parameters in order, other results passed through unchanged, nil only under success and the supplied error only under ¬success. derive.Zero is tabulated over go/types kinds (nil only for nilable underlying kinds). Not decided: identity of error objects at run time beyond variable identity, user function behaviour. Added: nil error only where the supplied error was established nil. Premises shared by every property about emitted code (Engine G, wave 8): a successful run has passed Print or Delete for every initial package (G10, G31: no package is skipped), and the plugins are ordered by the prefixes of this run (G8: every prefix is set before the plugins are constructed and sorted). Wave 8: the chain is left only where a stage has failed — any other conditional exit while stages are pending is reported (R13 early-exit); traverse hands every element to f (nothing leaves the iteration before the call: R13 element-skipped).",
		assumptions: commonAssumptions,
		technique:   "abstract interpretation into residual programs + straight-line chain analysis and guard-set rules on the residual ASTs; tabulation of derive.Zero",
	}
	checks["C17"] = &checkDef{
		run:         func(c *Ctx) { premises(c); runR_C17(c) },
		explanation: "Engine R on the slice/string forms of fmap and the slice/strings forms of join: fmap ranges forward over the input (for strings over []rune(s), never over the string itself, whose range index is a byte offset), calls f exactly once per iteration on the range element, stores the result at out[range key], makes the output with the length of the very operand it ranges over, has no early exit and returns that slice; join of slices returns nil for nil, collects into a freshly made slice (never an input's backing array), appends every inner list unconditionally in range order with `...`, no early exit; join of strings is strings.Join with the empty separator; inputs are not written (R10). Not decided: f's behaviour, capacity arithmetic. Premises shared by every property about emitted code (Engine G, wave 8): a successful run has passed Print or Delete for every initial package (G10, G31: no package is skipped), and the plugins are ordered by the prefixes of this run (G8: every prefix is set before the plugins are constructed and sorted).",
		assumptions: commonAssumptions,
		technique:   "abstract interpretation into residual programs + structural loop/effect rules on the residual ASTs",
	}
	checks["C18"] = &checkDef{
		run:         func(c *Ctx) { premises(c); runR_C18(c) },
		explanation: "Engine R on mem for parameter arities 0..2 x result arities 0..2, comparable and not, every parameter naming: (R15) the returned closure contains exactly one call of f, with its own parameters in order, at the top level of its body (the miss path); the table is created once outside the closure; it is keyed by the argument (or an input struct of all arguments in order) only on paths where IsComparable was established, otherwise by the derived hash of that key, and then a hit requires derived Equal of a stored key with the arguments among the entries of that very bucket; every return before the call is under such a hit; after the call the results are stored under the key that was looked up — in the bucket form by appending to the current table entry, never to a snapshot taken before f ran — and returned in order; zero-argument form: a flag initially false guards the call and is set after it. G9 tabulates derive.IsComparable. Not decided: the hash/equal contract itself (C04), concurrency (not promised). Added: Hash/Equal lookups tabulated; hash float-leaf rule (known finding shared with C04). Since wave 6: R17's zero canonicalisation (repaired: +0/-0 are memoised once). Premises shared by every property about emitted code (Engine G, wave 8): a successful run has passed Print or Delete for every initial package (G10, G31: no package is skipped), and the plugins are ordered by the prefixes of this run (G8: every prefix is set before the plugins are constructed and sorted).",
		assumptions: commonAssumptions,
		technique:   "abstract interpretation into residual programs + guard-set protocol rules on the residual ASTs; predicate tabulation",
	}
	checks["C19"] = &checkDef{
		run:         func(c *Ctx) { premises(c); runR_C19(c) },
		explanation: "Engine R on fmap-over-channel, the channel forms of join (slice of channels, channel of channels, variadic select; both channel directions), dup and pipeline: typestate/pairing rules on the residual CFGs and closure tree. T1 every channel made and returned is closed at exactly one site, in a goroutine, outside any loop, on every path of that goroutine (post-dominance; defer accepted); T2 no send reachable after the close in the same goroutine; T3 every other sending goroutine is counted by Add before its go statement (dominance in the spawner), calls Done on every path, and Wait dominates the close, with no spawn reachable after Wait; T4 each receive loop forwards the received item (or f of it) exactly once on every output, unconditionally, without break/return; T5 the combinator's own body performs no blocking channel operation; T6 select form: the loop runs while some input is non-nil over exactly the selected inputs, each case disables only its own input and only when it was found closed, and sends only when it was not; T7 goroutines spawned in a loop do not refer to the loop variables directly; T8 a variable written in a goroutine is not used by another goroutine; pipeline is exactly join(fmap(g, f(a))). Not decided: an exploration of interleavings, global deadlock freedom, buffer-capacity effects, goroutine leaks when consumers stop. Added: after Add(1) no path reaches the next Add or the Wait without the go statement. Premises shared by every property about emitted code (Engine G, wave 8): a successful run has passed Print or Delete for every initial package (G10, G31: no package is skipped), and the plugins are ordered by the prefixes of this run (G8: every prefix is set before the plugins are constructed and sorted).",
		assumptions: append([]string{"Go memory model: channel operations and WaitGroup provide the happens-before edges the rules pair up"}, commonAssumptions...),
		technique:   "abstract interpretation into residual programs + channel/WaitGroup typestate and pairing rules on go/cfg graphs (dominance, post-dominance, reachability) of the residual closures",
	}
	checks["C20"] = &checkDef{
		run: func(c *Ctx) {
			premises(c)
			g30GeneratorStateless(c.Repo, c.Rep)
			runR_C20(c)
		},
		explanation: "Engine R on do for n = 2, 3 (thorough: up to 4): every argument function is called exactly once and only inside its own goroutine (never on the caller's goroutine); all go statements dominate the first completion receive and none is reachable after it (start-all-before-wait); each goroutine stores its result before its single completion send, which is on every path and carries its own function's error; the caller receives exactly n completions, n = number of goroutines = number of functions; result slots are written by exactly one goroutine and read only after the receive loop; the returned error is assigned only from a received non-nil value and only while it is still nil; no variable written in a goroutine is used by another goroutine (T8). Not decided: scheduler fairness, panicking functions. Since wave 6: generator structs are written only by their constructor (G30: nothing carries over from one generated function to the next). Premises shared by every property about emitted code (Engine G, wave 8): a successful run has passed Print or Delete for every initial package (G10, G31: no package is skipped), and the plugins are ordered by the prefixes of this run (G8: every prefix is set before the plugins are constructed and sorted).",
		assumptions: append([]string{"Go memory model: a send happens before the corresponding receive completes"}, commonAssumptions...),
		technique:   "abstract interpretation into residual programs + goroutine typestate/pairing rules on go/cfg graphs of the residual closures",
	}
	checks["C06"] = &checkDef{
		run: func(c *Ctx) {
			premises(c)
			g28BypassQualifier(c.Repo, c.Rep)
			runR_C06(c)
		},
		explanation: "Engine R on gostring — second-stage well-formedness: for every residual the fmt.Fprintf statements are walked along every structured path (each if both ways, each loop 0/1 times; thorough 0/1/2), their format strings concatenated with verbs replaced by placeholders (%#v a value, %d the iteration number, %s a nested derived GoString call); on every path the printed text must parse as an immediately invoked `func() T { … }()`, use only identifiers it declared before, and end in a return; type names in printed text come from the package-qualifying (bypass) printer while the function's own signature uses the ordinary one; a type printed under a pointer constructor (*T, new(T), &T{}) is the component's declared type, never its Underlying(); %s operands are nested gostring calls and values use %#v; a nil pointer/slice/map is printed as `return nil`; every field of an inlined struct is printed (R19). Not decided: %#v's escaping (stdlib), value round-trip, unexported fields. Added: %#v on a composite only when every component was established basic (also on duplicate-text runs). Since wave 6: every literal the emitted code returns for a typed value parses as an expression of that type's shape (a bare nil is not); the qualifier of an imported type is the package's name (G28); field rendering consults Embedded() or delegates to go/types (G25). Premises shared by every property about emitted code (Engine G, wave 8): a successful run has passed Print or Delete for every initial package (G10, G31: no package is skipped), and the plugins are ordered by the prefixes of this run (G8: every prefix is set before the plugins are constructed and sorted). Wave 8: the target of a pointer to a map or slice starts out nil (new(T)); `&T{}` for such a T is reported (R-stage2 nonnil-target). Indexed verbs (%[n]v) are read.",
		assumptions: commonAssumptions,
		technique:   "abstract interpretation into residual programs + path-wise assembly and go/parser analysis of the text the residual prints (two-stage well-formedness)",
	}
	checks["C07"] = &checkDef{
		run: func(c *Ctx) {
			runG4(c.Repo, c.Rep)
			runG10(c.Repo, c.Rep)
			g10DeleteRemoves(c.Repo, c.Rep)
			g4PrintWrites(c.Repo, c.Rep)
			g23BreakOnlyWithoutProgress(c.Repo, c.Rep)
			g26DirectoryKnown(c.Repo, c.Rep)
			g31PackageOrder(c.Repo, c.Rep)
			g31NoPackageSkipped(c.Repo, c.Rep)
			g14ReservedProvenance(c)
			g14VisitContinues(c.Repo, c.Rep)
			g16Load(c)
			g12HasUndefined(c)
			g22PreviousOutputHidden(c)
			g17StaleArgTypes(c)
			g18CallOrder(c.Repo, c.Rep)
			g19AtomicPrint(c)
			c.Rep.floor("G4", 10)
			c.Rep.floor("G10", 9)
		},
		explanation: "Decides the mechanisms C07's anchors name, each a necessary condition: the derived file is written with a truncating os.Create on a path that comes only from (*pkg).Filename(), the same constant is what discovery excludes (G4); every successful return of generatePackage has passed through Print (HasContent) or Delete (otherwise) (G10 must-pass-through on the CFG); the loader tolerates type errors and an unparsable derived file; files named derivedFilename are excluded from call discovery, names resolved into it are re-queued and never reserved; no user file is skipped when listing package files (G10). (G22) the previous output is not an input of the first pass: every loader.Config installs a FindPackage hook that takes the package from (*build.Context).Import and, on every CFG path to a return on which the package is non-nil and marked stale, has replaced GoFiles by a filter of GoFiles by derivedFilename (the filter is evaluated abstractly on literal lists: exactly the other names, in order); (*plugins).Load marks every path it loads as stale; a load that marks nothing comes after this run's Print; the hook drops derivedFilename from InvalidGoFiles and clears go/build's error only under a condition on what remains of InvalidGoFiles. G17 (argument types cannot come from the previous derived.gen.go, nor from the callee's declaration) and G19 (a truncated remnant is never read, or the file is replaced atomically) are discharged through G22; on the tree before fix a84a5a8 both fail. G18: one call list in visit order. Not decided: byte identity across histories beyond these necessary conditions; derived files of imported (non-initial) packages. Added: reserved names never come from the whole type-checked package (G14); the finder continues into a call's arguments (G14); HasUndefined examines whole types (G12); loads include test files, tolerate errors, nobody reads a package's Errors list (G16). Since wave 6: the reload loop breaks exactly when a pass left the set of undefined calls of this package unchanged (G23); the initial packages are generated in load order (G31); the directory of the derived file is known before Print/Delete (G26). Engine G analyses the helper-inlined view of the driver (normalise.go; notes in this evidence say what was inlined). Wave 8: every initial package reaches generatePackage on every path round the loop of (*program).Generate (G31 no package skipped); the filter-after-import form of the FindPackage hook is reported (G22); the reload loop's header is `this pass generated something` (G23).",
		assumptions: commonAssumptions,
		technique:   "custom static analysis: who-may-call table, path provenance, go/cfg must-pass-through and exclusion (reachability/dominance) rules",
	}
	checks["C08"] = &checkDef{
		run: func(c *Ctx) {
			runG6(c.Repo, c.Rep)
			// the derived file's path comes from the first listed user file: a package none of whose files is listed gets a path
			// relative to the working directory (G10: every user file is listed, print-or-delete goes to (*pkg).Filename())
			runG10(c.Repo, c.Rep)
			// whether another pass is made must depend on this package only (the record of the pass before is a local)
			g23BreakOnlyWithoutProgress(c.Repo, c.Rep)
			g4PrintWrites(c.Repo, c.Rep)
			g26DirectoryKnown(c.Repo, c.Rep)
			g16PosOrder(c.Repo, c.Rep)
			g14ReservedProvenance(c)
			c.Rep.floor("G6", 8)
		},
		explanation: "G6: every range over a Go map in main/derive/plugin/* is classified (insert-only / constant reduction / append-then-sort are order-insensitive; first-match returns, emission or unsorted appends are violations); no package-level variable is written outside main/init and no package-level reference value escapes into per-package state; no clock/random/environment/goroutine input; printers, qualifiers, type tables and generators are constructed in newPackage only. Not decided: ordering inside go/loader and gotool (third-party), path-spelling independence, timing. Added: the callees of every order-insensitive map loop are effect-free (whole-repository may-have-effect analysis over static, interface and function-value calls; one exempted edge with its argument); nothing is ordered by token.Pos (expected count 0, with a built-in positive example); reserved names do not depend on the previous output. Added: G10 (every user file listed; print-or-delete on (*pkg).Filename()). Since wave 6: Print skips the write only after bytes.Equal of the whole old and new content (G4); nameOf's candidates are sorted and vetted (G6/G11); the progress test of the pass loop depends on the current package only (G23); the directory is known before Print/Delete (G26). Engine G analyses the helper-inlined view of the driver (normalise.go; notes in this evidence say what was inlined). Wave 8: a list filled in map order is order-independent only after a sort that is total on the elements themselves (library sort of the element type, or a comparator that ends in the natural comparison of the two elements): sorting by a computed key is reported (G6).",
		assumptions: commonAssumptions,
		technique:   "custom static analysis: typed-AST classification of map iterations, global-state and nondeterministic-input lint, who-may-call for constructors",
	}
	checks["C09"] = &checkDef{
		run: func(c *Ctx) {
			runG1(c.Raw, c.Rep)
			g23UnresolvedReported(c.Repo, c.Rep)
			g23BreakOnlyWithoutProgress(c.Repo, c.Rep)
			g22PreviousOutputHidden(c)
			g31NoPackageSkipped(c.Repo, c.Rep)
			c.Rep.floor("G1", 350)
			g12HasUndefined(c)
			g14NilPkg(c.Repo, c.Rep)
			g16VisitAssertion(c.Repo, c.Rep)
			g20AliasInjective(c)
			runG15(c.Repo, c.Rep)
			g15StringCuts(c.Repo, c.Rep)
			runG9(c, "equal.canEqual", "deepcopy.canCopy", "contains.canEqual", "derive.IsComparable")
			runR_C09(c)
		},
		explanation: "G1: every error-returning call in main/derive/plugin/* (412 on the pinned tree) is returned, or tested with the non-nil branch ending in a non-nil error return / fatal exit; drops, blank assignments, swallows (`if err != nil { return nil }`) and error branches that stay inside a work loop are violations. G12: (*call).HasUndefined is tabulated over go/types kinds — on every path that answers `fully defined` it examined the whole type (String() rendering or every constituent), so unresolved argument types are always deferred. Engine R: no abstract run of any plugin (including runs Add rejects) hits a definite generator panic (index out of the established length, unchecked type assertion on an unrefined kind, Out underflow, explicit panic); no accepted run emits unparsable text; unsupported constituents (chan/func/interface) at every position of the structural plugins end in generator-error runs; operators are emitted only for kinds that support them. Not decided: termination of the reload loop, panics inside third-party code, broken user files. Added: (G15) constant offsets in the driver lie within an established length; (G14) Obj().Pkg() is nil-checked before use (IsExternal only on struct-kinded types, enforced by the interpreter); (G16) the finder records a call only after asserting call.Fun itself to be an identifier; recursion in a generator makes progress (re-entry with the same type arguments = definite non-termination); canEqual/canCopy/IsComparable tabulated incl. blank fields; (R4) every accepted run type-checks, as in C01. Fourth session: R4 alternatives as in C01; (G23) generatePackage returns nil only where no call is left undefined; (G24) nil first argument rejected in (*pkg).Add. Since wave 6: the progress measure of the pass loop has one entry per undefined call (G27) and the loop's exits are decided (G23); a package without files is skipped before any position lookup (G26); R-generating and G15 as in C01; contains.canEqual asks for Equal methods. Engine G analyses the helper-inlined view of the driver (normalise.go; notes in this evidence say what was inlined). Wave 8: variable cut offsets x[:v] are bounded by a test against len of the very operand that is cut (G15); G22 and G31 as in C01/C07; G23 header condition. Since wave 10: (R-dep) a plugin that other plugins ask for functions through GetFuncName — which never calls Add — rejects in Generate every type shape that its Add rejects: each Add-rejecting abstract path is continued into Generate with the same types, and Generate emitting a function there is a violation (restricted to the kinds of type other plugins request).",
		assumptions: commonAssumptions,
		technique:   "custom static analysis: CFG-based error-flow lint + abstract interpretation of plugin Add/Generate with definite-panic detection",
	}
	checks["C10"] = &checkDef{
		run: func(c *Ctx) {
			g26DirectoryKnown(c.Repo, c.Rep)
			runG4(c.Repo, c.Rep)
			runG5(c.Repo, c.Rep)
			g16RewriteGuard(c.Repo, c.Rep)
			g16RewriteTarget(c.Repo, c.Rep)
			g7Table(c)
			c.Rep.floor("G4", 10)
			c.Rep.floor("G5", 6)
		},
		explanation: "G4: file-system effects are reachable only from (*pkg).Print (os.Create), (*pkg).Delete (os.Remove) and newPackage (os.OpenFile); no plugin and no other driver function references a mutating os/ioutil/exec/syscall member or handles an *os.File; paths come from Filename(); every open-for-write truncates; the source rewrite sits under a per-file guard that is reset for every file and can only be set inside `name != call.Name` after the no-flag panic. G5: the user's syntax tree is mutated at exactly one site (call.Expr.Fun = ast.NewIdent(name returned by Add)); comments are parsed; the file is re-printed whole from its own tree into its own path. G7: without flags SetFuncName can only return the requested name or fail. Not decided: byte-exactness of go/format, partial writes on I/O errors. Added: (G5) the replacement identifier carries the position of the identifier it replaces; (G16) a user file is opened for writing only after a complete parse of that very path. Since wave 6: the directory of the derived file is known before Print/Delete (G26). Engine G analyses the helper-inlined view of the driver (normalise.go; notes in this evidence say what was inlined).",
		assumptions: commonAssumptions,
		technique:   "custom static analysis: effect ownership (who-may-call), constant-flag evaluation, CFG guards, AST-store inventory",
	}
	checks["C11"] = &checkDef{
		run: func(c *Ctx) {
			runG7(c.Repo, c.Rep)
			runG11(c.Repo, c.Rep)
			// a call is handled by the plugin with the longest matching prefix of *this run*: every prefix is set before the
			// plugins are constructed and sorted (also a premise of "a function generated for exactly its argument types")
			if mainFn := c.Repo.lookup("main.main"); mainFn != nil {
				g8Prefix(c.Repo, c.Rep, mainFn)
			}
			g14ReservedProvenance(c)
			g14AddNameUsed(c.Repo, c.Rep)
			g8EveryRecordedCallRegistered(c.Repo, c.Rep)
			g32ReserveDeclared(c)
			g14ReservedBeforeNaming(c)
			g17ArgTypesFromDeclaration(c)
			g16Eq(c)
			g29EqDefaults(c.Repo, c.Rep)
			g15StringCuts(c.Repo, c.Rep)
			runG15(c.Repo, c.Rep)
			g21ReserveEveryCalledName(c.Repo, c.Rep)
			// "fails exactly when …": a detected conflict or duplicate must reach the exit status
			runG1(c.Raw, c.Rep)
			// "call identifier replaced in the AST and file rewritten": the rewrite must truncate, go to the file's own
			// path and print the file's own tree, or a successful -autoname/-dedup run leaves a package that does not type-check
			runG4(c.Repo, c.Rep)
			runG5(c.Repo, c.Rep)
			c.Rep.floor("G7", 40)
		},
		explanation: "G7: SetFuncName's structured control flow is enumerated path by path over the atoms {name-of-types hit, hit==requested, requested bound, bound types eq, dedup, autoname}; each of the 36 consistent states must yield exactly the outcome the property prescribes (requested / existing only with -dedup / fresh only with -autoname / error / register in both tables). newName returns a candidate that was tested after its last update against both funcToTyps and reserved, built from the current prefix; GetFuncName registers exactly the name it returns; the reserved set is complete before any table uses it; nameOf answers only under eq (G11). Not decided: eq uses assignability rather than identity (outside the property's pairwise-non-assignable quantifier); type-correctness after renaming (C01). Added: (G16) eq evaluated abstractly on lists of lengths (1,2),(2,1),(0,1),(1,0),(2,3),(1,1),(2,2): false for different lengths, true when every pairwise test succeeds; (G14) the name returned by Add reaches the call identifier at every call site; (G4/G5) the rewrite truncates and prints the file's own tree; reserved names come from user files only. Added: every recorded call becomes its own record (G8), reserved set complete before naming (G14), argument types never from the callee's declaration (G17 clause 2). Since wave 6: eq compares types.Default'ed types (G29); every name declared at package level outside the derived file is reserved, called or not (G32); newName returns the very name it tested and cuts type names between runes (G7/G15). Engine G analyses the helper-inlined view of the driver (normalise.go; notes in this evidence say what was inlined). Wave 8: G15 variable offsets in newName. After fix (see known_findings): with -autoname a call whose requested name is bound to other types and whose own types are bound under another name is renamed to that name (state H,¬S,F,¬E,autoname of the table). Since wave 9: (G8) every -<plugin>.prefix flag is applied before the plugins are constructed and sorted by prefix length, so that longest-prefix dispatch uses the prefixes of this run.",
		assumptions: commonAssumptions,
		technique:   "custom static analysis: decision-table extraction by path enumeration over the typed AST, loop-exit and dominance rules",
	}
	checks["C12"] = &checkDef{
		run: func(c *Ctx) {
			runG8(c.Repo, c.Rep)
			g8PrefixOpaque(c.Repo, c.Rep)
			g8PluginOrderFixed(c.Repo, c.Rep)
			// helper names are minted from the plugin's current prefix and the name returned is the one that was tested to be free
			g7NewName(c.Repo, c.Rep)
			g32ReserveDeclared(c)
			c.Rep.floor("G8", 150)
			runR_C12(c)
		},
		explanation: "G8: 33 NewPlugin registrations with unique names, unique default prefixes each starting with exactly one \"derive\" (so -prefix substitution is a pure renaming), all listed once in main, all deps keys bound; SetPrefix only from main before NewPlugins; the prefix is strings.Replace(default,\"derive\",*prefix,1) or the verbatim override; NewPlugins sorts before storing; the sort comparator is tabulated over the finite orderings of (length, string) and must be longest-first, irreflexive, asymmetric, total on equal lengths, and may index only the slice being sorted; both dispatch loops iterate the sorted slice and leave at the first match. Engine R: no residual contains a literal identifier starting with a registered default prefix; emitted function and helper names are NAME/FUNC holes (equivariance under the prefix map). Not decided: textual identity of two runs. Added: the -prefix substitution dominates SetPrefix. Since wave 6: the plugin list is never reordered after construction (G8); the name tested free is the name returned (G7); every declared name is reserved (G32). Engine G analyses the helper-inlined view of the driver (normalise.go; notes in this evidence say what was inlined). Wave 8: no condition that reads a prefix value (the -prefix flag, what reaches SetPrefix, GetPrefix()/Prefix(), a field called prefix) outside the HasPrefix dispatch and the ordering of two prefixes may end the run (G8 prefix-opaque, expected count zero with a built-in positive example).",
		assumptions: commonAssumptions,
		technique:   "custom static analysis: registry extraction, abstract evaluation of the comparator over a finite ordering table, CFG first-match rule, residual scope lint",
	}
}

// premises: every property about the code goderive emits presupposes that a run that exits 0 has written that code, from the
// current sources, with the plugin the call's prefix addresses. These driver rules are therefore part of every such check:
// a package that is skipped, or a successful return that neither printed nor deleted the derived file, leaves the functions of
// an earlier run in place; a plugin list ordered by stale prefixes hands a call to another plugin.
func premises(c *Ctx) {
	g10PrintOrDelete(c.Repo, c.Rep)
	g31NoPackageSkipped(c.Repo, c.Rep)
	if mainFn := c.Repo.lookup("main.main"); mainFn != nil {
		g8Prefix(c.Repo, c.Rep, mainFn)
	} else {
		c.Rep.fail(Finding{Rule: "G8", Key: "G8|main-missing", Kind: "undecided", Msg: "main.main not found"})
	}
}

func g8Registry(c *Ctx) {
	regs := pluginRegistry(c.Repo, c.Rep)
	names := map[string]bool{}
	for _, g := range regs {
		names[g.name] = true
	}
	if len(regs) >= 33 {
		c.Rep.pass("G8")
	} else {
		c.Rep.fail(Finding{Rule: "G8", Key: "G8|registry-size", Kind: "undecided", Msg: "fewer than 33 plugin registrations found"})
	}
}

// g7Table: the part of G7 that C10 relies on (without flags a name never changes).
func g7Table(c *Ctx) {
	sub := newReport(c.Rep.Property, c.Rep.Tier)
	runG7(c.Repo, sub)
	for _, f := range sub.Findings {
		c.Rep.fail(f)
	}
	c.Rep.mu.Lock()
	c.Rep.Obligations += sub.Discharged
	c.Rep.Discharged += sub.Discharged
	st := c.Rep.stat("G7")
	st.Obligations += sub.Discharged
	st.Discharged += sub.Discharged
	c.Rep.mu.Unlock()
}
