package main

func init() {
	checks["C09"] = &checkDef{
		run: func(c *Ctx) {
			runG1(c.Repo, c.Rep)
		},
		explanation: "G1 error discipline",
		technique:   "custom AST/CFG lint",
	}
}
