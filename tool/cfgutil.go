package main

import (
	"go/ast"
	"go/token"

	"golang.org/x/tools/go/cfg"
)

// Graph wraps a go/cfg graph with dominators and node lookup.
type Graph struct {
	G      *cfg.CFG
	Blocks []*cfg.Block // live blocks
	idom   map[*cfg.Block]*cfg.Block
	preds  map[*cfg.Block][]*cfg.Block
	order  map[*cfg.Block]int
}

func newGraph(body *ast.BlockStmt, mayReturn func(*ast.CallExpr) bool) *Graph {
	g := &Graph{G: cfg.New(body, mayReturn), preds: map[*cfg.Block][]*cfg.Block{}, order: map[*cfg.Block]int{}}
	// reachable blocks from entry, reverse postorder
	seen := map[*cfg.Block]bool{}
	var post []*cfg.Block
	var dfs func(b *cfg.Block)
	dfs = func(b *cfg.Block) {
		seen[b] = true
		for _, s := range b.Succs {
			if !seen[s] {
				dfs(s)
			}
		}
		post = append(post, b)
	}
	if len(g.G.Blocks) > 0 {
		dfs(g.G.Blocks[0])
	}
	for i := len(post) - 1; i >= 0; i-- {
		g.order[post[i]] = len(g.Blocks)
		g.Blocks = append(g.Blocks, post[i])
	}
	for _, b := range g.Blocks {
		for _, s := range b.Succs {
			g.preds[s] = append(g.preds[s], b)
		}
	}
	g.computeDom()
	return g
}

func (g *Graph) entry() *cfg.Block {
	if len(g.Blocks) == 0 {
		return nil
	}
	return g.Blocks[0]
}

func (g *Graph) computeDom() {
	g.idom = map[*cfg.Block]*cfg.Block{}
	if len(g.Blocks) == 0 {
		return
	}
	e := g.Blocks[0]
	g.idom[e] = e
	changed := true
	for changed {
		changed = false
		for _, b := range g.Blocks[1:] {
			var nd *cfg.Block
			for _, p := range g.preds[b] {
				if g.idom[p] == nil {
					continue
				}
				if nd == nil {
					nd = p
				} else {
					nd = g.intersect(p, nd)
				}
			}
			if nd != nil && g.idom[b] != nd {
				g.idom[b] = nd
				changed = true
			}
		}
	}
}

func (g *Graph) intersect(a, b *cfg.Block) *cfg.Block {
	for a != b {
		for g.order[a] > g.order[b] {
			a = g.idom[a]
		}
		for g.order[b] > g.order[a] {
			b = g.idom[b]
		}
	}
	return a
}

// dominates reports whether a dominates b (reflexive).
func (g *Graph) dominates(a, b *cfg.Block) bool {
	if g.idom[b] == nil || g.idom[a] == nil {
		return false
	}
	for {
		if a == b {
			return true
		}
		n := g.idom[b]
		if n == b {
			return false
		}
		b = n
	}
}

// locate returns the live block and node index whose node contains pos (innermost by extent).
func (g *Graph) locate(pos token.Pos) (*cfg.Block, int) {
	var bb *cfg.Block
	bi := -1
	var best token.Pos = -1
	for _, b := range g.Blocks {
		for i, n := range b.Nodes {
			if n.Pos() <= pos && pos < n.End() {
				ext := n.End() - n.Pos()
				if best < 0 || ext < best {
					best, bb, bi = ext, b, i
				}
			}
		}
	}
	return bb, bi
}

// nodeDominates: does the node at position a execute before (dominate) the node at position b?
func (g *Graph) posDominates(a, b token.Pos) bool {
	ba, ia := g.locate(a)
	bb, ib := g.locate(b)
	if ba == nil || bb == nil {
		return false
	}
	if ba == bb {
		return ia <= ib
	}
	return g.dominates(ba, bb)
}

// reachable returns the set of blocks reachable from the given start blocks, not passing through blocks for which stop returns true
// (a stop block is neither entered nor included).
func (g *Graph) reachable(start []*cfg.Block, stop func(*cfg.Block) bool) map[*cfg.Block]bool {
	seen := map[*cfg.Block]bool{}
	var work []*cfg.Block
	for _, s := range start {
		if stop != nil && stop(s) {
			continue
		}
		if !seen[s] {
			seen[s] = true
			work = append(work, s)
		}
	}
	for len(work) > 0 {
		b := work[len(work)-1]
		work = work[:len(work)-1]
		for _, s := range b.Succs {
			if seen[s] || (stop != nil && stop(s)) {
				continue
			}
			seen[s] = true
			work = append(work, s)
		}
	}
	return seen
}

// condSuccs: for a block ending in a condition (two successors), returns (trueSucc, falseSucc).
func condSuccs(b *cfg.Block) (*cfg.Block, *cfg.Block) {
	if len(b.Succs) == 2 {
		return b.Succs[0], b.Succs[1]
	}
	return nil, nil
}

// returnsOf lists return statements in live blocks.
func (g *Graph) returnsOf() []*ast.ReturnStmt {
	var out []*ast.ReturnStmt
	for _, b := range g.Blocks {
		for _, n := range b.Nodes {
			if r, ok := n.(*ast.ReturnStmt); ok {
				out = append(out, r)
			}
		}
	}
	return out
}

// blockHas reports whether any node of block b satisfies pred (searching nested expressions, not nested function literals).
func blockHas(b *cfg.Block, pred func(ast.Node) bool) bool {
	for _, n := range b.Nodes {
		if nodeHas(n, pred) {
			return true
		}
	}
	return false
}

func nodeHas(n ast.Node, pred func(ast.Node) bool) bool {
	found := false
	ast.Inspect(n, func(m ast.Node) bool {
		if found || m == nil {
			return false
		}
		if _, ok := m.(*ast.FuncLit); ok && m != n {
			return false
		}
		if pred(m) {
			found = true
			return false
		}
		return true
	})
	return found
}
