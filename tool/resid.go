package main

import (
	"bytes"
	"fmt"
	"go/ast"
	"go/format"
	"go/parser"
	"go/token"
	"sort"
	"strings"
)

// Resid is a parsed residual program of an accepted run.
type Resid struct {
	Run   *Run
	Fset  *token.FileSet
	File  *ast.File
	Err   error
	Funcs []*ast.FuncDecl
}

func parseResid(run *Run) *Resid {
	rs := &Resid{Run: run, Fset: token.NewFileSet()}
	f, err := parser.ParseFile(rs.Fset, run.Plugin+".residual.go", run.Text, parser.ParseComments|parser.SkipObjectResolution)
	rs.File, rs.Err = f, err
	if f != nil {
		for _, d := range f.Decls {
			if fd, ok := d.(*ast.FuncDecl); ok {
				if fd.Body != nil {
					elimTemps(fd.Body)
				}
				rs.Funcs = append(rs.Funcs, fd)
			}
		}
	}
	return rs
}

// line of a residual node
func (rs *Resid) line(p token.Pos) int { return rs.Fset.Position(p).Line }

// where: generator position(s) that emitted the residual node
func (rs *Resid) where(repo *Repo, n ast.Node) string {
	return rs.Run.where(repo, rs.line(n.Pos()))
}

// hole returns the hole behind a placeholder identifier, or nil.
func (rs *Resid) hole(name string) *Hole {
	if !strings.HasPrefix(name, "__") {
		return nil
	}
	return rs.Run.Holes[name]
}

func (rs *Resid) isHole(e ast.Expr, kind string) bool {
	id, ok := e.(*ast.Ident)
	if !ok {
		return false
	}
	h := rs.hole(id.Name)
	return h != nil && (kind == "" || h.Kind == kind)
}

// text of a node from the residual source
func (rs *Resid) src(n ast.Node) string {
	var b bytes.Buffer
	format.Node(&b, rs.Fset, n)
	return b.String()
}

// excerpt returns the residual with line numbers, for reports.
func (r *Run) excerpt(maxLines int) string {
	lines := strings.Split(strings.TrimRight(r.Text, "\n"), "\n")
	var b strings.Builder
	for i, l := range lines {
		if i >= maxLines {
			fmt.Fprintf(&b, "... (%d more lines)\n", len(lines)-i)
			break
		}
		fmt.Fprintf(&b, "%3d %s\n", i+1, l)
	}
	return b.String()
}

// legend explains the placeholders of a run.
func (r *Run) legend() string {
	var ids []string
	for id := range r.Holes {
		ids = append(ids, id)
	}
	sort.Slice(ids, func(i, j int) bool {
		if len(ids[i]) != len(ids[j]) {
			return len(ids[i]) < len(ids[j])
		}
		return ids[i] < ids[j]
	})
	var b strings.Builder
	for _, id := range ids {
		h := r.Holes[id]
		fmt.Fprintf(&b, "%s = %s %s\n", id, h.Kind, h.Origin)
	}
	return b.String()
}

// shapeKey identifies an abstract path compactly and stably: the decisions that are not at their default (first) choice.
func (r *Run) shapeKey() string {
	var ss []string
	for _, d := range r.Decisions {
		if d.Choice != 0 || d.Sym == "ARGS" {
			ss = append(ss, fmt.Sprintf("%s=%d", shortSym(d.Sym), d.Choice))
		}
	}
	s := strings.Join(ss, ",")
	if len(s) > 160 {
		s = s[:160]
	}
	return r.Config + ":" + s
}

func shortSym(s string) string {
	s = strings.ReplaceAll(s, ".Underlying()", ".U")
	s = strings.ReplaceAll(s, "*types.", "")
	s = strings.ReplaceAll(s, "typs", "t")
	if len(s) > 48 {
		s = s[:48]
	}
	return s
}

// residFinding builds a Finding about a residual program.
func residFinding(repo *Repo, rs *Resid, rule, construct, msg string, nodes ...ast.Node) Finding {
	var where []string
	for _, n := range nodes {
		w := rs.where(repo, n)
		if !contains(where, w) {
			where = append(where, w)
		}
	}
	detail := "abstract path: " + rs.Run.describe() + "\nresidual:\n" + rs.Run.excerpt(60)
	return Finding{Rule: rule, Key: fmt.Sprintf("%s|%s|%s", rule, rs.Run.Plugin, construct), Where: where, Msg: msg, Detail: detail, Script: rs.Run.Script, Plugin: rs.Run.Plugin}
}

// acceptedResids parses all distinct accepted runs of a plugin.
func (c *Ctx) acceptedResids(plugin string) []*Resid {
	var out []*Resid
	for _, r := range c.R.Runs(plugin) {
		if r.Outcome == "accepted" && !r.Dup {
			out = append(out, parseResid(r))
		}
	}
	return out
}

// elimTemps puts the emitted code into the form the residual rules are stated in: a local that is defined by `v := E`
// and used exactly once, in the very next simple statement (an assignment, return, expression statement or send; not inside
// a function literal, not as an assignment target, not under &), is replaced by E there and its definition dropped —
// `b := f(elem); out[i] = b` is `out[i] = f(elem)`. Only the syntax tree the shape rules look at is changed; parsing,
// free identifiers and type-checking use the text as emitted.
func elimTemps(root ast.Node) {
	var fix func(list []ast.Stmt) []ast.Stmt
	uses := func(n ast.Node, name string) (count int, bad bool) {
		var stack []ast.Node
		ast.Inspect(n, func(m ast.Node) bool {
			if m == nil {
				stack = stack[:len(stack)-1]
				return true
			}
			if id, ok := m.(*ast.Ident); ok && id.Name == name {
				par := ast.Node(nil)
				if len(stack) > 0 {
					par = stack[len(stack)-1]
				}
				switch p := par.(type) {
				case *ast.SelectorExpr:
					if p.Sel == id {
						stack = append(stack, m)
						return true // a field or method of that name
					}
				case *ast.KeyValueExpr:
					if p.Key == ast.Expr(id) {
						stack = append(stack, m)
						return true
					}
				case *ast.UnaryExpr:
					if p.Op == token.AND {
						bad = true
					}
				case *ast.AssignStmt:
					for _, l := range p.Lhs {
						if l == ast.Expr(id) {
							bad = true
						}
					}
				case *ast.IncDecStmt:
					bad = true
				}
				for _, s := range stack {
					if _, isLit := s.(*ast.FuncLit); isLit {
						bad = true
					}
				}
				count++
			}
			stack = append(stack, m)
			return true
		})
		return
	}
	replace := func(n ast.Node, name string, e ast.Expr) {
		ast.Inspect(n, func(m ast.Node) bool {
			switch p := m.(type) {
			case *ast.AssignStmt:
				for i := range p.Rhs {
					if id, ok := p.Rhs[i].(*ast.Ident); ok && id.Name == name {
						p.Rhs[i] = e
					}
				}
				for i := range p.Lhs {
					if ix, ok := p.Lhs[i].(*ast.IndexExpr); ok {
						if id, ok := ix.Index.(*ast.Ident); ok && id.Name == name {
							ix.Index = e
						}
					}
				}
			case *ast.ReturnStmt:
				for i := range p.Results {
					if id, ok := p.Results[i].(*ast.Ident); ok && id.Name == name {
						p.Results[i] = e
					}
				}
			case *ast.SendStmt:
				if id, ok := p.Value.(*ast.Ident); ok && id.Name == name {
					p.Value = e
				}
			case *ast.CallExpr:
				for i := range p.Args {
					if id, ok := p.Args[i].(*ast.Ident); ok && id.Name == name {
						p.Args[i] = e
					}
				}
			case *ast.BinaryExpr:
				if id, ok := p.X.(*ast.Ident); ok && id.Name == name {
					p.X = &ast.ParenExpr{X: e}
				}
				if id, ok := p.Y.(*ast.Ident); ok && id.Name == name {
					p.Y = &ast.ParenExpr{X: e}
				}
			}
			return true
		})
	}
	fix = func(list []ast.Stmt) []ast.Stmt {
		var out []ast.Stmt
		for i := 0; i < len(list); i++ {
			st := list[i]
			as, ok := st.(*ast.AssignStmt)
			if ok && as.Tok == token.DEFINE && len(as.Lhs) == 1 && len(as.Rhs) == 1 && i+1 < len(list) {
				if id, ok := as.Lhs[0].(*ast.Ident); ok && id.Name != "_" {
					if _, isLit := as.Rhs[0].(*ast.FuncLit); !isLit {
						next := list[i+1]
						simple := false
						switch next.(type) {
						case *ast.AssignStmt, *ast.ReturnStmt, *ast.ExprStmt, *ast.SendStmt:
							simple = true
						}
						n1, bad := uses(next, id.Name)
						later := 0
						for _, r := range list[i+2:] {
							c, _ := uses(r, id.Name)
							later += c
						}
						if simple && n1 == 1 && !bad && later == 0 {
							before, _ := uses(next, id.Name)
							replace(next, id.Name, as.Rhs[0])
							if after, _ := uses(next, id.Name); after < before {
								continue // the definition is dropped
							}
						}
					}
				}
			}
			out = append(out, st)
		}
		return out
	}
	// failure first: `if err == nil { S… return } ; F… return` is `if err != nil { F… return } ; S… return` (the form
	// the error-chain rules are stated in); only for the error variables of the emitted code (err, err0, errc, …)
	failFirst := func(list []ast.Stmt) []ast.Stmt {
		for i, st := range list {
			ifs, ok := st.(*ast.IfStmt)
			if !ok || ifs.Else != nil || ifs.Init != nil || i+1 >= len(list) {
				continue
			}
			be, ok := ifs.Cond.(*ast.BinaryExpr)
			if !ok || be.Op != token.EQL || !isNilLit(be.Y) {
				continue
			}
			id, ok := be.X.(*ast.Ident)
			if !ok || !strings.HasPrefix(id.Name, "err") {
				continue
			}
			rest := list[i+1:]
			if !stmtsTerminate(ifs.Body.List) || !stmtsTerminate(rest) {
				continue
			}
			swapped := &ast.IfStmt{If: ifs.If, Cond: &ast.BinaryExpr{X: be.X, OpPos: be.OpPos, Op: token.NEQ, Y: be.Y}, Body: &ast.BlockStmt{Lbrace: ifs.Body.Lbrace, List: append([]ast.Stmt{}, rest...), Rbrace: ifs.Body.Rbrace}}
			out := append(append([]ast.Stmt{}, list[:i]...), swapped)
			return append(out, ifs.Body.List...)
		}
		return list
	}
	ast.Inspect(root, func(n ast.Node) bool {
		switch x := n.(type) {
		case *ast.BlockStmt:
			x.List = failFirst(fix(x.List))
		case *ast.CaseClause:
			x.Body = fix(x.Body)
		case *ast.CommClause:
			x.Body = fix(x.Body)
		}
		return true
	})
}
