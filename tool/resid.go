package main

import (
	"bytes"
	"fmt"
	"go/ast"
	"go/format"
	"go/parser"
	"go/token"
	"sort"
	"strings"
)

// Resid is a parsed residual program of an accepted run.
type Resid struct {
	Run   *Run
	Fset  *token.FileSet
	File  *ast.File
	Err   error
	Funcs []*ast.FuncDecl
}

func parseResid(run *Run) *Resid {
	rs := &Resid{Run: run, Fset: token.NewFileSet()}
	f, err := parser.ParseFile(rs.Fset, run.Plugin+".residual.go", run.Text, parser.ParseComments|parser.SkipObjectResolution)
	rs.File, rs.Err = f, err
	if f != nil {
		for _, d := range f.Decls {
			if fd, ok := d.(*ast.FuncDecl); ok {
				rs.Funcs = append(rs.Funcs, fd)
			}
		}
	}
	return rs
}

// line of a residual node
func (rs *Resid) line(p token.Pos) int { return rs.Fset.Position(p).Line }

// where: generator position(s) that emitted the residual node
func (rs *Resid) where(repo *Repo, n ast.Node) string {
	return rs.Run.where(repo, rs.line(n.Pos()))
}

// hole returns the hole behind a placeholder identifier, or nil.
func (rs *Resid) hole(name string) *Hole {
	if !strings.HasPrefix(name, "__") {
		return nil
	}
	return rs.Run.Holes[name]
}

func (rs *Resid) isHole(e ast.Expr, kind string) bool {
	id, ok := e.(*ast.Ident)
	if !ok {
		return false
	}
	h := rs.hole(id.Name)
	return h != nil && (kind == "" || h.Kind == kind)
}

// text of a node from the residual source
func (rs *Resid) src(n ast.Node) string {
	var b bytes.Buffer
	format.Node(&b, rs.Fset, n)
	return b.String()
}

// excerpt returns the residual with line numbers, for reports.
func (r *Run) excerpt(maxLines int) string {
	lines := strings.Split(strings.TrimRight(r.Text, "\n"), "\n")
	var b strings.Builder
	for i, l := range lines {
		if i >= maxLines {
			fmt.Fprintf(&b, "... (%d more lines)\n", len(lines)-i)
			break
		}
		fmt.Fprintf(&b, "%3d %s\n", i+1, l)
	}
	return b.String()
}

// legend explains the placeholders of a run.
func (r *Run) legend() string {
	var ids []string
	for id := range r.Holes {
		ids = append(ids, id)
	}
	sort.Slice(ids, func(i, j int) bool {
		if len(ids[i]) != len(ids[j]) {
			return len(ids[i]) < len(ids[j])
		}
		return ids[i] < ids[j]
	})
	var b strings.Builder
	for _, id := range ids {
		h := r.Holes[id]
		fmt.Fprintf(&b, "%s = %s %s\n", id, h.Kind, h.Origin)
	}
	return b.String()
}

// shapeKey identifies an abstract path compactly and stably: the decisions that are not at their default (first) choice.
func (r *Run) shapeKey() string {
	var ss []string
	for _, d := range r.Decisions {
		if d.Choice != 0 || d.Sym == "ARGS" {
			ss = append(ss, fmt.Sprintf("%s=%d", shortSym(d.Sym), d.Choice))
		}
	}
	s := strings.Join(ss, ",")
	if len(s) > 160 {
		s = s[:160]
	}
	return r.Config + ":" + s
}

func shortSym(s string) string {
	s = strings.ReplaceAll(s, ".Underlying()", ".U")
	s = strings.ReplaceAll(s, "*types.", "")
	s = strings.ReplaceAll(s, "typs", "t")
	if len(s) > 48 {
		s = s[:48]
	}
	return s
}

// residFinding builds a Finding about a residual program.
func residFinding(repo *Repo, rs *Resid, rule, construct, msg string, nodes ...ast.Node) Finding {
	var where []string
	for _, n := range nodes {
		w := rs.where(repo, n)
		if !contains(where, w) {
			where = append(where, w)
		}
	}
	detail := "abstract path: " + rs.Run.describe() + "\nresidual:\n" + rs.Run.excerpt(60)
	return Finding{Rule: rule, Key: fmt.Sprintf("%s|%s|%s", rule, rs.Run.Plugin, construct), Where: where, Msg: msg, Detail: detail, Script: rs.Run.Script, Plugin: rs.Run.Plugin}
}

// acceptedResids parses all distinct accepted runs of a plugin.
func (c *Ctx) acceptedResids(plugin string) []*Resid {
	var out []*Resid
	for _, r := range c.R.Runs(plugin) {
		if r.Outcome == "accepted" && !r.Dup {
			out = append(out, parseResid(r))
		}
	}
	return out
}
