package main

import (
	"fmt"
	"go/ast"
	"go/token"
	"go/types"
	"os"
	"sort"
	"strings"
	"sync"
)

// Run is one abstract path through a plugin's New -> Add -> Generate.
type Run struct {
	Plugin            string
	Config            string
	Script            []int
	Decisions         []Decision
	Outcome           string // rejected | generror | accepted | panic | undecided
	Msg               string
	Pos               token.Pos
	Lines             []Line
	Text              string      // rendered residual program, starting with "package p"
	LinePos           []token.Pos // generator position per rendered line (index = line number - 1)
	Holes             map[string]*Hole
	Requests          []*Request
	Imports           map[string]int
	ImportUse         map[string]bool
	Registered        []Value
	AddArgs           []Value     // the argument types of the call as given to Add
	FormatData        []token.Pos // Printer.P calls whose format argument contains the text of a type
	UnusedTypeStrings []token.Pos // TypeString calls none of whose type holes reached the emitted text
	Generating        [][]Value
	RecCut            bool
	Dup               bool // same text as an earlier accepted run of this plugin
	NArgs             int
	Arities           []int
	DepAccepts        bool // Add rejected the types because of their shape, Generate (probed with the same types) accepts them
}

// decision lookup helpers
func (r *Run) decided(prefix string) []Decision {
	var out []Decision
	for _, d := range r.Decisions {
		if strings.HasPrefix(d.Sym, prefix) {
			out = append(out, d)
		}
	}
	return out
}

type sweepConfig struct {
	name    string
	arities []int
	shape   int
	tie     bool
	nargs   []int
	maxRuns int
}

var structural = map[string]bool{"equal": true, "compare": true, "hash": true, "deepcopy": true, "gostring": true}

func configsFor(plugin, tier string) []sweepConfig {
	budget := 6000
	if tier == "thorough" {
		budget = 60000
	}
	nargs := []int{1, 2, 3, 0}
	if structural[plugin] {
		cs := []sweepConfig{
			{name: "leaf", arities: []int{1, 0}, shape: 1, nargs: nargs, maxRuns: budget},
			{name: "pair-tied", arities: []int{2}, shape: 2, tie: true, nargs: []int{1, 2}, maxRuns: budget},
		}
		if tier == "thorough" {
			cs = append(cs, sweepConfig{name: "triple-tied", arities: []int{3}, shape: 3, tie: true, nargs: []int{1, 2}, maxRuns: budget})
			// two fields with independent decisions: cross-field interactions (separators, mixed private/public, mixed kinds)
			free := []int{2}
			if plugin == "hash" || plugin == "gostring" {
				free = []int{1}
			}
			cs = append(cs, sweepConfig{name: "pair-free", arities: []int{2}, shape: 2, nargs: free, maxRuns: 400000})
		}
		return cs
	}
	if tier == "thorough" {
		if plugin == "compose" {
			// stages x arities multiply (every adjacent pair of stages forks on type identity): deepen one dimension at a time
			return []sweepConfig{
				{name: "stages<=3,arity<=2", arities: []int{2, 1, 0}, shape: 2, nargs: []int{1, 2, 3, 0}, maxRuns: budget},
				{name: "stages=2,arity=3", arities: []int{3}, shape: 2, nargs: []int{2}, maxRuns: budget},
				{name: "stages=4,arity<=1", arities: []int{1, 0}, shape: 2, nargs: []int{4}, maxRuns: budget},
			}
		}
		return []sweepConfig{{name: "default", arities: []int{2, 1, 0, 3}, shape: 2, nargs: []int{1, 2, 3, 0, 4}, maxRuns: budget}}
	}
	return []sweepConfig{{name: "default", arities: []int{2, 1, 0}, shape: 2, nargs: nargs, maxRuns: budget}}
}

// Sweeper produces (and memoises) the abstract runs per plugin.
type Sweeper struct {
	repo  *Repo
	tier  string
	decls map[*types.Func]*VFunc
	mu    sync.Mutex
	cache map[string][]*Run
	over  map[string]string // plugin -> budget-exceeded message
}

func newSweeper(r *Repo, tier string) *Sweeper {
	s := &Sweeper{repo: r, tier: tier, decls: map[*types.Func]*VFunc{}, cache: map[string][]*Run{}, over: map[string]string{}}
	for fn, fi := range r.Decls {
		if fi.Decl.Body != nil {
			s.decls[fn] = &VFunc{Decl: fi.Decl, Pkg: fi.Pkg}
		}
	}
	return s
}

// Prefetch sweeps several plugins in parallel.
func (s *Sweeper) Prefetch(plugins ...string) {
	var wg sync.WaitGroup
	sem := make(chan struct{}, 16)
	for _, p := range plugins {
		s.mu.Lock()
		_, done := s.cache[p]
		s.mu.Unlock()
		if done {
			continue
		}
		wg.Add(1)
		go func(p string) {
			defer wg.Done()
			sem <- struct{}{}
			defer func() { <-sem }()
			runs, over := s.sweep(p)
			s.mu.Lock()
			s.cache[p] = runs
			if over != "" {
				s.over[p] = over
			}
			s.mu.Unlock()
		}(p)
	}
	wg.Wait()
}

func (s *Sweeper) Runs(plugin string) []*Run {
	s.Prefetch(plugin)
	s.mu.Lock()
	defer s.mu.Unlock()
	return s.cache[plugin]
}

func (s *Sweeper) sweep(plugin string) ([]*Run, string) {
	p := s.repo.ByName[plugin]
	if p == nil {
		return []*Run{{Plugin: plugin, Outcome: "undecided", Msg: "plugin package not loaded"}}, ""
	}
	newObj, _ := p.Types.Scope().Lookup("New").(*types.Func)
	newFn := s.decls[newObj]
	if newFn == nil {
		return []*Run{{Plugin: plugin, Outcome: "undecided", Msg: "plugin has no New function"}}, ""
	}
	var all []*Run
	seenText := map[string]bool{}
	over := ""
	for _, cfg := range configsFor(plugin, s.tier) {
		or := &Oracle{}
		n := 0
		for {
			n++
			if n > cfg.maxRuns {
				over = fmt.Sprintf("%s/%s: more than %d abstract runs", plugin, cfg.name, cfg.maxRuns)
				break
			}
			or.pos = 0
			run := s.one(plugin, newFn, cfg, or)
			run.Script = append([]int{}, or.script...)
			if run.Outcome == "accepted" {
				// a run repeats an earlier one only if the text AND what the path established about the types behind its holes
				// are the same: the same `return %#v` is right for a basic value and wrong for a map of structs
				key := run.Text + "\x00" + typeFingerprint(run)
				if seenText[key] {
					run.Dup = true
					run.Lines = nil
				}
				seenText[key] = true
			}
			all = append(all, run)
			if !or.next() {
				break
			}
		}
	}
	return all, over
}

func (s *Sweeper) one(plugin string, newFn *VFunc, cfg sweepConfig, or *Oracle) (run *Run) {
	p := s.repo.ByName[plugin]
	in := &Interp{repo: s.repo, plugin: plugin, decls: s.decls, or: or, memo: map[string]int{}, tie: cfg.tie, shape: cfg.shape,
		arities: cfg.arities, preds: map[string]Value{}, stack: map[*ast.FuncDecl]int{}, imports: map[string]int{}, importUse: map[string]bool{},
		holes: map[string]*Hole{}}
	run = &Run{Plugin: plugin, Config: cfg.name, Arities: cfg.arities}
	finish := func() {
		run.Decisions = in.decisions
		run.Requests = in.requests
		run.Imports = in.imports
		run.ImportUse = in.importUse
		run.Registered = in.registered
		run.Generating = in.generating
		run.RecCut = in.recCut
	}
	defer func() {
		if e := recover(); e != nil {
			finish()
			if a, ok := e.(abort); ok {
				if a.kind == "panic" {
					run.Outcome, run.Msg, run.Pos = "panic", a.msg, a.pos
				} else if a.kind == "infeasible" {
					run.Outcome, run.Msg = "infeasible", a.msg
				} else {
					run.Outcome, run.Msg = "undecided", a.msg
				}
				return
			}
			run.Outcome, run.Msg = "undecided", fmt.Sprintf("interpreter panic: %v", e)
			if os.Getenv("GDV_DEBUG") != "" {
				run.Msg += "\n" + stack()
			}
		}
	}()
	g := in.callFunc(newFn, []Value{&VSpecial{Kind: "typesmap"}, &VSpecial{Kind: "printer"}, &VSpecial{Kind: "deps"}}, token.NoPos)
	gp, ok := g.(*VPtr)
	if !ok {
		in.fail("New did not return a pointer to a generator struct")
	}
	var gen, add *VFunc
	for fn, d := range s.decls {
		if d.Pkg == p && fn.Type().(*types.Signature).Recv() != nil {
			if fn.Name() == "Generate" {
				gen = &VFunc{Decl: d.Decl, Pkg: p, Recv: gp}
			}
			if fn.Name() == "Add" {
				add = &VFunc{Decl: d.Decl, Pkg: p, Recv: gp}
			}
		}
	}
	if gen == nil || add == nil {
		in.fail("plugin lacks Add or Generate")
	}
	nargs := cfg.nargs[in.decide("ARGS", len(cfg.nargs))]
	run.NArgs = nargs
	typs := in.opaqueList("typs", nargs, "")
	run.AddArgs = typs.Elems
	ares := in.callFunc(add, []Value{hole("NAME", "callname"), typs}, token.NoPos)
	at, ok := ares.(VTuple)
	if !ok || len(at.Vals) != 2 {
		in.fail("Add returned %T", ares)
	}
	if _, isErr := at.Vals[1].(VErr); isErr {
		finish()
		run.Outcome = "rejected"
		// Other plugins request functions through GetFuncName, which never passes Add: what Add turns down because of the
		// shape of a type, Generate must turn down as well. Probe Generate with the very types Add rejected.
		shape := false
		for _, d := range in.decisions {
			if d.Sym == "ARGS" {
				continue
			}
			if strings.Contains(d.Sym, "types.Identical(") || strings.Contains(d.Sym, "AssignableTo(") || strings.Contains(d.Sym, "eq(") {
				shape = false // a relation between the arguments of one call: requests through GetFuncName are made per type
				break
			}
			shape = true
		}
		if shape {
			func() {
				saved := in.or
				in.or = &Oracle{} // the probe follows the first outcome of every new decision and adds nothing to the exploration
				defer func() { in.or = saved; recover() }()
				in.lines = nil
				in.indent = 0
				res := in.callFunc(gen, []Value{typs}, token.NoPos)
				if _, isErr := res.(VErr); !isErr && len(in.lines) > 0 && in.infeasiblePreds() == "" {
					run.DepAccepts = true
					run.Decisions = in.decisions
				}
			}()
		}
		return
	}
	if in.registered == nil {
		in.fail("Add accepted the call without registering it through SetFuncName")
	}
	in.lines = nil
	in.indent = 0
	res := in.callFunc(gen, []Value{&VList{in.registered}}, token.NoPos)
	finish()
	if why := in.infeasiblePreds(); why != "" {
		run.Outcome, run.Msg = "infeasible", why
		return
	}
	if _, isErr := res.(VErr); isErr {
		run.Outcome = "generror"
		return
	}
	run.Outcome = "accepted"
	run.FormatData = in.formatData
	run.Lines = in.lines
	var b strings.Builder
	b.WriteString("package p\n")
	run.LinePos = append(run.LinePos, token.NoPos)
	for _, l := range in.lines {
		text := in.renderStr(l.Str)
		for _, sub := range strings.Split(text, "\n") {
			b.WriteString(strings.Repeat("\t", l.Indent))
			b.WriteString(sub)
			b.WriteString("\n")
			run.LinePos = append(run.LinePos, l.Pos)
		}
	}
	run.Text = b.String()
	run.Holes = map[string]*Hole{}
	for _, h := range in.holeList {
		run.Holes[h.ID] = h
	}
	for _, tc := range in.typeStringCalls {
		used, has := false, false
		for _, part := range tc.str.Parts {
			if part.Hole != nil && part.Hole.Kind == "TYPE" {
				has = true
				id := in.canonHole(part.Hole).ID
				if strings.Contains(run.Text, id) {
					used = true
				}
				// the same type may have reached the text through another hole (its mangled twin, a bypass rendering is not one)
				for _, h := range in.holeList {
					if h.Kind != "TYPE" || strings.HasPrefix(h.Origin, "bypass:") || !strings.Contains(run.Text, h.ID) {
						continue
					}
					if h.Val == part.Hole.Val {
						used = true
					}
					if ho, ok := h.Val.(*VOpaque); ok && ho != nil && ho.attrs["#mangledOf"] == part.Hole.Val {
						used = true
					}
				}
				// the text of a struct type literal spells its field types: they may have reached the text one by one
				if o, ok := part.Hole.Val.(*VOpaque); ok && !used && o != nil && o.Kind == "*types.Struct" && !o.built {
					if el, ok := o.attrs["#elems"].(*VList); ok {
						all := true
						for _, e := range el.Elems {
							eo, _ := e.(*VOpaque)
							var ft Value
							if eo != nil {
								ft = eo.attrs["Type"]
							}
							found := false
							for _, h := range in.holeList {
								if h.Kind == "TYPE" && ft != nil && h.Val == ft && !strings.HasPrefix(h.Origin, "bypass:") && strings.Contains(run.Text, h.ID) {
									found = true
								}
							}
							if !found {
								all = false
							}
						}
						if all {
							used = true
						}
					}
				}
			}
		}
		if has && !used {
			run.UnusedTypeStrings = append(run.UnusedTypeStrings, tc.pos)
		}
	}
	if in.indent != 0 {
		run.Msg = fmt.Sprintf("indentation is %d at the end of Generate", in.indent)
	}
	return
}

// describe renders the decisions of a run compactly for reports.
func (r *Run) describe() string {
	var ss []string
	for _, d := range r.Decisions {
		ss = append(ss, fmt.Sprintf("%s=%d/%d", d.Sym, d.Choice, d.N))
	}
	return strings.Join(ss, "; ")
}

// where maps a line number of the rendered residual to the generator position that emitted it.
func (r *Run) where(repo *Repo, line int) string {
	if line-1 >= 0 && line-1 < len(r.LinePos) && r.LinePos[line-1].IsValid() {
		return repo.pos(r.LinePos[line-1])
	}
	return r.Plugin + ":?"
}

func cmdResiduals(args []string) {
	if len(args) == 0 {
		fmt.Fprintln(os.Stderr, "usage: gdv residuals <plugin> [quick|thorough] [-v]")
		os.Exit(2)
	}
	tier := "quick"
	verbose := false
	for _, a := range args[1:] {
		if a == "-v" {
			verbose = true
		} else {
			tier = a
		}
	}
	repo, err := loadRepo()
	if err != nil {
		fmt.Fprintln(os.Stderr, err)
		os.Exit(2)
	}
	s := newSweeper(repo, tier)
	plugins := []string{args[0]}
	if args[0] == "ALL" {
		plugins = repo.Plugins
	}
	s.Prefetch(plugins...)
	for _, p := range plugins {
		runs := s.Runs(p)
		count := map[string]int{}
		perCfg := map[string]int{}
		distinct := 0
		msgs := map[string]int{}
		for _, r := range runs {
			count[r.Outcome]++
			perCfg[r.Config]++
			if r.Outcome == "accepted" && !r.Dup {
				distinct++
				if verbose {
					fmt.Printf("---- %s/%s script=%v\n     %s\n%s\n", r.Plugin, r.Config, r.Script, r.describe(), r.Text)
				}
			}
			if r.Outcome == "undecided" || r.Outcome == "panic" {
				if verbose {
					fmt.Printf("---- %s %s/%s script=%v\n     %s\n", r.Outcome, r.Plugin, r.Config, r.Script, r.describe())
				}
				msgs[r.Outcome+": "+r.Msg+" @"+repo.pos(r.Pos)]++
			}
		}
		var ks []string
		for k := range msgs {
			ks = append(ks, k)
		}
		sort.Strings(ks)
		for _, k := range ks {
			fmt.Printf("  [%s] %s (x%d)\n", p, k, msgs[k])
		}
		fmt.Printf("## %-10s runs=%d accepted=%d distinct=%d rejected=%d generror=%d panic=%d undecided=%d %s\n", p, len(runs), count["accepted"], distinct,
			count["rejected"], count["generror"], count["panic"], count["undecided"], s.over[p])
		fmt.Printf("   per config: %v\n", perCfg)
	}
}

// typeFingerprint: the kinds (to depth 3) of the types behind a run's TYPE holes and the answers its predicates got.
func typeFingerprint(run *Run) string {
	var ids []string
	for id, h := range run.Holes {
		if h.Kind == "TYPE" {
			ids = append(ids, id)
		}
	}
	sort.Strings(ids)
	var kind func(v Value, depth int) string
	kind = func(v Value, depth int) string {
		o, ok := v.(*VOpaque)
		if !ok || o == nil {
			return "-"
		}
		k := kindOfVal(o)
		if depth >= 3 {
			return k
		}
		u := underlyingVal(o)
		out := k
		if u != nil {
			for _, a := range []string{"Elem", "Key"} {
				if c, ok := u.attrs[a]; ok {
					out += "[" + a + ":" + kind(c, depth+1) + "]"
				}
			}
		}
		return out
	}
	var b strings.Builder
	for _, id := range ids {
		b.WriteString(id + "=" + kind(run.Holes[id].Val, 0) + ";")
	}
	for _, d := range run.Decisions {
		if strings.HasPrefix(d.Sym, "B:pred:") {
			b.WriteString(fmt.Sprintf("%s=%d;", d.Sym, d.Choice))
		}
	}
	return b.String()
}
