package main

import (
	"fmt"
	"go/ast"
	"go/token"
	"regexp"
	"sort"
	"strings"
)

// Two-sided residuals (equal, compare, deepcopy, contains…): operands are attributed to a side by the root parameter
// they are derived from; locals are expanded to their definitions so that names do not matter.

type sided struct {
	rs    *Resid
	fn    *ast.FuncDecl
	A, B  string // root parameter names (first and second operand of the derived function)
	body  *ast.BlockStmt
	defs  Defs
	roots map[string]bool
	ptyp  map[string]ast.Expr // parameter name -> type expression
}

// newSided finds the two root parameters: either the two parameters of the function, or (curried form) the parameter of
// the function and the parameter of the function literal it returns.
func newSided(rs *Resid, fn *ast.FuncDecl) *sided {
	s := &sided{rs: rs, fn: fn, ptyp: map[string]ast.Expr{}}
	var names []string
	for _, f := range fn.Type.Params.List {
		for _, n := range f.Names {
			names = append(names, n.Name)
			s.ptyp[n.Name] = f.Type
		}
	}
	s.body = fn.Body
	if len(names) == 1 && len(fn.Body.List) == 1 {
		if ret, ok := fn.Body.List[0].(*ast.ReturnStmt); ok && len(ret.Results) == 1 {
			if lit, ok := ret.Results[0].(*ast.FuncLit); ok {
				for _, f := range lit.Type.Params.List {
					for _, n := range f.Names {
						names = append(names, n.Name)
						s.ptyp[n.Name] = f.Type
					}
				}
				s.body = lit.Body
			}
		}
	}
	if len(names) < 1 {
		return nil
	}
	s.A = names[0]
	s.roots = map[string]bool{s.A: true}
	if len(names) >= 2 {
		s.B = names[1]
		s.roots[s.B] = true
	} else {
		s.body = fn.Body
	}
	s.defs = localDefs(s.body)
	return s
}

func (s *sided) exp(e ast.Expr) ast.Expr { return expand(e, s.defs, 0) }

// side returns "A", "B", "" (no root) or "AB" (mixed).
func (s *sided) side(e ast.Expr) string {
	r := rootsOf(s.exp(e), s.roots)
	switch {
	case r[s.A] && r[s.B]:
		return "AB"
	case r[s.A]:
		return "A"
	case r[s.B]:
		return "B"
	}
	return ""
}

func (s *sided) norm(e ast.Expr) string { return normSide(s.exp(e), s.roots) }

// stripAddr removes one leading address-of / dereference adaptor pair difference: &x vs x.
func stripAddr(n string) string {
	for strings.HasPrefix(n, "&(") && strings.HasSuffix(n, ")") {
		n = n[2 : len(n)-1]
	}
	return n
}

var cmpOps = map[token.Token]bool{token.EQL: true, token.NEQ: true, token.LSS: true, token.LEQ: true, token.GTR: true, token.GEQ: true}

type sideIssue struct {
	node  ast.Node
	msg   string
	kind  string
	shape string
}

// mirrorIssues checks that every comparison and every call that involves both sides pairs mirror-image operands,
// first-side operand first when ordered is set.
func (s *sided) mirrorIssues(ordered bool) []sideIssue {
	var out []sideIssue
	ast.Inspect(s.body, func(n ast.Node) bool {
		switch x := n.(type) {
		case *ast.BinaryExpr:
			if !cmpOps[x.Op] || isNilLit(x.X) || isNilLit(x.Y) {
				return true
			}
			sx, sy := s.side(x.X), s.side(x.Y)
			if sx == "" || sy == "" {
				return true // bound / constant comparison of one side
			}
			if sx == "AB" || sy == "AB" {
				// a nested two-sided expression (e.g. F(a,b) < 0) is judged at the nested node
				return true
			}
			if sx == sy {
				out = append(out, sideIssue{x, fmt.Sprintf("compares two operands of the same side (%s with %s)", s.rs.src(x.X), s.rs.src(x.Y)), "same-side", ""})
				return true
			}
			if s.norm(x.X) != s.norm(x.Y) {
				out = append(out, sideIssue{x, fmt.Sprintf("compares different components of the two values (%s with %s)", s.rs.src(x.X), s.rs.src(x.Y)), "mismatch", ""})
				return true
			}
			// which operand of a comparison is written first says nothing by itself (b > a is a < b): what a comparison decides
			// is judged by the ordering tables (R8); only == / != written B-first while everything else is A-first is left alone too
			if false && ordered && sx != "A" {
				out = append(out, sideIssue{x, fmt.Sprintf("operands are in reversed order (%s %s %s)", s.rs.src(x.X), x.Op, s.rs.src(x.Y)), "reversed", ""})
			}
		case *ast.CallExpr:
			var ops []ast.Expr
			if sel, ok := x.Fun.(*ast.SelectorExpr); ok {
				if sd := s.side(sel.X); sd != "" {
					ops = append(ops, sel.X)
				}
			}
			for _, a := range x.Args {
				if sd := s.side(a); sd != "" {
					ops = append(ops, a)
				}
			}
			if len(ops) < 2 {
				return true
			}
			// only judge calls whose side operands are each single-sided
			for _, o := range ops {
				if s.side(o) == "AB" {
					return true
				}
			}
			if len(ops) != 2 {
				out = append(out, sideIssue{x, fmt.Sprintf("call %s takes %d operands derived from the compared values (expected one of each side)", s.rs.src(x), len(ops)), "arity", ""})
				return true
			}
			s0, s1 := s.side(ops[0]), s.side(ops[1])
			if s0 == s1 {
				out = append(out, sideIssue{x, fmt.Sprintf("call %s passes two operands of the same side", s.rs.src(x)), "same-side", ""})
				return true
			}
			if stripAddr(s.norm(ops[0])) != stripAddr(s.norm(ops[1])) {
				out = append(out, sideIssue{x, fmt.Sprintf("call %s pairs different components of the two values", s.rs.src(x)), "mismatch", ""})
				return true
			}
			if ordered && s0 != "A" {
				out = append(out, sideIssue{x, fmt.Sprintf("call %s passes the operands in reversed order", s.rs.src(x)), "reversed", ""})
			}
		}
		return true
	})
	return out
}

// nilTestIssues: within each condition / returned boolean expression, nil tests of one side are matched by the same test on
// the mirror operand of the other side.
func (s *sided) nilTestIssues() []sideIssue {
	var out []sideIssue
	// decided: normalised operands whose nil-ness an earlier statement of the same block settled for one side, by a nil test
	// whose branch leaves (if a == nil { return b == nil }; if b == nil { return false }: the second test has its
	// counterpart in the first statement)
	exempt := map[ast.Node]bool{}
	nilTestOf := func(e ast.Expr) (side, norm string, ok bool) {
		be, isB := unparen(e).(*ast.BinaryExpr)
		if !isB || (be.Op != token.EQL && be.Op != token.NEQ) {
			return "", "", false
		}
		var o ast.Expr
		if isNilLit(be.Y) {
			o = be.X
		} else if isNilLit(be.X) {
			o = be.Y
		} else {
			return "", "", false
		}
		return s.side(o), s.norm(o), true
	}
	ast.Inspect(s.body, func(n ast.Node) bool {
		blk, ok := n.(*ast.BlockStmt)
		if !ok {
			return true
		}
		settled := map[string]bool{} // side|norm
		for _, st := range blk.List {
			ifs, ok := st.(*ast.IfStmt)
			if !ok || ifs.Else != nil || !stmtsTerminate(ifs.Body.List) {
				continue
			}
			sd, nm, isNil := nilTestOf(ifs.Cond)
			if !isNil || (sd != "A" && sd != "B") {
				continue
			}
			other := map[string]string{"A": "B", "B": "A"}[sd]
			// (a) the branch answers with the mirror test: if a == nil { return b == nil }
			if len(ifs.Body.List) == 1 {
				if ret, ok := ifs.Body.List[0].(*ast.ReturnStmt); ok && len(ret.Results) == 1 {
					if sd2, nm2, ok := nilTestOf(ret.Results[0]); ok && sd2 == other && nm2 == nm {
						exempt[unparen(ifs.Cond)] = true
						exempt[unparen(ret.Results[0])] = true
					}
				}
			}
			// (b) the mirror operand was settled by an earlier statement of this block
			if settled[other+"|"+nm] {
				exempt[unparen(ifs.Cond)] = true
			}
			settled[sd+"|"+nm] = true
		}
		return true
	})
	check := func(top ast.Expr) {
		if exempt[unparen(top)] {
			return
		}
		count := map[string]int{} // key: op|norm -> A count - B count
		nodes := map[string]ast.Node{}
		ast.Inspect(top, func(n ast.Node) bool {
			if _, ok := n.(*ast.FuncLit); ok {
				return false
			}
			be, ok := n.(*ast.BinaryExpr)
			if !ok || (be.Op != token.EQL && be.Op != token.NEQ) {
				return true
			}
			var o ast.Expr
			if isNilLit(be.Y) {
				o = be.X
			} else if isNilLit(be.X) {
				o = be.Y
			} else {
				return true
			}
			sd := s.side(o)
			k := be.Op.String() + "|" + s.norm(o)
			nodes[k] = be
			switch sd {
			case "A":
				count[k]++
			case "B":
				count[k]--
			}
			return true
		})
		var ks []string
		for k := range count {
			ks = append(ks, k)
		}
		sort.Strings(ks)
		for _, k := range ks {
			if count[k] != 0 {
				out = append(out, sideIssue{nodes[k], fmt.Sprintf("nil test `%s` of one value has no counterpart for the other value in the same condition", s.rs.src(nodes[k])), "nil-unpaired", ""})
			}
		}
	}
	ast.Inspect(s.body, func(n ast.Node) bool {
		switch x := n.(type) {
		case *ast.IfStmt:
			check(x.Cond)
		case *ast.ReturnStmt:
			for _, r := range x.Results {
				if _, isLit := r.(*ast.FuncLit); !isLit {
					check(r)
				}
			}
		case *ast.ForStmt:
			if x.Cond != nil {
				check(x.Cond)
			}
		}
		return true
	})
	return out
}

var nameHoleRe = regexp.MustCompile(`__N\d+`)

// fieldCoverage: for every struct whose fields are enumerated on this run (an N: decision) and of which at least one field
// name appears in the residual, every field name must appear on each of the wanted sides.
func (s *sided) fieldCoverage(sides string) []sideIssue {
	var out []sideIssue
	seen := map[string]map[string]bool{} // hole id -> sides
	ast.Inspect(s.body, func(n ast.Node) bool {
		e, ok := n.(ast.Expr)
		if !ok {
			return true
		}
		sd := s.side(e)
		if sd != "A" && sd != "B" {
			return true
		}
		for _, id := range nameHoleRe.FindAllString(canon(s.exp(e)), -1) {
			if seen[id] == nil {
				seen[id] = map[string]bool{}
			}
			seen[id][sd] = true
		}
		return true
	})
	// group field holes by struct origin
	type fieldHole struct {
		id  string
		idx string
	}
	byStruct := map[string][]fieldHole{}
	fieldRe := regexp.MustCompile(`^(.*)\[(\d+)\]\.Name\(\)$`)
	for id, h := range s.rs.Run.Holes {
		if h.Kind != "NAME" {
			continue
		}
		if m := fieldRe.FindStringSubmatch(h.Origin); m != nil {
			byStruct[m[1]] = append(byStruct[m[1]], fieldHole{id, m[2]})
		}
	}
	for _, d := range s.rs.Run.Decisions {
		if !strings.HasPrefix(d.Sym, "N:") {
			continue
		}
		org := strings.TrimPrefix(d.Sym, "N:")
		holes := byStruct[org]
		if strings.Contains(org, "[*]") {
			// tied run: match any index
			for o, hs := range byStruct {
				if tieRe.ReplaceAllString(o, "[*]") == org {
					holes = append(holes, hs...)
				}
			}
		}
		any := false
		for _, fh := range holes {
			if len(seen[fh.id]) > 0 {
				any = true
			}
		}
		// the struct counts as expanded field by field when the generator enumerated it through derive.Fields (the
		// per-field emitter's front end), or when at least one of its field names reached the residual
		if !any && d.Fn != "derive.Fields" {
			continue
		}
		n := 0
		if d.Choice < len(s.rs.Run.Arities) {
			n = s.rs.Run.Arities[d.Choice]
		}
		blank := blankFirstField(s.rs.Run)
		for i := 0; i < n; i++ {
			idx := fmt.Sprint(i)
			if i == 0 && (blank[org] || blank[tieRe.ReplaceAllString(org, "[*]")]) {
				continue // a blank field cannot be referred to; == ignores it too
			}
			var fh *fieldHole
			for k := range holes {
				if holes[k].idx == idx {
					fh = &holes[k]
				}
			}
			for _, want := range strings.Split(sides, "") {
				if fh == nil || !seen[fh.id][want] {
					id := "never named"
					if fh != nil {
						id = fh.id
					}
					out = append(out, sideIssue{s.fn, fmt.Sprintf("field #%s (%s) of the struct %s does not take part on side %s", idx, id, shortSym(org), map[string]string{"A": s.A, "B": s.B}[want]), "field-missing", ""})
				}
			}
		}
	}
	return out
}

// blankFirstField: the structs (by origin, raw and tied form) whose first field this run chose to be blank (`_ T`).
func blankFirstField(r *Run) map[string]bool {
	out := map[string]bool{}
	for _, d := range r.Decisions {
		if strings.HasPrefix(d.Sym, "NMF:") && d.Choice == 1 {
			o := strings.TrimSuffix(strings.TrimPrefix(d.Sym, "NMF:"), ":named|blank")
			o = strings.TrimSuffix(strings.TrimSuffix(o, "[0]"), "[*]")
			out[o] = true
			out[tieRe.ReplaceAllString(o, "[*]")] = true
		}
	}
	return out
}
