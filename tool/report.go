package main

import (
	"bufio"
	"encoding/json"
	"fmt"
	"os"
	"path/filepath"
	"sort"
	"strings"
	"sync"
	"time"
)

// Finding is one violated (or undecided) obligation.
type Finding struct {
	Property string   `json:"property"`
	Rule     string   `json:"rule"`
	Key      string   `json:"key"`  // stable identity: rule|construct|shape — never a line number
	Kind     string   `json:"kind"` // "violation" | "undecided"
	Where    []string `json:"where"`
	Msg      string   `json:"msg"`
	Detail   string   `json:"detail,omitempty"`
	Script   []int    `json:"script,omitempty"`
	Plugin   string   `json:"plugin,omitempty"`
}

// Known is one record of known_findings.jsonl.
type Known struct {
	Property string `json:"property"`
	Rule     string `json:"rule"`
	Key      string `json:"key"`
	What     string `json:"what"`
	Status   string `json:"status"` // "known" | "fixed"
	Commit   string `json:"commit,omitempty"`
	Input    string `json:"input,omitempty"`
}

// Ob is one obligation examined (for evidence).
type Ob struct {
	Rule  string `json:"rule"`
	What  string `json:"what"`
	Where string `json:"where,omitempty"`
	OK    bool   `json:"ok"`
}

// Report collects what a check did.
type Report struct {
	mu          sync.Mutex
	Property    string
	Tier        string
	Findings    []Finding
	Obligations int
	Discharged  int
	Evaluations int
	Distinct    map[string]bool
	Samples     []interface{}
	RuleStats   map[string]*RuleStat
	Notes       []string
	Bounds      map[string]interface{}
	Analysed    map[string]int
	start       time.Time
}

type RuleStat struct {
	Obligations int `json:"obligations"`
	Discharged  int `json:"discharged"`
	Floor       int `json:"floor,omitempty"`
}

func newReport(prop, tier string) *Report {
	return &Report{Property: prop, Tier: tier, Distinct: map[string]bool{}, RuleStats: map[string]*RuleStat{},
		Bounds: map[string]interface{}{}, Analysed: map[string]int{}, start: time.Now()}
}

func (r *Report) stat(rule string) *RuleStat {
	s := r.RuleStats[rule]
	if s == nil {
		s = &RuleStat{}
		r.RuleStats[rule] = s
	}
	return s
}

// ob records an obligation; ok=false must be accompanied by a Finding via fail().
func (r *Report) ob(rule string, ok bool) {
	r.mu.Lock()
	defer r.mu.Unlock()
	r.Obligations++
	r.Evaluations++
	s := r.stat(rule)
	s.Obligations++
	if ok {
		r.Discharged++
		s.Discharged++
	}
}

func (r *Report) pass(rule string) { r.ob(rule, true) }

func (r *Report) fail(f Finding) {
	r.ob(f.Rule, false)
	r.mu.Lock()
	defer r.mu.Unlock()
	f.Property = r.Property
	if f.Kind == "" {
		f.Kind = "violation"
	}
	// de-duplicate by key
	for i, g := range r.Findings {
		if g.Key == f.Key {
			if len(r.Findings[i].Where) < 8 {
				for _, w := range f.Where {
					if !contains(r.Findings[i].Where, w) {
						r.Findings[i].Where = append(r.Findings[i].Where, w)
					}
				}
			}
			return
		}
	}
	r.Findings = append(r.Findings, f)
}

func contains(ss []string, s string) bool {
	for _, x := range ss {
		if x == s {
			return true
		}
	}
	return false
}

func (r *Report) sample(s interface{}) {
	r.mu.Lock()
	defer r.mu.Unlock()
	if b, err := json.Marshal(s); err == nil {
		r.Distinct[string(b)] = true
	}
	if len(r.Samples) < 24 {
		r.Samples = append(r.Samples, s)
	}
}

func (r *Report) note(format string, a ...interface{}) {
	r.mu.Lock()
	defer r.mu.Unlock()
	r.Notes = append(r.Notes, fmt.Sprintf(format, a...))
}

func (r *Report) distinct(key string) {
	r.mu.Lock()
	defer r.mu.Unlock()
	r.Distinct[key] = true
}

func (r *Report) analysed(what string, n int) {
	r.mu.Lock()
	defer r.mu.Unlock()
	r.Analysed[what] += n
}

// floor fails the check when a rule examined fewer instances than were confirmed by hand on the pinned tree.
func (r *Report) floor(rule string, min int) {
	s := r.stat(rule)
	s.Floor = min
	if s.Obligations < min {
		r.fail(Finding{Rule: rule, Key: rule + "|vacuity", Kind: "undecided",
			Msg: fmt.Sprintf("rule %s examined %d instances, fewer than the %d confirmed by hand: the rule no longer finds the constructs it is about", rule, s.Obligations, min)})
	}
}

func verifDir() string {
	if d := os.Getenv("GDV_VERIF"); d != "" {
		return d
	}
	exe, err := os.Executable()
	if err == nil {
		d := filepath.Dir(filepath.Dir(exe))
		if _, err := os.Stat(filepath.Join(d, "properties.jsonl")); err == nil {
			return d
		}
	}
	return "/verif"
}

func loadKnown() []Known {
	f, err := os.Open(filepath.Join(verifDir(), "known_findings.jsonl"))
	if err != nil {
		return nil
	}
	defer f.Close()
	var out []Known
	sc := bufio.NewScanner(f)
	sc.Buffer(make([]byte, 1<<20), 1<<20)
	for sc.Scan() {
		line := strings.TrimSpace(sc.Text())
		if line == "" || strings.HasPrefix(line, "#") {
			continue
		}
		var k Known
		if err := json.Unmarshal([]byte(line), &k); err != nil {
			fmt.Fprintf(os.Stderr, "known_findings.jsonl: bad line: %v\n", err)
			os.Exit(2)
		}
		out = append(out, k)
	}
	return out
}

// sameFinding: a listed finding is identified by rule, plugin and what fails (the normalised failing construct). Keys of
// residual rules also name the generator function that printed the offending text (rule|plugin|pkg.(*gen).fn|what): that
// component is a hint for the reader, not part of the identity — splitting or renaming a generator function does not make
// a known defect a new one.
func sameFinding(known, got string) bool {
	if known == got {
		return true
	}
	a, b := strings.Split(known, "|"), strings.Split(got, "|")
	if len(a) != len(b) || len(a) < 4 {
		return false
	}
	isFn := func(s string) bool { return strings.Contains(s, ".(") || strings.Contains(s, ".gen") }
	if !isFn(a[2]) || !isFn(b[2]) {
		return false
	}
	for i := range a {
		if i != 2 && a[i] != b[i] {
			return false
		}
	}
	return true
}

// finish writes evidence, prints KNOWN-FINDING / VIOLATION lines and returns the exit code.
func (r *Report) finish(explanation string, assumptions []string, technique string) int {
	known := loadKnown()
	sort.Slice(r.Findings, func(i, j int) bool { return r.Findings[i].Key < r.Findings[j].Key })
	var viol []Finding
	var knownHit []Known
	for _, f := range r.Findings {
		matched := false
		for _, k := range known {
			if k.Status == "known" && k.Property == f.Property && sameFinding(k.Key, f.Key) {
				matched = true
				// one KNOWN-FINDING line per listed finding, however many generator functions print the offending text
				dup := false
				for _, h := range knownHit {
					if h.Key == k.Key {
						dup = true
					}
				}
				if !dup {
					knownHit = append(knownHit, k)
				}
				break
			}
		}
		if !matched {
			viol = append(viol, f)
		}
	}
	vd := verifDir()
	evDir := filepath.Join(vd, "evidence")
	os.MkdirAll(filepath.Join(evDir, "replay"), 0o755)
	// remove stale replay files of this property
	old, _ := filepath.Glob(filepath.Join(evDir, "replay", r.Property+"-*.json"))
	for _, o := range old {
		os.Remove(o)
	}
	for _, k := range knownHit {
		fmt.Printf("KNOWN-FINDING: property=%s %s [%s]\n", k.Property, k.What, k.Key)
	}
	var replayPaths []string
	for i, f := range viol {
		p := filepath.Join(evDir, "replay", fmt.Sprintf("%s-%d.json", r.Property, i+1))
		b, _ := json.MarshalIndent(f, "", " ")
		os.WriteFile(p, b, 0o644)
		replayPaths = append(replayPaths, p)
		fmt.Printf("%s: [%s] %s\n", strings.ToUpper(f.Kind), f.Rule, f.Msg)
		for _, w := range f.Where {
			fmt.Printf("    at %s\n", w)
		}
		if f.Detail != "" {
			for _, l := range strings.Split(strings.TrimRight(f.Detail, "\n"), "\n") {
				fmt.Printf("    | %s\n", l)
			}
		}
		fmt.Printf("    key: %s\n", f.Key)
		fmt.Printf("VIOLATION property=%s replay=%s\n", r.Property, p)
	}
	rules := map[string]*RuleStat{}
	for k, v := range r.RuleStats {
		rules[k] = v
	}
	samples := r.Samples
	if len(samples) == 0 {
		samples = []interface{}{"(no obligations sampled)"}
	}
	khs := []string{}
	for _, k := range knownHit {
		khs = append(khs, k.Key)
	}
	cov := map[string]interface{}{
		"explanation":         explanation,
		"obligations":         r.Obligations,
		"discharged":          r.Discharged,
		"evaluations":         r.Evaluations,
		"distinct_nontrivial": len(r.Distinct),
		"rule":                "evaluations = abstract generator runs (decision scripts) plus source constructs examined; distinct_nontrivial = distinct accepted residual programs / distinct source constructs the rules were applied to",
		"samples":             samples,
		"rules":               rules,
		"analysed":            r.Analysed,
		"bounds":              r.Bounds,
		"known_findings":      khs,
		"notes":               r.Notes,
		"technique":           technique,
		"exhaustive":          false,
	}
	seed := 0
	fmt.Sscan(os.Getenv("VERIF_SEED"), &seed)
	ev := map[string]interface{}{
		"property_id": r.Property,
		"tier":        r.Tier,
		"seed":        seed,
		"level":       "other",
		"coverage":    cov,
		"assumptions": assumptions,
		"wall_s":      time.Since(r.start).Seconds(),
		"violations":  len(viol),
	}
	b, _ := json.MarshalIndent(ev, "", " ")
	if err := os.WriteFile(filepath.Join(evDir, r.Property+".json"), append(b, '\n'), 0o644); err != nil {
		fmt.Fprintf(os.Stderr, "cannot write evidence: %v\n", err)
		return 2
	}
	fmt.Printf("%s %s: obligations=%d discharged=%d abstract-runs=%d distinct=%d known=%d violations=%d wall=%.1fs\n",
		r.Property, r.Tier, r.Obligations, r.Discharged, r.Evaluations, len(r.Distinct), len(knownHit), len(viol), time.Since(r.start).Seconds())
	if len(viol) > 0 {
		return 1
	}
	return 0
}
