package main

import (
	"fmt"
	"go/ast"
	"go/token"
	"strings"
)

// C15 — curry, uncurry, flip, apply, tuple: argument plumbing.

func fieldNames(fl *ast.FieldList) []string {
	var out []string
	if fl == nil {
		return nil
	}
	for _, f := range fl.List {
		if len(f.Names) == 0 {
			out = append(out, "")
		}
		for _, n := range f.Names {
			out = append(out, n.Name)
		}
	}
	return out
}

// closureChain returns the nested function literals reached through `return func…` from the function body.
func closureChain(fn *ast.FuncDecl) ([]*ast.FuncLit, *ast.BlockStmt) {
	var chain []*ast.FuncLit
	body := fn.Body
	for {
		// v := func(...) {...}; return v  is  return func(...) {...}  (v comes into scope only after the literal)
		if len(body.List) == 2 {
			as, ok1 := body.List[0].(*ast.AssignStmt)
			ret, ok2 := body.List[1].(*ast.ReturnStmt)
			if ok1 && ok2 && as.Tok == token.DEFINE && len(as.Lhs) == 1 && len(as.Rhs) == 1 && len(ret.Results) == 1 {
				if lit, ok := as.Rhs[0].(*ast.FuncLit); ok && canon(as.Lhs[0]) == canon(ret.Results[0]) && canon(as.Lhs[0]) != "_" {
					chain = append(chain, lit)
					body = lit.Body
					continue
				}
			}
		}
		if len(body.List) != 1 {
			return chain, body
		}
		ret, ok := body.List[0].(*ast.ReturnStmt)
		if !ok || len(ret.Results) != 1 {
			return chain, body
		}
		lit, ok := ret.Results[0].(*ast.FuncLit)
		if !ok {
			return chain, body
		}
		chain = append(chain, lit)
		body = lit.Body
	}
}

func identNames(es []ast.Expr) ([]string, bool) {
	var out []string
	for _, e := range es {
		id, ok := e.(*ast.Ident)
		if !ok {
			return nil, false
		}
		out = append(out, id.Name)
	}
	return out, true
}

func eqStrings(a, b []string) bool {
	if len(a) != len(b) {
		return false
	}
	for i := range a {
		if a[i] != b[i] {
			return false
		}
	}
	return true
}

func plumbIssues(rs *Resid, plugin string) []sideIssue {
	fn := rs.Funcs[0]
	var out []sideIssue
	iss := func(n ast.Node, kind, format string, a ...interface{}) {
		out = append(out, sideIssue{n, fmt.Sprintf(format, a...), kind, ""})
	}
	chain, inner := closureChain(fn)
	outerNames := fieldNames(fn.Type.Params)
	if plugin == "tuple" {
		if len(chain) != 1 || len(inner.List) != 1 {
			iss(fn, "shape", "tuple does not return a single closure")
			return out
		}
		ret, _ := inner.List[0].(*ast.ReturnStmt)
		if ret == nil {
			iss(fn, "shape", "closure does not return")
			return out
		}
		got, ok := identNames(ret.Results)
		if !ok || !eqStrings(got, outerNames) {
			iss(ret, "tuple-order", "returns %v instead of its arguments %v in order", got, outerNames)
		}
		return out
	}
	if len(fn.Type.Params.List) == 0 {
		iss(fn, "shape", "no function parameter")
		return out
	}
	// every type in the emitted signatures is one of the function argument's own parameter/result types: the type of
	// another call-site argument (typs[1] of deriveApply(f, x)) is only assignable to the parameter — for an untyped
	// constant it is the constant's default type (int for 3 where f wants float64)
	if plugin != "tuple" {
		seenT := map[string]bool{}
		ast.Inspect(fn, func(n ast.Node) bool {
			id, ok := n.(*ast.Ident)
			if !ok || seenT[id.Name] {
				return true
			}
			if h := rs.hole(id.Name); h != nil && h.Kind == "TYPE" {
				seenT[id.Name] = true
				if !strings.HasPrefix(h.Origin, "typs[0].") && h.Origin != "typs[0]" {
					iss(id, "foreign-type", "the signature uses %s, the type of %s, which is not a parameter or result type of the function argument: the wrapper must declare its parameters with the function's own types", id.Name, shortSym(h.Origin))
				}
			}
			return true
		})
	}
	fname := outerNames[0]
	ftype, ok := fn.Type.Params.List[0].Type.(*ast.FuncType)
	if !ok {
		iss(fn, "shape", "first parameter is not a function")
		return out
	}
	fparams := fieldNames(ftype.Params)
	// the innermost body: a single statement that calls f exactly once
	if len(inner.List) != 1 {
		iss(fn, "shape", "innermost closure is not a single statement")
		return out
	}
	var callExpr ast.Expr
	switch st := inner.List[0].(type) {
	case *ast.ReturnStmt:
		if len(st.Results) == 1 {
			callExpr = st.Results[0]
		}
	case *ast.ExprStmt:
		callExpr = st.X
	}
	// unwind f(a)(b)
	var calls []*ast.CallExpr
	for e := callExpr; e != nil; {
		e = unparen(e) // (f)(a, b) and (f(a))(b) call what f(a, b) and f(a)(b) call
		c, ok := e.(*ast.CallExpr)
		if !ok {
			if id, ok := e.(*ast.Ident); !ok || id.Name != fname {
				iss(inner.List[0], "callee", "does not call %s", fname)
			}
			break
		}
		calls = append([]*ast.CallExpr{c}, calls...)
		e = c.Fun
	}
	n := 0
	ast.Inspect(fn.Body, func(x ast.Node) bool {
		if id, ok := x.(*ast.Ident); ok && id.Name == fname {
			n++
		}
		return true
	})
	if n != 1 || len(calls) == 0 {
		iss(fn, "call-count", "the original function is referenced %d times in the body (expected exactly one call)", n)
		return out
	}
	// binders: parameters of the closures, outermost first (plus the extra outer parameters)
	var binders []string
	binders = append(binders, outerNames[1:]...)
	for _, l := range chain {
		binders = append(binders, fieldNames(l.Type.Params)...)
	}
	// positional plumbing: the call's arguments are the binders, each exactly once, in the order the transformation
	// prescribes (binder names themselves are free; go/types then checks that each lands on its own parameter type)
	var args []string
	okArgs := true
	for _, cl := range calls {
		a, ok := identNames(cl.Args)
		if !ok {
			okArgs = false
		}
		args = append(args, a...)
	}
	distinct := map[string]bool{}
	for _, b := range binders {
		if distinct[b] || b == "" || b == "_" {
			iss(fn, "binder-names", "binds parameters %v: every parameter needs its own usable name to be forwarded", binders)
			okArgs = false
		}
		distinct[b] = true
	}
	want := append([]string{}, binders...)
	nInner := 0
	if plugin == "uncurry" {
		if ftype.Results != nil && len(ftype.Results.List) == 1 {
			if it, ok := ftype.Results.List[0].Type.(*ast.FuncType); ok {
				nInner = len(fieldNames(it.Params))
			}
		}
		if len(calls) != 2 {
			iss(inner.List[0], "uncurry-shape", "does not call the returned function")
		} else if len(calls[0].Args) != len(fparams) || len(calls[1].Args) != nInner {
			iss(inner.List[0], "arg-split", "splits the arguments %d|%d; the outer function takes %d and the returned one %d", len(calls[0].Args), len(calls[1].Args), len(fparams), nInner)
		}
	} else if len(calls) != 1 {
		iss(inner.List[0], "call-shape", "calls the result of %s again", fname)
	}
	switch plugin {
	case "flip":
		if len(want) >= 2 {
			want[0], want[1] = want[1], want[0]
		}
	case "apply":
		if len(want) >= 1 {
			want = append(want[1:], want[0])
		}
	}
	if okArgs && !eqStrings(args, want) {
		iss(calls[0], "arg-order", "%s forwards %v; with binders %v the original function must receive %v", plugin, args, binders, want)
	}
	if len(binders) != len(fparams)+nInner {
		iss(fn, "binder-count", "%s binds %d parameters for a function with %d", plugin, len(binders), len(fparams)+nInner)
	}
	switch plugin {
	case "curry":
		if len(chain) != 2 || len(fieldNames(chain[0].Type.Params)) != 1 {
			iss(fn, "curry-shape", "curry must return a closure taking the first parameter which returns a closure taking the rest")
		}
	case "apply", "flip", "uncurry":
		if len(chain) != 1 {
			iss(fn, "closure-depth", "%s must return exactly one closure", plugin)
		}
	}
	// results are returned unchanged: `return f(...)` when f has results
	fres := 0
	if plugin == "uncurry" {
		if ftype.Results != nil && len(ftype.Results.List) == 1 {
			if it, ok := ftype.Results.List[0].Type.(*ast.FuncType); ok && it.Results != nil {
				fres = it.Results.NumFields()
			}
		}
	} else if ftype.Results != nil {
		fres = ftype.Results.NumFields()
	}
	_, isRet := inner.List[0].(*ast.ReturnStmt)
	if fres > 0 && !isRet {
		iss(inner.List[0], "results-dropped", "drops the results of %s", fname)
	}
	if fres == 0 && isRet {
		iss(inner.List[0], "return-void", "emits `return %s(…)` for a function without results: the closure has no result list, so the output does not compile", fname)
	}
	return out
}

// hygieneIssues: a literal identifier of the template that is referenced inside the scope of a user-named binder declared
// further in is captured when the user's parameter happens to have the same name.
func hygieneIssues(rs *Resid) []sideIssue {
	fn := rs.Funcs[0]
	var out []sideIssue
	seen := map[string]bool{}
	// literal names declared by the outer function (f, err, ...)
	literal := map[string]bool{}
	for _, n := range fieldNames(fn.Type.Params) {
		if n != "" && rs.hole(n) == nil && !strings.HasPrefix(n, "param_") && !strings.HasPrefix(n, "innerParam_") {
			literal[n] = true
		}
	}
	var walk func(body *ast.BlockStmt, userBinders []string)
	walk = func(body *ast.BlockStmt, userBinders []string) {
		ast.Inspect(body, func(x ast.Node) bool {
			switch y := x.(type) {
			case *ast.FuncLit:
				var ub []string
				ub = append(ub, userBinders...)
				declared := append(fieldNames(y.Type.Params), fieldNames(y.Type.Results)...)
				for _, n := range declared {
					if rs.hole(n) != nil {
						ub = append(ub, n)
					}
					// a literal name declared by the closure's own signature that equals one of the outer function's
					// parameters and is used in the closure: the outer one is shadowed for certain
					if literal[n] && nodeHas(y.Body, func(m ast.Node) bool { id, ok := m.(*ast.Ident); return ok && id.Name == n }) && !seen["shadow:"+n] {
						seen["shadow:"+n] = true
						out = append(out, sideIssue{y, fmt.Sprintf("the closure declares `%s` in its own signature and then uses `%s`: the outer function's parameter of that name is shadowed, so the closure never sees the value that was passed in", n, n), "shadow", n})
					}
				}
				walk(y.Body, ub)
				return false
			case *ast.Ident:
				if literal[y.Name] && len(userBinders) > 0 && !seen[y.Name] {
					seen[y.Name] = true
					out = append(out, sideIssue{y, fmt.Sprintf("refers to its own parameter `%s` inside a closure whose parameters carry user-chosen names (%s): a user parameter called `%s` captures the reference", y.Name, strings.Join(userBinders, ", "), y.Name), "capture", y.Name})
				}
			}
			return true
		})
	}
	var ub []string
	for _, n := range fieldNames(fn.Type.Params) {
		if rs.hole(n) != nil {
			ub = append(ub, n)
		}
	}
	walk(fn.Body, ub)
	return out
}

func runR_C15(c *Ctx) {
	ps := []string{"curry", "uncurry", "flip", "apply", "tuple"}
	sweepHealth(c, ps...)
	rR1(c, ps...)
	rR2(c, ps...)
	typed, skipped := 0, 0
	for _, p := range ps {
		n := 0
		for _, rs := range c.acceptedResids(p) {
			if rs.Err != nil || len(rs.Funcs) != 1 {
				continue
			}
			n++
			ok := reportIssues(c, rs, "R14", "", plumbIssues(rs, p))
			ok = reportIssues(c, rs, "R14", "", hygieneIssues(rs)) && ok
			errs, done := typecheckResid(rs, nil)
			if !done {
				skipped++
			} else {
				typed++
				if len(errs) > 0 {
					ok = false
					gf := c.R.repo.funcAt(rs.Run.LinePos[len(rs.Run.LinePos)/2])
					c.Rep.fail(Finding{Rule: "R4", Key: fmt.Sprintf("R4|%s|%s|%s", p, gf, holeRe.ReplaceAllString(stripLine(errs[0]), "_")), Where: []string{rs.where(c.Repo, rs.Funcs[0])}, Plugin: p, Script: rs.Run.Script,
						Msg:    fmt.Sprintf("%s: with pairwise distinct opaque parameter types the emitted wrapper does not type-check (%s): an argument does not reach its own position, or the result list is wrong", p, errs[0]),
						Detail: "abstract path: " + rs.Run.describe() + "\nresidual:\n" + rs.Run.excerpt(40) + "\nerrors:\n" + strings.Join(errs, "\n")})
				}
			}
			if ok {
				c.Rep.pass("R14")
				c.Rep.pass("R4")
			}
			if len(c.Rep.Samples) < 8 && n <= 2 {
				c.Rep.sample(map[string]interface{}{"plugin": p, "path": rs.Run.shapeKey(), "residual": rs.Run.Text})
			}
		}
		if n == 0 {
			c.Rep.fail(Finding{Rule: "R14", Key: "R14|" + p + "|vacuity", Kind: "undecided", Plugin: p, Msg: p + ": no residual analysed"})
		}
	}
	c.Rep.analysed("typed_residuals", typed)
	c.Rep.analysed("untyped_residuals", skipped)
	c.Rep.floor("R14", 40)
}

func stripLine(s string) string {
	if i := strings.Index(s, ": "); i >= 0 && i < 6 {
		return s[i+2:]
	}
	return s
}
