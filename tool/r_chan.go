package main

import (
	"fmt"
	"go/ast"
	"go/token"
	"strconv"
	"strings"

	"golang.org/x/tools/go/cfg"
)

// C19 / C20 — channel and goroutine typestate (R12) on residuals.

type cfn struct {
	name string
	body *ast.BlockStmt
	lit  *ast.FuncLit
	g    *Graph
	inGo bool
	goSt *ast.GoStmt
	par  *cfn
}

type chanFn struct {
	rs  *Resid
	fd  *ast.FuncDecl
	fns []*cfn
	top *cfn
}

func noPanic(c *ast.CallExpr) bool {
	id, ok := c.Fun.(*ast.Ident)
	return !(ok && id.Name == "panic")
}

func newChanFn(rs *Resid, fd *ast.FuncDecl) *chanFn {
	cf := &chanFn{rs: rs, fd: fd}
	cf.top = &cfn{name: "body", body: fd.Body}
	cf.fns = append(cf.fns, cf.top)
	goOf := map[*ast.FuncLit]*ast.GoStmt{}
	ast.Inspect(fd.Body, func(n ast.Node) bool {
		if g, ok := n.(*ast.GoStmt); ok {
			if l, ok := g.Call.Fun.(*ast.FuncLit); ok {
				goOf[l] = g
			}
		}
		return true
	})
	var walk func(n ast.Node, par *cfn)
	walk = func(n ast.Node, par *cfn) {
		ast.Inspect(n, func(m ast.Node) bool {
			if l, ok := m.(*ast.FuncLit); ok {
				f := &cfn{name: fmt.Sprintf("closure@%d", rs.line(l.Pos())), body: l.Body, lit: l, inGo: goOf[l] != nil, goSt: goOf[l], par: par}
				cf.fns = append(cf.fns, f)
				walk(l.Body, f)
				return false
			}
			return true
		})
	}
	walk(fd.Body, cf.top)
	for _, f := range cf.fns {
		f.g = newGraph(f.body, noPanic)
	}
	return cf
}

func (cf *chanFn) owner(n ast.Node) *cfn {
	var best *cfn
	for _, f := range cf.fns {
		if f.body.Pos() <= n.Pos() && n.End() <= f.body.End() {
			if best == nil || f.body.Pos() >= best.body.Pos() {
				best = f
			}
		}
	}
	return best
}

// blockOfNode finds the block of f's own graph containing n (not descending into nested literals).
func (f *cfn) blockOf(n ast.Node) (*cfg.Block, int) {
	return f.g.locate(n.Pos())
}

func (f *cfn) inLoop(b *cfg.Block) bool {
	return f.g.reachable(b.Succs, nil)[b]
}

// postDominatesEntry: every path from the entry to a real exit passes through block b. Blocks that block forever
// (select without default) are not exits.
func (f *cfn) postDominatesEntry(b *cfg.Block) bool {
	if f.g.entry() == nil {
		return false
	}
	reach := f.g.reachable([]*cfg.Block{f.g.entry()}, func(x *cfg.Block) bool { return x == b })
	if f.g.entry() == b {
		return true
	}
	for x := range reach {
		if len(x.Succs) == 0 && x.Kind != cfg.KindSelectAfterCase && x.Kind != cfg.KindUnreachable {
			return false // an exit reachable without passing b
		}
	}
	return true
}

type cev struct {
	kind string // close send recv range wait add done go
	ch   string
	n    ast.Node
	f    *cfn
	def  bool // deferred
}

func (cf *chanFn) events() []cev {
	var evs []cev
	deferred := map[ast.Node]bool{}
	ast.Inspect(cf.fd.Body, func(n ast.Node) bool {
		if d, ok := n.(*ast.DeferStmt); ok {
			deferred[d.Call] = true
		}
		return true
	})
	ast.Inspect(cf.fd.Body, func(n ast.Node) bool {
		switch x := n.(type) {
		case *ast.SendStmt:
			evs = append(evs, cev{"send", canon(x.Chan), x, cf.owner(x), false})
		case *ast.GoStmt:
			evs = append(evs, cev{"go", "", x, cf.owner(x), false})
		case *ast.CallExpr:
			if id, ok := x.Fun.(*ast.Ident); ok && id.Name == "close" && len(x.Args) == 1 {
				evs = append(evs, cev{"close", canon(x.Args[0]), x, cf.owner(x), deferred[x]})
			}
			if sel, ok := x.Fun.(*ast.SelectorExpr); ok {
				switch sel.Sel.Name {
				case "Wait", "Add", "Done":
					evs = append(evs, cev{strings.ToLower(sel.Sel.Name), canon(sel.X), x, cf.owner(x), deferred[x]})
				}
			}
		case *ast.UnaryExpr:
			if x.Op == token.ARROW {
				evs = append(evs, cev{"recv", canon(x.X), x, cf.owner(x), false})
			}
		case *ast.RangeStmt:
			evs = append(evs, cev{"range", canon(x.X), x, cf.owner(x), false})
		}
		return true
	})
	return evs
}

func (cf *chanFn) madeChans() map[string]bool {
	made := map[string]bool{}
	ast.Inspect(cf.fd.Body, func(n ast.Node) bool {
		as, ok := n.(*ast.AssignStmt)
		if !ok || as.Tok != token.DEFINE {
			return true
		}
		for i, r := range as.Rhs {
			if c, ok := r.(*ast.CallExpr); ok {
				if id, ok := c.Fun.(*ast.Ident); ok && id.Name == "make" && len(c.Args) > 0 {
					t := c.Args[0]
					if p, ok := t.(*ast.ParenExpr); ok {
						t = p.X
					}
					if _, isChan := t.(*ast.ChanType); isChan && i < len(as.Lhs) {
						made[canon(as.Lhs[i])] = true
					}
				}
			}
		}
		return true
	})
	return made
}

// chanParams: names of parameters / locals that are channels being received from.
func (cf *chanFn) issue(n ast.Node, kind, format string, a ...interface{}) sideIssue {
	return sideIssue{n, fmt.Sprintf(format, a...), kind, ""}
}

func (cf *chanFn) combinatorIssues() []sideIssue {
	var out []sideIssue
	evs := cf.events()
	made := cf.madeChans()
	// T5: the combinator's own body performs no blocking operation
	for _, e := range evs {
		if e.f == cf.top && (e.kind == "send" || e.kind == "recv" || e.kind == "wait") {
			out = append(out, cf.issue(e.n, "blocking-in-body", "T5: the combinator itself performs a blocking %s on %s instead of returning immediately", e.kind, e.ch))
		}
		if e.f == cf.top && e.kind == "range" {
			// a range in the combinator's own body over a channel blocks; over a slice it is fine only if it merely spawns
			if !strings.Contains(cf.rs.src(cf.fd.Type), "[]") || isChanRange(cf, e.n.(*ast.RangeStmt)) {
				out = append(out, cf.issue(e.n, "blocking-in-body", "T5: the combinator itself ranges over %s", e.ch))
			}
		}
	}
	for ch := range made {
		var closes, sends []cev
		for _, e := range evs {
			if e.ch != ch {
				continue
			}
			switch e.kind {
			case "close":
				closes = append(closes, e)
			case "send":
				sends = append(sends, e)
			}
		}
		if len(closes) != 1 {
			out = append(out, cf.issue(cf.fd, "close-count", "T1: output channel %s is closed at %d sites (exactly one is required: consumers must see every output closed exactly once)", ch, len(closes)))
			continue
		}
		c := closes[0]
		if !c.f.inGo {
			out = append(out, cf.issue(c.n, "close-in-body", "T1: close(%s) is not inside a goroutine", ch))
			continue
		}
		cb, ci := c.f.blockOf(c.n)
		if cb == nil {
			out = append(out, cf.issue(c.n, "close-unreachable", "T1: close(%s) is unreachable", ch))
			continue
		}
		if !c.def {
			if c.f.inLoop(cb) {
				out = append(out, cf.issue(c.n, "close-in-loop", "T1: close(%s) is inside a loop (closed more than once)", ch))
			}
			if !c.f.postDominatesEntry(cb) {
				out = append(out, cf.issue(c.n, "close-not-on-all-paths", "T1: close(%s) is not reached on every path of its goroutine: consumers may wait forever", ch))
			}
		}
		for _, s := range sends {
			if s.f == c.f {
				// T2: no send after close in the same goroutine
				sb, si := s.f.blockOf(s.n)
				if sb == nil {
					continue
				}
				if c.def {
					continue
				}
				if (sb == cb && si > ci) || c.f.g.reachable(cb.Succs, nil)[sb] {
					out = append(out, cf.issue(s.n, "send-after-close", "T2: a send on %s is reachable after close(%s) in the same goroutine (panic: send on closed channel)", ch, ch))
				}
				// T6: when the closing goroutine itself forwards, the close must come after its receive loops:
				// checked below through loop structure
				continue
			}
			if !s.f.inGo {
				continue // reported by T5
			}
			// T3: a sender in another goroutine must be joined by a WaitGroup before the close
			var done, wait, add *cev
			for i := range evs {
				x := &evs[i]
				switch {
				case x.kind == "done" && x.f == s.f:
					done = x
				case x.kind == "wait" && x.f == c.f:
					wait = x
				case x.kind == "add" && x.f == s.f.par:
					add = x
				}
			}
			if done == nil || wait == nil || add == nil || done.ch != wait.ch || add.ch != wait.ch {
				out = append(out, cf.issue(s.n, "sender-not-joined", "T3: the goroutine sending on %s is not joined by a WaitGroup before close(%s) (Add: %v, Done: %v, Wait: %v): the channel may be closed while it still sends", ch, ch, add != nil, done != nil, wait != nil))
				continue
			}
			if !done.def {
				if db, _ := s.f.blockOf(done.n); db == nil || !s.f.postDominatesEntry(db) {
					out = append(out, cf.issue(done.n, "done-not-on-all-paths", "T3: Done is not reached on every path of the sending goroutine: Wait (and the close) can hang"))
				}
			}
			wb, wi := c.f.blockOf(wait.n)
			if wb == nil || !((wb == cb && wi < ci) || (wb != cb && c.f.g.dominates(wb, cb))) {
				out = append(out, cf.issue(wait.n, "wait-not-before-close", "T3: Wait does not dominate close(%s): the output can be closed before all forwarders finished", ch))
			}
			// Add dominates the go statement in the spawner
			sp := s.f.par
			ab, ai := sp.blockOf(add.n)
			gb, gi := sp.blockOf(s.f.goSt)
			if ab == nil || gb == nil || !((ab == gb && ai < gi) || (ab != gb && sp.g.dominates(ab, gb))) {
				out = append(out, cf.issue(add.n, "add-not-before-go", "T3: Add(1) does not precede the go statement of the forwarder: the forwarder can call Done before Add (negative WaitGroup counter) or Wait can pass before it is counted"))
			}
			// every counted forwarder is started: from Add no path comes back to Add, or reaches Wait, without passing the go statement
			if ab != nil && gb != nil && ab != gb {
				around := sp.g.reachable(ab.Succs, func(b *cfg.Block) bool { return b == gb })
				if around[ab] || (wb != nil && sp == c.f && around[wb]) {
					out = append(out, cf.issue(add.n, "add-without-spawn", "T3: after Add(1) a path reaches the next Add or the Wait without starting the forwarder that calls Done (for example a `continue` for an input that is skipped): the counter never returns to zero, Wait blocks for ever and the output is never closed"))
				}
			}
			if wb != nil && gb != nil && sp == c.f && c.f.g.reachable(wb.Succs, nil)[gb] {
				out = append(out, cf.issue(s.f.goSt, "spawn-after-wait", "T3: a forwarder can be spawned after Wait"))
			}
		}
	}
	out = append(out, cf.forwardIssues(made)...)
	out = append(out, cf.captureIssues()...)
	out = append(out, cf.sharedVarIssues(made)...)
	return out
}

func isChanRange(cf *chanFn, r *ast.RangeStmt) bool {
	// ranging with a single variable over something whose elements are received: `for v := range ch`
	return r.Value == nil && r.Key != nil
}

// forwardIssues (T4/T6): every receive loop forwards each received value exactly once on every output, never leaves early,
// and the closing goroutine closes only after its receive loops; select form: see selectIssues.
func (cf *chanFn) forwardIssues(made map[string]bool) []sideIssue {
	var out []sideIssue
	nOut := len(made)
	ast.Inspect(cf.fd.Body, func(n ast.Node) bool {
		switch x := n.(type) {
		case *ast.RangeStmt:
			if !isChanRange(cf, x) {
				return true
			}
			own := cf.owner(x)
			// is this a loop that forwards (body contains sends), or a loop that spawns forwarders?
			var sends []*ast.SendStmt
			ast.Inspect(x.Body, func(m ast.Node) bool {
				if _, isLit := m.(*ast.FuncLit); isLit {
					return false
				}
				if s, ok := m.(*ast.SendStmt); ok {
					sends = append(sends, s)
				}
				return true
			})
			spawns := nodeHas(x.Body, func(m ast.Node) bool { _, ok := m.(*ast.GoStmt); return ok })
			if spawns {
				// a goroutine per received item may only drain that item (a channel) with its own receive loop; sending a
				// value computed from the item from a fresh goroutine lets later items overtake earlier ones
				ast.Inspect(x.Body, func(m ast.Node) bool {
					g, isGo := m.(*ast.GoStmt)
					if !isGo {
						return true
					}
					lit, isLit := g.Call.Fun.(*ast.FuncLit)
					if !isLit {
						return true
					}
					ast.Inspect(lit.Body, func(k ast.Node) bool {
						s, isSend := k.(*ast.SendStmt)
						if !isSend {
							return true
						}
						inRecvLoop := false
						ast.Inspect(lit.Body, func(q ast.Node) bool {
							if r2, isR := q.(*ast.RangeStmt); isR && isChanRange(cf, r2) && containsNode(r2.Body, s) {
								inRecvLoop = true
							}
							return true
						})
						if !inRecvLoop {
							out = append(out, cf.issue(s, "per-item-goroutine", "T4: every received item is sent from its own goroutine: the goroutines are not ordered, so items can overtake each other (the input order is not preserved)"))
						}
						return true
					})
					return false
				})
			}
			if len(sends) == 0 && spawns {
				return true
			}
			if !own.inGo {
				return true // reported by T5
			}
			v := canon(x.Key)
			defs := localDefs(x.Body)
			perChan := map[string]int{}
			for _, s := range sends {
				perChan[canon(s.Chan)]++
				// the value sent is the received one or f(received)
				val := canon(expand(s.Value, defs, 0))
				if val != v && !(strings.HasSuffix(val, "("+v+")")) {
					out = append(out, cf.issue(s, "forward-value", "T4: forwards %s instead of the received item %s (or f of it)", cf.rs.src(s.Value), v))
				}
				if len(guardsOf(own.body, s)) > 0 {
					// guards from enclosing constructs of the goroutine are fine only if they are loop conditions
					for _, g := range guardsOf(x.Body, s) {
						out = append(out, cf.issue(s, "forward-conditional", "T4: an item is forwarded only under the condition %s", cf.rs.src(g.e)))
					}
				}
			}
			for ch := range made {
				if perChan[ch] != 1 && len(sends) > 0 {
					out = append(out, cf.issue(x, "forward-count", "T4: each received item is sent %d times on %s (exactly once is required)", perChan[ch], ch))
				}
			}
			if len(sends) > 0 && len(perChan) != nOut {
				out = append(out, cf.issue(x, "forward-outputs", "T4: items are forwarded on %d of the %d outputs", len(perChan), nOut))
			}
			ast.Inspect(x.Body, func(m ast.Node) bool {
				switch y := m.(type) {
				case *ast.FuncLit:
					return false
				case *ast.BranchStmt:
					out = append(out, cf.issue(y, "forward-early-exit", "T4: the receive loop is left or cut short (%s): remaining items are lost and the producer may block forever", y.Tok))
				case *ast.ReturnStmt:
					out = append(out, cf.issue(y, "forward-early-exit", "T4: the goroutine returns from inside its receive loop"))
				}
				return true
			})
		case *ast.SelectStmt:
			out = append(out, cf.selectIssues(x, made)...)
		}
		return true
	})
	return out
}

// selectIssues (T4/T6 for the select form of join).
func (cf *chanFn) selectIssues(sel *ast.SelectStmt, made map[string]bool) []sideIssue {
	var out []sideIssue
	own := cf.owner(sel)
	// enclosing for loop with the disjunction of `!= nil`
	var loop *ast.ForStmt
	ast.Inspect(own.body, func(n ast.Node) bool {
		if f, ok := n.(*ast.ForStmt); ok && containsNode(f.Body, sel) {
			loop = f
		}
		return true
	})
	var inputs []string
	for _, cc := range sel.Body.List {
		c := cc.(*ast.CommClause)
		as, ok := c.Comm.(*ast.AssignStmt)
		if !ok || len(as.Lhs) != 2 || len(as.Rhs) != 1 {
			out = append(out, cf.issue(c, "select-case", "T6: a select case is not `v, ok := <-c`: a closed input cannot be told from a zero item"))
			continue
		}
		u, ok := as.Rhs[0].(*ast.UnaryExpr)
		if !ok || u.Op != token.ARROW {
			continue
		}
		in := canon(u.X)
		inputs = append(inputs, in)
		v, okv := canon(as.Lhs[0]), canon(as.Lhs[1])
		nils, sends := 0, 0
		ast.Inspect(&ast.BlockStmt{List: c.Body}, func(n ast.Node) bool {
			switch y := n.(type) {
			case *ast.AssignStmt:
				if len(y.Lhs) == 1 && len(y.Rhs) == 1 && isNilLit(y.Rhs[0]) {
					gs := guardsOf(&ast.BlockStmt{List: c.Body}, y)
					if canon(y.Lhs[0]) != in {
						out = append(out, cf.issue(y, "nil-other-input", "T6: the case for %s disables %s", in, cf.rs.src(y.Lhs[0])))
					} else if !hasGuard(gs, false, func(e ast.Expr) bool { return canon(e) == okv }) {
						out = append(out, cf.issue(y, "nil-unguarded", "T6: input %s is disabled although it was not found closed", in))
					} else {
						nils++
					}
				}
			case *ast.SendStmt:
				gs := guardsOf(&ast.BlockStmt{List: c.Body}, y)
				sends++
				if !made[canon(y.Chan)] || canon(y.Value) != v {
					out = append(out, cf.issue(y, "forward-value", "T4: the case for %s sends %s on %s instead of the received item", in, cf.rs.src(y.Value), cf.rs.src(y.Chan)))
				}
				if !hasGuard(gs, true, func(e ast.Expr) bool { return canon(e) == okv }) {
					out = append(out, cf.issue(y, "send-when-closed", "T6: the case for %s sends although the receive may have reported the channel closed (a zero item is injected)", in))
				}
			case *ast.BranchStmt:
				// `continue` under "the channel was found closed" goes on with the next round of the select loop: it is the end of
				// the closed branch written as a guard clause; everything else leaves or cuts the loop
				if y.Tok == token.CONTINUE && y.Label == nil {
					gs := guardsOf(&ast.BlockStmt{List: c.Body}, y)
					if hasGuard(gs, false, func(e ast.Expr) bool { return canon(e) == okv }) {
						break
					}
				}
				out = append(out, cf.issue(y, "forward-early-exit", "T4: the select loop is left early"))
			case *ast.ReturnStmt:
				out = append(out, cf.issue(y, "forward-early-exit", "T4: the select loop is left early"))
			}
			return true
		})
		if nils != 1 {
			out = append(out, cf.issue(c, "closed-input-not-disabled", "T6: the case for %s does not set it to nil when it is closed: the loop spins on the closed channel or never ends", in))
		}
		if sends != 1 {
			out = append(out, cf.issue(c, "forward-count", "T4: the case for %s forwards an item %d times", in, sends))
		}
	}
	if loop == nil || loop.Cond == nil {
		out = append(out, cf.issue(sel, "select-loop", "T6: the select is not inside a loop that runs while some input is open"))
		return out
	}
	// loop condition: disjunction of `c != nil` for exactly the inputs
	var conds []string
	okForm := true
	var collect func(e ast.Expr)
	// (De Morgan: !(a == nil && b == nil) is a != nil || b != nil)
	var collectNeg func(e ast.Expr)
	collectNeg = func(e ast.Expr) {
		switch x := unparen(e).(type) {
		case *ast.BinaryExpr:
			if x.Op == token.LAND {
				collectNeg(x.X)
				collectNeg(x.Y)
				return
			}
			if x.Op == token.EQL && isNilLit(x.Y) {
				conds = append(conds, canon(x.X))
				return
			}
		}
		okForm = false
	}
	collect = func(e ast.Expr) {
		switch x := unparen(e).(type) {
		case *ast.UnaryExpr:
			if x.Op == token.NOT {
				collectNeg(x.X)
				return
			}
		case *ast.BinaryExpr:
			if x.Op == token.LOR {
				collect(x.X)
				collect(x.Y)
				return
			}
			if x.Op == token.NEQ && isNilLit(x.Y) {
				conds = append(conds, canon(x.X))
				return
			}
		}
		okForm = false
	}
	collect(loop.Cond)
	seen := map[string]bool{}
	for _, c := range conds {
		seen[c] = true
	}
	for _, in := range inputs {
		if !seen[in] {
			okForm = false
		}
	}
	if !okForm || len(conds) != len(inputs) {
		out = append(out, cf.issue(loop, "select-loop-cond", "T6: the loop condition is not `some input != nil` over exactly the selected inputs %v: the output is closed before every input is drained, or never", inputs))
	}
	return out
}

// captureIssues (T7): a goroutine started inside a loop must not refer to the loop's iteration variables directly.
func (cf *chanFn) captureIssues() []sideIssue {
	var out []sideIssue
	ast.Inspect(cf.fd.Body, func(n ast.Node) bool {
		var vars []string
		var body *ast.BlockStmt
		switch x := n.(type) {
		case *ast.RangeStmt:
			for _, e := range []ast.Expr{x.Key, x.Value} {
				if id, ok := e.(*ast.Ident); ok && id.Name != "_" {
					vars = append(vars, id.Name)
				}
			}
			body = x.Body
		case *ast.ForStmt:
			if as, ok := x.Init.(*ast.AssignStmt); ok {
				for _, l := range as.Lhs {
					if id, ok := l.(*ast.Ident); ok {
						vars = append(vars, id.Name)
					}
				}
			}
			body = x.Body
		default:
			return true
		}
		ast.Inspect(body, func(m ast.Node) bool {
			g, ok := m.(*ast.GoStmt)
			if !ok {
				return true
			}
			lit, ok := g.Call.Fun.(*ast.FuncLit)
			if !ok {
				return true
			}
			params := map[string]bool{}
			for _, p := range fieldNames(lit.Type.Params) {
				params[p] = true
			}
			ast.Inspect(lit.Body, func(k ast.Node) bool {
				if id, ok := k.(*ast.Ident); ok && !params[id.Name] {
					for _, v := range vars {
						if id.Name == v {
							out = append(out, cf.issue(id, "loop-var-capture", "T7: the goroutine refers to the loop variable %s directly: in modules with go < 1.22 all forwarders share one variable, read the last channel only, and the other inputs are never drained", v))
						}
					}
				}
				return true
			})
			return false
		})
		return true
	})
	return out
}

// sharedVarIssues (T8): a variable assigned in a goroutine may not be used by any other function body, unless it is one
// of this goroutine's own result slots that is only read after all goroutines were awaited (checked by the Do rules).
func (cf *chanFn) sharedVarIssues(made map[string]bool) []sideIssue {
	var out []sideIssue
	for _, f := range cf.fns {
		if !f.inGo {
			continue
		}
		declared := map[string]bool{}
		for _, p := range fieldNames(f.lit.Type.Params) {
			declared[p] = true
		}
		ast.Inspect(f.body, func(n ast.Node) bool {
			switch x := n.(type) {
			case *ast.AssignStmt:
				if x.Tok == token.DEFINE {
					for _, l := range x.Lhs {
						if id, ok := l.(*ast.Ident); ok {
							declared[id.Name] = true
						}
					}
				}
			case *ast.ValueSpec:
				for _, nm := range x.Names {
					declared[nm.Name] = true
				}
			case *ast.RangeStmt:
				for _, e := range []ast.Expr{x.Key, x.Value} {
					if id, ok := e.(*ast.Ident); ok {
						declared[id.Name] = true
					}
				}
			}
			return true
		})
		ast.Inspect(f.body, func(n ast.Node) bool {
			if _, isLit := n.(*ast.FuncLit); isLit && n != ast.Node(f.lit) {
				return false
			}
			as, ok := n.(*ast.AssignStmt)
			if !ok || as.Tok == token.DEFINE {
				return true
			}
			for _, l := range as.Lhs {
				id, ok := l.(*ast.Ident)
				if !ok || declared[id.Name] || id.Name == "_" {
					continue
				}
				// written here, declared outside: who else touches it?
				for _, g := range cf.fns {
					if g == f {
						continue
					}
					uses := false
					ast.Inspect(g.body, func(m ast.Node) bool {
						if lit, isLit := m.(*ast.FuncLit); isLit && lit != g.lit {
							return false // nested bodies are checked as their own cfn
						}
						if u, ok := m.(*ast.Ident); ok && u.Name == id.Name {
							// declarations in the parent do not count as uses
							uses = true
						}
						return true
					})
					if !uses {
						continue
					}
					if g.inGo {
						out = append(out, cf.issue(as, "shared-write", "T8: %s is written by this goroutine and also used by another goroutine without synchronisation (data race)", id.Name))
					}
				}
			}
			return true
		})
	}
	return out
}

// pipelineIssues: pipeline(f, g)(a) = join(fmap(g, f(a))).
func pipelineIssues(rs *Resid, fn *ast.FuncDecl) []sideIssue {
	names := fieldNames(fn.Type.Params)
	chain, body := closureChain(fn)
	bad := func(msg string) []sideIssue { return []sideIssue{{fn, msg, "pipeline-shape", ""}} }
	if len(names) != 2 || len(chain) != 1 {
		return bad("pipeline does not return a single closure over (f, g)")
	}
	f, g := names[0], names[1]
	in := fieldNames(chain[0].Type.Params)
	if len(in) != 1 {
		return bad("the returned stage does not take exactly one input")
	}
	defs := localDefs(body)
	last, ok := body.List[len(body.List)-1].(*ast.ReturnStmt)
	if !ok || len(last.Results) != 1 {
		return bad("the stage does not return a channel expression")
	}
	outer, ok := last.Results[0].(*ast.CallExpr)
	if !ok || funcHoleWho(rs, outer.Fun) != "join" || len(outer.Args) != 1 {
		return bad("the stage does not return join(…)")
	}
	inner, ok := outer.Args[0].(*ast.CallExpr)
	if !ok || funcHoleWho(rs, inner.Fun) != "fmap" || len(inner.Args) != 2 || canon(inner.Args[0]) != g {
		return bad("the stage does not return join(fmap(g, …))")
	}
	if canon(expand(inner.Args[1], defs, 0)) != f+"("+in[0]+")" {
		return bad("the stage does not feed f(input) into fmap(g, …)")
	}
	n := 0
	ast.Inspect(body, func(x ast.Node) bool {
		if c, ok := x.(*ast.CallExpr); ok {
			if id, ok := c.Fun.(*ast.Ident); ok && (id.Name == f || id.Name == g) {
				n++
			}
		}
		return true
	})
	if n != 1 {
		return bad("f must be called exactly once and g only handed to fmap")
	}
	return nil
}

// doIssues (C20).
func doIssues(rs *Resid, fn *ast.FuncDecl) []sideIssue {
	cf := newChanFn(rs, fn)
	var out []sideIssue
	iss := func(n ast.Node, kind, format string, a ...interface{}) {
		out = append(out, sideIssue{n, fmt.Sprintf(format, a...), kind, ""})
	}
	fparams := fieldNames(fn.Type.Params)
	isF := map[string]bool{}
	for _, p := range fparams {
		isF[p] = true
	}
	evs := cf.events()
	made := cf.madeChans()
	if len(made) != 1 {
		iss(fn, "channel", "Do uses %d channels to collect completions (one expected)", len(made))
		return out
	}
	var errChan string
	for ch := range made {
		errChan = ch
	}
	// D7: every call of an argument function happens inside its own goroutine
	calledIn := map[string]*cfn{}
	ast.Inspect(fn.Body, func(n ast.Node) bool {
		c, ok := n.(*ast.CallExpr)
		if !ok {
			return true
		}
		id, ok := c.Fun.(*ast.Ident)
		if !ok || !isF[id.Name] {
			return true
		}
		o := cf.owner(c)
		if !o.inGo {
			iss(c, "inline-call", "%s is called on the caller's own goroutine: the remaining functions are not started until it returns, so functions that wait for one another deadlock", id.Name)
		}
		if prev, dup := calledIn[id.Name]; dup {
			iss(c, "call-count", "%s is called more than once", id.Name)
			_ = prev
		}
		calledIn[id.Name] = o
		return true
	})
	for _, p := range fparams {
		if calledIn[p] == nil {
			iss(fn, "call-count", "%s is never called", p)
		}
	}
	// D1: every go statement precedes the first receive
	var firstRecv *cev
	ngo := 0
	for i := range evs {
		e := &evs[i]
		if e.kind == "recv" && e.ch == errChan && e.f == cf.top && firstRecv == nil {
			firstRecv = e
		}
		if e.kind == "go" && e.f == cf.top {
			ngo++
		}
	}
	if firstRecv == nil {
		iss(fn, "no-wait", "Do never receives the completions in its own body: it returns before the functions finished")
		return out
	}
	rb, _ := cf.top.blockOf(firstRecv.n)
	for _, e := range evs {
		if e.kind != "go" || e.f != cf.top {
			continue
		}
		gb, _ := cf.top.blockOf(e.n)
		if gb == nil || rb == nil || !cf.top.g.dominates(gb, rb) || cf.top.g.reachable(rb.Succs, nil)[gb] {
			iss(e.n, "spawn-after-wait", "a function is started after Do began to wait: functions that wait for one another deadlock")
		}
	}
	// D3: the receive loop runs exactly n times, n = number of goroutines = number of argument functions
	var loop *ast.ForStmt
	ast.Inspect(fn.Body, func(n ast.Node) bool {
		if f, ok := n.(*ast.ForStmt); ok && containsNode(f.Body, firstRecv.n) && cf.owner(f) == cf.top {
			loop = f
		}
		return true
	})
	bound := -1
	if loop != nil {
		if be, ok := loop.Cond.(*ast.BinaryExpr); ok && be.Op == token.LSS {
			if bl, ok := be.Y.(*ast.BasicLit); ok {
				bound, _ = strconv.Atoi(bl.Value)
			}
		}
		// counting down: for k := n; k > 0; k--
		if be, ok := loop.Cond.(*ast.BinaryExpr); ok && be.Op == token.GTR && canon(be.Y) == "0" {
			if init, ok := loop.Init.(*ast.AssignStmt); ok && len(init.Lhs) == 1 && len(init.Rhs) == 1 && canon(init.Lhs[0]) == canon(be.X) {
				if post, ok := loop.Post.(*ast.IncDecStmt); ok && post.Tok == token.DEC && canon(post.X) == canon(be.X) {
					if bl, ok := init.Rhs[0].(*ast.BasicLit); ok {
						// the counter must not be touched in the body
						touched := false
						ast.Inspect(loop.Body, func(m ast.Node) bool {
							switch y := m.(type) {
							case *ast.AssignStmt:
								for _, l := range y.Lhs {
									if canon(l) == canon(be.X) {
										touched = true
									}
								}
							case *ast.IncDecStmt:
								if canon(y.X) == canon(be.X) {
									touched = true
								}
							}
							return true
						})
						if !touched {
							bound, _ = strconv.Atoi(bl.Value)
						}
					}
				}
			}
		}
	}
	nsend := 0
	for _, e := range evs {
		if e.kind == "send" && e.ch == errChan {
			nsend++
		}
	}
	if loop == nil || bound != ngo || ngo != len(fparams) || nsend != ngo {
		iss(fn, "completion-count", "Do waits for %d completions, starts %d goroutines with %d completion sends, for %d functions: it returns early or blocks forever", bound, ngo, nsend, len(fparams))
	}
	// per goroutine: result assigned before its single send, on every path; the value sent is its own error
	results := map[string]*cfn{}
	for _, f := range cf.fns {
		if !f.inGo {
			continue
		}
		var send *cev
		n := 0
		for i := range evs {
			if evs[i].kind == "send" && evs[i].f == f {
				send = &evs[i]
				n++
			}
		}
		if n != 1 {
			iss(f.lit, "send-count", "a goroutine signals completion %d times (exactly once is required)", n)
			continue
		}
		sb, si := f.blockOf(send.n)
		if sb == nil || !f.postDominatesEntry(sb) {
			iss(send.n, "send-not-on-all-paths", "a goroutine does not signal completion on every path: Do blocks forever")
		}
		// the assignment from the function call
		var call *ast.AssignStmt
		ast.Inspect(f.body, func(m ast.Node) bool {
			as, ok := m.(*ast.AssignStmt)
			if ok && len(as.Rhs) == 1 {
				if c, ok := as.Rhs[0].(*ast.CallExpr); ok {
					if id, ok := c.Fun.(*ast.Ident); ok && isF[id.Name] {
						call = as
					}
				}
			}
			return true
		})
		if call == nil {
			continue // reported by D7 / call-count
		}
		ab, ai := f.blockOf(call)
		if ab == nil || !((ab == sb && ai < si) || (ab != sb && f.g.dominates(ab, sb))) {
			iss(send.n, "send-before-result", "a goroutine signals completion before (or without) storing its result: Do can read the result slot before it is written")
		}
		lhs, _ := identNames(call.Lhs)
		if len(lhs) == 0 {
			continue
		}
		errVar := lhs[len(lhs)-1]
		if canon(send.n.(*ast.SendStmt).Value) != errVar {
			iss(send.n, "wrong-error-sent", "a goroutine sends %s instead of the error its own function returned", rs.src(send.n.(*ast.SendStmt).Value))
		}
		slots := lhs[:len(lhs)-1]
		if call.Tok == token.DEFINE {
			// res, err := f(): the results are bound to variables of the goroutine itself; the slot is the variable of Do that
			// res is then stored in, and that store, too, must come before the completion is signalled
			var outer []string
			for _, v := range slots {
				found := ""
				ast.Inspect(f.body, func(m ast.Node) bool {
					as, ok := m.(*ast.AssignStmt)
					if !ok || as.Tok != token.ASSIGN || len(as.Lhs) != 1 || len(as.Rhs) != 1 || canon(as.Rhs[0]) != v {
						return true
					}
					found = canon(as.Lhs[0])
					b2, i2 := f.blockOf(as)
					if b2 == nil || !((b2 == sb && i2 < si) || (b2 != sb && f.g.dominates(b2, sb))) {
						iss(send.n, "send-before-result", "a goroutine signals completion before (or without) storing its result: Do can read the result slot before it is written")
					}
					return true
				})
				if found == "" {
					iss(call, "result-not-stored", "the result %s of the function stays in a variable of the goroutine: Do never returns it", v)
					continue
				}
				outer = append(outer, found)
			}
			slots = outer
		}
		for _, v := range slots {
			if prev, dup := results[v]; dup && prev != f {
				iss(call, "slot-shared", "the result slot %s is written by two goroutines", v)
			}
			results[v] = f
		}
	}
	// D4: result slots are read only after the receive loop
	if loop != nil {
		ast.Inspect(fn.Body, func(n ast.Node) bool {
			if _, isLit := n.(*ast.FuncLit); isLit {
				return false
			}
			id, ok := n.(*ast.Ident)
			if !ok || results[id.Name] == nil {
				return true
			}
			// declaration `var v T` is not a read
			par := parents(fn.Body)
			if _, isSpec := par[id].(*ast.ValueSpec); isSpec {
				return true
			}
			if id.Pos() < loop.End() {
				iss(id, "early-read", "the result %s is read before all completions were received (data race / stale value)", id.Name)
			}
			return true
		})
	}
	// D5: err is assigned only from a received non-nil value and only while nil
	ast.Inspect(fn.Body, func(n ast.Node) bool {
		if _, isLit := n.(*ast.FuncLit); isLit {
			return false
		}
		as, ok := n.(*ast.AssignStmt)
		if !ok || as.Tok != token.ASSIGN || len(as.Lhs) != 1 || canon(as.Lhs[0]) != "err" && !strings.HasSuffix(canon(as.Lhs[0]), "err") {
			return true
		}
		errName := canon(as.Lhs[0])
		gs := guardsOf(fn.Body, as)
		rhs := canon(as.Rhs[0])
		okNonNil := hasGuard(gs, false, func(e ast.Expr) bool {
			be, ok := e.(*ast.BinaryExpr)
			return ok && be.Op == token.EQL && isNilLit(be.Y) && canon(be.X) == rhs
		}) || hasGuard(gs, true, func(e ast.Expr) bool {
			be, ok := e.(*ast.BinaryExpr)
			return ok && be.Op == token.NEQ && isNilLit(be.Y) && canon(be.X) == rhs
		})
		okFirst := hasGuard(gs, true, func(e ast.Expr) bool {
			be, ok := e.(*ast.BinaryExpr)
			return ok && be.Op == token.EQL && isNilLit(be.Y) && canon(be.X) == errName
		}) || hasGuard(gs, false, func(e ast.Expr) bool {
			be, ok := e.(*ast.BinaryExpr)
			return ok && be.Op == token.NEQ && isNilLit(be.Y) && canon(be.X) == errName
		})
		if !okNonNil || !okFirst {
			iss(as, "error-selection", "the returned error is overwritten without the guards `received != nil` and `%s == nil`: a later nil completion can erase an earlier failure, so Do may report success although a function failed", errName)
		}
		return true
	})
	out = append(out, cf.sharedVarIssues(made)...)
	return out
}

func runR_C19(c *Ctx) {
	ps := []string{"fmap", "join", "dup", "pipeline"}
	sweepHealth(c, ps...)
	rR1(c, ps...)
	rR2(c, ps...)
	counts := map[string]int{}
	for _, p := range ps {
		for _, rs := range c.acceptedResids(p) {
			if rs.Err != nil || len(rs.Funcs) != 1 {
				continue
			}
			fn := rs.Funcs[0]
			if p == "pipeline" {
				counts[p]++
				if reportIssues(c, rs, "R12", "", pipelineIssues(rs, fn)) {
					c.Rep.pass("R12")
					if counts[p] == 1 {
						c.Rep.sample(map[string]interface{}{"plugin": p, "residual": rs.Run.Text})
					}
				}
				continue
			}
			cf := newChanFn(rs, fn)
			if len(cf.madeChans()) == 0 {
				continue // not a channel form
			}
			counts[p]++
			if reportIssues(c, rs, "R12", "", cf.combinatorIssues()) {
				c.Rep.pass("R12")
				c.Rep.sample(map[string]interface{}{"plugin": p, "path": rs.Run.shapeKey(), "residual": rs.Run.Text})
			}
		}
		if counts[p] == 0 {
			c.Rep.fail(Finding{Rule: "R12", Key: "R12|" + p + "|vacuity", Kind: "undecided", Plugin: p, Msg: p + ": no channel-form residual analysed"})
		}
	}
	c.Rep.analysed("channel_residuals", counts["fmap"]+counts["join"]+counts["dup"])
	if counts["join"] < 8 {
		c.Rep.fail(Finding{Rule: "R12", Key: "R12|join|forms", Kind: "undecided", Plugin: "join", Msg: fmt.Sprintf("only %d channel forms of join analysed (slice of channels, channel of channels, variadic select: at least 8 direction variants confirmed by hand)", counts["join"])})
	}
}

func runR_C20(c *Ctx) {
	sweepHealth(c, "do")
	rR1(c, "do")
	rR2(c, "do")
	n := 0
	for _, rs := range c.acceptedResids("do") {
		if rs.Err != nil || len(rs.Funcs) != 1 {
			continue
		}
		n++
		if reportIssues(c, rs, "R12", "", doIssues(rs, rs.Funcs[0])) {
			c.Rep.pass("R12")
			c.Rep.sample(map[string]interface{}{"plugin": "do", "path": rs.Run.shapeKey(), "residual": rs.Run.Text})
		}
	}
	if n < 2 {
		c.Rep.fail(Finding{Rule: "R12", Key: "R12|do|vacuity", Kind: "undecided", Plugin: "do", Msg: fmt.Sprintf("only %d residuals of Do analysed (n = 2 and n = 3 expected)", n)})
	}
	c.Rep.analysed("do_residuals", n)
}
