package main

import (
	"fmt"
	"os"
	"runtime/debug"
)

func stack() string { return string(debug.Stack()) }

func cmdReplay(path string) int {
	b, err := os.ReadFile(path)
	if err != nil {
		fmt.Fprintln(os.Stderr, err)
		return 2
	}
	var f Finding
	if err := jsonUnmarshal(b, &f); err != nil {
		fmt.Fprintln(os.Stderr, err)
		return 2
	}
	fmt.Printf("replaying %s (rule %s, key %s)\n", f.Property, f.Rule, f.Key)
	os.Setenv("GDV_ONLY_KEY", f.Key)
	return runCheck(f.Property, "thorough")
}
