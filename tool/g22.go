package main

import (
	"fmt"
	"go/ast"
	"go/token"
	"go/types"
	"strings"

	"golang.org/x/tools/go/cfg"
)

// G22 — the previous output is not an input of the first pass.
//
// C07 demands that the file a run leaves behind does not depend on what derived.gen.go held before. The type checker
// answers TypeOf(arg) from every file the loader parsed, so as long as the old derived.gen.go is loaded, types flow from it
// into the registration of calls (directly: deriveSort(deriveKeys(m)); through variables: ks := deriveKeys(m); deriveSort(ks)),
// and a remnant that go/build cannot read makes the load fail. The structural necessary condition decided here:
//
//	(a) every loader.Config literal of the driver installs a FindPackage hook F;
//	(b) F obtains the package description from (*build.Context).Import and, on every path to a return on which the package
//	    is non-nil and marked stale, has replaced its GoFiles by W(GoFiles, derivedFilename), where W — evaluated abstractly on
//	    literal lists — returns exactly the names different from its second argument, in order;
//	(c) the load that (*plugins).Load performs (whose program is the one the first pass of every package works on) marks
//	    every path it loads as stale; a load that marks nothing (the reload between passes) is preceded in its function by
//	    the Print of this run, so the file it reads is this run's own output;
//	(d) (remnant clause) F also removes derivedFilename from InvalidGoFiles and clears the error it returns only under a
//	    condition on what remains of InvalidGoFiles — a derived file go/build cannot read (cut before its package clause is
//	    complete) is then not an error, and no other error is swallowed.
//
// G17 (stale signatures) is discharged by (a)–(c); G19 (interrupted write) by (a)–(d) or, failing that, by an atomic replace.
type staleHiding struct {
	recvAt   map[types.Object]types.Object // receiver of a method-value hook -> the variable the method value was taken from
	hook     bool                          // some FindPackage hook exists
	goFiles  bool                          // (a)-(c)
	invalid  bool                          // (d)
	findings []Finding
	samples  []map[string]string
	sites    int
}

var staleHidingMemo = map[*Repo]*staleHiding{}

func staleHidden(c *Ctx) *staleHiding {
	if h, ok := staleHidingMemo[c.Repo]; ok {
		return h
	}
	h := computeStaleHiding(c)
	staleHidingMemo[c.Repo] = h
	return h
}

func isBuildContextImport(o types.Object) bool {
	fn, ok := o.(*types.Func)
	if !ok || fn.Name() != "Import" || fn.Pkg() == nil || fn.Pkg().Path() != "go/build" {
		return false
	}
	return fn.Type().(*types.Signature).Recv() != nil
}

func computeStaleHiding(c *Ctx) *staleHiding {
	r := c.Repo
	h := &staleHiding{}
	fail := func(kind, msg string, pos token.Pos, undecided bool) {
		f := Finding{Rule: "G22", Key: "G22|hide|" + kind, Where: []string{r.pos(pos)}, Msg: msg}
		if undecided {
			f.Kind = "undecided"
		}
		h.findings = append(h.findings, f)
	}
	type hookSite struct {
		owner *Body
		fn    ast.Node // *ast.FuncLit or *ast.FuncDecl
		typ   *ast.FuncType
		body  *ast.BlockStmt
		info  *types.Info
		pos   token.Pos
	}
	var hooks []hookSite
	configs, unhooked := 0, 0
	for _, b := range r.bodies() {
		if b.Pkg.Name != "derive" && b.Pkg.Name != "main" {
			continue
		}
		info := b.Pkg.TypesInfo
		inspectOwn(b.Block, func(m ast.Node) bool {
			cl, ok := m.(*ast.CompositeLit)
			if !ok {
				return true
			}
			t := info.TypeOf(cl)
			nt, _ := t.(*types.Named)
			if nt == nil || nt.Obj().Name() != "Config" || nt.Obj().Pkg() == nil || !strings.HasSuffix(nt.Obj().Pkg().Path(), "go/loader") {
				return true
			}
			configs++
			found := false
			for _, e := range cl.Elts {
				kv, ok := e.(*ast.KeyValueExpr)
				if !ok || exprStr(kv.Key) != "FindPackage" {
					continue
				}
				found = true
				switch v := ast.Unparen(kv.Value).(type) {
				case *ast.FuncLit:
					hooks = append(hooks, hookSite{b, v, v.Type, v.Body, info, v.Pos()})
				case *ast.Ident:
					if fn, ok := info.Uses[v].(*types.Func); ok {
						if fi := r.Decls[fn]; fi != nil && fi.Decl.Body != nil {
							hooks = append(hooks, hookSite{b, fi.Decl, fi.Decl.Type, fi.Decl.Body, fi.Pkg.TypesInfo, fi.Decl.Pos()})
							break
						}
					}
					fail("hook-unresolved", b.Name+" installs a FindPackage hook that cannot be resolved to a function body", v.Pos(), true)
				case *ast.SelectorExpr:
					// a method value x.m: the method's receiver stands for x
					if sel := info.Selections[v]; sel != nil && sel.Kind() == types.MethodVal {
						if fn, ok := sel.Obj().(*types.Func); ok {
							if fi := r.Decls[fn]; fi != nil && fi.Decl.Body != nil && fi.Decl.Recv != nil && len(fi.Decl.Recv.List) == 1 && len(fi.Decl.Recv.List[0].Names) == 1 {
								if xid, ok := ast.Unparen(v.X).(*ast.Ident); ok {
									if h.recvAt == nil {
										h.recvAt = map[types.Object]types.Object{}
									}
									h.recvAt[fi.Pkg.TypesInfo.Defs[fi.Decl.Recv.List[0].Names[0]]] = info.Uses[xid]
									hooks = append(hooks, hookSite{b, fi.Decl, fi.Decl.Type, fi.Decl.Body, fi.Pkg.TypesInfo, fi.Decl.Pos()})
									break
								}
							}
						}
					}
					fail("hook-unresolved", b.Name+" installs a FindPackage hook that cannot be resolved to a function body", v.Pos(), true)
				default:
					fail("hook-unresolved", b.Name+" installs a FindPackage hook that is not a function literal or a declared function", kv.Value.Pos(), true)
				}
			}
			if !found {
				unhooked++
			}
			return true
		})
	}
	h.sites = configs
	if len(hooks) == 0 {
		return h // no hook anywhere: the previous output is loaded like any other file (decided by the callers: G17, G19)
	}
	h.hook = true
	if unhooked > 0 {
		fail("config-without-hook", fmt.Sprintf("%d of %d loader.Config literals have no FindPackage hook: that load parses the derived.gen.go of the previous run like a user file", unhooked, configs), hooks[0].pos, false)
	}
	okGo, okInv := true, true
	for _, hk := range hooks {
		g, i := analyseHook(c, h, hk.owner, hk.typ, hk.body, hk.info, hk.pos, fail)
		okGo = okGo && g
		okInv = okInv && i
	}
	h.goFiles = okGo && unhooked == 0
	h.invalid = h.goFiles && okInv
	return h
}

// constIs reports whether e is a constant expression with the given string value.
func constIs(info *types.Info, e ast.Expr, val string) bool {
	tv, ok := info.Types[e]
	if !ok || tv.Value == nil {
		return false
	}
	return tv.Value.ExactString() == fmt.Sprintf("%q", val)
}

func derivedFilenameValue(r *Repo) string {
	for _, p := range r.Pkgs {
		if p.Name != "derive" || p.Types == nil {
			continue
		}
		if o, ok := p.Types.Scope().Lookup("derivedFilename").(*types.Const); ok {
			s := o.Val().ExactString()
			if len(s) >= 2 {
				return s[1 : len(s)-1]
			}
		}
	}
	return ""
}

func analyseHook(c *Ctx, h *staleHiding, owner *Body, typ *ast.FuncType, body *ast.BlockStmt, info *types.Info, pos token.Pos,
	fail func(kind, msg string, pos token.Pos, undecided bool)) (goFilesOK, invalidOK bool) {
	r := c.Repo
	derived := derivedFilenameValue(r)
	if derived == "" {
		fail("no-constant", "the constant derivedFilename was not found", pos, true)
		return false, false
	}
	// parameters: (ctxt, importPath, fromDir, mode)
	var params []types.Object
	for _, f := range typ.Params.List {
		for _, n := range f.Names {
			params = append(params, info.Defs[n])
		}
	}
	if len(params) != 4 {
		fail("hook-shape", "the FindPackage hook does not name its four parameters", pos, true)
		return false, false
	}
	importPath := params[1]
	// context form (g22b.go): no edit of the returned package's GoFiles anywhere in the hook
	editsGoFiles := nodeHas(body, func(k ast.Node) bool {
		as, ok := k.(*ast.AssignStmt)
		if !ok || len(as.Lhs) != 1 {
			return false
		}
		sel, ok := as.Lhs[0].(*ast.SelectorExpr)
		return ok && sel.Sel.Name == "GoFiles"
	})
	if !editsGoFiles {
		a := &ctxHiding{c: c, derived: derived, fail: fail, memo: map[*ast.BlockStmt]bool{}}
		ok := a.analyse(hookFn{info: info, pkg: owner.Pkg, typ: typ, body: body, pos: pos, params: params}, 1, false, 0)
		if !ok {
			if len(h.findings) == 0 {
				fail("not-hidden", "the FindPackage hook neither removes "+derived+" from the GoFiles of the package it returns nor reads the package directory through a context that hides it: the previous output is parsed and type-checked with the user's files", pos, false)
			}
			return false, false
		}
		goFilesOK = true
		if a.staleObj != nil {
			if at, ok := h.recvAt[a.staleObj]; ok && at != nil {
				a.staleObj = at // the receiver of a method-value hook is the value the method was taken from
			}
			goFilesOK = staleMarking(c, h, owner, a.staleObj, fail)
		}
		if goFilesOK {
			h.samples = append(h.samples, map[string]string{"rule": "G22 previous output hidden from the first load (context form)", "hook": r.pos(pos)})
			h.samples = append(h.samples, a.samples...)
		}
		// go/build never sees the derived file: a remnant cannot be an invalid file, rename the package or fail the load
		return goFilesOK, goFilesOK
	}
	// filter form: the hook edits what ctxt.Import returned. go/build has read the package clause (and the imports) of every .go
	// file of the directory before Import returns: a derived file with another package clause (the package was renamed since the
	// last run) or without one (the remnant of an interrupted write, an empty file) makes Import fail with a
	// MultiplePackageError / a parse error and a package description that cannot be repaired by dropping a name from GoFiles;
	// the loader then drops the package and goderive exits 0 without having generated anything (or fails for ever). Only a
	// directory listing that never shows the file keeps it out (context form). The remaining clauses are still examined so
	// that the report says everything that is wrong.
	fail("filter-after-import", "the FindPackage hook lets go/build read "+derived+" (ctxt.Import on the unfiltered directory) and only afterwards drops the name from the package it returns: a derived file whose package clause differs from the sources' (renamed package) or is missing (truncated or empty remnant) has by then failed the import, so the package is silently skipped or every later run fails; the file must be hidden from the directory listing go/build sees", pos, false)
	// bp, err := ctxt.Import(importPath, …)
	var bpObj, errObj types.Object
	imports := 0
	ast.Inspect(body, func(m ast.Node) bool {
		as, ok := m.(*ast.AssignStmt)
		if !ok || len(as.Rhs) != 1 || len(as.Lhs) != 2 {
			return true
		}
		call, ok := as.Rhs[0].(*ast.CallExpr)
		if !ok || !isBuildContextImport(callee(info, call)) {
			return true
		}
		imports++
		if len(call.Args) >= 1 {
			if id, ok := call.Args[0].(*ast.Ident); !ok || info.Uses[id] != importPath {
				fail("import-other-path", "the hook asks go/build for another path than the one it was asked for", call.Pos(), false)
			}
		}
		if id, ok := as.Lhs[0].(*ast.Ident); ok {
			bpObj = objOf(info, id)
		}
		if id, ok := as.Lhs[1].(*ast.Ident); ok {
			errObj = objOf(info, id)
		}
		return true
	})
	if imports != 1 || bpObj == nil || errObj == nil {
		fail("hook-shape", "the FindPackage hook does not obtain the package with exactly one `bp, err := ctxt.Import(…)`", pos, true)
		return false, false
	}
	isField := func(e ast.Expr, field string) bool {
		sel, ok := ast.Unparen(e).(*ast.SelectorExpr)
		if !ok || sel.Sel.Name != field {
			return false
		}
		id, ok := sel.X.(*ast.Ident)
		return ok && info.Uses[id] == bpObj
	}
	// filterCall: W(bp.<field>, derivedFilename)
	filterCall := func(e ast.Expr, field string) *ast.CallExpr {
		call, ok := ast.Unparen(e).(*ast.CallExpr)
		if !ok || len(call.Args) != 2 {
			return nil
		}
		if !isField(call.Args[0], field) || !constIs(info, call.Args[1], derived) {
			return nil
		}
		return call
	}
	var hideStmt *ast.AssignStmt
	var hideCall *ast.CallExpr
	ast.Inspect(body, func(m ast.Node) bool {
		as, ok := m.(*ast.AssignStmt)
		if !ok || len(as.Lhs) != 1 || len(as.Rhs) != 1 || !isField(as.Lhs[0], "GoFiles") {
			return true
		}
		if fc := filterCall(as.Rhs[0], "GoFiles"); fc != nil && as.Tok == token.ASSIGN {
			hideStmt, hideCall = as, fc
		} else {
			fail("gofiles-other", "the hook assigns bp.GoFiles something else than a filter of bp.GoFiles by derivedFilename: "+exprStr(as.Rhs[0]), as.Pos(), false)
		}
		return true
	})
	if hideStmt == nil {
		fail("not-hidden", "the FindPackage hook never removes "+derived+" from the GoFiles of the package it returns: the previous output is parsed and type-checked with the user's files, and the argument types of derive calls can come from it", pos, false)
		return false, false
	}
	// W is a filter
	if !filterSemantics(c, info, hideCall, fail) {
		return false, false
	}
	// path rule
	staleObj, pathOK := hookPaths(r, info, body, hideStmt, bpObj, importPath, fail)
	if !pathOK {
		return false, false
	}
	goFilesOK = true
	if staleObj != nil {
		goFilesOK = staleMarking(c, h, owner, staleObj, fail)
	}
	if goFilesOK {
		h.samples = append(h.samples, map[string]string{"rule": "G22 previous output hidden from the first load", "hook": r.pos(pos), "filter": exprStr(hideStmt)})
	}

	// (d) remnant clause
	invalidOK = true
	var invStmt *ast.AssignStmt
	derivedFrom := map[types.Object]bool{} // locals computed from bp.InvalidGoFiles
	ast.Inspect(body, func(m ast.Node) bool {
		as, ok := m.(*ast.AssignStmt)
		if !ok || len(as.Lhs) != 1 || len(as.Rhs) != 1 {
			return true
		}
		if filterCall(as.Rhs[0], "InvalidGoFiles") != nil {
			if id, ok := as.Lhs[0].(*ast.Ident); ok {
				derivedFrom[objOf(info, id)] = true
			}
			if isField(as.Lhs[0], "InvalidGoFiles") {
				invStmt = as
			}
		}
		if isField(as.Lhs[0], "InvalidGoFiles") {
			if id, ok := ast.Unparen(as.Rhs[0]).(*ast.Ident); ok && derivedFrom[info.Uses[id]] {
				invStmt = as
			}
		}
		return true
	})
	mentionsInvalid := func(e ast.Expr) bool {
		return nodeHas(e, func(k ast.Node) bool {
			switch x := k.(type) {
			case *ast.Ident:
				return derivedFrom[info.Uses[x]]
			case *ast.SelectorExpr:
				return x.Sel.Name == "InvalidGoFiles"
			}
			return false
		})
	}
	cleared := 0
	var walk func(n ast.Node, conds []ast.Expr)
	walk = func(n ast.Node, conds []ast.Expr) {
		switch x := n.(type) {
		case *ast.BlockStmt:
			for _, s := range x.List {
				walk(s, conds)
			}
		case *ast.IfStmt:
			walk(x.Body, append(append([]ast.Expr{}, conds...), x.Cond))
			if x.Init != nil {
				walk(x.Init, conds)
			}
			if x.Else != nil {
				walk(x.Else, append(append([]ast.Expr{}, conds...), x.Cond))
			}
		case *ast.ForStmt:
			walk(x.Body, conds)
		case *ast.RangeStmt:
			walk(x.Body, conds)
		case *ast.AssignStmt:
			for i, l := range x.Lhs {
				id, ok := l.(*ast.Ident)
				if !ok || objOf(info, id) != errObj || x.Tok != token.ASSIGN {
					continue
				}
				var rhs ast.Expr
				if len(x.Rhs) == len(x.Lhs) {
					rhs = x.Rhs[i]
				}
				if rid, ok := rhs.(*ast.Ident); !ok || rid.Name != "nil" {
					continue
				}
				governed := false
				for _, cd := range conds {
					if mentionsInvalid(cd) {
						governed = true
					}
				}
				if governed {
					cleared++
				} else {
					invalidOK = false
					fail("error-swallowed", "the FindPackage hook clears the error of go/build under a condition that does not examine what remains of InvalidGoFiles: errors that have nothing to do with the derived file (no such package, unreadable user files) are swallowed", x.Pos(), false)
				}
			}
		}
	}
	walk(body, nil)
	if invStmt == nil || cleared == 0 {
		invalidOK = false
	} else {
		h.samples = append(h.samples, map[string]string{"rule": "G22 an unreadable derived file is not a load error", "hook": r.pos(pos), "filter": exprStr(invStmt)})
	}
	return goFilesOK, invalidOK
}

func objOf(info *types.Info, id *ast.Ident) types.Object {
	if o := info.Defs[id]; o != nil {
		return o
	}
	return info.Uses[id]
}

// filterSemantics evaluates W abstractly on literal lists: W(l, x) must be the elements of l that differ from x, in order.
func filterSemantics(c *Ctx, info *types.Info, call *ast.CallExpr, fail func(kind, msg string, pos token.Pos, undecided bool)) bool {
	fn, _ := callee(info, call).(*types.Func)
	var fi *FuncInfo
	if fn != nil {
		fi = c.Repo.Decls[fn]
	}
	if fi == nil || fi.Decl.Body == nil {
		fail("filter-unresolved", "the function that removes the derived file from GoFiles cannot be resolved to a body in this repository: "+exprStr(call.Fun), call.Pos(), true)
		return false
	}
	type tc struct {
		in   []string
		drop string
	}
	tests := []tc{
		{[]string{"a.go", "derived.gen.go", "b.go"}, "derived.gen.go"},
		{[]string{"derived.gen.go"}, "derived.gen.go"},
		{[]string{}, "derived.gen.go"},
		{[]string{"a.go", "b.go"}, "derived.gen.go"},
		{[]string{"derived.gen.go", "a.go", "derived.gen.go", "z.go", "aderived.gen.go", "derived.gen.go.go"}, "derived.gen.go"},
		{[]string{"x", "y", "x"}, "x"},
	}
	for _, t := range tests {
		l := &VList{}
		for _, s := range t.in {
			l.Elems = append(l.Elems, lit(s))
		}
		in := &Interp{repo: c.Repo, plugin: "derive", decls: c.GDecls, or: &Oracle{}, memo: map[string]int{}, shape: 1, arities: []int{1, 0},
			preds: map[string]Value{}, stack: map[*ast.FuncDecl]int{}, imports: map[string]int{}, importUse: map[string]bool{}, holes: map[string]*Hole{}, g9mode: true}
		var res Value
		msg := ""
		func() {
			defer func() {
				if e := recover(); e != nil {
					if a, ok := e.(abort); ok {
						msg = a.kind + ": " + a.msg
						return
					}
					msg = fmt.Sprint(e)
				}
			}()
			res = in.callFunc(&VFunc{Decl: fi.Decl, Pkg: fi.Pkg}, []Value{l, lit(t.drop)}, token.NoPos)
		}()
		var want []string
		for _, s := range t.in {
			if s != t.drop {
				want = append(want, s)
			}
		}
		rl, isList := res.(*VList)
		if msg != "" || !isList || len(in.decisions) > 0 {
			fail("filter-undecided", fmt.Sprintf("%s cannot be evaluated abstractly on %q: %s", funcKey(fn), t.in, msg), fi.Decl.Pos(), true)
			return false
		}
		var got []string
		okLits := true
		for _, e := range rl.Elems {
			s, isStr := e.(VStr)
			if !isStr {
				okLits = false
				break
			}
			v, isLit := s.isLit()
			if !isLit {
				okLits = false
				break
			}
			got = append(got, v)
		}
		if !okLits {
			fail("filter-undecided", fmt.Sprintf("%s returns something else than a list of names on %q", funcKey(fn), t.in), fi.Decl.Pos(), true)
			return false
		}
		if strings.Join(got, "\x00") != strings.Join(want, "\x00") || len(got) != len(want) {
			fail("filter-wrong", fmt.Sprintf("%s(%q, %q) = %q, want %q: the hook does not remove exactly the derived file from the package's files (the previous output is still loaded, or user files are hidden from the generator)", funcKey(fn), t.in, t.drop, got, want), fi.Decl.Pos(), false)
			return false
		}
	}
	return true
}

// hookPaths walks every path of the hook's control-flow graph: a return reached without having passed the hide statement
// must lie behind a branch that establishes "bp is nil" or "importPath is not marked stale". Returns the object of the map
// that marks stale paths (nil if the hook hides unconditionally).
func hookPaths(r *Repo, info *types.Info, body *ast.BlockStmt, hide *ast.AssignStmt, bpObj, importPath types.Object,
	fail func(kind, msg string, pos token.Pos, undecided bool)) (types.Object, bool) {
	var staleObj types.Object
	bad := false
	// skipAtom: cond (with the given truth value) establishes bp == nil or !stale[importPath]
	var implies func(e ast.Expr, truth bool) bool
	implies = func(e ast.Expr, truth bool) bool {
		switch x := ast.Unparen(e).(type) {
		case *ast.UnaryExpr:
			if x.Op == token.NOT {
				return implies(x.X, !truth)
			}
		case *ast.BinaryExpr:
			switch {
			case x.Op == token.LOR && truth:
				return implies(x.X, true) && implies(x.Y, true)
			case x.Op == token.LAND && !truth:
				return implies(x.X, false) && implies(x.Y, false)
			case x.Op == token.EQL || x.Op == token.NEQ:
				isBp := func(a, b ast.Expr) bool {
					id, ok := ast.Unparen(a).(*ast.Ident)
					nl, ok2 := ast.Unparen(b).(*ast.Ident)
					return ok && ok2 && info.Uses[id] == bpObj && nl.Name == "nil"
				}
				if isBp(x.X, x.Y) || isBp(x.Y, x.X) {
					return (x.Op == token.EQL) == truth
				}
			}
		case *ast.IndexExpr:
			if truth {
				return false
			}
			id, ok := ast.Unparen(x.X).(*ast.Ident)
			ix, ok2 := ast.Unparen(x.Index).(*ast.Ident)
			if !ok || !ok2 || info.Uses[ix] != importPath {
				return false
			}
			m, isMap := info.TypeOf(x.X).Underlying().(*types.Map)
			if !isMap {
				return false
			}
			if b, isB := m.Elem().Underlying().(*types.Basic); !isB || b.Kind() != types.Bool {
				return false
			}
			o := info.Uses[id]
			if staleObj != nil && staleObj != o {
				return false
			}
			staleObj = o
			return true
		}
		return false
	}
	g := newGraph(body, func(*ast.CallExpr) bool { return true })
	type state struct {
		b      *cfg.Block
		hidden bool
		skip   bool
	}
	seen := map[state]bool{}
	returns := 0
	var dfs func(s state)
	dfs = func(s state) {
		if seen[s] {
			return
		}
		seen[s] = true
		hidden := s.hidden
		for _, n := range s.b.Nodes {
			if n == ast.Node(hide) {
				hidden = true
			}
			if ret, ok := n.(*ast.ReturnStmt); ok {
				returns++
				if len(ret.Results) == 2 {
					if id, ok := ast.Unparen(ret.Results[0]).(*ast.Ident); !ok || (info.Uses[id] != bpObj && id.Name != "nil") {
						bad = true
						fail("returns-other-package", "the FindPackage hook returns another package description than the one it filtered: "+exprStr(ret.Results[0]), ret.Pos(), false)
					}
				}
				if !hidden && !s.skip {
					bad = true
					fail("not-on-every-path", "the FindPackage hook can return a stale package without having removed derivedFilename from its GoFiles (return at "+r.pos(ret.Pos())+" is reachable without passing `"+exprStr(hide)+"` and not behind `bp == nil` or `!stale[importPath]`): on that path the previous output is loaded and types flow from it into the registration of calls", ret.Pos(), false)
				}
			}
		}
		if len(s.b.Succs) == 2 {
			var cond ast.Expr
			if ifs, ok := s.b.Succs[0].Stmt.(*ast.IfStmt); ok && s.b.Succs[0].Kind == cfg.KindIfThen {
				cond = ifs.Cond
			}
			for i, succ := range s.b.Succs {
				skip := s.skip
				// a skip established before the hide statement is what licenses a return; once established it stays
				if cond != nil && !hidden && implies(cond, i == 0) {
					skip = true
				}
				dfs(state{succ, hidden, skip})
			}
			return
		}
		for _, succ := range s.b.Succs {
			dfs(state{succ, hidden, s.skip})
		}
	}
	if e := g.entry(); e != nil {
		dfs(state{e, false, false})
	}
	if returns == 0 {
		fail("hook-shape", "the FindPackage hook has no return statement the analysis can see", body.Pos(), true)
		return nil, false
	}
	return staleObj, !bad
}

// staleMarking: the map consulted by the hook is a parameter of the function that builds the loader.Config; following that
// parameter up through the callers (a caller may pass its own parameter on), every call either passes nil — nothing is
// hidden, so this run's Print must come before it — or a map in which every element of the list of paths that is loaded has
// been marked; the marking call chain must start in (*plugins).Load, whose program the first pass of every package works on.
func staleMarking(c *Ctx, h *staleHiding, owner *Body, staleObj types.Object, fail func(kind, msg string, pos token.Pos, undecided bool)) bool {
	r := c.Repo
	var ownerFn *types.Func
	if owner.Owner != nil && owner.Lit == nil {
		ownerFn = owner.Owner.Fn
	}
	if ownerFn == nil {
		fail("stale-owner", "the function that builds the loader.Config is not a declared function", owner.Block.Pos(), true)
		return false
	}
	paramIdx := func(fn *types.Func, o types.Object) int {
		sig := fn.Type().(*types.Signature)
		for i := 0; i < sig.Params().Len(); i++ {
			if sig.Params().At(i) == o {
				return i
			}
		}
		return -1
	}
	idx := paramIdx(ownerFn, staleObj)
	if idx < 0 {
		fail("stale-owner", fmt.Sprintf("the set of stale paths consulted by the hook is not a parameter of %s", funcKey(ownerFn)), owner.Block.Pos(), true)
		return false
	}
	type site struct {
		b    *Body
		call *ast.CallExpr
	}
	callSites := func(fn *types.Func) []site {
		var out []site
		for _, b := range r.bodies() {
			if b.Pkg.Name != "derive" && b.Pkg.Name != "main" {
				continue
			}
			info := b.Pkg.TypesInfo
			inspectOwn(b.Block, func(m ast.Node) bool {
				if call, isCall := m.(*ast.CallExpr); isCall && callee(info, call) == types.Object(fn) {
					out = append(out, site{b, call})
				}
				return true
			})
		}
		return out
	}
	declared := func(b *Body) *types.Func {
		if b.Owner != nil && b.Lit == nil {
			return b.Owner.Fn
		}
		return nil
	}
	// freshOK: the call (which hides nothing) comes after this run's Print, in its own body or in every caller of its function
	var freshOK func(st site, depth int) bool
	freshOK = func(st site, depth int) bool {
		if printBefore(r, st.b, st.call) {
			return true
		}
		fn := declared(st.b)
		if fn == nil || depth > 3 {
			return false
		}
		cs := callSites(fn)
		if len(cs) == 0 {
			return false
		}
		for _, c2 := range cs {
			if !freshOK(c2, depth+1) {
				return false
			}
		}
		return true
	}
	ok := true
	sites, marked := 0, 0
	firstLoadMarked := false
	seen := map[string]bool{}
	var follow func(fn *types.Func, idx int, depth int, viaLoad bool)
	follow = func(fn *types.Func, idx int, depth int, viaLoad bool) {
		k := fmt.Sprintf("%s#%d", funcKey(fn), idx)
		if seen[k] || depth > 4 {
			return
		}
		seen[k] = true
		for _, st := range callSites(fn) {
			sites++
			b, call := st.b, st.call
			info := b.Pkg.TypesInfo
			if call.Ellipsis.IsValid() || idx >= len(call.Args) {
				fail("stale-call", b.Name+" calls "+funcKey(fn)+" in a form the analysis does not follow", call.Pos(), true)
				ok = false
				continue
			}
			sa := ast.Unparen(call.Args[idx])
			id, isID := sa.(*ast.Ident)
			if !isID {
				fail("stale-call", b.Name+" passes a set of stale paths the analysis does not follow: "+exprStr(sa), call.Pos(), true)
				ok = false
				continue
			}
			if id.Name == "nil" && info.Uses[id] == types.Universe.Lookup("nil") {
				if !freshOK(st, 0) {
					fail("fresh-load-before-print", b.Name+" loads a package with nothing marked stale although this run has not written its derived file yet: the derived.gen.go that is parsed is the previous output", call.Pos(), false)
					ok = false
				}
				continue
			}
			mObj := info.Uses[id]
			if dfn := declared(b); dfn != nil {
				if pi := paramIdx(dfn, mObj); pi >= 0 {
					follow(dfn, pi, depth+1, viaLoad)
					continue
				}
			}
			// the same map under other local names (m2 = m, m2 := m): a map value is a reference
			alias := map[types.Object]bool{mObj: true}
			for changed := true; changed; {
				changed = false
				inspectOwn(b.Block, func(k ast.Node) bool {
					as, isAs := k.(*ast.AssignStmt)
					if !isAs || len(as.Lhs) != len(as.Rhs) {
						return true
					}
					for i2, l := range as.Lhs {
						lid, ok1 := l.(*ast.Ident)
						rid, ok2 := ast.Unparen(as.Rhs[i2]).(*ast.Ident)
						if !ok1 || !ok2 {
							continue
						}
						lo, ro := objOf(info, lid), info.Uses[rid]
						if lo == nil || ro == nil {
							continue
						}
						if alias[lo] != alias[ro] {
							alias[lo], alias[ro] = true, true
							changed = true
						}
					}
					return true
				})
			}
			// a set written as map[K]struct{}: every stored element marks
			marks := func(e ast.Expr) bool {
				if constIsTrue(info, e) {
					return true
				}
				if t := info.TypeOf(e); t != nil {
					if st, isSt := t.Underlying().(*types.Struct); isSt && st.NumFields() == 0 {
						return true
					}
				}
				return false
			}
			// a local map: for _, p := range P { m[p] = true }, unconditional, before the call; P is what is loaded
			all := false
			var ranged types.Object
			inspectOwn(b.Block, func(k ast.Node) bool {
				// the loop over the whole list P, in one of its forms: for _, p := range P / for i := range P /
				// for i := 0; i < len(P); i++ — with the element written p resp. P[i]
				var body *ast.BlockStmt
				var listObj, valObj, idxObj types.Object
				switch lp := k.(type) {
				case *ast.RangeStmt:
					if lp.Pos() > call.Pos() {
						return true
					}
					x, isX := ast.Unparen(lp.X).(*ast.Ident)
					if !isX {
						return true
					}
					listObj, body = info.Uses[x], lp.Body
					if v, isV := lp.Value.(*ast.Ident); isV && lp.Value != nil {
						valObj = info.Defs[v]
					}
					if kk, isK := lp.Key.(*ast.Ident); isK && lp.Key != nil && kk.Name != "_" {
						idxObj = info.Defs[kk]
					}
				case *ast.ForStmt:
					if lp.Pos() > call.Pos() || lp.Init == nil || lp.Cond == nil || lp.Post == nil {
						return true
					}
					init, ok1 := lp.Init.(*ast.AssignStmt)
					cond, ok2 := ast.Unparen(lp.Cond).(*ast.BinaryExpr)
					post, ok3 := lp.Post.(*ast.IncDecStmt)
					if !ok1 || !ok2 || !ok3 || len(init.Lhs) != 1 || len(init.Rhs) != 1 || exprStr(init.Rhs[0]) != "0" || cond.Op != token.LSS || post.Tok != token.INC {
						return true
					}
					iv, isI := init.Lhs[0].(*ast.Ident)
					lc, isL := ast.Unparen(cond.Y).(*ast.CallExpr)
					if !isI || !isL || exprStr(lc.Fun) != "len" || len(lc.Args) != 1 || exprStr(cond.X) != iv.Name || exprStr(post.X) != iv.Name {
						return true
					}
					x, isX := ast.Unparen(lc.Args[0]).(*ast.Ident)
					if !isX {
						return true
					}
					listObj, idxObj, body = info.Uses[x], objOf(info, iv), lp.Body
				default:
					return true
				}
				isElem := func(e ast.Expr) bool {
					switch y := ast.Unparen(e).(type) {
					case *ast.Ident:
						return valObj != nil && info.Uses[y] == valObj
					case *ast.IndexExpr:
						lx, ok1 := ast.Unparen(y.X).(*ast.Ident)
						li, ok2 := ast.Unparen(y.Index).(*ast.Ident)
						return ok1 && ok2 && idxObj != nil && info.Uses[lx] == listObj && info.Uses[li] == idxObj
					}
					return false
				}
				for _, stt := range body.List {
					as, isAs := stt.(*ast.AssignStmt)
					if !isAs || len(as.Lhs) != 1 || len(as.Rhs) != 1 {
						continue
					}
					ix, isIx := as.Lhs[0].(*ast.IndexExpr)
					if !isIx {
						continue
					}
					mid, isM := ast.Unparen(ix.X).(*ast.Ident)
					if isM && alias[info.Uses[mid]] && isElem(ix.Index) && marks(as.Rhs[0]) {
						all = true
						ranged = listObj
					}
				}
				return true
			})
			// the ranged list is the list that is loaded: an argument of this call, or of a FromArgs call in this body
			if all {
				loaded := false
				isRanged := func(e ast.Expr) bool {
					pid, isP := ast.Unparen(e).(*ast.Ident)
					return isP && info.Uses[pid] == ranged
				}
				for _, a := range call.Args {
					if isRanged(a) {
						loaded = true
					}
				}
				inspectOwn(b.Block, func(k ast.Node) bool {
					if cl, isC := k.(*ast.CallExpr); isC {
						if sel, isS := cl.Fun.(*ast.SelectorExpr); isS && sel.Sel.Name == "FromArgs" && len(cl.Args) > 0 && isRanged(cl.Args[0]) {
							loaded = true
						}
					}
					return true
				})
				if !loaded {
					all = false
				}
			}
			// nothing may unmark a path between the loop and the call
			inspectOwn(b.Block, func(k ast.Node) bool {
				switch x := k.(type) {
				case *ast.CallExpr:
					if exprStr(x.Fun) == "delete" && len(x.Args) == 2 {
						if mid, isM := ast.Unparen(x.Args[0]).(*ast.Ident); isM && alias[info.Uses[mid]] {
							all = false
						}
					}
				case *ast.AssignStmt:
					for i, l := range x.Lhs {
						if ix, isIx := l.(*ast.IndexExpr); isIx && len(x.Rhs) == len(x.Lhs) {
							if mid, isM := ast.Unparen(ix.X).(*ast.Ident); isM && alias[info.Uses[mid]] && !marks(x.Rhs[i]) {
								all = false
							}
						}
					}
				}
				return true
			})
			if all {
				marked++
				if b.Name == "derive.(*plugins).Load" {
					firstLoadMarked = true
				}
			} else {
				fail("not-all-paths-stale", b.Name+" does not mark every path it loads as stale (expected `for _, p := range paths { "+id.Name+"[p] = true }` with the assignment unconditional and the same list loaded): for an unmarked package the previous derived.gen.go is loaded", call.Pos(), false)
				ok = false
			}
		}
	}
	follow(ownerFn, idx, 0, false)
	if sites < 2 {
		fail("stale-callers", fmt.Sprintf("fewer calls that reach %s than confirmed by hand (the first load and the reload between passes)", funcKey(ownerFn)), owner.Block.Pos(), true)
		return false
	}
	if ok && !firstLoadMarked {
		fail("first-load-not-stale", "the load in (*plugins).Load, whose program the first pass of every package works on, does not mark its paths as stale", owner.Block.Pos(), false)
		return false
	}
	_ = marked
	return ok
}

func constIsTrue(info *types.Info, e ast.Expr) bool {
	tv, ok := info.Types[e]
	return ok && tv.Value != nil && tv.Value.String() == "true"
}

// printBefore: in the body b, an earlier statement of a block enclosing the call contains a call of (*pkg).Print.
func printBefore(r *Repo, b *Body, call *ast.CallExpr) bool {
	info := b.Pkg.TypesInfo
	isPrint := func(k ast.Node) bool {
		cl, ok := k.(*ast.CallExpr)
		if !ok {
			return false
		}
		fn, ok := callee(info, cl).(*types.Func)
		return ok && funcKey(fn) == "derive.(*pkg).Print"
	}
	found := false
	var walk func(n ast.Node) bool // returns whether n contains the call
	walk = func(n ast.Node) bool {
		if n == nil || !(n.Pos() <= call.Pos() && call.End() <= n.End()) {
			return false
		}
		if blk, ok := n.(*ast.BlockStmt); ok {
			for i, st := range blk.List {
				if st.Pos() <= call.Pos() && call.End() <= st.End() {
					for _, prev := range blk.List[:i] {
						if nodeHas(prev, isPrint) {
							found = true
						}
					}
					walk(st)
					return true
				}
			}
			return true
		}
		ast.Inspect(n, func(k ast.Node) bool {
			if k == nil || k == n {
				return true
			}
			if blk, ok := k.(*ast.BlockStmt); ok {
				walk(blk)
				return false
			}
			return true
		})
		return true
	}
	walk(b.Block)
	return found
}

// g22PreviousOutputHidden reports the findings of the analysis (only when a hook exists: a driver without any hook is decided
// by G17 and G19, whose necessary conditions it then has to meet in another way).
func g22PreviousOutputHidden(c *Ctx) {
	h := staleHidden(c)
	c.Rep.analysed("loader_config_literals", h.sites)
	for _, f := range h.findings {
		c.Rep.fail(f)
	}
	for _, s := range h.samples {
		c.Rep.sample(s)
	}
	if h.goFiles {
		c.Rep.pass("G22")
	}
	if h.invalid {
		c.Rep.pass("G22")
	}
}
