package main

import (
	"go/ast"
	"go/token"
	"go/types"

	"golang.org/x/tools/go/cfg"
)

// G11 — work-list completeness: nothing reports success before every requested function was emitted, and a
// (name <-> argument types) lookup answers only on the strength of the type comparison itself.

// condOutcomeDominates: some block whose branch condition satisfies match(cond) (returning which outcome, true/false, is the
// "good" one) dominates target, and target is not reachable from the other outcome without passing the condition again.
func condOutcomeDominates(g *Graph, target *cfg.Block, match func(ast.Expr) (goodWhenTrue bool, ok bool)) bool {
	for _, b := range g.Blocks {
		if len(b.Succs) != 2 || len(b.Nodes) == 0 {
			continue
		}
		cond, ok := b.Nodes[len(b.Nodes)-1].(ast.Expr)
		if !ok {
			continue
		}
		good, ok := match(cond)
		if !ok || !g.dominates(b, target) {
			continue
		}
		bad := b.Succs[1]
		if !good {
			bad = b.Succs[0]
		}
		reach := g.reachable([]*cfg.Block{bad}, func(x *cfg.Block) bool { return x == b })
		if !reach[target] {
			return true
		}
	}
	return false
}

// stripNot returns the expression under any number of `!` and the parity.
func stripNot(e ast.Expr) (ast.Expr, bool) {
	neg := false
	for {
		e = ast.Unparen(e)
		u, ok := e.(*ast.UnaryExpr)
		if !ok || u.Op != token.NOT {
			return e, neg
		}
		neg = !neg
		e = u.X
	}
}

func runG11(r *Repo, rep *Report) {
	// (a) nameOf answers (name, true) only under eq(...) == true
	if fi := r.lookup("derive.(*typesMap).nameOf"); fi != nil {
		info := fi.Pkg.TypesInfo
		eqFn := r.lookup("derive.eq")
		g := newGraph(fi.Decl.Body, mayReturnFn(info))
		n := 0
		for _, ret := range g.returnsOf() {
			if len(ret.Results) != 2 {
				continue
			}
			tv := info.Types[ret.Results[1]]
			flagVar := types.Object(nil)
			if tv.Value == nil {
				// return name, found — with a flag that is set to true somewhere: the same obligation whenever it is true
				if fid, isID := ast.Unparen(ret.Results[1]).(*ast.Ident); isID {
					setTrue := false
					ast.Inspect(fi.Decl.Body, func(m ast.Node) bool {
						if as, isAs := m.(*ast.AssignStmt); isAs && len(as.Lhs) == len(as.Rhs) {
							for i, l := range as.Lhs {
								if lid, isL := l.(*ast.Ident); isL && objOf(info, lid) == info.Uses[fid] {
									if v := info.Types[as.Rhs[i]].Value; v != nil && v.String() == "true" {
										setTrue = true
									}
								}
							}
						}
						return true
					})
					if setTrue {
						flagVar = info.Uses[fid]
					}
				}
				if flagVar == nil {
					continue
				}
			} else if tv.Value.String() != "true" {
				continue
			}
			n++
			underEq := func(pos token.Pos) bool {
				rb, _ := g.locate(pos)
				return rb != nil && eqFn != nil && condOutcomeDominates(g, rb, func(c ast.Expr) (bool, bool) {
					e, neg := stripNot(c)
					call, isCall := e.(*ast.CallExpr)
					if !isCall || callee(info, call) != eqFn.Fn {
						return false, false
					}
					return !neg, true
				})
			}
			ok := underEq(ret.Pos())
			if !ok {
				// the name may come out of a list that only ever receives names for which eq held (collected first, so that the
				// choice among several matches does not depend on map order)
				vetted := func(o types.Object) bool {
					if o == nil {
						return false
					}
					appends, good := 0, true
					ast.Inspect(fi.Decl.Body, func(m ast.Node) bool {
						as, isAs := m.(*ast.AssignStmt)
						if !isAs {
							return true
						}
						for i, l := range as.Lhs {
							id, isID := l.(*ast.Ident)
							if !isID || objOf(info, id) != o || i >= len(as.Rhs) {
								continue
							}
							if c, isC := as.Rhs[i].(*ast.CallExpr); isC {
								if bi, isB := callee(info, c).(*types.Builtin); isB && bi.Name() == "append" {
									appends++
									if !underEq(as.Pos()) {
										good = false
									}
									continue
								}
								if bi, isB := callee(info, c).(*types.Builtin); isB && bi.Name() == "make" {
									continue
								}
							}
							if cl, isCL := as.Rhs[i].(*ast.CompositeLit); isCL && len(cl.Elts) == 0 {
								continue
							}
							if nl, isNil := as.Rhs[i].(*ast.Ident); isNil && nl.Name == "nil" {
								continue
							}
							good = false
						}
						return true
					})
					return good && appends > 0
				}
				// a variable that is only ever assigned (other than constants) where eq held
				vettedVar := func(o types.Object, needTrueUnderEq bool) bool {
					if o == nil {
						return false
					}
					good, assigns := true, 0
					ast.Inspect(fi.Decl.Body, func(m ast.Node) bool {
						as, isAs := m.(*ast.AssignStmt)
						if !isAs || len(as.Lhs) != len(as.Rhs) {
							return true
						}
						for i, l := range as.Lhs {
							id, isID := l.(*ast.Ident)
							if !isID || objOf(info, id) != o {
								continue
							}
							if v := info.Types[as.Rhs[i]].Value; v != nil && !(needTrueUnderEq && v.String() == "true") {
								continue // a constant (the initial "" / false)
							}
							assigns++
							if !underEq(as.Pos()) {
								good = false
							}
						}
						return true
					})
					return good && assigns > 0
				}
				if flagVar != nil && !vettedVar(flagVar, true) {
					// the flag can become true without eq
				} else {
					if id, isID := ast.Unparen(ret.Results[0]).(*ast.Ident); isID && vettedVar(info.Uses[id], false) {
						ok = true
					}
				}
				switch x := ast.Unparen(ret.Results[0]).(type) {
				case *ast.IndexExpr:
					if id, isID := ast.Unparen(x.X).(*ast.Ident); isID && vetted(info.Uses[id]) {
						ok = true
					}
				case *ast.Ident:
					// name := accepting[i] — an element of a vetted list bound to a local with that one definition
					var defs []ast.Expr
					ast.Inspect(fi.Decl.Body, func(m ast.Node) bool {
						if as, isAs := m.(*ast.AssignStmt); isAs && len(as.Lhs) == len(as.Rhs) {
							for k, l := range as.Lhs {
								if lid, isL := l.(*ast.Ident); isL && objOf(info, lid) == info.Uses[x] {
									defs = append(defs, as.Rhs[k])
								}
							}
						}
						return true
					})
					if len(defs) == 1 {
						if ix, isIx := ast.Unparen(defs[0]).(*ast.IndexExpr); isIx {
							if id, isID := ast.Unparen(ix.X).(*ast.Ident); isID && vetted(info.Uses[id]) {
								ok = true
							}
						}
					}
					// the value variable of a range over a vetted list
					ast.Inspect(fi.Decl.Body, func(m ast.Node) bool {
						rs, isR := m.(*ast.RangeStmt)
						if !isR || rs.Value == nil {
							return true
						}
						if v, isV := rs.Value.(*ast.Ident); isV && info.Defs[v] == info.Uses[x] {
							if sid, isS := ast.Unparen(rs.X).(*ast.Ident); isS && vetted(info.Uses[sid]) {
								ok = true
							}
						}
						return true
					})
				}
			}
			if ok {
				rep.pass("G11")
				rep.sample(map[string]string{"rule": "G11 nameOf answers only under eq", "return": r.pos(ret.Pos())})
			} else {
				rep.fail(Finding{Rule: "G11", Key: "G11|nameOf|hit-without-eq", Where: []string{r.pos(ret.Pos())},
					Msg: "(*typesMap).nameOf can report a bound name without comparing the argument types with eq: two different type lists (e.g. same-named types of different packages) can be mapped to one generated function"})
			}
		}
		if n == 0 {
			rep.fail(Finding{Rule: "G11", Key: "G11|nameOf|vacuity", Kind: "undecided", Where: []string{r.pos(fi.Decl.Pos())}, Msg: "nameOf has no `return name, true`"})
		}
	} else {
		rep.fail(Finding{Rule: "G11", Key: "G11|nameOf|missing", Kind: "undecided", Msg: "(*typesMap).nameOf not found"})
	}
	// (b) (*pkg).Generate reports success only when Done() held
	if fi := r.lookup("derive.(*pkg).Generate"); fi != nil {
		info := fi.Pkg.TypesInfo
		done := r.lookup("derive.(*pkg).Done")
		g := newGraph(fi.Decl.Body, mayReturnFn(info))
		body := &Body{Pkg: fi.Pkg, Sig: fi.Fn.Type().(*types.Signature), Type: fi.Decl.Type}
		n := 0
		for _, ret := range g.returnsOf() {
			if !returnsNilError(body, ret) {
				continue
			}
			n++
			rb, _ := g.locate(ret.Pos())
			ok := rb != nil && done != nil && condOutcomeDominates(g, rb, func(c ast.Expr) (bool, bool) {
				e, neg := stripNot(c)
				call, isCall := e.(*ast.CallExpr)
				if !isCall || callee(info, call) != done.Fn {
					return false, false
				}
				return !neg, true
			})
			if ok {
				rep.pass("G11")
				rep.sample(map[string]string{"rule": "G11 success only when every generator is done", "return": r.pos(ret.Pos())})
			} else {
				rep.fail(Finding{Rule: "G11", Key: "G11|pkg.Generate|success-before-done", Where: []string{r.pos(ret.Pos())},
					Msg: "(*pkg).Generate can return success although (*pkg).Done() was not observed true: helpers requested late from an already visited plugin are called but never emitted"})
			}
		}
		if n == 0 {
			rep.fail(Finding{Rule: "G11", Key: "G11|pkg.Generate|vacuity", Kind: "undecided", Where: []string{r.pos(fi.Decl.Pos())}, Msg: "(*pkg).Generate has no success return"})
		}
		// every plugin is polled in every round: the range over pkg.plugins inside the loop has no continue/break that skips ToGenerate
		skipped := false
		gpar := parents(fi.Decl)
		// a break that leaves a switch or a select (labelled or not) does not leave a loop: it is the end of a case
		leavesSwitch := func(br *ast.BranchStmt) bool {
			if br.Tok != token.BREAK {
				return false
			}
			if br.Label != nil {
				found := false
				ast.Inspect(fi.Decl.Body, func(m ast.Node) bool {
					if ls, ok := m.(*ast.LabeledStmt); ok && ls.Label.Name == br.Label.Name {
						switch ls.Stmt.(type) {
						case *ast.SwitchStmt, *ast.TypeSwitchStmt, *ast.SelectStmt:
							found = true
						}
					}
					return true
				})
				return found
			}
			for p := gpar[br]; p != nil; p = gpar[p] {
				switch p.(type) {
				case *ast.SwitchStmt, *ast.TypeSwitchStmt, *ast.SelectStmt:
					return true
				case *ast.ForStmt, *ast.RangeStmt, *ast.FuncLit:
					return false
				}
			}
			return false
		}
		ast.Inspect(fi.Decl.Body, func(x ast.Node) bool {
			if br, ok := x.(*ast.BranchStmt); ok && (br.Tok == token.CONTINUE || br.Tok == token.BREAK || br.Tok == token.GOTO) && !leavesSwitch(br) {
				skipped = true
				rep.fail(Finding{Rule: "G11", Key: "G11|pkg.Generate|skips", Where: []string{r.pos(br.Pos())},
					Msg: "(*pkg).Generate skips part of a work-list round (" + br.Tok.String() + "): a generator with pending requests may never be polled again"})
			}
			return true
		})
		if !skipped {
			rep.pass("G11")
		}
	} else {
		rep.fail(Finding{Rule: "G11", Key: "G11|pkg.Generate|missing", Kind: "undecided", Msg: "(*pkg).Generate not found"})
	}
	// (c) Done() of the package is the conjunction over all generators; Done() of a types map over all requested type lists
	for _, key := range []string{"derive.(*pkg).Done", "derive.(*typesMap).Done"} {
		fi := r.lookup(key)
		if fi == nil {
			rep.fail(Finding{Rule: "G11", Key: "G11|" + key + "|missing", Kind: "undecided", Msg: key + " not found"})
			continue
		}
		info := fi.Pkg.TypesInfo
		// shape: a single range loop whose body returns false under a negated predicate, then return true
		okShape := false
		if len(fi.Decl.Body.List) == 2 {
			wl, isR := asWalkLoop(info, fi.Decl.Body.List[0])
			rs := wl
			ret, isRet := fi.Decl.Body.List[1].(*ast.ReturnStmt)
			if isR && isRet && len(ret.Results) == 1 && len(rs.Body.List) == 1 {
				if tv := info.Types[ret.Results[0]]; tv.Value != nil && tv.Value.String() == "true" {
					if ifs, isIf := rs.Body.List[0].(*ast.IfStmt); isIf && ifs.Else == nil && len(ifs.Body.List) == 1 {
						_, neg := stripNot(ifs.Cond)
						if r2, isRet := ifs.Body.List[0].(*ast.ReturnStmt); isRet && neg && len(r2.Results) == 1 {
							if tv := info.Types[r2.Results[0]]; tv.Value != nil && tv.Value.String() == "false" {
								okShape = true
							}
						}
					}
				}
			}
		}
		// the same universal statement through the library: return !slices.ContainsFunc(xs, notDone) /
		// slices.IndexFunc(xs, notDone) < 0 (== -1): true exactly when no element satisfies the predicate
		if !okShape && len(fi.Decl.Body.List) == 1 {
			if ret, isRet := fi.Decl.Body.List[0].(*ast.ReturnStmt); isRet && len(ret.Results) == 1 {
				isLib := func(e ast.Expr, name string) bool {
					c, ok := ast.Unparen(e).(*ast.CallExpr)
					if !ok || len(c.Args) != 2 {
						return false
					}
					fn, ok := callee(info, c).(*types.Func)
					return ok && fn.Pkg() != nil && fn.Pkg().Path() == "slices" && fn.Name() == name
				}
				switch x := ast.Unparen(ret.Results[0]).(type) {
				case *ast.UnaryExpr:
					if x.Op == token.NOT && isLib(x.X, "ContainsFunc") {
						okShape = true
					}
				case *ast.BinaryExpr:
					if isLib(x.X, "IndexFunc") {
						if tv, has := info.Types[x.Y]; has && tv.Value != nil {
							if (x.Op == token.LSS && tv.Value.String() == "0") || (x.Op == token.EQL && tv.Value.String() == "-1") {
								okShape = true
							}
						}
					}
				}
			}
		}
		// a flag that starts true and is only ever cleared: done := true; for … { if !d(x) { done = false[; break] } }; return done
		if !okShape && len(fi.Decl.Body.List) == 3 {
			as, isAs := fi.Decl.Body.List[0].(*ast.AssignStmt)
			rs, isR := fi.Decl.Body.List[1].(*ast.RangeStmt)
			ret, isRet := fi.Decl.Body.List[2].(*ast.ReturnStmt)
			if isAs && isR && isRet && len(as.Lhs) == 1 && len(as.Rhs) == 1 && len(ret.Results) == 1 {
				fid, isID := as.Lhs[0].(*ast.Ident)
				rid, isRID := ast.Unparen(ret.Results[0]).(*ast.Ident)
				tv := info.Types[as.Rhs[0]]
				if isID && isRID && objOf(info, fid) == info.Uses[rid] && tv.Value != nil && tv.Value.String() == "true" {
					onlyCleared, cleared := true, false
					ast.Inspect(rs.Body, func(m ast.Node) bool {
						if a2, ok := m.(*ast.AssignStmt); ok {
							for k, l := range a2.Lhs {
								if id, ok := l.(*ast.Ident); ok && objOf(info, id) == objOf(info, fid) && k < len(a2.Rhs) {
									if v := info.Types[a2.Rhs[k]].Value; v != nil && v.String() == "false" {
										cleared = true
									} else {
										onlyCleared = false
									}
								}
							}
						}
						return true
					})
					if len(rs.Body.List) == 1 && onlyCleared && cleared {
						if ifs, isIf := rs.Body.List[0].(*ast.IfStmt); isIf && ifs.Else == nil {
							if _, neg := stripNot(ifs.Cond); neg {
								okShape = true
							}
						}
					}
				}
			}
		}
		// done := true; for … { if done = d(x); !done { break } }; return done
		if !okShape && len(fi.Decl.Body.List) == 3 {
			as, isAs := fi.Decl.Body.List[0].(*ast.AssignStmt)
			rs, isR := fi.Decl.Body.List[1].(*ast.RangeStmt)
			ret, isRet := fi.Decl.Body.List[2].(*ast.ReturnStmt)
			if isAs && isR && isRet && len(as.Lhs) == 1 && len(as.Rhs) == 1 && len(ret.Results) == 1 && flagReduction(info, rs) {
				fid, isID := as.Lhs[0].(*ast.Ident)
				rid, isRID := ast.Unparen(ret.Results[0]).(*ast.Ident)
				tv := info.Types[as.Rhs[0]]
				// the flag of the reduction is the one that starts true and is returned, and the loop is left when it is false
				var lf *ast.Ident
				var cond ast.Expr
				switch len(rs.Body.List) {
				case 1:
					ifs := rs.Body.List[0].(*ast.IfStmt)
					lf, _ = ifs.Init.(*ast.AssignStmt).Lhs[0].(*ast.Ident)
					cond = ifs.Cond
				case 2:
					lf, _ = rs.Body.List[0].(*ast.AssignStmt).Lhs[0].(*ast.Ident)
					cond = rs.Body.List[1].(*ast.IfStmt).Cond
				}
				_, neg := stripNot(cond)
				if isID && isRID && lf != nil && neg && objOf(info, fid) == info.Uses[rid] && info.Uses[lf] == info.Uses[rid] && tv.Value != nil && tv.Value.String() == "true" {
					okShape = true
				}
			}
		}
		if okShape {
			rep.pass("G11")
		} else {
			rep.fail(Finding{Rule: "G11", Key: "G11|" + key + "|shape", Where: []string{r.pos(fi.Decl.Pos())},
				Msg: key + " is no longer `for … { if !done(x) { return false } }; return true`: it may report completion while work is pending (or never report it)"})
		}
	}
	// (d) Generating marks exactly the name bound to the given types
	if fi := r.lookup("derive.(*typesMap).Generating"); fi != nil {
		marks := nodeHas(fi.Decl, func(n ast.Node) bool {
			as, ok := n.(*ast.AssignStmt)
			if !ok || len(as.Lhs) != 1 {
				return false
			}
			ix, ok := as.Lhs[0].(*ast.IndexExpr)
			if !ok {
				return false
			}
			sel, ok := ix.X.(*ast.SelectorExpr)
			return ok && sel.Sel.Name == "generated"
		})
		if marks {
			rep.pass("G11")
		} else {
			rep.fail(Finding{Rule: "G11", Key: "G11|Generating|mark", Where: []string{r.pos(fi.Decl.Pos())}, Msg: "(*typesMap).Generating no longer marks the function as generated: the work list never drains"})
		}
	}
}
