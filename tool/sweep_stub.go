package main

type Sweeper struct{}

func newSweeper(r *Repo, tier string) *Sweeper { return &Sweeper{} }
func cmdResiduals(args []string)              {}
