package main

import (
	"fmt"
	"go/ast"
	"go/token"
	"go/types"
	"sort"
	"strings"

	"golang.org/x/tools/go/cfg"
	"golang.org/x/tools/go/packages"
)

// G22, second accepted form of the hook ("context form"): instead of editing the package description that go/build returned,
// the hook locates the package (Import with FindOnly) and reads its directory through a copy of the build context whose
// ReadDir does not list derivedFilename, so that go/build never sees the derived file at all — neither its name, nor its
// package clause (a remnant that ends inside the package name would otherwise rename the package and invalidate the user's
// files), nor its syntax errors.
//
// Decided for a hook body (and, through `return H(…)`, for the helper H it delegates to):
//   - every return statement on every CFG path returns (1) the result of Import/ImportDir on a *hidden context* for the
//     located directory, or (2) the error of a go/build call on a path that established it to be non-nil, or lies (3) behind a
//     branch that implies "importPath is not marked stale", or (4) is `return H(args)` for a declared H that satisfies (1)/(2)
//     on all its paths and receives the hook's importPath in the position it locates;
//   - a hidden context is a local copy of the hook's context (`hidden := *ctxt`) whose ReadDir field is assigned, before the
//     import call on every path (dominance), a function F that is evaluated abstractly: for a directory listing of three
//     entries with unknown names, under every combination of answers to `Name() == derivedFilename`, F returns exactly the
//     entries for which the answer was "different", in order, together with the listing's error.
type hookFn struct {
	info   *types.Info
	pkg    *packages.Package
	typ    *ast.FuncType
	body   *ast.BlockStmt
	pos    token.Pos
	params []types.Object
}

type ctxHiding struct {
	c        *Ctx
	derived  string
	fail     func(kind, msg string, pos token.Pos, undecided bool)
	staleObj types.Object
	memo     map[*ast.BlockStmt]bool
	samples  []map[string]string
}

func paramObjs(info *types.Info, typ *ast.FuncType) []types.Object {
	var params []types.Object
	for _, f := range typ.Params.List {
		for _, n := range f.Names {
			params = append(params, info.Defs[n])
		}
	}
	return params
}

// isBuildContextMethod: Import or ImportDir of go/build.Context.
func isBuildContextMethod(o types.Object, names ...string) bool {
	fn, ok := o.(*types.Func)
	if !ok || fn.Pkg() == nil || fn.Pkg().Path() != "go/build" || fn.Type().(*types.Signature).Recv() == nil {
		return false
	}
	for _, n := range names {
		if fn.Name() == n {
			return true
		}
	}
	return false
}

// analyse decides the path rule for fn. importPathIdx is the index of the parameter that carries the import path; alwaysHide is
// set for helpers (no stale map in sight: every non-error return must be hidden).
func (a *ctxHiding) analyse(fn hookFn, importPathIdx int, alwaysHide bool, depth int) bool {
	if done, ok := a.memo[fn.body]; ok {
		return done
	}
	a.memo[fn.body] = false
	r := a.c.Repo
	info := fn.info
	if importPathIdx < 0 || importPathIdx >= len(fn.params) || len(fn.params) < 2 {
		a.fail("hook-shape", "the hook (or the helper it delegates to) does not name its parameters", fn.pos, true)
		return false
	}
	ctxtObj, importPath := fn.params[0], fn.params[importPathIdx]
	useOf := func(e ast.Expr) types.Object {
		if id, ok := ast.Unparen(e).(*ast.Ident); ok {
			return info.Uses[id]
		}
		return nil
	}
	// inventory of the relevant assignments
	type importCall struct {
		stmt   *ast.AssignStmt
		call   *ast.CallExpr
		recv   types.Object
		res    types.Object
		err    types.Object
		method string
	}
	var imports []importCall
	hiddenCtx := map[types.Object]*ast.AssignStmt{}    // hidden := *ctxt
	readDirSet := map[types.Object][]*ast.AssignStmt{} // hidden.ReadDir = F
	otherFieldSet := map[types.Object]bool{}
	inspectOwn(fn.body, func(m ast.Node) bool {
		as, ok := m.(*ast.AssignStmt)
		if !ok {
			return true
		}
		if len(as.Rhs) == 1 && len(as.Lhs) == 2 {
			if call, ok := as.Rhs[0].(*ast.CallExpr); ok && isBuildContextMethod(callee(info, call), "Import", "ImportDir") {
				ic := importCall{stmt: as, call: call, method: callee(info, call).Name()}
				if sel, ok := call.Fun.(*ast.SelectorExpr); ok {
					ic.recv = useOf(sel.X)
				}
				if id, ok := as.Lhs[0].(*ast.Ident); ok {
					ic.res = objOf(info, id)
				}
				if id, ok := as.Lhs[1].(*ast.Ident); ok {
					ic.err = objOf(info, id)
				}
				imports = append(imports, ic)
			}
		}
		if len(as.Lhs) == 1 && len(as.Rhs) == 1 {
			if id, ok := as.Lhs[0].(*ast.Ident); ok {
				if st, ok := ast.Unparen(as.Rhs[0]).(*ast.StarExpr); ok && useOf(st.X) == ctxtObj {
					hiddenCtx[objOf(info, id)] = as
				} else if o := objOf(info, id); hiddenCtx[o] != nil {
					delete(hiddenCtx, o) // reassigned: not a plain copy any more
					otherFieldSet[o] = true
				}
			}
			if sel, ok := as.Lhs[0].(*ast.SelectorExpr); ok {
				if o := useOf(sel.X); o != nil {
					if sel.Sel.Name == "ReadDir" {
						readDirSet[o] = append(readDirSet[o], as)
					}
				}
			}
		}
		return true
	})
	g := newGraph(fn.body, func(*ast.CallExpr) bool { return true })
	// hidden import results: res objects of Import/ImportDir whose receiver is a hidden context with a verified ReadDir
	hiddenRes := map[types.Object]bool{}
	errOfBuild := map[types.Object]bool{}
	var locate *importCall
	for i := range imports {
		ic := &imports[i]
		if ic.err != nil {
			errOfBuild[ic.err] = true
		}
		if ic.recv == ctxtObj {
			// the unfiltered context: fine for locating the directory, never for the files
			if len(ic.call.Args) >= 1 && useOf(ic.call.Args[0]) == importPath {
				locate = ic
			}
			continue
		}
		cp := hiddenCtx[ic.recv]
		if cp == nil || otherFieldSet[ic.recv] {
			continue
		}
		sets := readDirSet[ic.recv]
		if len(sets) != 1 {
			a.fail("readdir-assignments", fmt.Sprintf("the copy of the build context that reads the package directory has %d assignments to its ReadDir field (expected exactly one, before the import)", len(sets)), ic.call.Pos(), len(sets) > 1)
			continue
		}
		if !g.posDominates(sets[0].Pos(), ic.call.Pos()) || !g.posDominates(cp.Pos(), sets[0].Pos()) {
			a.fail("readdir-not-before-import", "the ReadDir that hides the derived file is not installed on every path before the package directory is read", ic.call.Pos(), false)
			continue
		}
		if !a.readDirFilter(fn, sets[0].Rhs[0], ctxtObj) {
			continue
		}
		// the directory that is read is the located one
		var dirArg ast.Expr
		switch ic.method {
		case "ImportDir":
			if len(ic.call.Args) >= 1 {
				dirArg = ic.call.Args[0]
			}
		case "Import":
			if len(ic.call.Args) >= 2 {
				dirArg = ic.call.Args[1]
				if !constIs(info, ic.call.Args[0], ".") {
					dirArg = nil
				}
			}
		}
		okDir := false
		if sel, ok := ast.Unparen(dirArg).(*ast.SelectorExpr); ok && dirArg != nil && sel.Sel.Name == "Dir" && locate != nil && useOf(sel.X) == locate.res {
			okDir = true
		}
		if !okDir {
			a.fail("other-directory", "the hidden context does not read the directory that go/build located for the requested import path (expected ImportDir(<located>.Dir, mode))", ic.call.Pos(), false)
			continue
		}
		hiddenRes[ic.res] = true
		a.samples = append(a.samples, map[string]string{"rule": "G22 the package directory is read through a context that does not list the derived file",
			"import": r.pos(ic.call.Pos()), "ReadDir": r.pos(sets[0].Pos())})
	}

	// implication of "not stale" / "package nil"
	var implies func(e ast.Expr, truth bool) bool
	implies = func(e ast.Expr, truth bool) bool {
		switch x := ast.Unparen(e).(type) {
		case *ast.UnaryExpr:
			if x.Op == token.NOT {
				return implies(x.X, !truth)
			}
		case *ast.BinaryExpr:
			switch {
			case x.Op == token.LOR && truth:
				return implies(x.X, true) && implies(x.Y, true)
			case x.Op == token.LAND && !truth:
				return implies(x.X, false) && implies(x.Y, false)
			}
		case *ast.Ident:
			// the ok of `_, ok := stale[importPath]` (a set written as map[string]struct{} or any other map)
			if truth || alwaysHide {
				return false
			}
			okObj := useOf(x)
			if okObj == nil {
				return false
			}
			found := false
			ast.Inspect(fn.body, func(n ast.Node) bool {
				as, isAs := n.(*ast.AssignStmt)
				if !isAs || len(as.Lhs) != 2 || len(as.Rhs) != 1 {
					return true
				}
				l1, isID := as.Lhs[1].(*ast.Ident)
				if !isID || (info.Defs[l1] != okObj && info.Uses[l1] != okObj) {
					return true
				}
				ix, isIx := ast.Unparen(as.Rhs[0]).(*ast.IndexExpr)
				if !isIx || useOf(ix.Index) != importPath {
					return true
				}
				if _, isMap := info.TypeOf(ix.X).Underlying().(*types.Map); !isMap {
					return true
				}
				o := useOf(ix.X)
				if o == nil || (a.staleObj != nil && a.staleObj != o) {
					return true
				}
				a.staleObj = o
				found = true
				return true
			})
			return found
		case *ast.IndexExpr:
			if truth || alwaysHide {
				return false
			}
			if useOf(x.Index) != importPath {
				return false
			}
			m, isMap := info.TypeOf(x.X).Underlying().(*types.Map)
			if !isMap {
				return false
			}
			if b, isB := m.Elem().Underlying().(*types.Basic); !isB || b.Kind() != types.Bool {
				return false
			}
			o := useOf(x.X)
			if o == nil || (a.staleObj != nil && a.staleObj != o) {
				return false
			}
			a.staleObj = o
			return true
		}
		return false
	}
	// errNonNil: cond (with truth) establishes E != nil for an error of a go/build call
	errNonNil := func(e ast.Expr, truth bool) types.Object {
		be, ok := ast.Unparen(e).(*ast.BinaryExpr)
		if !ok || (be.Op != token.NEQ && be.Op != token.EQL) {
			return nil
		}
		var o types.Object
		if id, ok := ast.Unparen(be.Y).(*ast.Ident); ok && id.Name == "nil" {
			o = useOf(be.X)
		} else if id, ok := ast.Unparen(be.X).(*ast.Ident); ok && id.Name == "nil" {
			o = useOf(be.Y)
		}
		if o == nil || !errOfBuild[o] {
			return nil
		}
		if (be.Op == token.NEQ) == truth {
			return o
		}
		return nil
	}
	type state struct {
		b    *cfg.Block
		skip bool
		errs string // sorted names of error objects known non-nil
	}
	bad := false
	returns := 0
	seen := map[state]bool{}
	errKey := func(m map[types.Object]bool) string {
		var ks []string
		for o := range m {
			ks = append(ks, fmt.Sprintf("%s@%d", o.Name(), o.Pos()))
		}
		sort.Strings(ks)
		return strings.Join(ks, ",")
	}
	var dfs func(b *cfg.Block, skip bool, errs map[types.Object]bool)
	dfs = func(b *cfg.Block, skip bool, errs map[types.Object]bool) {
		st := state{b, skip, errKey(errs)}
		if seen[st] {
			return
		}
		seen[st] = true
		for _, n := range b.Nodes {
			// an assignment to an error variable ends what was known about it
			if as, ok := n.(*ast.AssignStmt); ok {
				for _, l := range as.Lhs {
					if id, ok := l.(*ast.Ident); ok {
						if o := objOf(info, id); errs[o] {
							errs = copyObjSet(errs)
							delete(errs, o)
						}
					}
				}
			}
			ret, ok := n.(*ast.ReturnStmt)
			if !ok {
				continue
			}
			returns++
			if skip {
				continue
			}
			switch len(ret.Results) {
			case 2:
				if id, isID := ast.Unparen(ret.Results[0]).(*ast.Ident); isID && id.Name == "nil" && info.Uses[id] == types.Universe.Lookup("nil") {
					continue // no package is returned
				}
				if o := useOf(ret.Results[1]); o != nil && errs[o] {
					continue // error return
				}
				if o := useOf(ret.Results[0]); o != nil && hiddenRes[o] {
					continue
				}
			case 1:
				if call, ok := ast.Unparen(ret.Results[0]).(*ast.CallExpr); ok {
					if h, ok := callee(info, call).(*types.Func); ok {
						if fi := r.Decls[h]; fi != nil && fi.Decl.Body != nil && depth < 3 {
							sub := hookFn{info: fi.Pkg.TypesInfo, pkg: fi.Pkg, typ: fi.Decl.Type, body: fi.Decl.Body, pos: fi.Decl.Pos(), params: paramObjs(fi.Pkg.TypesInfo, fi.Decl.Type)}
							idx := -1
							for i, arg := range call.Args {
								if useOf(arg) == importPath {
									idx = i
								}
							}
							if len(call.Args) >= 1 && useOf(call.Args[0]) == ctxtObj && idx > 0 && a.analyse(sub, idx, true, depth+1) {
								continue
							}
						}
					}
				}
			}
			bad = true
			a.fail("not-on-every-path", "the FindPackage hook (or its helper) can return a package for a stale import path whose files were not read through the context that hides derivedFilename (return at "+r.pos(ret.Pos())+"): on that path the previous output is loaded and types flow from it into the registration of calls", ret.Pos(), false)
		}
		if len(b.Succs) == 2 {
			var cond ast.Expr
			if ifs, ok := b.Succs[0].Stmt.(*ast.IfStmt); ok && b.Succs[0].Kind == cfg.KindIfThen {
				cond = ifs.Cond
			}
			for i, succ := range b.Succs {
				sk, es := skip, errs
				if cond != nil {
					if implies(cond, i == 0) {
						sk = true
					}
					if o := errNonNil(cond, i == 0); o != nil {
						es = copyObjSet(errs)
						es[o] = true
					}
				}
				dfs(succ, sk, es)
			}
			return
		}
		for _, succ := range b.Succs {
			dfs(succ, skip, errs)
		}
	}
	if e := g.entry(); e != nil {
		dfs(e, false, map[types.Object]bool{})
	}
	if returns == 0 {
		a.fail("hook-shape", "the hook has no return statement the analysis can see", fn.body.Pos(), true)
		return false
	}
	a.memo[fn.body] = !bad
	return !bad
}

func copyObjSet(m map[types.Object]bool) map[types.Object]bool {
	out := map[types.Object]bool{}
	for k, v := range m {
		out[k] = v
	}
	return out
}

// readDirFilter evaluates the function assigned to ReadDir abstractly.
func (a *ctxHiding) readDirFilter(fn hookFn, e ast.Expr, ctxtObj types.Object) bool {
	c := a.c
	lit, ok := ast.Unparen(e).(*ast.FuncLit)
	var vf *VFunc
	where := e.Pos()
	if ok {
		vf = &VFunc{Lit: lit, Pkg: fn.pkg}
	} else if id, isID := ast.Unparen(e).(*ast.Ident); isID {
		if f, isF := fn.info.Uses[id].(*types.Func); isF {
			if fi := c.Repo.Decls[f]; fi != nil && fi.Decl.Body != nil {
				vf = &VFunc{Decl: fi.Decl, Pkg: fi.Pkg}
			}
		}
	}
	if vf == nil {
		a.fail("readdir-unresolved", "the function assigned to the hidden context's ReadDir cannot be resolved to a body", where, true)
		return false
	}
	const n = 3
	or := &Oracle{}
	runs := 0
	for ; runs < 256; runs++ {
		or.pos = 0
		in := &Interp{repo: c.Repo, plugin: "derive", decls: c.GDecls, or: or, memo: map[string]int{}, shape: 2, arities: []int{2, 1, 0},
			preds: map[string]Value{}, stack: map[*ast.FuncDecl]int{}, imports: map[string]int{}, importUse: map[string]bool{}, holes: map[string]*Hole{}, g9mode: true}
		listing := &VList{}
		for i := 0; i < n; i++ {
			listing.Elems = append(listing.Elems, &VOpaque{Origin: fmt.Sprintf("entry%d", i), attrs: map[string]Value{"Name": hole("OPAQUE", fmt.Sprintf("entry%d.Name()", i))}})
		}
		listErr := &VOpaque{Origin: "listing-error"}
		readDir := func(args []Value) Value { return VTuple{[]Value{listing, listErr}} }
		in.ext = map[string]func([]Value) Value{"extfunc:io/ioutil.ReadDir": readDir, "extfunc:os.ReadDir": readDir, "ctxt.ReadDir": readDir}
		ctxtVal := Value(&VOpaque{Origin: "ctxt"})
		env := &Frame{vars: map[types.Object]*Value{ctxtObj: &ctxtVal}, pkg: fn.pkg}
		if vf.Lit != nil {
			vf.Env = env
		}
		var res Value
		msg := ""
		func() {
			defer func() {
				if e := recover(); e != nil {
					if ab, ok := e.(abort); ok {
						msg = ab.kind + ": " + ab.msg
						return
					}
					msg = fmt.Sprint(e)
				}
			}()
			res = in.callFunc(vf, []Value{lit2("dir")}, token.NoPos)
		}()
		if msg != "" {
			a.fail("readdir-undecided", "the function assigned to the hidden context's ReadDir cannot be evaluated abstractly: "+msg, where, true)
			return false
		}
		tup, ok := res.(VTuple)
		if !ok || len(tup.Vals) != 2 {
			a.fail("readdir-undecided", "the function assigned to the hidden context's ReadDir does not return (entries, error)", where, true)
			return false
		}
		// which entries were decided to be the derived file on this path
		isDerived := map[int]bool{}
		asked := map[int]bool{}
		for _, d := range in.decisions {
			for i := 0; i < n; i++ {
				nm := fmt.Sprintf("entry%d.Name()", i)
				if !strings.Contains(d.Sym, nm) || !strings.Contains(d.Sym, a.derived) {
					continue
				}
				asked[i] = true
				eq := strings.Contains(d.Sym, "==")
				// choice 0 = the condition is true
				if (d.Choice == 0) == eq {
					isDerived[i] = true
				}
			}
		}
		var got []int
		if l, ok := tup.Vals[0].(*VList); ok {
			for _, e := range l.Elems {
				idx := -1
				for i, le := range listing.Elems {
					if e == le {
						idx = i
					}
				}
				if idx < 0 {
					a.fail("readdir-filter-wrong", "the ReadDir of the hidden context returns an entry that the directory listing did not contain", where, false)
					return false
				}
				got = append(got, idx)
			}
		} else if _, isNil := tup.Vals[0].(VNil); !isNil {
			a.fail("readdir-undecided", fmt.Sprintf("the ReadDir of the hidden context returns a %T", tup.Vals[0]), where, true)
			return false
		}
		var want []int
		for i := 0; i < n; i++ {
			if !asked[i] {
				a.fail("readdir-filter-wrong", fmt.Sprintf("the ReadDir of the hidden context never compares the name of entry %d with derivedFilename (%q): the derived file is not (always) hidden from go/build", i, a.derived), where, false)
				return false
			}
			if !isDerived[i] {
				want = append(want, i)
			}
		}
		if fmt.Sprint(got) != fmt.Sprint(want) {
			a.fail("readdir-filter-wrong", fmt.Sprintf("for a listing of %d entries of which %v are named %s, the ReadDir of the hidden context returns entries %v, want %v: the derived file stays visible to go/build, or user files are hidden from it", n, keysOf(isDerived), a.derived, got, want), where, false)
			return false
		}
		if tup.Vals[1] != Value(listErr) {
			a.fail("readdir-error-dropped", "the ReadDir of the hidden context does not pass on the error of the directory listing", where, false)
			return false
		}
		if !or.next() {
			break
		}
	}
	a.samples = append(a.samples, map[string]string{"rule": "G22 ReadDir filter evaluated abstractly", "site": c.Repo.pos(where), "paths": fmt.Sprint(runs + 1), "entries": fmt.Sprint(n)})
	return true
}

func keysOf(m map[int]bool) []int {
	var ks []int
	for k, v := range m {
		if v {
			ks = append(ks, k)
		}
	}
	sort.Ints(ks)
	return ks
}

func lit2(s string) VStr { return lit(s) }
