package main

import (
	"fmt"
	"go/ast"
	"go/importer"
	"go/parser"
	"go/token"
	"go/types"
	"sort"
	"strings"
	"sync"
)

// R4 — typed residuals. The symbolic type graph of a run is turned into declarations: every TYPE hole becomes a distinct
// defined type (structural when the run established its kind, otherwise an opaque struct), FUNC holes get the documented
// signature of the plugin they were requested from, PKG holes become real imports; the residual is then checked with
// go/types. Because the generators never inspect the types of plumbed parameters, checking with pairwise distinct opaque
// types decides positional correctness for all types (parametricity).

var (
	impOnce   sync.Once
	sharedImp types.Importer
	impMu     sync.Mutex
)

type lockedImporter struct{ imp types.Importer }

func (l lockedImporter) Import(path string) (*types.Package, error) {
	impMu.Lock()
	defer impMu.Unlock()
	return l.imp.Import(path)
}

func stdImporter() types.Importer {
	impOnce.Do(func() {
		sharedImp = lockedImporter{importer.ForCompiler(token.NewFileSet(), "source", nil)}
	})
	return sharedImp
}

type typeDecls struct {
	rs      *Resid
	byVal   map[*VOpaque]string // opaque type value -> declared name
	decls   []string
	fresh   int
	pending map[*VOpaque]bool
}

func (td *typeDecls) freshName() string {
	td.fresh++
	return fmt.Sprintf("__X%d", td.fresh)
}

// nameFor returns a type expression for an opaque type value, declaring it on first use.
func (td *typeDecls) nameFor(v Value, depth int) string {
	o, ok := v.(*VOpaque)
	if !ok || o == nil {
		return "interface{}"
	}
	if n, ok := td.byVal[o]; ok {
		return n
	}
	name := td.freshName()
	td.byVal[o] = name
	td.declare(name, o, depth)
	return name
}

func (td *typeDecls) declare(name string, o *VOpaque, depth int) {
	u := underlyingVal(o)
	kind := ""
	if u != nil {
		kind = u.Kind
	}
	sub := func(attr string) string {
		if u == nil || depth > 4 {
			return "struct{}"
		}
		if a, ok := u.attrs[attr]; ok {
			return td.nameFor(a, depth+1)
		}
		return td.nameFor(&VOpaque{Origin: o.Origin + "." + attr}, depth+1)
	}
	tuple := func(attr string, named bool) string {
		var elems []Value
		if a, ok := u.attrs[attr].(*VOpaque); ok {
			if el, ok := a.attrs["#elems"].(*VList); ok {
				elems = el.Elems
			}
		}
		var ss []string
		for i, e := range elems {
			eo, _ := e.(*VOpaque)
			t := "struct{}"
			if eo != nil {
				if tv, ok := eo.attrs["Type"]; ok {
					t = td.nameFor(tv, depth+1)
				} else {
					t = td.nameFor(&VOpaque{Origin: eo.Origin + ".Type()"}, depth+1)
				}
			}
			if named {
				ss = append(ss, fmt.Sprintf("p%d %s", i, t))
			} else {
				ss = append(ss, t)
			}
		}
		return strings.Join(ss, ", ")
	}
	switch kind {
	case "*types.Pointer":
		td.decls = append(td.decls, fmt.Sprintf("type %s *%s", name, sub("Elem")))
	case "*types.Slice":
		td.decls = append(td.decls, fmt.Sprintf("type %s []%s", name, sub("Elem")))
	case "*types.Array":
		td.decls = append(td.decls, fmt.Sprintf("type %s [3]%s", name, sub("Elem")))
	case "*types.Map":
		td.decls = append(td.decls, fmt.Sprintf("type %s map[%s]%s", name, "string", sub("Elem")))
	case "*types.Chan":
		dir := "chan "
		if d, ok := u.attrs["Dir"].(VInt); ok && d.Known {
			switch d.V {
			case 1:
				dir = "chan<- "
			case 2:
				dir = "<-chan "
			}
		}
		td.decls = append(td.decls, fmt.Sprintf("type %s %s%s", name, dir, sub("Elem")))
	case "*types.Signature":
		res := tuple("Results", false)
		if strings.Contains(res, ",") {
			res = "(" + res + ")"
		}
		td.decls = append(td.decls, fmt.Sprintf("type %s func(%s) %s", name, tuple("Params", false), res))
	case "*types.Basic":
		td.decls = append(td.decls, fmt.Sprintf("type %s int", name))
	default:
		td.decls = append(td.decls, fmt.Sprintf("type %s struct{ _%s int }", name, strings.TrimLeft(name, "_")))
	}
}

// typecheckResid type-checks a residual; sigs gives the signature text for FUNC holes (by hole), or "" to skip the residual.
func typecheckResid(rs *Resid, funcSig func(h *Hole, td *typeDecls) string) ([]string, bool) {
	errs, done, _ := typecheckResidSrc(rs, funcSig)
	return errs, done
}

func typecheckResidSrc(rs *Resid, funcSig func(h *Hole, td *typeDecls) string) ([]string, bool, string) {
	if rs.Err != nil {
		return nil, false, ""
	}
	td := &typeDecls{rs: rs, byVal: map[*VOpaque]string{}}
	// TYPE holes first so that they keep their placeholder names
	var ids []string
	for id := range rs.Run.Holes {
		ids = append(ids, id)
	}
	sort.Strings(ids)
	for _, id := range ids {
		h := rs.Run.Holes[id]
		if h.Kind == "TYPE" {
			if o, ok := h.Val.(*VOpaque); ok {
				if _, dup := td.byVal[o]; !dup {
					td.byVal[o] = id
				} else {
					td.decls = append(td.decls, fmt.Sprintf("type %s = %s", id, td.byVal[o]))
				}
			}
		}
	}
	for _, id := range ids {
		h := rs.Run.Holes[id]
		if h.Kind != "TYPE" {
			continue
		}
		o, ok := h.Val.(*VOpaque)
		if !ok {
			td.decls = append(td.decls, fmt.Sprintf("type %s struct{ _%s int }", id, strings.TrimLeft(id, "_")))
			continue
		}
		if td.byVal[o] == id {
			td.declare(id, o, 0)
		}
	}
	var imports []string
	declared := map[string]bool{}
	for _, fd := range rs.Funcs {
		declared[fd.Name.Name] = true
	}
	for _, id := range ids {
		h := rs.Run.Holes[id]
		switch h.Kind {
		case "PKG":
			imports = append(imports, fmt.Sprintf("import %s %q", id, h.Origin))
		case "FUNC":
			if declared[id] {
				continue
			}
			sig := ""
			if funcSig != nil {
				sig = funcSig(h, td)
			}
			if sig == "" {
				return nil, false, ""
			}
			td.decls = append(td.decls, fmt.Sprintf("func %s%s { panic(0) }", id, sig))
		case "EXPR", "OPAQUE":
			return nil, false, ""
		}
	}
	src := strings.Replace(rs.Run.Text, "package p\n", "package p\n"+strings.Join(imports, "\n")+"\n", 1) + "\n" + strings.Join(td.decls, "\n") + "\n"
	fset := token.NewFileSet()
	f, err := parser.ParseFile(fset, "typed.go", src, 0)
	if err != nil {
		return []string{"(declarations) " + err.Error()}, true, src
	}
	var errs []string
	conf := types.Config{Importer: stdImporter(), Error: func(e error) {
		if te, ok := e.(types.Error); ok {
			// unused imports/variables are artefacts of holes
			if strings.Contains(te.Msg, "imported and not used") || strings.Contains(te.Msg, "declared and not used") {
				return
			}
			pos := fset.Position(te.Pos)
			errs = append(errs, fmt.Sprintf("%d: %s", pos.Line-len(imports), te.Msg))
		}
	}}
	conf.Check("p", fset, []*ast.File{f}, nil)
	return errs, true, src
}

// docSig: the documented signatures of the plugins' functions, used for FUNC holes (frozen from Readme / package docs).
func docSig(h *Hole, td *typeDecls) string {
	arg := func(i int) string {
		if i < len(h.Args) {
			return td.nameFor(h.Args[i], 0)
		}
		return "struct{}"
	}
	who := h.Who
	if who == "self" {
		who = td.rs.Run.Plugin
	}
	switch who {
	case "equal":
		if len(h.Args) == 1 {
			return fmt.Sprintf("(a %s) func(%s) bool", arg(0), arg(0))
		}
		return fmt.Sprintf("(a, b %s) bool", arg(0))
	case "compare":
		if len(h.Args) == 1 {
			return fmt.Sprintf("(a %s) func(%s) int", arg(0), arg(0))
		}
		return fmt.Sprintf("(a, b %s) int", arg(0))
	case "hash":
		return fmt.Sprintf("(a %s) uint64", arg(0))
	case "deepcopy":
		return fmt.Sprintf("(dst, src %s)", arg(0))
	case "clone":
		return fmt.Sprintf("(src %s) %s", arg(0), arg(0))
	case "sort":
		return fmt.Sprintf("(l %s) %s", arg(0), arg(0))
	case "contains":
		return fmt.Sprintf("(l %s, item %s) bool", arg(0), arg(1))
	case "min", "max":
		if len(h.Args) == 2 {
			return fmt.Sprintf("(a %s, b %s) %s", arg(0), arg(1), arg(1))
		}
	}
	return ""
}

// cmdTyped: debugging aid — type-check the residuals of a plugin and print an error histogram.
func cmdTyped(args []string) {
	tier := "quick"
	verbose := 0
	for _, a := range args[1:] {
		if strings.HasPrefix(a, "-v") {
			verbose = 1
			fmt.Sscanf(a, "-v%d", &verbose)
		} else {
			tier = a
		}
	}
	repo, err := loadRepo()
	if err != nil {
		fmt.Println(err)
		return
	}
	c := &Ctx{Repo: repo, Rep: newReport("X", tier), Tier: tier}
	c.R = newSweeper(repo, tier)
	plugins := []string{args[0]}
	if args[0] == "ALL" {
		plugins = repo.Plugins
	}
	c.R.Prefetch(plugins...)
	for _, p := range plugins {
		typed, skipped, bad := 0, 0, 0
		hist := map[string]int{}
		ex := map[string]string{}
		for _, rs := range c.acceptedResids(p) {
			if rs.Err != nil {
				continue
			}
			errs, done, src := typecheckResidSrc(rs, docSig)
			if !done {
				skipped++
				continue
			}
			typed++
			if len(errs) > 0 {
				bad++
				k := holeRe.ReplaceAllString(stripLine(errs[0]), "_")
				hist[k]++
				if ex[k] == "" {
					ex[k] = fmt.Sprintf("script=%v\n%s\n%s\nerrors: %s", rs.Run.Script, rs.Run.describe(), src, strings.Join(errs, "\n        "))
				}
			}
		}
		fmt.Printf("## %-10s typed=%d skipped=%d with-errors=%d\n", p, typed, skipped, bad)
		var ks []string
		for k := range hist {
			ks = append(ks, k)
		}
		sort.Strings(ks)
		for _, k := range ks {
			fmt.Printf("   %4d  %s\n", hist[k], k)
			if verbose > 0 {
				fmt.Println(ex[k])
			}
		}
	}
}
