package main

import (
	"fmt"
	"go/ast"
	"go/importer"
	"go/parser"
	"go/token"
	"go/types"
	"os"
	"regexp"
	"sort"
	"strconv"
	"strings"
	"sync"
)

// R4 — typed residuals. The symbolic type graph of a run is turned into declarations: every TYPE hole becomes a distinct
// defined type (structural when the run established its kind, otherwise an opaque struct), FUNC holes get the documented
// signature of the plugin they were requested from, PKG holes become real imports; the residual is then checked with
// go/types. Because the generators never inspect the types of plumbed parameters, checking with pairwise distinct opaque
// types decides positional correctness for all types (parametricity).

var (
	impOnce   sync.Once
	sharedImp types.Importer
	impMu     sync.Mutex
)

type lockedImporter struct{ imp types.Importer }

func (l lockedImporter) Import(path string) (*types.Package, error) {
	impMu.Lock()
	defer impMu.Unlock()
	return l.imp.Import(path)
}

func stdImporter() types.Importer {
	impOnce.Do(func() {
		sharedImp = lockedImporter{importer.ForCompiler(token.NewFileSet(), "source", nil)}
	})
	return sharedImp
}

type typeDecls struct {
	rs        *Resid
	byVal     map[*VOpaque]string // opaque type value -> declared name
	decls     []string
	fresh     int
	nameID    map[string]string     // NAME hole origin -> placeholder identifier
	parent    map[*VOpaque]*VOpaque // union-find: types the run established to be identical
	byOrigin  map[string]*VOpaque
	skip      string // non-empty: the run's type graph cannot be declared faithfully (reason)
	useUnsafe bool
	freshAttr map[*VOpaque]map[string]*VOpaque
	asIface   map[*VOpaque]string   // type declared as an interface with this marker method (target of an AssignableTo)
	asImpl    map[*VOpaque][]string // marker methods a type implements (source of an AssignableTo)
	unpinned  []map[string]bool     // per basic type whose kind was not pinned: the spellings it may have
	nilArgs   []*VOpaque            // argument types that may be the type of an untyped nil
	mapKeys   map[*VOpaque]bool     // key types of map types of the input (comparable by construction)
	openKinds int                   // types about which the path established nothing at all
	openDirs  int                   // channel types of the input whose direction the path never asked for
}

func (td *typeDecls) freshName() string {
	td.fresh++
	return fmt.Sprintf("__X%d", td.fresh)
}

func (td *typeDecls) find(o *VOpaque) *VOpaque {
	for {
		p, ok := td.parent[o]
		if !ok || p == o {
			return o
		}
		o = p
	}
}

// index collects every opaque type value reachable from the run's holes, requests and registrations.
func (td *typeDecls) index() {
	td.byOrigin = map[string]*VOpaque{}
	td.parent = map[*VOpaque]*VOpaque{}
	td.nameID = map[string]string{}
	seen := map[*VOpaque]bool{}
	var walk func(v Value, depth int)
	walk = func(v Value, depth int) {
		switch x := v.(type) {
		case *VOpaque:
			if x == nil || seen[x] || depth > 12 {
				return
			}
			seen[x] = true
			if _, dup := td.byOrigin[x.Origin]; !dup {
				td.byOrigin[x.Origin] = x
			}
			for _, a := range x.attrs {
				walk(a, depth+1)
			}
		case *VList:
			for _, e := range x.Elems {
				walk(e, depth+1)
			}
		case VStr:
			for _, p := range x.Parts {
				if p.Hole != nil {
					walk(p.Hole.Val, depth+1)
				}
			}
		}
	}
	td.mapKeys = map[*VOpaque]bool{}
	defer func() {
		for x := range seen {
			if u := underlyingVal(x); u != nil && u.Kind == "*types.Map" {
				if k, ok := u.attrs["Key"].(*VOpaque); ok {
					td.mapKeys[k] = true
					if ku, ok := k.attrs["Underlying"].(*VOpaque); ok {
						td.mapKeys[ku] = true
					}
				}
			}
		}
	}()
	for _, h := range td.rs.Run.Holes {
		walk(h.Val, 0)
		for _, a := range h.Args {
			walk(a, 0)
		}
		if h.Kind == "NAME" {
			td.nameID[h.Origin] = h.ID
		}
	}
	for _, v := range td.rs.Run.Registered {
		walk(v, 0)
	}
	for _, v := range td.rs.Run.AddArgs {
		walk(v, 0)
	}
	// identities established on this path
	for _, d := range td.rs.Run.Decisions {
		pre := ""
		for _, p := range []string{"B:types.Identical(", "B:types.AssignableTo("} {
			if strings.HasPrefix(d.Sym, p) {
				pre = p
			}
		}
		if pre == "" || d.Choice != 0 {
			continue
		}
		args := splitTop(strings.TrimSuffix(strings.TrimPrefix(d.Sym, pre), ")"))
		if len(args) != 2 {
			continue
		}
		if pre == "B:types.AssignableTo(" {
			// assignability is directional: when the run learnt nothing else about the two types, the target is declared
			// as an interface the source implements, so that a value can flow only from the first to the second
			directional := false
			for _, pair := range td.matchOrigins(args[0], args[1]) {
				x, y := td.find(pair[0]), td.find(pair[1])
				if x != y && opaqueInfo(x) == 0 && opaqueInfo(y) == 0 && td.asIface[x] == "" && len(td.asImpl[y]) == 0 {
					if td.asIface == nil {
						td.asIface = map[*VOpaque]string{}
						td.asImpl = map[*VOpaque][]string{}
					}
					if td.asIface[y] == "" {
						td.asIface[y] = fmt.Sprintf("is%d", len(td.asIface))
					}
					td.asImpl[x] = append(td.asImpl[x], td.asIface[y])
					directional = true
				}
			}
			if directional {
				continue
			}
		}
		for _, pair := range td.matchOrigins(args[0], args[1]) {
			a, b := td.find(pair[0]), td.find(pair[1])
			if a != b {
				// keep the value the generator learnt more about as the representative
				if opaqueInfo(b) > opaqueInfo(a) || typTableRe.MatchString(b.Origin) || b.Origin == "types.NewStruct(nil,nil)" {
					a, b = b, a
				}
				td.parent[b] = a
			}
		}
	}
}

// matchOrigins resolves two origin strings (possibly in tied `[*]` form) to pairs of opaque values.
func (td *typeDecls) matchOrigins(a, b string) [][2]*VOpaque {
	var out [][2]*VOpaque
	for _, o := range []string{a, b} {
		if typTableRe.MatchString(o) {
			if _, ok := td.byOrigin[o]; !ok {
				td.byOrigin[o] = &VOpaque{Origin: o}
			}
		}
		if o == "types.NewStruct(nil,nil)" {
			if _, ok := td.byOrigin[o]; !ok {
				td.byOrigin[o] = &VOpaque{Origin: o, Kind: "*types.Struct", built: true, attrs: map[string]Value{"#fields": &VList{}}}
			}
		}
	}
	if x, ok := td.byOrigin[a]; ok {
		if y, ok := td.byOrigin[b]; ok {
			return [][2]*VOpaque{{x, y}}
		}
	}
	if strings.Contains(a, "[*]") || strings.Contains(b, "[*]") {
		var xs, ys []*VOpaque
		var origins []string
		for o := range td.byOrigin {
			origins = append(origins, o)
		}
		sort.Strings(origins)
		for _, o := range origins {
			v := td.byOrigin[o]
			t := tieRe.ReplaceAllString(o, "[*]")
			if t == a {
				xs = append(xs, v)
			}
			if t == b {
				ys = append(ys, v)
			}
		}
		for _, x := range xs {
			for _, y := range ys {
				out = append(out, [2]*VOpaque{x, y})
			}
		}
	}
	return out
}

// opaqueInfo: how much the run established about a type value (its own kind, and recursively its attributes).
func opaqueInfo(o *VOpaque) int {
	seen := map[*VOpaque]bool{}
	var f func(o *VOpaque, d int) int
	f = func(o *VOpaque, d int) int {
		if o == nil || seen[o] || d > 8 {
			return 0
		}
		seen[o] = true
		n := 0
		if o.Kind != "" {
			n++
		}
		for _, a := range o.attrs {
			switch x := a.(type) {
			case *VOpaque:
				n += 1 + f(x, d+1)
			case *VList:
				for _, e := range x.Elems {
					if eo, ok := e.(*VOpaque); ok {
						n += 1 + f(eo, d+1)
					}
				}
			default:
				n++
			}
		}
		return n
	}
	return f(o, 0)
}

// splitTop splits at commas outside parentheses / brackets / ‹› quotes.
func splitTop(s string) []string {
	var out []string
	depth, start := 0, 0
	for i, r := range s {
		switch r {
		case '(', '[', '\u2039':
			depth++
		case ')', ']', '\u203a':
			depth--
		case ',':
			if depth == 0 {
				out = append(out, s[start:i])
				start = i + 1
			}
		}
	}
	return append(out, s[start:])
}

// nameFor returns a type expression for an opaque type value, declaring it on first use.
func (td *typeDecls) nameFor(v Value, depth int) string {
	o, ok := v.(*VOpaque)
	if !ok || o == nil {
		return "interface{}"
	}
	if td.parent != nil {
		o = td.find(o)
	}
	if n, ok := td.byVal[o]; ok {
		return n
	}
	if m := typTableRe.FindStringSubmatch(o.Origin); m != nil {
		n := 0
		fmt.Sscanf(m[1], "%d", &n)
		if n > 0 && n < len(types.Typ) {
			nm := types.Typ[n].Name()
			switch {
			case nm == "Pointer":
				td.useUnsafe = true
				return "unsafe.Pointer"
			case strings.HasPrefix(nm, "untyped "):
				return goBasic["types.Untyped"+strings.Title(strings.TrimPrefix(nm, "untyped "))]
			}
			return nm
		}
	}
	// a type built by the generator itself (types.NewPointer(T), NewSlice(T), …) is the literal composite type
	if o.built {
		sub := func(attr string) string { return td.nameFor(o.attrs[attr], depth+1) }
		switch o.Kind {
		case "*types.Pointer":
			return "*" + sub("Elem")
		case "*types.Slice":
			return "[]" + sub("Elem")
		case "*types.Map":
			return "map[" + sub("Key") + "]" + sub("Elem")
		case "*types.Struct":
			if fl, ok := o.attrs["#fields"].(*VList); ok {
				var fs []string
				for i, f := range fl.Elems {
					fo, _ := f.(*VOpaque)
					fname, ftype := fmt.Sprintf("F%d", i), "struct{}"
					if fo != nil {
						if nm, ok := fo.attrs["Name"].(VStr); ok {
							fname = td.renderName(nm)
						}
						ftype = td.nameFor(fo.attrs["Type"], depth+1)
					}
					tag := ""
					if tl, ok := o.attrs["#tags"].(*VList); ok && i < len(tl.Elems) {
						if ts, isS := tl.Elems[i].(VStr); isS {
							if l, isLit := ts.isLit(); isLit && l != "" {
								tag = " " + strconv.Quote(l)
							}
						}
					}
					fs = append(fs, fname+" "+ftype+tag)
				}
				return "struct{ " + strings.Join(fs, "; ") + " }"
			}
		}
	}
	name := td.freshName()
	td.byVal[o] = name
	td.declare(name, o, depth)
	return name
}

var typTableRe = regexp.MustCompile(`^qual:types\.Typ\[(\d+)\]$`)

// compOf: the declared name of a component (Elem, Key) of a type value.
func (td *typeDecls) compOf(v Value, attr string) string {
	o, ok := v.(*VOpaque)
	if !ok || o == nil {
		return "struct{}"
	}
	o = td.find(o)
	u := underlyingVal(o)
	if u == nil {
		u = o
	}
	if a, ok := u.attrs[attr]; ok {
		return td.nameFor(a, 1)
	}
	if td.freshAttr == nil {
		td.freshAttr = map[*VOpaque]map[string]*VOpaque{}
	}
	if td.freshAttr[u] == nil {
		td.freshAttr[u] = map[string]*VOpaque{}
	}
	if td.freshAttr[u][attr] == nil {
		td.freshAttr[u][attr] = &VOpaque{Origin: u.Origin + "." + attr + "()"}
	}
	return td.nameFor(td.freshAttr[u][attr], 1)
}

// compVal: the component value (Elem, Key) of a type value, if the run looked at it.
func (td *typeDecls) compVal(v Value, attr string) (Value, bool) {
	o, ok := v.(*VOpaque)
	if !ok || o == nil {
		return nil, false
	}
	o = td.find(o)
	u := underlyingVal(o)
	if u == nil {
		u = o
	}
	a, ok := u.attrs[attr]
	return a, ok
}

// sigResult: the declared name of the single result type of a function-typed value ("" if not exactly one).
func (td *typeDecls) sigResult(v Value) string {
	o, ok := v.(*VOpaque)
	if !ok || o == nil {
		return ""
	}
	u := underlyingVal(td.find(o))
	if u == nil || u.Kind != "*types.Signature" {
		return ""
	}
	r, ok := u.attrs["Results"].(*VOpaque)
	if !ok {
		return ""
	}
	el, ok := r.attrs["#elems"].(*VList)
	if !ok || len(el.Elems) != 1 {
		return ""
	}
	eo, ok := el.Elems[0].(*VOpaque)
	if !ok {
		return ""
	}
	if tv, ok := eo.attrs["Type"]; ok {
		return td.nameFor(tv, 1)
	}
	return ""
}

// renderName renders a name template with the run's placeholder identifiers.
func (td *typeDecls) renderName(v VStr) string {
	out := ""
	for _, p := range v.Parts {
		if p.Hole != nil {
			if id, ok := td.nameID[p.Hole.Origin]; ok {
				out += id
			} else {
				out += p.Hole.ID
			}
		} else {
			out += p.Lit
		}
	}
	return out
}

var goBasic = map[string]string{
	"types.Bool": "bool", "types.UntypedBool": "bool", "types.Int": "int", "types.Int8": "int8", "types.Int16": "int16", "types.Int32": "int32",
	"types.Int64": "int64", "types.Uint": "uint", "types.Uint8": "uint8", "types.Uint16": "uint16", "types.Uint32": "uint32", "types.Uint64": "uint64",
	"types.Uintptr": "uintptr", "types.Float32": "float32", "types.Float64": "float64", "types.Complex64": "complex64", "types.Complex128": "complex128",
	"types.String": "string", "types.UnsafePointer": "unsafe.Pointer", "types.UntypedInt": "int", "types.UntypedRune": "rune", "types.UntypedFloat": "float64",
	"types.UntypedComplex": "complex128", "types.UntypedString": "string", "types.Byte": "byte", "types.Rune": "rune",
}

// basicName: the Go basic type an opaque Basic was refined to on this path ("" = not refined).
func (td *typeDecls) basicName(u *VOpaque) string {
	if u == nil {
		return ""
	}
	run := td.rs.Run
	pre := "S:" + u.Origin + ".Kind()#"
	preT := tieRe.ReplaceAllString(pre, "[*]")
	for _, d := range run.Decisions {
		if (strings.HasPrefix(d.Sym, pre) || strings.HasPrefix(d.Sym, preT)) && d.Choice < len(d.Cands)-1 {
			if g, ok := goBasic[d.Cands[d.Choice]]; ok {
				return g
			}
			return "?" + d.Cands[d.Choice]
		}
	}
	// if-form: B:<origin>.Kind()==<n> answered true, or !=<n> answered false
	eq := "B:" + u.Origin + ".Kind()=="
	eqT := tieRe.ReplaceAllString(eq, "[*]")
	ne := "B:" + u.Origin + ".Kind()!="
	neT := tieRe.ReplaceAllString(ne, "[*]")
	for _, d := range run.Decisions {
		for pi, p := range []string{eq, eqT, ne, neT} {
			if strings.HasPrefix(d.Sym, p) && ((pi < 2 && d.Choice == 0) || (pi >= 2 && d.Choice == 1)) {
				n := 0
				if _, err := fmt.Sscanf(strings.TrimPrefix(d.Sym, p), "%d", &n); err == nil && n > 0 && n < len(types.Typ) {
					nm := types.Typ[n].Name()
					if strings.HasPrefix(nm, "untyped ") {
						return goBasic["types.Untyped"+strings.Title(strings.TrimPrefix(nm, "untyped "))]
					}
					if nm == "Pointer" {
						return "unsafe.Pointer"
					}
					return nm
				}
			}
		}
	}
	return ""
}

func (td *typeDecls) predTrue(pred string, o *VOpaque) bool {
	for _, c := range []*VOpaque{o, underlyingVal(o)} {
		if c == nil {
			continue
		}
		if ans, asked := td.rs.Run.predTrue(pred, c); asked && ans {
			return true
		}
	}
	return false
}

func (td *typeDecls) declare(name string, o *VOpaque, depth int) {
	run := td.rs.Run
	u := underlyingVal(o)
	kind := ""
	if u != nil {
		kind = u.Kind
	}
	sub := func(attr string) string {
		if u == nil || depth > 6 {
			return "struct{}"
		}
		if a, ok := u.attrs[attr]; ok {
			return td.nameFor(a, depth+1)
		}
		// a component the generator never looked at: one fresh opaque type per (underlying value, component)
		if td.freshAttr == nil {
			td.freshAttr = map[*VOpaque]map[string]*VOpaque{}
		}
		if td.freshAttr[u] == nil {
			td.freshAttr[u] = map[string]*VOpaque{}
		}
		if td.freshAttr[u][attr] == nil {
			td.freshAttr[u][attr] = &VOpaque{Origin: u.Origin + "." + attr + "()"}
			if attr == "Key" && u.Kind == "*types.Map" {
				td.mapKeys[td.freshAttr[u][attr]] = true
			}
		}
		return td.nameFor(td.freshAttr[u][attr], depth+1)
	}
	tuple := func(attr string, named bool) string {
		var elems []Value
		if a, ok := u.attrs[attr].(*VOpaque); ok {
			if el, ok := a.attrs["#elems"].(*VList); ok {
				elems = el.Elems
			}
		}
		var ss []string
		for i, e := range elems {
			eo, _ := e.(*VOpaque)
			t := "struct{}"
			if eo != nil {
				if tv, ok := eo.attrs["Type"]; ok {
					t = td.nameFor(tv, depth+1)
				} else {
					t = td.nameFor(&VOpaque{Origin: eo.Origin + ".Type()"}, depth+1)
				}
			}
			if named {
				ss = append(ss, fmt.Sprintf("p%d %s", i, t))
			} else {
				ss = append(ss, t)
			}
		}
		return strings.Join(ss, ", ")
	}
	if m := typTableRe.FindStringSubmatch(o.Origin); m != nil {
		td.byVal[o] = "" // force the literal path of nameFor
		delete(td.byVal, o)
		lit := td.nameFor(o, depth)
		td.byVal[o] = name
		td.decls = append(td.decls, fmt.Sprintf("type %s = %s", name, lit))
		return
	}
	methodsOK := true // can this declared type carry methods?
	// a type the run established NOT to be a defined type (identical to its own Underlying(), or a failed *types.Named
	// assertion) is declared as an alias of the literal type; otherwise as a defined type
	alias := false
	if u != nil && u != o && td.find(u) == td.find(o) {
		alias = true
	}
	if d, ok := run.decision("A:" + o.Origin + ":*types.Named"); ok && d.Choice == 1 {
		alias = true
	}
	if strings.HasSuffix(o.Origin, ".Underlying()") {
		alias = true // the result of Underlying() is never a defined type
	}
	if o.Kind != "" && o.Kind != "*types.Named" && o.Kind != "*types.Alias" && o.Kind != "other" {
		alias = true // the value itself (not its Underlying()) was refined to a literal kind
	}
	// a successful assertion of the type itself (not its Underlying()) to a literal kind: it is that literal type
	for _, k := range []string{"Basic", "Pointer", "Slice", "Array", "Map", "Struct", "Signature", "Chan", "Interface"} {
		if d, ok := run.decision("A:" + o.Origin + ":*types." + k); ok && d.Choice == 0 {
			alias = true
		}
	}
	emit := func(lit string) {
		if alias {
			methodsOK = false
			td.decls = append(td.decls, fmt.Sprintf("type %s = %s", name, lit))
		} else {
			td.decls = append(td.decls, fmt.Sprintf("type %s %s", name, lit))
		}
	}
	switch kind {
	case "*types.Pointer":
		// defined pointer types (type P *T) are not modelled unless the run asserted *types.Named: they have no method set
		if d, ok := run.decision("A:" + o.Origin + ":*types.Named"); !ok || d.Choice != 0 {
			alias = true
		} else if !alias {
			td.skip = "a defined pointer type (type P *T): outside the type grammar the properties quantify over"
		}
		emit("*" + sub("Elem"))
		methodsOK = false
	case "*types.Slice":
		emit("[]" + sub("Elem"))
	case "*types.Array":
		emit("[3]" + sub("Elem"))
	case "*types.Map":
		key := "string"
		if _, ok := u.attrs["Key"]; ok {
			key = sub("Key")
		}
		emit(fmt.Sprintf("map[%s]%s", key, sub("Elem")))
	case "*types.Chan":
		dir := "chan "
		if d, ok := u.attrs["Dir"].(VInt); ok && d.Known {
			switch d.V {
			case 1:
				dir = "chan<- "
			case 2:
				dir = "<-chan "
			}
		}
		// a direction test answered on this path: <origin>.Dir()==2 (RecvOnly) / ==1 (SendOnly)
		for _, cand := range []*VOpaque{u, o} {
			if cand == nil {
				continue
			}
			if d, ok := run.decision("B:" + cand.Origin + ".Dir()==2"); ok && d.Choice == 0 {
				dir = "<-chan "
			}
			if d, ok := run.decision("B:" + cand.Origin + ".Dir()==1"); ok && d.Choice == 0 {
				dir = "chan<- "
			}
			// the direction chosen by a switch over Dir() or by a lookup in a table keyed by direction
			for _, d := range run.Decisions {
				if strings.HasPrefix(d.Sym, "S:"+cand.Origin+".Dir()#") && d.Choice < len(d.Cands) {
					switch d.Cands[d.Choice] {
					case "types.RecvOnly":
						dir = "<-chan "
					case "types.SendOnly":
						dir = "chan<- "
					}
				}
			}
		}
		if dir == "chan " && !o.built && (u == nil || !u.built) {
			// the direction of this channel type of the input was never asked for: it may be send-only or receive-only
			asked := false
			for _, cand := range []*VOpaque{u, o} {
				if cand == nil {
					continue
				}
				for _, d := range run.Decisions {
					if strings.Contains(d.Sym, cand.Origin+".Dir()") {
						asked = true
					}
				}
			}
			if !asked {
				td.openDirs++
				switch r4AltChan {
				case "send":
					dir = "chan<- "
				case "recv":
					dir = "<-chan "
				}
			}
		}
		emit(dir + sub("Elem"))
	case "*types.Signature":
		res := tuple("Results", false)
		if strings.Contains(res, ",") {
			res = "(" + res + ")"
		}
		params := tuple("Params", false)
		if vb, ok := u.attrs["#variadic"].(VBool); ok && vb.Known && vb.V {
			// the last parameter is ...Elem
			if pt, ok := u.attrs["Params"].(*VOpaque); ok {
				if el, ok := pt.attrs["#elems"].(*VList); ok && len(el.Elems) > 0 {
					if lo, ok := el.Elems[len(el.Elems)-1].(*VOpaque); ok {
						if lt, ok := lo.attrs["Type"]; ok {
							parts := strings.Split(params, ", ")
							parts[len(parts)-1] = "..." + td.compOf(lt, "Elem")
							params = strings.Join(parts, ", ")
						}
					}
				}
			}
		}
		emit(fmt.Sprintf("func(%s) %s", params, res))
	case "*types.Basic":
		b := td.basicName(u)
		if b == "" {
			// the kind may have been examined on the other of the two values (the type itself / its Underlying())
			if uu, ok := o.attrs["Underlying"].(*VOpaque); ok && uu != u {
				b = td.basicName(uu)
			}
			if b == "" && u != o {
				b = td.basicName(o)
			}
		}
		switch {
		case b == "":
			// the exact kind was never pinned down: any basic kind the path did not exclude is a possible input. The first
			// allowed spelling of the list is the baseline; r4AltBasic selects another one (rR4 tries them in turn).
			cands := td.basicCandidates(o, u)
			td.unpinned = append(td.unpinned, cands)
			b = ""
			if r4AltBasic != "" && cands[r4AltBasic] {
				b = r4AltBasic
			}
			if b == "" {
				for _, sp := range basicSpellings {
					if cands[sp] {
						b = sp
						break
					}
				}
			}
			if b == "" {
				b = "int"
			}
			if b == "unsafe.Pointer" {
				td.useUnsafe = true
			}
		case strings.HasPrefix(b, "?"):
			td.skip = "basic kind " + b[1:] + " has no Go spelling"
			b = "int"
		case b == "unsafe.Pointer":
			td.useUnsafe = true
		}
		emit(b)
	case "*types.Struct":
		var fs []string
		if el, ok := u.attrs["#elems"].(*VList); ok {
			for i, e := range el.Elems {
				eo, _ := e.(*VOpaque)
				fname := fmt.Sprintf("F%d_%s", i, strings.TrimLeft(name, "_"))
				ftype := "struct{}"
				if eo != nil {
					if id, ok := td.nameID[eo.Origin+".Name()"]; ok {
						fname = id
					}
					if nm, ok := eo.attrs["Name"].(VStr); ok {
						if l, isLit := nm.isLit(); isLit && l == "_" {
							fname = "_"
						}
					}
					if tv, ok := eo.attrs["Type"]; ok {
						ftype = td.nameFor(tv, depth+1)
					} else {
						ftype = td.nameFor(&VOpaque{Origin: eo.Origin + ".Type()"}, depth+1)
					}
				}
				// the first field of every struct type of the abstract input space carries a tag (interp.go structTag)
				tag := ""
				if i == 0 {
					tag = " " + strconv.Quote(structTag)
					if o.attrs["#mangledOf"] != nil {
						tag = " " + strconv.Quote(mangledTag)
					}
				}
				fs = append(fs, fname+" "+ftype+tag)
			}
		}
		emit(fmt.Sprintf("struct{ %s }", strings.Join(fs, "; ")))
	case "*types.Interface":
		emit(fmt.Sprintf("interface{ M%s() }", strings.TrimLeft(name, "_")))
		methodsOK = false
	default:
		// kind never examined: the generator treats the type parametrically. Property predicates answered by the oracle
		// still constrain it.
		switch {
		case td.predTrue("IsError", o):
			td.decls = append(td.decls, fmt.Sprintf("type %s = error", name))
			methodsOK = false
		case td.predTrue("isOrdered", o):
			emit("int")
		case td.predTrue("nullable", o):
			emit(fmt.Sprintf("*struct{ _%s int }", strings.TrimLeft(name, "_")))
			methodsOK = false
		case td.asIface[o] != "":
			td.decls = append(td.decls, fmt.Sprintf("type %s interface{ %s() }", name, td.asIface[o]))
			methodsOK = false
		case o.attrs["#mangledOf"] != nil:
			// the same type with the tag fmt produced (interp.go mangledType): a struct type literal
			orig, _ := o.attrs["#mangledOf"].(*VOpaque)
			td.decls = append(td.decls, fmt.Sprintf("type %s = struct{ P%s int %s }", name, strings.TrimLeft(td.nameFor(orig, depth+1), "_"), strconv.Quote(mangledTag)))
			methodsOK = false
		case o.attrs["#percentTag"] != nil && len(td.asImpl[o]) == 0:
			// its text was part of a format and nothing is known about it: it may be a struct type literal whose tag holds a percent sign
			td.decls = append(td.decls, fmt.Sprintf("type %s = struct{ P%s int %s }", name, strings.TrimLeft(name, "_"), strconv.Quote(structTag)))
			methodsOK = false
		case r4AltOpaque == "slice" && td.unconstrained(o) && len(td.asImpl[o]) == 0:
			// nothing at all is known about this type: it may as well be a slice type (not comparable, no map key, nil-able)
			td.openKinds++
			emit(fmt.Sprintf("[]struct{ _%s int }", strings.TrimLeft(name, "_")))
			methodsOK = false
		case notKind(o, u, "*types.Struct") && len(td.asImpl[o]) == 0:
			// the path took the arm that is *not* the struct arm of a switch over the kind: an opaque struct would contradict
			// what the path established; the first kind the path did not exclude stands for the type
			switch {
			case !notKind(o, u, "*types.Pointer"):
				emit(fmt.Sprintf("*struct{ _%s int }", strings.TrimLeft(name, "_")))
			case !notKind(o, u, "*types.Slice"):
				emit(fmt.Sprintf("[]struct{ _%s int }", strings.TrimLeft(name, "_")))
			case !notKind(o, u, "*types.Array"):
				emit(fmt.Sprintf("[3]struct{ _%s int }", strings.TrimLeft(name, "_")))
			default:
				emit(fmt.Sprintf("func(_%s int)", strings.TrimLeft(name, "_")))
			}
			methodsOK = false
		default:
			if td.unconstrained(o) && len(td.asImpl[o]) == 0 {
				td.openKinds++
			}
			emit(fmt.Sprintf("struct{ _%s int }", strings.TrimLeft(name, "_")))
			for _, m := range td.asImpl[o] {
				td.decls = append(td.decls, fmt.Sprintf("func (%s) %s() {}", name, m))
			}
		}
	}
	// methods the run's predicates found on this (named) type
	type mp struct{ pred, meth, res string }
	for _, m := range []mp{{r4MethodPred("equal.equalMethodInputParam", "Equal"), "Equal", "bool"}, {r4MethodPred("compare.compareMethodInputParam", "Compare"), "Compare", "int"}} {
		d, ok := run.decision("B:pred:" + m.pred + "(" + o.Origin + ",)!=nil")
		if !ok || d.Choice != 0 {
			continue
		}
		if !methodsOK {
			td.skip = "a " + m.meth + " method on a pointer- or interface-kinded named type (not expressible in Go)"
			continue
		}
		param := name
		if d2, ok := run.decision("A:*pred:" + m.pred + "(" + o.Origin + ",):*types.Pointer"); ok && d2.Choice == 0 {
			param = "*" + name
		} else if d3, ok := run.decision("A:*pred:" + m.pred + "(" + o.Origin + ",):*types.Interface"); ok && d3.Choice == 0 {
			param = "interface{}"
		}
		td.decls = append(td.decls, fmt.Sprintf("func (x *%s) %s(y %s) %s { panic(0) }", name, m.meth, param, m.res))
	}
	if ans, asked := run.predTrue("hasHashMethod", o); asked && ans {
		if !methodsOK {
			td.skip = "a Hash method on a pointer- or interface-kinded named type"
		} else {
			td.decls = append(td.decls, fmt.Sprintf("func (x *%s) Hash() %s { panic(0) }", name, hashMethodResult))
		}
	}
	if ans, asked := run.predTrue("hasDeepCopyMethod", o); asked && ans {
		if !methodsOK {
			td.skip = "a DeepCopy method on a pointer- or interface-kinded named type"
		} else {
			// hasDeepCopyMethod tests only the parameter count: the parameter's type is whatever the user declared
			td.decls = append(td.decls, fmt.Sprintf("func (x *%s) DeepCopy(to interface{}) { panic(0) }", name))
		}
	}
}

// notKind: did the path exclude kind k for this type (or for its underlying type)?
func notKind(o, u *VOpaque, k string) bool {
	for _, x := range []*VOpaque{o, u} {
		if x == nil {
			continue
		}
		for _, nk := range x.notKinds {
			if nk == k {
				return true
			}
		}
	}
	return false
}

// r4MethodPred: the name under which the plugin's method-lookup predicate is recorded (set per check from the repo).
var r4Repo *Repo

func r4MethodPred(key, method string) string {
	if r4Repo != nil {
		return methodPredicateName(r4Repo, key, method)
	}
	return key[strings.Index(key, ".")+1:]
}

// hashMethodResult: the result type of the Hash method that hash.hasHashMethod accepts, from the tabulation of that
// predicate (g9Methods); set by the checks that type residuals of the hash plugin.
var hashMethodResult = "uint64"

// typecheckResid type-checks a residual; sigs gives the signature text for FUNC holes (by hole), or "" to skip the residual.
func typecheckResid(rs *Resid, funcSig func(h *Hole, td *typeDecls) string) ([]string, bool) {
	errs, done, _ := typecheckResidSrc(rs, funcSig)
	return errs, done
}

func typecheckResidSrc(rs *Resid, funcSig func(h *Hole, td *typeDecls) string) ([]string, bool, string) {
	return typecheckResidOpt(rs, funcSig, false)
}

// typedSource: the residual with its declarations, without checking it.
func typedSource(rs *Resid, funcSig func(h *Hole, td *typeDecls) string) (string, bool) {
	_, ok, src := typecheckResidOpt(rs, funcSig, true)
	return src, ok
}

// lastSkip: why the last residual could not be typed (diagnostics only).
var lastSkip string

// lastTD: the declarations built for the last residual (rR4 reads which basic kinds were left open).
var lastTD *typeDecls

func typecheckResidOpt(rs *Resid, funcSig func(h *Hole, td *typeDecls) string, srcOnly bool) ([]string, bool, string) {
	lastSkip = ""
	if rs.Err != nil {
		lastSkip = "does not parse"
		return nil, false, ""
	}
	if rs.Run.RecCut || strings.Contains(rs.Run.Text, "__RECURSE_") {
		lastSkip = "recursion cut"
		return nil, false, ""
	}
	td := &typeDecls{rs: rs, byVal: map[*VOpaque]string{}}
	lastTD = td
	td.index()
	// TYPE holes first so that they keep their placeholder names
	var ids []string
	for id := range rs.Run.Holes {
		ids = append(ids, id)
	}
	sort.Strings(ids)
	for _, id := range ids {
		h := rs.Run.Holes[id]
		if h.Kind == "TYPE" {
			if o, ok := h.Val.(*VOpaque); ok {
				o = td.find(o)
				if _, dup := td.byVal[o]; !dup {
					td.byVal[o] = id
				} else {
					td.decls = append(td.decls, fmt.Sprintf("type %s = %s", id, td.byVal[o]))
				}
			}
		}
	}
	for _, id := range ids {
		h := rs.Run.Holes[id]
		if h.Kind != "TYPE" {
			continue
		}
		o, ok := h.Val.(*VOpaque)
		if !ok {
			td.decls = append(td.decls, fmt.Sprintf("type %s struct{ _%s int }", id, strings.TrimLeft(id, "_")))
			continue
		}
		o = td.find(o)
		if td.byVal[o] == id {
			td.declare(id, o, 0)
		}
	}
	var imports []string
	declared := map[string]bool{}
	for _, fd := range rs.Funcs {
		declared[fd.Name.Name] = true
	}
	for _, id := range ids {
		h := rs.Run.Holes[id]
		switch h.Kind {
		case "PKG":
			imports = append(imports, fmt.Sprintf("import %s %q", id, h.Origin))
		case "FUNC":
			if declared[id] {
				continue
			}
			sig := ""
			if funcSig != nil {
				sig = funcSig(h, td)
			}
			if sig == "" {
				lastSkip = "no documented signature for helper of " + h.Who
				return nil, false, ""
			}
			td.decls = append(td.decls, fmt.Sprintf("func %s%s { panic(0) }", id, sig))
		case "EXPR", "OPAQUE":
			lastSkip = h.Kind + " hole " + h.Origin
			return nil, false, ""
		}
	}
	// the call site: the derived function must accept arguments of exactly the types the call was registered with
	callsite := ""
	if len(rs.Funcs) > 0 && len(rs.Run.AddArgs) > 0 && funcSig != nil {
		var decl, args []string
		var callArgs []Value
		for _, v := range rs.Run.AddArgs {
			// a multi-value call as the only argument (deriveTuple(f())) arrives as one *types.Tuple
			if o, ok := v.(*VOpaque); ok && o.Kind == "*types.Tuple" {
				if len(rs.Run.AddArgs) > 1 {
					td.skip = "infeasible: a multi-value call next to other arguments"
				}
				if el, ok := o.attrs["#elems"].(*VList); ok {
					for _, e := range el.Elems {
						if eo, ok := e.(*VOpaque); ok {
							if tv, ok := eo.attrs["Type"]; ok {
								callArgs = append(callArgs, tv)
							} else {
								callArgs = append(callArgs, &VOpaque{Origin: eo.Origin + ".Type()"})
							}
						}
					}
					continue
				}
			}
			callArgs = append(callArgs, v)
		}
		for i, v := range callArgs {
			decl = append(decl, fmt.Sprintf("\tvar a%d %s", i, td.nameFor(v, 0)))
			args = append(args, fmt.Sprintf("a%d", i))
		}
		callsite = fmt.Sprintf("func __callsite() {\n%s\n\t%s(%s)\n}", strings.Join(decl, "\n"), rs.Funcs[0].Name.Name, strings.Join(args, ", "))
	}
	if td.skip != "" {
		lastSkip = td.skip
		return nil, false, ""
	}
	if callsite != "" {
		td.decls = append(td.decls, callsite)
	}
	if td.useUnsafe {
		imports = append(imports, `import "unsafe"`)
	}
	src := strings.Replace(rs.Run.Text, "package p\n", "package p\n"+strings.Join(imports, "\n")+"\n", 1) + "\n" + strings.Join(td.decls, "\n") + "\n"
	if srcOnly {
		return nil, true, src
	}
	fset := token.NewFileSet()
	f, err := parser.ParseFile(fset, "typed.go", src, 0)
	if err != nil {
		return []string{"(declarations) " + err.Error()}, true, src
	}
	var errs []string
	conf := types.Config{Importer: stdImporter(), Error: func(e error) {
		if te, ok := e.(types.Error); ok {
			// unused imports/variables are artefacts of holes
			if strings.Contains(te.Msg, "imported and not used") || strings.Contains(te.Msg, "declared and not used") {
				return
			}
			pos := fset.Position(te.Pos)
			errs = append(errs, fmt.Sprintf("%d: %s", pos.Line-len(imports), te.Msg))
		}
	}}
	conf.Check("p", fset, []*ast.File{f}, nil)
	residLines := strings.Count(rs.Run.Text, "\n")
	for _, e := range errs {
		if strings.Contains(e, "invalid map key type") {
			// in the declarations of the input types: the oracle chose a key type Go does not allow as a map key, no such input
			// exists. In the emitted code itself: the generator built a map type with a key it never established to be comparable.
			line := 0
			fmt.Sscanf(e, "%d:", &line)
			if line > residLines || r4AltOpaque == "" {
				lastSkip = "infeasible: invalid map key type"
				return nil, false, ""
			}
		}
	}
	return errs, true, src
}

// docSig: the documented signatures of the plugins' functions, used for FUNC holes (frozen from Readme / package docs).
func docSig(h *Hole, td *typeDecls) string {
	arg := func(i int) string {
		if i < len(h.Args) {
			return td.nameFor(h.Args[i], 0)
		}
		return "struct{}"
	}
	who := h.Who
	if who == "self" {
		who = td.rs.Run.Plugin
	}
	switch who {
	case "equal":
		if len(h.Args) == 1 {
			return fmt.Sprintf("(a %s) func(%s) bool", arg(0), arg(0))
		}
		return fmt.Sprintf("(a, b %s) bool", arg(0))
	case "compare":
		if len(h.Args) == 1 {
			return fmt.Sprintf("(a %s) func(%s) int", arg(0), arg(0))
		}
		return fmt.Sprintf("(a, b %s) int", arg(0))
	case "hash":
		return fmt.Sprintf("(a %s) uint64", arg(0))
	case "deepcopy":
		return fmt.Sprintf("(dst, src %s)", arg(0))
	case "clone":
		return fmt.Sprintf("(src %s) %s", arg(0), arg(0))
	case "sort":
		return fmt.Sprintf("(l %s) %s", arg(0), arg(0))
	case "contains":
		if len(h.Args) == 1 {
			return fmt.Sprintf("(l %s, item %s) bool", arg(0), td.compOf(h.Args[0], "Elem"))
		}
		return fmt.Sprintf("(l %s, item %s) bool", arg(0), arg(1))
	case "min", "max":
		if len(h.Args) == 2 {
			return fmt.Sprintf("(a %s, b %s) %s", arg(0), arg(1), arg(1))
		}
	case "fmap":
		// deriveFmap(func(A) B, <-chan A) <-chan B ; deriveFmap(func(A) B, []A) []B
		if len(h.Args) == 2 {
			res := td.sigResult(h.Args[0])
			switch kindOfVal(h.Args[1]) {
			case "*types.Chan":
				if res != "" {
					return fmt.Sprintf("(f %s, in %s) <-chan %s", arg(0), arg(1), res)
				}
			case "*types.Slice":
				if res != "" {
					return fmt.Sprintf("(f %s, in %s) []%s", arg(0), arg(1), res)
				}
			}
		}
	case "join":
		// deriveJoin(<-chan <-chan T) <-chan T ; deriveJoin([][]T) []T
		if len(h.Args) == 1 {
			switch kindOfVal(h.Args[0]) {
			case "*types.Chan":
				if inner, ok := td.compVal(h.Args[0], "Elem"); ok && kindOfVal(inner) == "*types.Chan" {
					return fmt.Sprintf("(in %s) <-chan %s", arg(0), td.compOf(inner, "Elem"))
				}
			case "*types.Slice":
				if inner, ok := td.compVal(h.Args[0], "Elem"); ok && kindOfVal(inner) == "*types.Slice" {
					return fmt.Sprintf("(in %s) []%s", arg(0), td.compOf(inner, "Elem"))
				}
			}
		}
	case "keys":
		return fmt.Sprintf("(m %s) []%s", arg(0), td.compOf(h.Args[0], "Key"))
	case "set":
		return fmt.Sprintf("(l %s) map[%s]struct{}", arg(0), td.compOf(h.Args[0], "Elem"))
	case "unique":
		return fmt.Sprintf("(l %s) %s", arg(0), arg(0))
	case "gostring":
		return fmt.Sprintf("(v %s) string", arg(0))
	case "tuple":
		var ps, rs []string
		for i := range h.Args {
			ps = append(ps, fmt.Sprintf("v%d %s", i, arg(i)))
			rs = append(rs, arg(i))
		}
		return fmt.Sprintf("(%s) func() (%s)", strings.Join(ps, ", "), strings.Join(rs, ", "))
	}
	return ""
}

// cmdTyped: debugging aid — type-check the residuals of a plugin and print an error histogram.
func cmdTyped(args []string) {
	tier := "quick"
	verbose := 0
	for _, a := range args[1:] {
		if strings.HasPrefix(a, "-v") {
			verbose = 1
			fmt.Sscanf(a, "-v%d", &verbose)
		} else {
			tier = a
		}
	}
	repo, err := loadRepo()
	if err != nil {
		fmt.Println(err)
		return
	}
	c := &Ctx{Repo: repo, Rep: newReport("X", tier), Tier: tier}
	c.R = newSweeper(repo, tier)
	plugins := []string{args[0]}
	if args[0] == "ALL" {
		plugins = repo.Plugins
	}
	c.R.Prefetch(plugins...)
	for _, p := range plugins {
		typed, skipped, bad := 0, 0, 0
		skips := map[string]int{}
		hist := map[string]int{}
		ex := map[string]string{}
		for _, rs := range c.acceptedResids(p) {
			if rs.Err != nil {
				continue
			}
			errs, done, src := typecheckResidSrc(rs, docSig)
			if !done {
				skipped++
				r := lastSkip
				if len(r) > 60 {
					r = r[:60]
				}
				skips[holeRe.ReplaceAllString(r, "_")]++
				continue
			}
			typed++
			if len(errs) > 0 {
				bad++
				k := holeRe.ReplaceAllString(stripLine(errs[0]), "_")
				hist[k]++
				if ex[k] == "" {
					leg := ""
					var hids []string
					for id := range rs.Run.Holes {
						hids = append(hids, id)
					}
					sort.Strings(hids)
					for _, id := range hids {
						h := rs.Run.Holes[id]
						leg += fmt.Sprintf("  %s = %s %s", id, h.Kind, h.Origin)
						for _, a := range h.Args {
							leg += " arg:" + origin(a)
						}
						leg += "\n"
					}
					ex[k] = fmt.Sprintf("script=%v\n%s\n%s%s\nerrors: %s", rs.Run.Script, rs.Run.describe(), leg, src, strings.Join(errs, "\n        "))
				}
			}
		}
		fmt.Printf("## %-10s typed=%d skipped=%d with-errors=%d\n", p, typed, skipped, bad)
		for r, n := range skips {
			fmt.Printf("   skip %4d  %s\n", n, r)
		}
		var ks []string
		for k := range hist {
			ks = append(ks, k)
		}
		sort.Strings(ks)
		for _, k := range ks {
			fmt.Printf("   %4d  %s\n", hist[k], k)
			if verbose > 0 {
				fmt.Println(ex[k])
			}
		}
	}
}

// rR4: typed residuals. Every accepted residual whose holes can be declared faithfully is type-checked with go/types
// against declarations built from what the abstract path established (kinds, exact basic kinds, struct fields, named /
// unnamed, identities, methods found by the method-lookup predicates, documented helper signatures). An error means: for an
// input of that shape goderive exits 0 and derived.gen.go does not compile.
func rR4(c *Ctx, plugins ...string) {
	r4Ctx = c
	for _, p := range plugins {
		if p == "hash" {
			// the result type of the Hash method that hasHashMethod accepts comes from the tabulation of that predicate
			if _, done := methodResultKinds["hash.hasHashMethod"]; !done {
				sub := &Ctx{Repo: c.Repo, Rep: newReport(c.Rep.Property, c.Rep.Tier), Tier: c.Tier, R: c.R}
				g9Methods(sub, methodSpec{"hash.hasHashMethod", "Hash", 0, 1, types.Invalid})
			}
			hashMethodResult = "uint64"
			if ks := methodResultKinds["hash.hasHashMethod"]; len(ks) == 1 && ks[0] > 0 && ks[0] < len(types.Typ) {
				hashMethodResult = types.Typ[ks[0]].Name()
			}
		}
		typed, skipped := 0, 0
		seen := map[string]bool{}
		// runs whose text equals an earlier run's (Dup) may still differ in the types behind the holes (e.g. the same
		// `uint64(x)` for every integer kind and for unsafe.Pointer): they are typed too, once per distinct typed source
		srcSeen := map[string]bool{}
		for _, run := range c.R.Runs(p) {
			if run.Outcome != "accepted" {
				continue
			}
			rs := parseResid(run)
			if rs.Err != nil {
				continue
			}
			src, ok := typedSource(rs, docSig)
			if !ok {
				skipped++
				continue
			}
			if srcSeen[src] {
				continue
			}
			srcSeen[src] = true
			errs, done := typecheckResid(rs, docSig)
			if !done {
				skipped++
				continue
			}
			typed++
			alt := ""
			var altFails []altFail
			if len(errs) == 0 {
				// the baseline spelling of every basic type of unpinned kind type-checks: try the other kinds the path allows
				td0 := lastTD
				for _, sp := range basicSpellings {
					use := false
					for _, cands := range td0.unpinned {
						if cands[sp] {
							use = true
						}
					}
					if !use {
						continue
					}
					r4AltBasic = sp
					src2, ok2 := typedSource(rs, docSig)
					if !ok2 || src2 == src || srcSeen[src2] {
						r4AltBasic = ""
						continue
					}
					srcSeen[src2] = true
					errs2, done2 := typecheckResid(rs, docSig)
					r4AltBasic = ""
					if done2 && len(errs2) > 0 {
						altFails = append(altFails, altFail{sp, src2, errs2})
					}
				}
				if len(altFails) > 0 {
					errs, src, alt = altFails[0].errs, altFails[0].src, altFails[0].sp
				}
				if len(altFails) == 0 && td0.openKinds > 0 {
					r4AltOpaque = "slice"
					src2, ok2 := typedSource(rs, docSig)
					if ok2 && src2 != src && !srcSeen[src2] {
						srcSeen[src2] = true
						errs2, done2 := typecheckResid(rs, docSig)
						if done2 && len(errs2) > 0 {
							altFails = append(altFails, altFail{"a slice type (nothing about it was examined)", src2, errs2})
							errs, src, alt = errs2, src2, altFails[0].sp
						}
					}
					r4AltOpaque = ""
				}
				if len(altFails) == 0 && td0.openDirs > 0 {
					for _, dirAlt := range []string{"send", "recv"} {
						r4AltChan = dirAlt
						src2, ok2 := typedSource(rs, docSig)
						if ok2 && src2 != src && !srcSeen[src2] {
							srcSeen[src2] = true
							errs2, done2 := typecheckResid(rs, docSig)
							if done2 && len(errs2) > 0 {
								altFails = append(altFails, altFail{"a " + map[string]string{"send": "send-only", "recv": "receive-only"}[dirAlt] + " channel (its direction was never examined)", src2, errs2})
							}
						}
						r4AltChan = ""
					}
					if len(altFails) > 0 {
						errs, src, alt = altFails[0].errs, altFails[0].src, altFails[0].sp
					}
				}
				// an argument that may be the untyped nil: its type has no spelling, so it must not be printed
				if alt == "" {
					nilArgs := td0.nilArgs
					for i, a := range rs.Run.AddArgs {
						ao, _ := a.(*VOpaque)
						if ao == nil || ao.Kind != "" || ao.attrs["Underlying"] != nil {
							continue // something about its kind was established
						}
						notBasic := false
						for _, nk := range ao.notKinds {
							if nk == "*types.Basic" {
								notBasic = true
							}
						}
						if notBasic {
							continue
						}
						if i == 0 && g24FirstArgNotNil(c) {
							continue
						}
						nilArgs = append(nilArgs, ao)
					}
					for _, no := range nilArgs {
						for _, h := range rs.Run.Holes {
							if h.Kind != "TYPE" || strings.HasPrefix(h.Origin, "mangled:") {
								continue
							}
							hv, _ := h.Val.(*VOpaque)
							if hv == nil || (hv != no && underlyingVal(hv) != no && hv != underlyingVal(no)) {
								continue
							}
							if !strings.Contains(rs.Run.Text, h.ID) {
								continue
							}
							key := fmt.Sprintf("R4|%s|%s|untyped nil printed", p, c.R.repo.funcAt(firstPosOf(rs, h.ID)))
							if !seen[key] {
								seen[key] = true
								c.Rep.fail(Finding{Rule: "R4", Key: key, Where: []string{c.R.repo.pos(firstPosOf(rs, h.ID))}, Plugin: p, Script: rs.Run.Script,
									Msg:    fmt.Sprintf("plugin %s accepts an argument whose type this path only established to be basic and prints the type: for the literal nil as argument that is `untyped nil`, which is not Go — goderive exits 0 and derived.gen.go does not parse", p),
									Detail: "abstract path: " + rs.Run.describe() + "\nresidual:\n" + rs.Run.excerpt(30)})
							}
						}
					}
				}
				if alt == "" {
					c.Rep.pass("R4")
					continue
				}
			}
			if len(altFails) == 0 {
				altFails = []altFail{{alt, src, errs}}
			}
			for _, af := range altFails {
				errs, src, alt := af.errs, af.src, af.sp
				line := 0
				fmt.Sscanf(errs[0], "%d:", &line)
				gf, where := "?", []string{}
				if line > 0 && line-1 < len(rs.Run.LinePos) {
					gf = c.R.repo.funcAt(rs.Run.LinePos[line-1])
					where = append(where, rs.Run.where(c.Repo, line))
				}
				msg := stripLine(errs[0])
				what := "the emitted code does not type-check"
				if gf == "?" && len(rs.Funcs) > 0 {
					// the error is in the synthetic call site: the derived function does not accept the call's argument types
					if l := rs.line(rs.Funcs[0].Pos()); l > 0 && l-1 < len(rs.Run.LinePos) {
						gf = c.R.repo.funcAt(rs.Run.LinePos[l-1])
						where = append(where, rs.Run.where(c.Repo, l))
					}
					what = "the derived function does not accept arguments of the types the call was made with"
				}
				key := fmt.Sprintf("R4|%s|%s|%s", p, gf, r4Norm(msg))
				if alt != "" {
					key += "|as " + alt
					what += " when the basic type whose exact kind this path left open is " + alt
				}
				if seen[key] {
					continue // same defect on another path
				}
				seen[key] = true
				c.Rep.fail(Finding{Rule: "R4", Key: key, Where: where, Plugin: p, Script: rs.Run.Script,
					Msg:    fmt.Sprintf("plugin %s: for an input of this shape %s (%s): goderive exits 0 and the package no longer compiles", p, what, msg),
					Detail: "abstract path: " + rs.Run.describe() + "\ntyped residual:\n" + src + "\nerrors:\n" + strings.Join(errs, "\n")})
			}
		}
		c.Rep.analysed("typed_residuals:"+p, typed)
		c.Rep.analysed("untyped_residuals:"+p, skipped)
	}
}

var r4IdentRe = regexp.MustCompile(`\b(src|dst|this|that|object|v|k|list|m)(_[a-z_]+)*\b`)

// r4Norm makes a type error independent of placeholder numbering and of the access path of the operand.
func r4Norm(msg string) string {
	msg = holeRe.ReplaceAllString(msg, "_")
	if i := strings.Index(msg, " ("); i > 0 && strings.HasPrefix(msg, "cannot ") {
		// keep the verb and the explanation, drop the operand text
		j := strings.LastIndex(msg, ")")
		if j > i {
			verb := strings.Fields(msg)[:2]
			msg = strings.Join(verb, " ") + " … " + strings.TrimSpace(msg[i:])
		}
	}
	if len(msg) > 140 {
		msg = msg[:140]
	}
	return msg
}

// r4AltBasic: the spelling tried for basic types whose exact kind the abstract path did not pin down ("" = baseline).
var r4AltBasic string

// basicSpellings: one representative Go spelling per class of basic kinds that generators treat differently.
var basicSpellings = []string{"int", "string", "float64", "bool", "complex128", "unsafe.Pointer"}

func spellingOfKind(k types.BasicKind) string {
	switch {
	case k == types.Bool || k == types.UntypedBool:
		return "bool"
	case k == types.String || k == types.UntypedString:
		return "string"
	case k == types.Float32 || k == types.Float64 || k == types.UntypedFloat:
		return "float64"
	case k == types.Complex64 || k == types.Complex128 || k == types.UntypedComplex:
		return "complex128"
	case k == types.UnsafePointer:
		return "unsafe.Pointer"
	case k == types.UntypedNil:
		return "nil"
	case k >= types.Int && k <= types.Uintptr, k == types.UntypedInt, k == types.UntypedRune:
		return "int"
	}
	return ""
}

var infoMaskRe = regexp.MustCompile(`^B:(.*)\.Info\(\)&(\d+)\x{27e8}.*\x{27e9}(!=|==)0$`)

// basicCandidates: the spellings a basic type may have, given everything this path asked about its kind: switch arms not
// taken, ==/!= tests, Info() mask tests. Only an argument type itself (typs[i]) can be untyped (the type of a constant or of
// nil); the components of a type are always typed.
func (td *typeDecls) basicCandidates(o, u *VOpaque) map[string]bool {
	run := td.rs.Run
	origins := map[string]bool{}
	for _, v := range []*VOpaque{o, u} {
		if v != nil {
			origins[v.Origin] = true
			origins[tieRe.ReplaceAllString(v.Origin, "[*]")] = true
			if uu, ok := v.attrs["Underlying"].(*VOpaque); ok {
				origins[uu.Origin] = true
				origins[tieRe.ReplaceAllString(uu.Origin, "[*]")] = true
			}
		}
	}
	topLevel := false
	for org := range origins {
		if topArgRe.MatchString(org) {
			topLevel = true
		}
	}
	allowed := map[types.BasicKind]bool{}
	for k := types.Bool; k <= types.UntypedNil; k++ {
		if k > types.UnsafePointer && !topLevel {
			continue
		}
		allowed[k] = true
	}
	kindByName := map[string]types.BasicKind{}
	for k := types.Bool; k <= types.UntypedNil; k++ {
		nm := types.Typ[k].Name()
		key := "types." + strings.Title(nm)
		if strings.HasPrefix(nm, "untyped ") {
			key = "types.Untyped" + strings.Title(strings.TrimPrefix(nm, "untyped "))
		}
		if k == types.UnsafePointer {
			key = "types.UnsafePointer"
		}
		kindByName[key] = k
	}
	for _, d := range run.Decisions {
		for org := range origins {
			// switch on Kind(): the default arm excludes every listed kind
			if strings.HasPrefix(d.Sym, "S:"+org+".Kind()#") && d.Choice == len(d.Cands)-1 {
				for _, cnd := range d.Cands[:len(d.Cands)-1] {
					for _, one := range strings.Split(cnd, ",") {
						if k, ok := kindByName[strings.TrimSpace(one)]; ok {
							delete(allowed, k)
						}
					}
				}
			}
			for _, form := range []struct {
				op     string
				choice int
			}{{"==", 1}, {"!=", 0}} {
				pre := "B:" + org + ".Kind()" + form.op
				if strings.HasPrefix(d.Sym, pre) && d.Choice == form.choice {
					n := 0
					if _, err := fmt.Sscanf(strings.TrimPrefix(d.Sym, pre), "%d", &n); err == nil {
						delete(allowed, types.BasicKind(n))
					}
				}
			}
		}
		if m := infoMaskRe.FindStringSubmatch(d.Sym); m != nil && origins[m[1]] {
			mask := 0
			fmt.Sscanf(m[2], "%d", &mask)
			wantNonZero := (m[3] == "!=") == (d.Choice == 0)
			for k := range allowed {
				nz := int(types.Typ[k].Info())&mask != 0
				if nz != wantNonZero {
					delete(allowed, k)
				}
			}
		}
	}
	// a defined type whose underlying type is unsafe.Pointer cannot have methods (invalid receiver): a path on which a method
	// lookup succeeded for the type rules that kind out
	hasMethod := false
	for _, v := range []*VOpaque{o, u} {
		if v == nil {
			continue
		}
		for _, d := range run.Decisions {
			if strings.HasPrefix(d.Sym, "B:pred:") && (strings.Contains(d.Sym, "("+v.Origin+",)!=nil") || strings.Contains(d.Sym, "("+v.Origin+",)#1")) && d.Choice == 0 {
				hasMethod = true
			}
		}
		for _, pred := range []string{"hasHashMethod", "hasDeepCopyMethod", "hasGoStringMethod"} {
			if ans, asked := run.predTrue(pred, v); asked && ans {
				hasMethod = true
			}
		}
	}
	// the structural predicates are answered by the oracle during the sweep; what their source says about each basic kind
	// (evaluated abstractly, cached) relates the answer on this path to the kind
	if r4Ctx != nil {
		for _, v := range []*VOpaque{o, u} {
			if v == nil {
				continue
			}
			for _, pred := range []string{"canEqual", "canCopy", "IsComparable"} {
				ans, asked := run.predTrue(pred, v)
				if !asked {
					continue
				}
				for k := range allowed {
					if val, known := predOnBasicKind(r4Ctx, run.Plugin, pred, k); known && val != ans {
						delete(allowed, k)
					}
				}
			}
		}
	}
	if hasMethod {
		delete(allowed, types.UnsafePointer)
		for k := types.UntypedBool; k <= types.UntypedNil; k++ {
			delete(allowed, k)
		}
	}
	out := map[string]bool{}
	for k := range allowed {
		if sp := spellingOfKind(k); sp != "" && sp != "nil" {
			out[sp] = true
		}
	}
	if allowed[types.UntypedNil] {
		first := false
		for org := range origins {
			if strings.HasPrefix(org, "typs[0]") {
				first = true
			}
		}
		// (*pkg).Add rejects a call whose first argument is nil (G24)
		if !(first && r4Ctx != nil && g24FirstArgNotNil(r4Ctx)) {
			if os.Getenv("GDV_DEBUG_NIL") != "" {
				fmt.Fprintf(os.Stderr, "nilArg %s origins=%v script=%v\n", o.Origin, origins, run.Script)
			}
			td.nilArgs = append(td.nilArgs, o)
		}
	}
	return out
}

var topArgRe = regexp.MustCompile(`^typs\[(\d+|\*)\](\.Underlying\(\))?$`)

// firstPosOf: the generator position of the first residual line that mentions the placeholder.
func firstPosOf(rs *Resid, id string) token.Pos {
	for i, l := range strings.Split(rs.Run.Text, "\n") {
		if strings.Contains(l, id) && i < len(rs.Run.LinePos) {
			return rs.Run.LinePos[i]
		}
	}
	return token.NoPos
}

type altFail struct {
	sp   string
	src  string
	errs []string
}

// r4Ctx: the check context of the running rR4 (for abstract evaluation of predicates).
var r4Ctx *Ctx

var predKindMemo = map[string][2]bool{}

// predOnBasicKind evaluates a structural predicate of the plugin (or of package derive) on a basic type of the given kind.
func predOnBasicKind(c *Ctx, plugin, pred string, k types.BasicKind) (val, known bool) {
	key := fmt.Sprintf("%s.%s#%d", plugin, pred, k)
	if m, ok := predKindMemo[key]; ok {
		return m[0], m[1]
	}
	defer func() { predKindMemo[key] = [2]bool{val, known} }()
	fi := c.Repo.lookup(plugin + "." + pred)
	if fi == nil {
		fi = c.Repo.lookup("derive." + pred)
	}
	if fi == nil || fi.Decl.Body == nil {
		return false, false
	}
	in := &Interp{repo: c.Repo, plugin: "derive", decls: c.GDecls, or: &Oracle{}, memo: map[string]int{}, shape: 1, arities: []int{1, 0},
		preds: map[string]Value{}, stack: map[*ast.FuncDecl]int{}, imports: map[string]int{}, importUse: map[string]bool{}, holes: map[string]*Hole{}, g9mode: true,
		intEq: map[string]int{"t.Kind()": int(k)}}
	arg := &VOpaque{Origin: "t", Kind: "*types.Basic"}
	var res Value
	failed := false
	func() {
		defer func() {
			if e := recover(); e != nil {
				failed = true
			}
		}()
		res = in.callFunc(&VFunc{Decl: fi.Decl, Pkg: fi.Pkg}, []Value{arg}, token.NoPos)
	}()
	if failed || len(in.decisions) > 0 {
		return false, false
	}
	if b, ok := res.(VBool); ok && b.Known {
		return b.V, true
	}
	return false, false
}

// r4AltOpaque: the alternative declaration tried for types about which a path established nothing ("" = a comparable struct).
var r4AltOpaque string

// unconstrained: no kind, no predicate answer, no method, no identity with another type, and not the key of a map type of
// the input — any Go type is a possible input for it.
func (td *typeDecls) unconstrained(o *VOpaque) bool {
	if o == nil || o.built || td.mapKeys[o] || td.find(o) != o || len(o.notKinds) > 0 {
		return false
	}
	if o.Kind != "" || o.attrs["Underlying"] != nil {
		return false
	}
	for p, par := range td.parent {
		if par == o && p != o {
			return false
		}
	}
	run := td.rs.Run
	for _, d := range run.Decisions {
		// a structural predicate answered for an enclosing type speaks about its components as well
		if strings.HasPrefix(d.Sym, "B:pred:") {
			if i := strings.Index(d.Sym, "("); i > 0 {
				arg := strings.TrimSuffix(strings.TrimSuffix(d.Sym[i+1:], ")"), ",")
				if arg != "" && (strings.HasPrefix(o.Origin, arg) || strings.HasPrefix(tieRe.ReplaceAllString(o.Origin, "[*]"), arg)) {
					return false
				}
				// the argument may be a type the generator built from components of the input (a struct of the parameters)
				if b := td.byOrigin[arg]; b != nil && td.reaches(b, o, 0) {
					return false
				}
				if strings.Contains(arg, "("+o.Origin+",") || strings.Contains(arg, ","+o.Origin+",") || strings.Contains(arg, ","+o.Origin+")") {
					return false // the symbolic construction of the argument mentions this type
				}
			}
		}
		if strings.Contains(d.Sym, "("+o.Origin+",)") || strings.Contains(d.Sym, "("+o.Origin+")") || strings.HasPrefix(d.Sym, "A:"+o.Origin+":") || strings.HasPrefix(d.Sym, "K:"+o.Origin+":") || strings.HasPrefix(d.Sym, "N:"+o.Origin) {
			return false
		}
		if strings.Contains(d.Sym, "("+o.Origin+",") || strings.Contains(d.Sym, ","+o.Origin+")") {
			return false // took part in an Identical / AssignableTo question
		}
	}
	return true
}

// reaches: o is a component (field, element, key, underlying type) of the type value v.
func (td *typeDecls) reaches(v Value, o *VOpaque, depth int) bool {
	if depth > 8 {
		return false
	}
	switch x := v.(type) {
	case *VOpaque:
		if x == o {
			return true
		}
		for _, a := range x.attrs {
			if td.reaches(a, o, depth+1) {
				return true
			}
		}
	case *VList:
		for _, e := range x.Elems {
			if td.reaches(e, o, depth+1) {
				return true
			}
		}
	}
	return false
}

// r4AltChan: the direction tried for channel types whose direction a path never examined ("" = bidirectional).
var r4AltChan string
