package main

import (
	"fmt"
	"go/ast"
	"go/token"
	"go/types"
	"os"
	"path/filepath"
	"sort"
	"strings"

	"golang.org/x/tools/go/packages"
)

const modPath = "github.com/awalterschulze/goderive"

// Repo is the type-checked generator source (main, derive, plugin/*), never vendor/test/example.
type Repo struct {
	Dir        string
	Fset       *token.FileSet
	Pkgs       []*packages.Package
	visitorLit *FuncInfo
	// Normalised: this is the helper-inlined view (normalise.go); positions refer to the inlined text
	Normalised bool
	ByName     map[string]*packages.Package // package name -> package ("main", "derive", "equal", ...)
	Decls      map[*types.Func]*FuncInfo
	Plugins    []string // plugin package names, sorted
}

type FuncInfo struct {
	Fn   *types.Func
	Decl *ast.FuncDecl
	Pkg  *packages.Package
}

func repoDir() string {
	if d := os.Getenv("GDV_REPO"); d != "" {
		return d
	}
	return "/repo"
}

func cleanEnv(extra ...string) []string {
	var env []string
	for _, e := range os.Environ() {
		if strings.HasPrefix(e, "GOSUMDB=") || strings.HasPrefix(e, "GOTOOLCHAIN=") || strings.HasPrefix(e, "GOWORK=") ||
			strings.HasPrefix(e, "GOFLAGS=") || strings.HasPrefix(e, "GOPROXY=") {
			continue
		}
		env = append(env, e)
	}
	env = append(env, "GOFLAGS=-mod=mod", "GOPROXY=off", "GOWORK=off")
	return append(env, extra...)
}

func loadRepo() (*Repo, error) { return loadRepoWith(nil) }

// loadRepoWith loads the generator packages, with the given file contents replacing what is on disk (go/packages overlay).
func loadRepoWith(overlay map[string][]byte) (*Repo, error) {
	dir := repoDir()
	try := func(env []string) ([]*packages.Package, error) {
		cfg := &packages.Config{Mode: packages.LoadSyntax, Dir: dir, Env: env, Tests: false, Overlay: overlay}
		pkgs, err := packages.Load(cfg, ".", "./derive/...", "./plugin/...")
		if err != nil {
			return nil, err
		}
		for _, p := range pkgs {
			if len(p.Errors) > 0 {
				return nil, fmt.Errorf("package %s: %v", p.PkgPath, p.Errors[0])
			}
		}
		return pkgs, nil
	}
	pkgs, err := try(cleanEnv())
	if err != nil {
		alt := cleanEnv("GOTOOLCHAIN=local", "PATH=/opt/veriftools/go1.26.8/bin:"+os.Getenv("PATH"))
		pkgs2, err2 := try(alt)
		if err2 != nil {
			return nil, fmt.Errorf("loading %s failed: %v (fallback toolchain: %v)", dir, err, err2)
		}
		pkgs = pkgs2
	}
	r := &Repo{Dir: dir, ByName: map[string]*packages.Package{}, Decls: map[*types.Func]*FuncInfo{}}
	sort.Slice(pkgs, func(i, j int) bool { return pkgs[i].PkgPath < pkgs[j].PkgPath })
	for _, p := range pkgs {
		if !strings.HasPrefix(p.PkgPath, modPath) {
			continue
		}
		if len(p.Syntax) == 0 || p.TypesInfo == nil {
			return nil, fmt.Errorf("package %s has no syntax/types", p.PkgPath)
		}
		r.Fset = p.Fset
		r.Pkgs = append(r.Pkgs, p)
		name := p.Name
		if strings.HasPrefix(p.PkgPath, modPath+"/plugin/") {
			name = strings.TrimPrefix(p.PkgPath, modPath+"/plugin/")
			r.Plugins = append(r.Plugins, name)
		}
		r.ByName[name] = p
		for _, f := range p.Syntax {
			for _, d := range f.Decls {
				if fd, ok := d.(*ast.FuncDecl); ok {
					if fn, ok := p.TypesInfo.Defs[fd.Name].(*types.Func); ok {
						r.Decls[fn] = &FuncInfo{Fn: fn, Decl: fd, Pkg: p}
					}
				}
			}
		}
	}
	// in the driver packages a switch without a tag is presented as the if / else-if chain it abbreviates (the case
	// expressions and bodies are the original nodes, so the type information still applies)
	for _, p := range r.Pkgs {
		if isDriverPkg(p) {
			for _, f := range p.Syntax {
				desugarTaglessSwitches(f)
			}
		}
	}
	// a baseline function of a driver package that is gone, while exactly one new function of that package has its name
	have := map[string]bool{}
	for fn := range r.Decls {
		have[rawFuncKey(fn)] = true
	}
	for bk := range baselineFuncs {
		if have[bk] {
			continue
		}
		pk, name := bk[:strings.Index(bk, ".")], bk[strings.LastIndex(bk, ".")+1:]
		var cand *types.Func
		n := 0
		for fn := range r.Decls {
			k := rawFuncKey(fn)
			if fn.Name() == name && strings.HasPrefix(k, pk+".") && !baselineFuncs[k] {
				cand = fn
				n++
			}
		}
		if n == 1 {
			keyAlias[cand] = bk
		}
	}
	if len(r.Pkgs) < 35 {
		return nil, fmt.Errorf("only %d generator packages loaded from %s, expected >= 35 (main, derive, 33 plugins)", len(r.Pkgs), dir)
	}
	if r.ByName["main"] == nil || r.ByName["derive"] == nil {
		return nil, fmt.Errorf("main or derive package missing")
	}
	return r, nil
}

// pos renders a position relative to the repo dir.
func (r *Repo) pos(p token.Pos) string {
	if !p.IsValid() {
		return "?"
	}
	ps := r.Fset.Position(p)
	rel, err := filepath.Rel(r.Dir, ps.Filename)
	if err != nil {
		rel = ps.Filename
	}
	if r.Normalised {
		return fmt.Sprintf("%s:%d:%d (line of the helper-inlined view)", rel, ps.Line, ps.Column)
	}
	return fmt.Sprintf("%s:%d:%d", rel, ps.Line, ps.Column)
}

// funcName gives a stable display/key name: pkg.(*T).M or pkg.F
// keyAlias: functions that are a baseline function under another receiver (derive.newPackage made a method of *program):
// they keep the baseline key, which is what the rules' tables are written in.
var keyAlias = map[*types.Func]string{}

func funcKey(fn *types.Func) string {
	if k, ok := keyAlias[fn]; ok {
		return k
	}
	return rawFuncKey(fn)
}

func rawFuncKey(fn *types.Func) string {
	sig := fn.Type().(*types.Signature)
	pk := ""
	if fn.Pkg() != nil {
		pk = fn.Pkg().Name()
		if strings.HasPrefix(fn.Pkg().Path(), modPath+"/plugin/") {
			pk = strings.TrimPrefix(fn.Pkg().Path(), modPath+"/plugin/")
		}
	}
	if sig.Recv() != nil {
		t := sig.Recv().Type()
		star := ""
		if p, ok := t.(*types.Pointer); ok {
			t = p.Elem()
			star = "*"
		}
		tn := t.String()
		if n, ok := t.(*types.Named); ok {
			tn = n.Obj().Name()
		}
		return fmt.Sprintf("%s.(%s%s).%s", pk, star, tn, fn.Name())
	}
	return pk + "." + fn.Name()
}

// lookup finds a function by its key (e.g. "derive.(*pkg).Print", "derive.newPackage").
func (r *Repo) lookup(key string) *FuncInfo {
	for fn, fi := range r.Decls {
		if funcKey(fn) == key {
			return fi
		}
	}
	// the visitor that finds the derive calls may be a function literal handed to ast.Inspect instead of a Visit method
	if key == "derive.(*finder).Visit" {
		if fi := r.visitorLiteral(); fi != nil {
			return fi
		}
	}
	// the same function with another receiver (a function made a method, a method made a function, another receiver type):
	// accepted when exactly one function of that package has the name
	dot := strings.LastIndex(key, ".")
	pk := strings.Index(key, ".")
	if dot < 0 || pk < 0 {
		return nil
	}
	pkgName, name := key[:pk], key[dot+1:]
	var found *FuncInfo
	for fn, fi := range r.Decls {
		k := funcKey(fn)
		if fn.Name() == name && strings.HasPrefix(k, pkgName+".") && !baselineFuncs[k] {
			if found != nil {
				return nil
			}
			found = fi
		}
	}
	return found
}

// desugarTaglessSwitches rewrites, in place, every `switch { case a: A; case b, c: B; default: D }` (optionally with an
// init statement) whose arms neither break nor fall through into `if a { A } else if b || c { B } else { D }`.
func desugarTaglessSwitches(root ast.Node) {
	eligible := func(sw *ast.SwitchStmt) bool {
		if sw.Tag != nil {
			return false
		}
		ok := true
		for _, c := range sw.Body.List {
			cc := c.(*ast.CaseClause)
			var walk func(n ast.Node, depth int)
			walk = func(n ast.Node, depth int) {
				ast.Inspect(n, func(m ast.Node) bool {
					switch x := m.(type) {
					case *ast.FuncLit, *ast.ForStmt, *ast.RangeStmt, *ast.SwitchStmt, *ast.TypeSwitchStmt, *ast.SelectStmt:
						if m != n {
							// a break inside these belongs to them; a labelled break to this switch is not handled
							return false
						}
					case *ast.BranchStmt:
						if x.Tok == token.BREAK || x.Tok == token.FALLTHROUGH {
							ok = false
						}
					}
					return true
				})
			}
			for _, st := range cc.Body {
				walk(st, 0)
			}
		}
		return ok
	}
	conv := func(sw *ast.SwitchStmt) ast.Stmt {
		var def []ast.Stmt
		hasDef := false
		var clauses []*ast.CaseClause
		for _, c := range sw.Body.List {
			cc := c.(*ast.CaseClause)
			if cc.List == nil {
				def, hasDef = cc.Body, true
				continue
			}
			clauses = append(clauses, cc)
		}
		var tail ast.Stmt
		if hasDef {
			tail = &ast.BlockStmt{Lbrace: sw.Body.Lbrace, List: def, Rbrace: sw.Body.Rbrace}
		}
		for i := len(clauses) - 1; i >= 0; i-- {
			cc := clauses[i]
			cond := cc.List[0]
			for _, e := range cc.List[1:] {
				cond = &ast.BinaryExpr{X: cond, OpPos: e.Pos(), Op: token.LOR, Y: e}
			}
			end := cc.End()
			tail = &ast.IfStmt{If: cc.Pos(), Cond: cond, Body: &ast.BlockStmt{Lbrace: cc.Colon, List: cc.Body, Rbrace: end}, Else: tail}
		}
		if tail == nil {
			tail = &ast.EmptyStmt{Semicolon: sw.Pos()}
		}
		if sw.Init != nil {
			return &ast.BlockStmt{Lbrace: sw.Pos(), List: []ast.Stmt{sw.Init, tail}, Rbrace: sw.End()}
		}
		return tail
	}
	var fix func(list []ast.Stmt)
	fix = func(list []ast.Stmt) {
		for i, st := range list {
			if sw, ok := st.(*ast.SwitchStmt); ok && eligible(sw) {
				list[i] = conv(sw)
			}
		}
	}
	for round := 0; round < 4; round++ {
		ast.Inspect(root, func(n ast.Node) bool {
			switch x := n.(type) {
			case *ast.BlockStmt:
				fix(x.List)
			case *ast.CaseClause:
				fix(x.Body)
			case *ast.CommClause:
				fix(x.Body)
			case *ast.LabeledStmt:
				if sw, ok := x.Stmt.(*ast.SwitchStmt); ok && eligible(sw) {
					// a labelled switch may be the target of a labelled break: left alone
					_ = sw
				}
			}
			return true
		})
	}
}

// visitorLiteral: the single function literal of package derive that is passed to ast.Inspect (directly or through a local
// variable) and looks identifiers up in a Uses table — the call finder written as a closure. It is presented as a function
// declaration named Visit (same parameter, same body).
func (r *Repo) visitorLiteral() *FuncInfo {
	if r.visitorLit != nil {
		return r.visitorLit
	}
	p := r.ByName["derive"]
	if p == nil {
		return nil
	}
	var found []*FuncInfo
	for _, fi := range r.sortedFuncs() {
		if fi.Pkg != p {
			continue
		}
		lits := map[types.Object]*ast.FuncLit{}
		ast.Inspect(fi.Decl.Body, func(n ast.Node) bool {
			if as, ok := n.(*ast.AssignStmt); ok && len(as.Lhs) == 1 && len(as.Rhs) == 1 {
				if id, ok := as.Lhs[0].(*ast.Ident); ok {
					if fl, ok := as.Rhs[0].(*ast.FuncLit); ok && p.TypesInfo.Defs[id] != nil {
						lits[p.TypesInfo.Defs[id]] = fl
					}
				}
			}
			return true
		})
		ast.Inspect(fi.Decl.Body, func(n ast.Node) bool {
			c, ok := n.(*ast.CallExpr)
			if !ok || !isPkgFunc(callee(p.TypesInfo, c), "go/ast", "Inspect") || len(c.Args) != 2 {
				return true
			}
			var fl *ast.FuncLit
			switch a := ast.Unparen(c.Args[1]).(type) {
			case *ast.FuncLit:
				fl = a
			case *ast.Ident:
				fl = lits[p.TypesInfo.Uses[a]]
			}
			if fl == nil {
				return true
			}
			usesTable := false
			ast.Inspect(fl.Body, func(m ast.Node) bool {
				if ix, ok := m.(*ast.IndexExpr); ok {
					if sel, ok := ast.Unparen(ix.X).(*ast.SelectorExpr); ok && sel.Sel.Name == "Uses" {
						usesTable = true
					}
				}
				return true
			})
			if usesTable {
				found = append(found, &FuncInfo{Fn: fi.Fn, Pkg: fi.Pkg, Decl: &ast.FuncDecl{Name: ast.NewIdent("Visit"), Type: fl.Type, Body: fl.Body}})
			}
			return true
		})
	}
	if len(found) == 1 {
		r.visitorLit = found[0]
		return found[0]
	}
	return nil
}

// sortedFuncs returns all declared functions with bodies in deterministic order.
func (r *Repo) sortedFuncs() []*FuncInfo {
	var out []*FuncInfo
	for _, fi := range r.Decls {
		if fi.Decl.Body != nil {
			out = append(out, fi)
		}
	}
	sort.Slice(out, func(i, j int) bool { return out[i].Decl.Pos() < out[j].Decl.Pos() })
	return out
}

// callee resolves the static callee object of a call (function, method, or nil for dynamic/func values).
func callee(info *types.Info, call *ast.CallExpr) types.Object {
	fun := ast.Unparen(call.Fun)
	switch f := fun.(type) {
	case *ast.Ident:
		return info.Uses[f]
	case *ast.SelectorExpr:
		if sel, ok := info.Selections[f]; ok {
			return sel.Obj()
		}
		return info.Uses[f.Sel]
	}
	return nil
}

func isPkgFunc(o types.Object, pkgPath, name string) bool {
	fn, ok := o.(*types.Func)
	if !ok || fn.Pkg() == nil {
		return false
	}
	return fn.Pkg().Path() == pkgPath && fn.Name() == name && fn.Type().(*types.Signature).Recv() == nil
}

func isErrorType(t types.Type) bool {
	return t != nil && types.Identical(t, types.Universe.Lookup("error").Type())
}

// enclosing function decl lookup for a position
func (r *Repo) enclosing(p *packages.Package, pos token.Pos) *FuncInfo {
	for _, fi := range r.Decls {
		if fi.Pkg == p && fi.Decl.Pos() <= pos && pos < fi.Decl.End() {
			return fi
		}
	}
	return nil
}
