package main

import (
	"fmt"
	"go/ast"
	"go/token"
	"sort"
	"strconv"
	"strings"
)

// R8 — guard→outcome tables. A residual whose result is decided purely by comparisons is evaluated abstractly over the
// finite set of orderings of the operand pairs it mentions: each mirrored pair ∈ {<,=,>}, each nil test ∈ {nil, non-nil},
// each length pair ∈ {<,=,>}. No values are involved; an atom outside this vocabulary makes the residual undecided.

type atomVal struct {
	key string // "ord:<norm>", "len:<norm>", "nil:A:<norm>", "nil:B:<norm>", "truth:<side>:<norm>"
	val int    // ord/len: -1,0,+1 (A relative to B); nil: 1 = nil, 0 = non-nil; truth: 1/0
}

type tabPath struct {
	atoms  []atomVal
	result int
	hasRes bool
	deleg  string // result delegated to a symbolic value ("" otherwise)
	retPos ast.Node
}

type tabEval struct {
	s         *sided
	or        *Oracle
	forced    map[string]int
	atoms     []atomVal
	seen      map[string]int
	locals    map[string]int // concrete int locals (c := F(a,b))
	hasLocal  map[string]bool
	undecided string
	ordered   bool
}

func (t *tabEval) atom(key string, domain []int) int {
	if v, ok := t.seen[key]; ok {
		return v
	}
	var v int
	if fv, ok := t.forced[key]; ok {
		v = fv
	} else {
		v = domain[t.or.choose(len(domain))]
	}
	t.seen[key] = v
	t.atoms = append(t.atoms, atomVal{key, v})
	return v
}

var ordDomain = []int{0, -1, 1}
var nilDomain = []int{0, 1}

type tv struct {
	isInt  bool
	i      int
	isBool bool
	b      bool
	side   string // operand of a side (opaque)
	e      ast.Expr
}

func (t *tabEval) fail(format string, a ...interface{}) tv {
	if t.undecided == "" {
		t.undecided = fmt.Sprintf(format, a...)
	}
	return tv{}
}

// pairOrd returns the ordering of x relative to y for two mirrored side operands (x, y in source order).
func (t *tabEval) pairOrd(x, y ast.Expr, what string) (int, bool) {
	sx, sy := t.s.side(x), t.s.side(y)
	if !((sx == "A" && sy == "B") || (sx == "B" && sy == "A")) {
		return 0, false
	}
	nx, ny := stripConv(stripAddr(t.s.norm(x))), stripConv(stripAddr(t.s.norm(y)))
	if nx != ny {
		return 0, false
	}
	v := t.atom(what+":"+nx, ordDomain)
	if sx == "B" {
		v = -v
	}
	return v, true
}

func cmpInt(a int, op token.Token, b int) bool {
	switch op {
	case token.EQL:
		return a == b
	case token.NEQ:
		return a != b
	case token.LSS:
		return a < b
	case token.LEQ:
		return a <= b
	case token.GTR:
		return a > b
	case token.GEQ:
		return a >= b
	}
	return false
}

func (t *tabEval) eval(e ast.Expr) tv {
	if t.undecided != "" {
		return tv{}
	}
	switch x := e.(type) {
	case *ast.ParenExpr:
		return t.eval(x.X)
	case *ast.BasicLit:
		if x.Kind == token.INT {
			n, _ := strconv.Atoi(x.Value)
			return tv{isInt: true, i: n}
		}
	case *ast.Ident:
		if x.Name == "true" || x.Name == "false" {
			return tv{isBool: true, b: x.Name == "true"}
		}
		if t.hasLocal[x.Name] {
			return tv{isInt: true, i: t.locals[x.Name]}
		}
		if sd := t.s.side(x); sd == "A" || sd == "B" {
			return tv{side: sd, e: x}
		}
		return t.fail("identifier %s", x.Name)
	case *ast.UnaryExpr:
		v := t.eval(x.X)
		switch x.Op {
		case token.SUB:
			if v.isInt {
				return tv{isInt: true, i: -v.i}
			}
		case token.NOT:
			b, ok := t.truth(v)
			if ok {
				return tv{isBool: true, b: !b}
			}
		case token.AND:
			return v
		}
		return t.fail("unary %s", x.Op)
	case *ast.StarExpr, *ast.SelectorExpr, *ast.IndexExpr:
		if sd := t.s.side(e); sd == "A" || sd == "B" {
			return tv{side: sd, e: e}
		}
		return t.fail("operand %s", t.s.rs.src(e))
	case *ast.BinaryExpr:
		switch x.Op {
		case token.LAND:
			l, ok := t.truth(t.eval(x.X))
			if !ok {
				return tv{}
			}
			if !l {
				return tv{isBool: true, b: false}
			}
			r, ok := t.truth(t.eval(x.Y))
			if !ok {
				return tv{}
			}
			return tv{isBool: true, b: r}
		case token.LOR:
			l, ok := t.truth(t.eval(x.X))
			if !ok {
				return tv{}
			}
			if l {
				return tv{isBool: true, b: true}
			}
			r, ok := t.truth(t.eval(x.Y))
			if !ok {
				return tv{}
			}
			return tv{isBool: true, b: r}
		}
		if !cmpOps[x.Op] {
			return t.fail("operator %s", x.Op)
		}
		// nil tests
		if isNilLit(x.Y) || isNilLit(x.X) {
			o := x.X
			if isNilLit(x.X) {
				o = x.Y
			}
			sd := t.s.side(o)
			if sd != "A" && sd != "B" {
				return t.fail("nil test of %s", t.s.rs.src(o))
			}
			isNil := t.atom("nil:"+sd+":"+t.s.norm(o), nilDomain) == 1
			return tv{isBool: true, b: isNil == (x.Op == token.EQL)}
		}
		// length pairs
		if la, lb := lenExprArg(x.X), lenExprArg(x.Y); la != nil && lb != nil {
			if v, ok := t.pairOrd(la, lb, "len"); ok {
				return tv{isBool: true, b: cmpInt(v, x.Op, 0)}
			}
			return t.fail("length comparison %s", t.s.rs.src(x))
		}
		// concrete ints (c != 0)
		l, r := t.eval(x.X), t.eval(x.Y)
		if t.undecided != "" {
			return tv{}
		}
		if l.isInt && r.isInt {
			return tv{isBool: true, b: cmpInt(l.i, x.Op, r.i)}
		}
		if l.side != "" && r.side != "" {
			if v, ok := t.pairOrd(l.e, r.e, "ord"); ok {
				return tv{isBool: true, b: cmpInt(v, x.Op, 0)}
			}
		}
		return t.fail("comparison %s", t.s.rs.src(x))
	case *ast.CallExpr:
		// conversions and projections of one side stay operands of that side
		if sd := t.s.side(e); sd == "A" || sd == "B" {
			return tv{side: sd, e: e}
		}
		// two-sided calls: compare helpers, strings/bytes.Compare, Compare methods
		var ops []ast.Expr
		if sel, ok := x.Fun.(*ast.SelectorExpr); ok && t.s.side(sel.X) != "" {
			ops = append(ops, sel.X)
		}
		for _, a := range x.Args {
			if t.s.side(a) != "" {
				ops = append(ops, a)
			}
		}
		if len(ops) == 2 && t.isCompareCallee(x) {
			if v, ok := t.pairOrd(ops[0], ops[1], "ord"); ok {
				return tv{isInt: true, i: v}
			}
		}
		return t.fail("call %s", t.s.rs.src(x))
	}
	return t.fail("expression %s", t.s.rs.src(e))
}

// isCompareCallee: a helper obtained from the compare plugin itself, a Compare method, or strings/bytes.Compare.
func (t *tabEval) isCompareCallee(c *ast.CallExpr) bool {
	switch f := c.Fun.(type) {
	case *ast.Ident:
		if h := t.s.rs.hole(f.Name); h != nil && h.Kind == "FUNC" && (h.Who == "self" && t.s.rs.Run.Plugin == "compare" || h.Who == "compare") {
			return true
		}
	case *ast.SelectorExpr:
		if f.Sel.Name != "Compare" {
			return false
		}
		if id, ok := f.X.(*ast.Ident); ok {
			if h := t.s.rs.hole(id.Name); h != nil && h.Kind == "PKG" {
				return h.Origin == "strings" || h.Origin == "bytes"
			}
		}
		return true // method of the component's own type
	}
	return false
}

func lenExprArg(e ast.Expr) ast.Expr {
	c, ok := unparen(e).(*ast.CallExpr)
	if !ok || len(c.Args) != 1 {
		return nil
	}
	if id, ok := c.Fun.(*ast.Ident); ok && id.Name == "len" {
		return c.Args[0]
	}
	return nil
}

func (t *tabEval) truth(v tv) (bool, bool) {
	if t.undecided != "" {
		return false, false
	}
	if v.isBool {
		return v.b, true
	}
	if v.side != "" {
		// a bare boolean operand of one side: its truth follows from the pair's ordering (false < true)
		n := stripAddr(t.s.norm(v.e))
		ord := t.atom("ord:"+n, ordDomain)
		switch {
		case ord < 0:
			return v.side == "B", true
		case ord > 0:
			return v.side == "A", true
		}
		return t.atom("truth:"+n, nilDomain) == 1, true
	}
	t.fail("non-boolean condition")
	return false, false
}

// exec returns (returned, value)
func (t *tabEval) exec(list []ast.Stmt) (bool, tv, ast.Node) {
	for _, s := range list {
		if t.undecided != "" {
			return true, tv{}, s
		}
		switch x := s.(type) {
		case *ast.ReturnStmt:
			if len(x.Results) != 1 {
				t.fail("return with %d results", len(x.Results))
				return true, tv{}, x
			}
			return true, t.eval(x.Results[0]), x
		case *ast.IfStmt:
			if x.Init != nil {
				if done, v, n := t.exec([]ast.Stmt{x.Init}); done {
					return true, v, n
				}
			}
			c, ok := t.truth(t.eval(x.Cond))
			if !ok {
				return true, tv{}, x
			}
			if c {
				if done, v, n := t.exec(x.Body.List); done {
					return true, v, n
				}
			} else if x.Else != nil {
				var els []ast.Stmt
				switch e := x.Else.(type) {
				case *ast.BlockStmt:
					els = e.List
				case *ast.IfStmt:
					els = []ast.Stmt{e}
				}
				if done, v, n := t.exec(els); done {
					return true, v, n
				}
			}
		case *ast.AssignStmt:
			if x.Tok != token.DEFINE {
				t.fail("assignment %s", t.s.rs.src(x))
				return true, tv{}, x
			}
			// single-sided definitions are handled by expansion; two-sided ones must be compare results
			for i, l := range x.Lhs {
				id, ok := l.(*ast.Ident)
				if !ok || i >= len(x.Rhs) {
					continue
				}
				if sd := t.s.side(x.Rhs[i]); sd == "AB" {
					v := t.eval(x.Rhs[i])
					if !v.isInt {
						t.fail("two-sided definition %s", t.s.rs.src(x))
						return true, tv{}, x
					}
					t.locals[id.Name], t.hasLocal[id.Name] = v.i, true
				}
			}
		case *ast.ForStmt:
			// one symbolic iteration, then fall through
			if done, v, n := t.exec(x.Body.List); done {
				return true, v, n
			}
		case *ast.RangeStmt:
			if done, v, n := t.exec(x.Body.List); done {
				return true, v, n
			}
		case *ast.BlockStmt:
			if done, v, n := t.exec(x.List); done {
				return true, v, n
			}
		case *ast.ExprStmt:
			if c, ok := x.X.(*ast.CallExpr); ok {
				if id, ok := c.Fun.(*ast.Ident); ok && strings.HasPrefix(id.Name, "__RECURSE_") {
					continue
				}
			}
			t.fail("statement %s", t.s.rs.src(x))
			return true, tv{}, x
		default:
			t.fail("statement %T", s)
			return true, tv{}, s
		}
	}
	return false, tv{}, nil
}

type tabPathV struct {
	atoms []atomVal
	val   tv
	node  ast.Node
}

// tabulateV enumerates all abstract paths of the body and returns the abstract value each returns.
func tabulateV(s *sided, forced map[string]int) ([]tabPathV, string) {
	or := &Oracle{}
	var paths []tabPathV
	for n := 0; n < 5000; n++ {
		or.pos = 0
		t := &tabEval{s: s, or: or, forced: forced, seen: map[string]int{}, locals: map[string]int{}, hasLocal: map[string]bool{}}
		done, v, node := t.exec(s.body.List)
		if t.undecided != "" {
			return nil, t.undecided
		}
		if !done {
			return nil, "a path falls off the end of the function"
		}
		// a boolean result may still be symbolic (a bare comparison as the returned expression)
		if !v.isInt && !v.isBool && v.side == "" {
			return nil, "a path returns a value outside the table's vocabulary"
		}
		paths = append(paths, tabPathV{atoms: t.atoms, val: v, node: node})
		if !or.next() {
			return paths, ""
		}
	}
	return nil, "more than 5000 abstract paths"
}

// tabulate enumerates all abstract paths of the residual body.
func tabulate(s *sided, forced map[string]int) ([]tabPath, string) {
	or := &Oracle{}
	var paths []tabPath
	for n := 0; n < 5000; n++ {
		or.pos = 0
		t := &tabEval{s: s, or: or, forced: forced, seen: map[string]int{}, locals: map[string]int{}, hasLocal: map[string]bool{}}
		done, v, node := t.exec(s.body.List)
		if t.undecided != "" {
			return nil, t.undecided
		}
		if !done {
			return nil, "a path falls off the end of the function"
		}
		if !v.isInt {
			return nil, "a path returns a value that is not an integer constant or a compare result"
		}
		paths = append(paths, tabPath{atoms: t.atoms, result: v.i, hasRes: true, retPos: node})
		if !or.next() {
			return paths, ""
		}
	}
	return nil, "more than 5000 abstract paths"
}

func atomsDesc(as []atomVal) string {
	var ss []string
	for _, a := range as {
		v := ""
		switch {
		case strings.HasPrefix(a.key, "nil:"):
			v = map[int]string{0: "non-nil", 1: "nil"}[a.val]
		case strings.HasPrefix(a.key, "truth:"):
			v = map[int]string{0: "false", 1: "true"}[a.val]
		default:
			v = map[int]string{-1: "this<that", 0: "this=that", 1: "this>that"}[a.val]
		}
		ss = append(ss, a.key+" is "+v)
	}
	return strings.Join(ss, ", ")
}

// mirrorState swaps the roles of the two values.
func mirrorState(as []atomVal) map[string]int {
	m := map[string]int{}
	for _, a := range as {
		switch {
		case strings.HasPrefix(a.key, "nil:A:"):
			m["nil:B:"+strings.TrimPrefix(a.key, "nil:A:")] = a.val
		case strings.HasPrefix(a.key, "nil:B:"):
			m["nil:A:"+strings.TrimPrefix(a.key, "nil:B:")] = a.val
		case strings.HasPrefix(a.key, "truth:"):
			m[a.key] = a.val
		default:
			m[a.key] = -a.val
		}
	}
	return m
}

// compareTableIssues checks the total-order obligations on the table of a compare residual.
func compareTableIssues(s *sided) ([]sideIssue, int, string) {
	paths, und := tabulate(s, nil)
	if und != "" {
		return nil, 0, und
	}
	var out []sideIssue
	add := func(p tabPath, kind, msg string) {
		n := p.retPos
		if n == nil {
			n = s.fn
		}
		out = append(out, sideIssue{n, msg + " [state: " + atomsDesc(p.atoms) + "]", kind, ""})
	}
	for _, p := range paths {
		// (a) range
		if p.result < -1 || p.result > 1 {
			add(p, "range", fmt.Sprintf("returns %d, outside {-1, 0, +1}", p.result))
			continue
		}
		// classify the state
		differing := []atomVal{}
		nilA, nilB := map[string]int{}, map[string]int{}
		for _, a := range p.atoms {
			switch {
			case strings.HasPrefix(a.key, "nil:A:"):
				nilA[strings.TrimPrefix(a.key, "nil:A:")] = a.val
			case strings.HasPrefix(a.key, "nil:B:"):
				nilB[strings.TrimPrefix(a.key, "nil:B:")] = a.val
			case strings.HasPrefix(a.key, "truth:"):
			default:
				if a.val != 0 {
					differing = append(differing, a)
				}
			}
		}
		nilDiff := []string{}
		nilUnknown := false
		for k, va := range nilA {
			vb, ok := nilB[k]
			if !ok {
				if va == 1 {
					nilUnknown = true // this nil, that never examined
				}
				continue
			}
			if va != vb {
				nilDiff = append(nilDiff, k)
			}
		}
		for k, vb := range nilB {
			if _, ok := nilA[k]; !ok && vb == 1 {
				nilUnknown = true
			}
		}
		sort.Strings(nilDiff)
		allEqual := len(differing) == 0 && len(nilDiff) == 0 && !nilUnknown
		// (c) zero iff equal
		if p.result == 0 && !allEqual {
			add(p, "zero-on-difference", "returns 0 although the examined components differ")
		}
		if p.result != 0 && allEqual {
			add(p, "nonzero-on-equal", fmt.Sprintf("returns %d although every examined component is equal", p.result))
		}
		// (d) direction for a single difference
		if len(differing) == 1 && len(nilDiff) == 0 && !nilUnknown && strings.HasPrefix(differing[0].key, "ord:") {
			if p.result != differing[0].val {
				add(p, "direction", fmt.Sprintf("returns %d where the only differing component orders the values as %d (natural order reversed or ignored)", p.result, differing[0].val))
			}
		}
		if len(differing) == 0 && len(nilDiff) == 1 {
			want := 1
			if nilA[nilDiff[0]] == 1 {
				want = -1 // this is nil, that is not: nil first
			}
			if p.result != want {
				add(p, "nil-first", fmt.Sprintf("returns %d where only the nil-ness differs (nil must order first: expected %d)", p.result, want))
			}
		}
		// (b) antisymmetry: under the mirrored state every completion yields the negated result
		mp, und := tabulate(s, mirrorState(p.atoms))
		if und != "" {
			return nil, 0, und
		}
		for _, q := range mp {
			if q.result != -p.result {
				add(p, "antisymmetry", fmt.Sprintf("returns %d, but %d (not %d) with the two values swapped", p.result, q.result, -p.result))
				break
			}
		}
	}
	return out, len(paths), ""
}

// stripConv removes an order- and identity-preserving string(...) conversion around an operand.
func stripConv(n string) string {
	for strings.HasPrefix(n, "string(") && strings.HasSuffix(n, ")") {
		n = n[len("string(") : len(n)-1]
	}
	return n
}
