package main

import (
	"fmt"
	"go/ast"
	"go/constant"
	"go/token"
	"go/types"
	"sort"
	"strings"

	"golang.org/x/tools/go/cfg"
)

// g10NoSkip: in newFileInfos every package file is represented in the result unless it is the derived file itself or has
// no token.File (unparsable). The package directory, the reserved names and the rewrite targets all come from this list.
func g10NoSkip(r *Repo, rep *Report, derivedConst types.Object) {
	fi := r.lookup("derive.newFileInfos")
	if fi == nil {
		return
	}
	info := fi.Pkg.TypesInfo
	g := newGraph(fi.Decl.Body, mayReturnFn(info))
	// the loop over pkgInfo.Files
	var loop ast.Stmt
	ast.Inspect(fi.Decl.Body, func(n ast.Node) bool {
		switch x := n.(type) {
		case *ast.RangeStmt:
			if loop == nil && strings.Contains(exprStr(x.X), "Files") {
				loop = x
			}
		}
		return true
	})
	if loop == nil {
		rep.fail(Finding{Rule: "G10", Key: "G10|file-loop-missing", Kind: "undecided", Where: []string{r.pos(fi.Decl.Pos())}, Msg: "newFileInfos: loop over the package's files not found"})
		return
	}
	var head, bodyEntry *cfg.Block
	for _, b := range g.Blocks {
		if b.Stmt == loop {
			switch b.Kind {
			case cfg.KindRangeLoop:
				head = b
			case cfg.KindRangeBody:
				bodyEntry = b
			}
		}
	}
	if head == nil || bodyEntry == nil {
		rep.fail(Finding{Rule: "G10", Key: "G10|file-loop-cfg", Kind: "undecided", Msg: "newFileInfos: cannot locate the file loop in the CFG"})
		return
	}
	isAppend := func(b *cfg.Block) bool {
		return blockHas(b, func(n ast.Node) bool {
			c, ok := n.(*ast.CallExpr)
			if !ok {
				return false
			}
			if bi, ok := callee(info, c).(*types.Builtin); ok && bi.Name() == "append" && len(c.Args) > 0 {
				return strings.Contains(info.TypeOf(c.Args[0]).String(), "fileInfo")
			}
			return false
		})
	}
	// allowed skips: the true outcome of `file == nil` and of `fname == derivedFilename`
	allowedSkip := map[*cfg.Block]bool{}
	for _, b := range g.Blocks {
		if len(b.Succs) != 2 || len(b.Nodes) == 0 {
			continue
		}
		cond, ok := b.Nodes[len(b.Nodes)-1].(ast.Expr)
		if !ok {
			continue
		}
		be, ok := ast.Unparen(cond).(*ast.BinaryExpr)
		if !ok || (be.Op != token.EQL && be.Op != token.NEQ) {
			continue
		}
		succ := b.Succs[0]
		if be.Op == token.NEQ {
			succ = b.Succs[1]
		}
		isNilCmp := isNilIdent(info, be.X) || isNilIdent(info, be.Y)
		isDerived := false
		for _, side := range []ast.Expr{be.X, be.Y} {
			if id, ok := ast.Unparen(side).(*ast.Ident); ok && info.Uses[id] == derivedConst {
				isDerived = true
			}
		}
		if isNilCmp {
			// only a nil test on a *token.File counts
			for _, side := range []ast.Expr{be.X, be.Y} {
				if t := info.TypeOf(side); t != nil && strings.HasSuffix(t.String(), "token.File") {
					allowedSkip[succ] = true
				}
			}
		}
		if isDerived {
			allowedSkip[succ] = true
		}
	}
	reach := g.reachable([]*cfg.Block{bodyEntry}, func(b *cfg.Block) bool { return isAppend(b) || allowedSkip[b] })
	if reach[head] {
		rep.fail(Finding{Rule: "G10", Key: "G10|user-file-skipped", Where: []string{r.pos(loop.Pos())},
			Msg: "newFileInfos can skip a user source file (other than the derived file / an unparsable file): the package directory, reserved names and stale-file deletion are computed from this list, so a package whose files contain no derive calls is handled differently from a fresh run"})
	} else {
		rep.pass("G10")
		rep.sample(map[string]string{"rule": "G10 every user file listed", "loop": r.pos(loop.Pos()), "allowed skips": "token.File == nil; base name == derivedFilename"})
	}
}

// g5SameFile: the file that is opened for rewriting and the syntax tree printed into it belong to the same fileInfo,
// and newFileInfos pairs each tree with the path of the token.File of that very tree.
func g5SameFile(r *Repo, rep *Report) {
	np := r.lookup("derive.newPackage")
	if np == nil {
		return
	}
	info := np.Pkg.TypesInfo
	rootOf := func(e ast.Expr) (types.Object, string) {
		e = resolveLocal(info, np.Decl, e)
		sel, ok := ast.Unparen(e).(*ast.SelectorExpr)
		if !ok {
			return nil, ""
		}
		id, ok := ast.Unparen(sel.X).(*ast.Ident)
		if !ok {
			return nil, ""
		}
		return info.Uses[id], sel.Sel.Name
	}
	var openArg, fmtArg ast.Expr
	ast.Inspect(np.Decl, func(x ast.Node) bool {
		c, ok := x.(*ast.CallExpr)
		if !ok {
			return true
		}
		if isPkgFunc(callee(info, c), "os", "OpenFile") && len(c.Args) == 3 {
			openArg = c.Args[0]
		}
		if isPkgFunc(callee(info, c), "go/format", "Node") && len(c.Args) == 3 {
			fmtArg = c.Args[2]
		}
		return true
	})
	if openArg == nil || fmtArg == nil {
		return // reported elsewhere
	}
	o1, f1 := rootOf(openArg)
	o2, f2 := rootOf(fmtArg)
	isLoopVar := func(o types.Object) bool {
		ok := false
		ast.Inspect(np.Decl, func(x ast.Node) bool {
			if rs, isR := x.(*ast.RangeStmt); isR {
				if id, isId := rs.Value.(*ast.Ident); isId && info.Defs[id] == o {
					ok = true
				}
			}
			return true
		})
		return ok
	}
	if o1 != nil && o1 == o2 && isLoopVar(o1) && f1 != f2 {
		rep.pass("G5")
		rep.sample(map[string]string{"rule": "G5 rewrite pairs path and tree of one file", "path": exprStr(openArg), "tree": exprStr(fmtArg)})
	} else {
		rep.fail(Finding{Rule: "G5", Key: "G5|rewrite-pairing", Where: []string{r.pos(openArg.Pos()), r.pos(fmtArg.Pos())},
			Msg: "newPackage: the path opened for rewriting (" + exprStr(openArg) + ") and the syntax tree printed into it (" + exprStr(fmtArg) + ") are not two fields of the same per-file record: a file could be overwritten with another file's contents"})
	}
	// the renamed call belongs to the same record: call ranges over fields of the same loop variable
	// newFileInfos: fileInfo{astFile: A, fullpath: P} with P = Fset.File(A.Pos()).Name()
	nfi := r.lookup("derive.newFileInfos")
	if nfi == nil {
		return
	}
	ninfo := nfi.Pkg.TypesInfo
	var lit *ast.CompositeLit
	ast.Inspect(nfi.Decl, func(x ast.Node) bool {
		if cl, ok := x.(*ast.CompositeLit); ok && strings.HasSuffix(ninfo.TypeOf(cl).String(), "fileInfo") {
			lit = cl
		}
		return true
	})
	if lit == nil {
		rep.fail(Finding{Rule: "G5", Key: "G5|fileInfo-literal", Kind: "undecided", Where: []string{r.pos(nfi.Decl.Pos())}, Msg: "newFileInfos: fileInfo literal not found"})
		return
	}
	var astE, pathE ast.Expr
	for _, el := range lit.Elts {
		if kv, ok := el.(*ast.KeyValueExpr); ok {
			switch kv.Key.(*ast.Ident).Name {
			case "astFile":
				astE = kv.Value
			case "fullpath":
				pathE = kv.Value
			}
		}
	}
	if astE == nil || pathE == nil {
		rep.fail(Finding{Rule: "G5", Key: "G5|fileInfo-fields", Kind: "undecided", Where: []string{r.pos(lit.Pos())}, Msg: "newFileInfos: fileInfo literal lacks astFile/fullpath"})
		return
	}
	res := func(e ast.Expr) ast.Expr { return resolveLocal(ninfo, nfi.Decl, e) }
	treeStr := exprStr(res(astE))
	// path = X.Name() where X = <fset>.File(T.Pos()) and T resolves to the same tree expression
	ok := false
	if c, isCall := ast.Unparen(res(pathE)).(*ast.CallExpr); isCall {
		if sel, isSel := c.Fun.(*ast.SelectorExpr); isSel && sel.Sel.Name == "Name" {
			if c2, isCall := ast.Unparen(res(sel.X)).(*ast.CallExpr); isCall && len(c2.Args) == 1 {
				if s2, isSel := c2.Fun.(*ast.SelectorExpr); isSel && s2.Sel.Name == "File" {
					if c3, isCall := ast.Unparen(c2.Args[0]).(*ast.CallExpr); isCall {
						if s3, isSel := c3.Fun.(*ast.SelectorExpr); isSel && s3.Sel.Name == "Pos" {
							if exprStr(res(s3.X)) == treeStr {
								ok = true
							}
						}
					}
				}
			}
		}
	}
	if ok {
		rep.pass("G5")
	} else {
		rep.fail(Finding{Rule: "G5", Key: "G5|fileInfo-pairing", Where: []string{r.pos(lit.Pos())},
			Msg: "newFileInfos: fullpath is not the name of the token.File of the very tree stored in astFile (" + treeStr + "): path and tree of different files can be paired"})
	}
}

// g4ChangedReset: the rewrite guard is reset for every file: no `guard = true` of one iteration can reach the
// `if guard` of a later iteration without passing a `guard = false`.
func g4ChangedReset(r *Repo, rep *Report, fi *FuncInfo, g *Graph, guard types.Object, gb *cfg.Block) {
	info := fi.Pkg.TypesInfo
	isStore := func(b *cfg.Block, val bool) bool {
		return blockHas(b, func(n ast.Node) bool {
			as, ok := n.(*ast.AssignStmt)
			if !ok {
				return false
			}
			for i, l := range as.Lhs {
				id, ok := l.(*ast.Ident)
				if !ok || (info.Uses[id] != guard && info.Defs[id] != guard) || i >= len(as.Rhs) {
					continue
				}
				tv := info.Types[as.Rhs[i]]
				if tv.Value != nil && tv.Value.Kind() == constant.Bool && constant.BoolVal(tv.Value) == val {
					return true
				}
			}
			return false
		})
	}
	if gb == nil || len(gb.Nodes) == 0 {
		return
	}
	var trues []*cfg.Block
	for _, b := range g.Blocks {
		if isStore(b, true) {
			trues = append(trues, b)
		}
	}
	// paths from after the guard block (i.e. into later iterations) back to the guard without a reset
	reach := g.reachable(gb.Succs, func(b *cfg.Block) bool { return isStore(b, false) })
	if reach[gb] && len(trues) > 0 {
		rep.fail(Finding{Rule: "G4", Key: "G4|changed-not-reset", Where: []string{r.pos(gb.Nodes[len(gb.Nodes)-1].Pos())},
			Msg: "newPackage: the rewrite guard `" + guard.Name() + "` is not reset for each file: once one file had a renamed call, every later file of the package is rewritten too"})
	} else {
		rep.pass("G4")
	}
}

// reachFirstIter computes the blocks reachable from the entry without entering a stop block, pruning the exit edge of a
// `for v { … }` loop on its first evaluation when v is a boolean initialised to the constant true immediately outside the
// loop and not assigned anywhere else outside the loop (so the body runs at least once). The pruning is dropped if the loop
// head can be re-entered from its own body inside the computed set.
func reachFirstIter(g *Graph, info *types.Info, body *ast.BlockStmt, stop func(*cfg.Block) bool) map[*cfg.Block]bool {
	type loopInfo struct {
		head, done *cfg.Block
		stmt       *ast.ForStmt
	}
	var loops []loopInfo
	for _, b := range g.Blocks {
		if b.Kind != cfg.KindForLoop || len(b.Succs) != 2 || len(b.Nodes) == 0 {
			continue
		}
		fs, ok := b.Stmt.(*ast.ForStmt)
		if !ok || fs.Init != nil {
			continue
		}
		id, ok := ast.Unparen(fs.Cond).(*ast.Ident)
		if !ok {
			continue
		}
		v := info.Uses[id]
		initTrue, otherOutside := false, false
		ast.Inspect(body, func(n ast.Node) bool {
			as, ok := n.(*ast.AssignStmt)
			if !ok {
				return true
			}
			for i, l := range as.Lhs {
				lid, ok := l.(*ast.Ident)
				if !ok || (info.Defs[lid] != v && info.Uses[lid] != v) {
					continue
				}
				inside := fs.Body.Pos() <= as.Pos() && as.End() <= fs.Body.End()
				if inside {
					continue
				}
				isTrue := false
				if len(as.Rhs) == len(as.Lhs) {
					tv := info.Types[as.Rhs[i]]
					isTrue = tv.Value != nil && tv.Value.Kind() == constant.Bool && constant.BoolVal(tv.Value)
				}
				if isTrue && as.End() <= fs.Pos() && !initTrue {
					initTrue = true
				} else {
					otherOutside = true
				}
			}
			return true
		})
		if initTrue && !otherOutside {
			loops = append(loops, loopInfo{b, b.Succs[1], fs})
		}
	}
	compute := func(prune bool) map[*cfg.Block]bool {
		seen := map[*cfg.Block]bool{}
		var work []*cfg.Block
		if e := g.entry(); e != nil && !stop(e) {
			seen[e] = true
			work = append(work, e)
		}
		for len(work) > 0 {
			b := work[len(work)-1]
			work = work[:len(work)-1]
			for _, s := range b.Succs {
				if prune {
					skip := false
					for _, l := range loops {
						if b == l.head && s == l.done {
							skip = true
						}
					}
					if skip {
						continue
					}
				}
				if seen[s] || stop(s) {
					continue
				}
				seen[s] = true
				work = append(work, s)
			}
		}
		return seen
	}
	r := compute(true)
	for _, l := range loops {
		for b := range r {
			if b == l.head {
				continue
			}
			inBody := false
			for _, n := range b.Nodes {
				if l.stmt.Body.Pos() <= n.Pos() && n.End() <= l.stmt.Body.End() {
					inBody = true
				}
			}
			if !inBody && b.Kind != cfg.KindForPost {
				continue
			}
			for _, s := range b.Succs {
				if s == l.head {
					return compute(false)
				}
			}
		}
	}
	return r
}

// reachWithFacts — blocks reachable from the entry without passing a stop block, along paths that are consistent with what the
// path itself established about plain local variables: a variable that was assigned nil / a non-nil variable / true / false, or
// tested on the edge taken, keeps that value until it is assigned again, and a later test of it has only one feasible outcome.
// (After helpers are inlined, "the helper failed" travels as `err = err_1; break L` to a test `if err != nil` behind the
// inlined body; without this the edge "err is nil" of that test would be taken on the failure path too.)
// The exploration is over (block, facts) states and only ever removes paths on which a variable would have two values at once.
func reachWithFacts(g *Graph, info *types.Info, stop func(*cfg.Block) bool) map[*cfg.Block]bool {
	type facts map[types.Object]string // "nil" | "nonnil" | "true" | "false"
	key := func(b *cfg.Block, f facts) string {
		var ks []string
		for o, v := range f {
			ks = append(ks, fmt.Sprintf("%p=%s", o, v))
		}
		sort.Strings(ks)
		return fmt.Sprintf("%p|%s", b, strings.Join(ks, ","))
	}
	clone := func(f facts) facts {
		n := facts{}
		for k, v := range f {
			n[k] = v
		}
		return n
	}
	objOfE := func(e ast.Expr) types.Object {
		if id, ok := ast.Unparen(e).(*ast.Ident); ok && id.Name != "_" {
			if o := info.Defs[id]; o != nil {
				return o
			}
			return info.Uses[id]
		}
		return nil
	}
	valueOf := func(e ast.Expr, f facts) string {
		e = ast.Unparen(e)
		if tv, ok := info.Types[e]; ok && tv.Value != nil && tv.Value.Kind() == constant.Bool {
			if constant.BoolVal(tv.Value) {
				return "true"
			}
			return "false"
		}
		if isNilIdent(info, e) {
			return "nil"
		}
		if o := objOfE(e); o != nil {
			return f[o]
		}
		return ""
	}
	apply := func(n ast.Node, f facts) {
		switch x := n.(type) {
		case *ast.AssignStmt:
			if len(x.Lhs) == len(x.Rhs) {
				vals := make([]string, len(x.Rhs))
				for i := range x.Rhs {
					vals[i] = valueOf(x.Rhs[i], f)
				}
				for i, l := range x.Lhs {
					if o := objOfE(l); o != nil {
						if vals[i] != "" && (x.Tok == token.ASSIGN || x.Tok == token.DEFINE) {
							f[o] = vals[i]
						} else {
							delete(f, o)
						}
					}
				}
				return
			}
			for _, l := range x.Lhs {
				if o := objOfE(l); o != nil {
					delete(f, o)
				}
			}
		case *ast.IncDecStmt:
			if o := objOfE(x.X); o != nil {
				delete(f, o)
			}
		case *ast.DeclStmt:
			if gd, ok := x.Decl.(*ast.GenDecl); ok {
				for _, sp := range gd.Specs {
					vs, ok := sp.(*ast.ValueSpec)
					if !ok {
						continue
					}
					for i, nm := range vs.Names {
						o := info.Defs[nm]
						if o == nil {
							continue
						}
						switch {
						case i < len(vs.Values):
							if v := valueOf(vs.Values[i], f); v != "" {
								f[o] = v
							} else {
								delete(f, o)
							}
						case len(vs.Values) == 0:
							switch u := o.Type().Underlying().(type) {
							case *types.Basic:
								if u.Info()&types.IsBoolean != 0 {
									f[o] = "false"
								}
							case *types.Interface, *types.Pointer, *types.Slice, *types.Map, *types.Signature, *types.Chan:
								f[o] = "nil"
							}
						}
					}
				}
			}
		default:
			// a statement that takes the address of a variable, or a closure that may assign it: forget it
			ast.Inspect(n, func(m ast.Node) bool {
				switch y := m.(type) {
				case *ast.UnaryExpr:
					if y.Op == token.AND {
						if o := objOfE(y.X); o != nil {
							delete(f, o)
						}
					}
				case *ast.FuncLit:
					ast.Inspect(y.Body, func(k ast.Node) bool {
						if as, ok := k.(*ast.AssignStmt); ok {
							for _, l := range as.Lhs {
								if o := objOfE(l); o != nil {
									delete(f, o)
								}
							}
						}
						return true
					})
				}
				return true
			})
		}
	}
	// outcome of a condition under the facts: "true", "false" or "" (both), plus what each edge teaches
	var evalCond func(e ast.Expr, f facts) string
	evalCond = func(e ast.Expr, f facts) string {
		e = ast.Unparen(e)
		switch x := e.(type) {
		case *ast.Ident:
			if v := f[objOfE(x)]; v == "true" || v == "false" {
				return v
			}
		case *ast.UnaryExpr:
			if x.Op == token.NOT {
				switch evalCond(x.X, f) {
				case "true":
					return "false"
				case "false":
					return "true"
				}
			}
		case *ast.BinaryExpr:
			if x.Op == token.EQL || x.Op == token.NEQ {
				var v string
				switch {
				case isNilIdent(info, x.Y):
					v = f[objOfE(x.X)]
				case isNilIdent(info, x.X):
					v = f[objOfE(x.Y)]
				}
				if v == "nil" || v == "nonnil" {
					if (v == "nil") == (x.Op == token.EQL) {
						return "true"
					}
					return "false"
				}
			}
		}
		return ""
	}
	learn := func(e ast.Expr, outcome bool, f facts) {
		e = ast.Unparen(e)
		neg := false
		for {
			u, ok := e.(*ast.UnaryExpr)
			if !ok || u.Op != token.NOT {
				break
			}
			neg = !neg
			e = ast.Unparen(u.X)
		}
		if neg {
			outcome = !outcome
		}
		switch x := e.(type) {
		case *ast.Ident:
			if o := objOfE(x); o != nil {
				if _, isVar := o.(*types.Var); isVar {
					f[o] = map[bool]string{true: "true", false: "false"}[outcome]
				}
			}
		case *ast.BinaryExpr:
			if x.Op == token.EQL || x.Op == token.NEQ {
				var o types.Object
				switch {
				case isNilIdent(info, x.Y):
					o = objOfE(x.X)
				case isNilIdent(info, x.X):
					o = objOfE(x.Y)
				}
				if _, isVar := o.(*types.Var); isVar {
					if (x.Op == token.EQL) == outcome {
						f[o] = "nil"
					} else {
						f[o] = "nonnil"
					}
				}
			}
		}
	}
	reached := map[*cfg.Block]bool{}
	seen := map[string]bool{}
	type item struct {
		b *cfg.Block
		f facts
	}
	var work []item
	if e := g.entry(); e != nil && !stop(e) {
		work = append(work, item{e, facts{}})
	}
	steps := 0
	for len(work) > 0 {
		it := work[len(work)-1]
		work = work[:len(work)-1]
		k := key(it.b, it.f)
		if seen[k] {
			continue
		}
		seen[k] = true
		reached[it.b] = true
		steps++
		if steps > 20000 {
			// give up on precision, never on soundness: everything reachable in the plain graph
			for b := range g.reachable([]*cfg.Block{g.entry()}, stop) {
				reached[b] = true
			}
			return reached
		}
		f := clone(it.f)
		var cond ast.Expr
		for i, n := range it.b.Nodes {
			if i == len(it.b.Nodes)-1 && len(it.b.Succs) == 2 {
				if ce, ok := n.(ast.Expr); ok {
					cond = ce
					break
				}
			}
			apply(n, f)
		}
		for si, s := range it.b.Succs {
			if stop(s) {
				continue
			}
			nf := clone(f)
			if cond != nil {
				out := evalCond(cond, f)
				if (out == "true" && si == 1) || (out == "false" && si == 0) {
					continue
				}
				learn(cond, si == 0, nf)
			}
			work = append(work, item{s, nf})
		}
	}
	return reached
}
