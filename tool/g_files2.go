package main

import (
	"go/ast"
	"go/constant"
	"go/token"
	"go/types"
	"strings"

	"golang.org/x/tools/go/cfg"
)

// g10NoSkip: in newFileInfos every package file is represented in the result unless it is the derived file itself or has
// no token.File (unparsable). The package directory, the reserved names and the rewrite targets all come from this list.
func g10NoSkip(r *Repo, rep *Report, derivedConst types.Object) {
	fi := r.lookup("derive.newFileInfos")
	if fi == nil {
		return
	}
	info := fi.Pkg.TypesInfo
	g := newGraph(fi.Decl.Body, mayReturnFn(info))
	// the loop over pkgInfo.Files
	var loop ast.Stmt
	ast.Inspect(fi.Decl.Body, func(n ast.Node) bool {
		switch x := n.(type) {
		case *ast.RangeStmt:
			if loop == nil && strings.Contains(exprStr(x.X), "Files") {
				loop = x
			}
		}
		return true
	})
	if loop == nil {
		rep.fail(Finding{Rule: "G10", Key: "G10|file-loop-missing", Kind: "undecided", Where: []string{r.pos(fi.Decl.Pos())}, Msg: "newFileInfos: loop over the package's files not found"})
		return
	}
	var head, bodyEntry *cfg.Block
	for _, b := range g.Blocks {
		if b.Stmt == loop {
			switch b.Kind {
			case cfg.KindRangeLoop:
				head = b
			case cfg.KindRangeBody:
				bodyEntry = b
			}
		}
	}
	if head == nil || bodyEntry == nil {
		rep.fail(Finding{Rule: "G10", Key: "G10|file-loop-cfg", Kind: "undecided", Msg: "newFileInfos: cannot locate the file loop in the CFG"})
		return
	}
	isAppend := func(b *cfg.Block) bool {
		return blockHas(b, func(n ast.Node) bool {
			c, ok := n.(*ast.CallExpr)
			if !ok {
				return false
			}
			if bi, ok := callee(info, c).(*types.Builtin); ok && bi.Name() == "append" && len(c.Args) > 0 {
				return strings.Contains(info.TypeOf(c.Args[0]).String(), "fileInfo")
			}
			return false
		})
	}
	// allowed skips: the true outcome of `file == nil` and of `fname == derivedFilename`
	allowedSkip := map[*cfg.Block]bool{}
	for _, b := range g.Blocks {
		if len(b.Succs) != 2 || len(b.Nodes) == 0 {
			continue
		}
		cond, ok := b.Nodes[len(b.Nodes)-1].(ast.Expr)
		if !ok {
			continue
		}
		be, ok := ast.Unparen(cond).(*ast.BinaryExpr)
		if !ok || (be.Op != token.EQL && be.Op != token.NEQ) {
			continue
		}
		succ := b.Succs[0]
		if be.Op == token.NEQ {
			succ = b.Succs[1]
		}
		isNilCmp := isNilIdent(info, be.X) || isNilIdent(info, be.Y)
		isDerived := false
		for _, side := range []ast.Expr{be.X, be.Y} {
			if id, ok := ast.Unparen(side).(*ast.Ident); ok && info.Uses[id] == derivedConst {
				isDerived = true
			}
		}
		if isNilCmp {
			// only a nil test on a *token.File counts
			for _, side := range []ast.Expr{be.X, be.Y} {
				if t := info.TypeOf(side); t != nil && strings.HasSuffix(t.String(), "token.File") {
					allowedSkip[succ] = true
				}
			}
		}
		if isDerived {
			allowedSkip[succ] = true
		}
	}
	reach := g.reachable([]*cfg.Block{bodyEntry}, func(b *cfg.Block) bool { return isAppend(b) || allowedSkip[b] })
	if reach[head] {
		rep.fail(Finding{Rule: "G10", Key: "G10|user-file-skipped", Where: []string{r.pos(loop.Pos())},
			Msg: "newFileInfos can skip a user source file (other than the derived file / an unparsable file): the package directory, reserved names and stale-file deletion are computed from this list, so a package whose files contain no derive calls is handled differently from a fresh run"})
	} else {
		rep.pass("G10")
		rep.sample(map[string]string{"rule": "G10 every user file listed", "loop": r.pos(loop.Pos()), "allowed skips": "token.File == nil; base name == derivedFilename"})
	}
}

// g5SameFile: the file that is opened for rewriting and the syntax tree printed into it belong to the same fileInfo,
// and newFileInfos pairs each tree with the path of the token.File of that very tree.
func g5SameFile(r *Repo, rep *Report) {
	np := r.lookup("derive.newPackage")
	if np == nil {
		return
	}
	info := np.Pkg.TypesInfo
	rootOf := func(e ast.Expr) (types.Object, string) {
		e = resolveLocal(info, np.Decl, e)
		sel, ok := ast.Unparen(e).(*ast.SelectorExpr)
		if !ok {
			return nil, ""
		}
		id, ok := ast.Unparen(sel.X).(*ast.Ident)
		if !ok {
			return nil, ""
		}
		return info.Uses[id], sel.Sel.Name
	}
	var openArg, fmtArg ast.Expr
	ast.Inspect(np.Decl, func(x ast.Node) bool {
		c, ok := x.(*ast.CallExpr)
		if !ok {
			return true
		}
		if isPkgFunc(callee(info, c), "os", "OpenFile") && len(c.Args) == 3 {
			openArg = c.Args[0]
		}
		if isPkgFunc(callee(info, c), "go/format", "Node") && len(c.Args) == 3 {
			fmtArg = c.Args[2]
		}
		return true
	})
	if openArg == nil || fmtArg == nil {
		return // reported elsewhere
	}
	o1, f1 := rootOf(openArg)
	o2, f2 := rootOf(fmtArg)
	isLoopVar := func(o types.Object) bool {
		ok := false
		ast.Inspect(np.Decl, func(x ast.Node) bool {
			if rs, isR := x.(*ast.RangeStmt); isR {
				if id, isId := rs.Value.(*ast.Ident); isId && info.Defs[id] == o {
					ok = true
				}
			}
			return true
		})
		return ok
	}
	if o1 != nil && o1 == o2 && isLoopVar(o1) && f1 != f2 {
		rep.pass("G5")
		rep.sample(map[string]string{"rule": "G5 rewrite pairs path and tree of one file", "path": exprStr(openArg), "tree": exprStr(fmtArg)})
	} else {
		rep.fail(Finding{Rule: "G5", Key: "G5|rewrite-pairing", Where: []string{r.pos(openArg.Pos()), r.pos(fmtArg.Pos())},
			Msg: "newPackage: the path opened for rewriting (" + exprStr(openArg) + ") and the syntax tree printed into it (" + exprStr(fmtArg) + ") are not two fields of the same per-file record: a file could be overwritten with another file's contents"})
	}
	// the renamed call belongs to the same record: call ranges over fields of the same loop variable
	// newFileInfos: fileInfo{astFile: A, fullpath: P} with P = Fset.File(A.Pos()).Name()
	nfi := r.lookup("derive.newFileInfos")
	if nfi == nil {
		return
	}
	ninfo := nfi.Pkg.TypesInfo
	var lit *ast.CompositeLit
	ast.Inspect(nfi.Decl, func(x ast.Node) bool {
		if cl, ok := x.(*ast.CompositeLit); ok && strings.HasSuffix(ninfo.TypeOf(cl).String(), "fileInfo") {
			lit = cl
		}
		return true
	})
	if lit == nil {
		rep.fail(Finding{Rule: "G5", Key: "G5|fileInfo-literal", Kind: "undecided", Where: []string{r.pos(nfi.Decl.Pos())}, Msg: "newFileInfos: fileInfo literal not found"})
		return
	}
	var astE, pathE ast.Expr
	for _, el := range lit.Elts {
		if kv, ok := el.(*ast.KeyValueExpr); ok {
			switch kv.Key.(*ast.Ident).Name {
			case "astFile":
				astE = kv.Value
			case "fullpath":
				pathE = kv.Value
			}
		}
	}
	if astE == nil || pathE == nil {
		rep.fail(Finding{Rule: "G5", Key: "G5|fileInfo-fields", Kind: "undecided", Where: []string{r.pos(lit.Pos())}, Msg: "newFileInfos: fileInfo literal lacks astFile/fullpath"})
		return
	}
	res := func(e ast.Expr) ast.Expr { return resolveLocal(ninfo, nfi.Decl, e) }
	treeStr := exprStr(res(astE))
	// path = X.Name() where X = <fset>.File(T.Pos()) and T resolves to the same tree expression
	ok := false
	if c, isCall := ast.Unparen(res(pathE)).(*ast.CallExpr); isCall {
		if sel, isSel := c.Fun.(*ast.SelectorExpr); isSel && sel.Sel.Name == "Name" {
			if c2, isCall := ast.Unparen(res(sel.X)).(*ast.CallExpr); isCall && len(c2.Args) == 1 {
				if s2, isSel := c2.Fun.(*ast.SelectorExpr); isSel && s2.Sel.Name == "File" {
					if c3, isCall := ast.Unparen(c2.Args[0]).(*ast.CallExpr); isCall {
						if s3, isSel := c3.Fun.(*ast.SelectorExpr); isSel && s3.Sel.Name == "Pos" {
							if exprStr(res(s3.X)) == treeStr {
								ok = true
							}
						}
					}
				}
			}
		}
	}
	if ok {
		rep.pass("G5")
	} else {
		rep.fail(Finding{Rule: "G5", Key: "G5|fileInfo-pairing", Where: []string{r.pos(lit.Pos())},
			Msg: "newFileInfos: fullpath is not the name of the token.File of the very tree stored in astFile (" + treeStr + "): path and tree of different files can be paired"})
	}
}

// g4ChangedReset: the rewrite guard is reset for every file: no `guard = true` of one iteration can reach the
// `if guard` of a later iteration without passing a `guard = false`.
func g4ChangedReset(r *Repo, rep *Report, fi *FuncInfo, g *Graph, guard types.Object, gb *cfg.Block) {
	info := fi.Pkg.TypesInfo
	isStore := func(b *cfg.Block, val bool) bool {
		return blockHas(b, func(n ast.Node) bool {
			as, ok := n.(*ast.AssignStmt)
			if !ok {
				return false
			}
			for i, l := range as.Lhs {
				id, ok := l.(*ast.Ident)
				if !ok || (info.Uses[id] != guard && info.Defs[id] != guard) || i >= len(as.Rhs) {
					continue
				}
				tv := info.Types[as.Rhs[i]]
				if tv.Value != nil && tv.Value.Kind() == constant.Bool && constant.BoolVal(tv.Value) == val {
					return true
				}
			}
			return false
		})
	}
	if gb == nil || len(gb.Nodes) == 0 {
		return
	}
	var trues []*cfg.Block
	for _, b := range g.Blocks {
		if isStore(b, true) {
			trues = append(trues, b)
		}
	}
	// paths from after the guard block (i.e. into later iterations) back to the guard without a reset
	reach := g.reachable(gb.Succs, func(b *cfg.Block) bool { return isStore(b, false) })
	if reach[gb] && len(trues) > 0 {
		rep.fail(Finding{Rule: "G4", Key: "G4|changed-not-reset", Where: []string{r.pos(gb.Nodes[len(gb.Nodes)-1].Pos())},
			Msg: "newPackage: the rewrite guard `" + guard.Name() + "` is not reset for each file: once one file had a renamed call, every later file of the package is rewritten too"})
	} else {
		rep.pass("G4")
	}
}

// reachFirstIter computes the blocks reachable from the entry without entering a stop block, pruning the exit edge of a
// `for v { … }` loop on its first evaluation when v is a boolean initialised to the constant true immediately outside the
// loop and not assigned anywhere else outside the loop (so the body runs at least once). The pruning is dropped if the loop
// head can be re-entered from its own body inside the computed set.
func reachFirstIter(g *Graph, info *types.Info, body *ast.BlockStmt, stop func(*cfg.Block) bool) map[*cfg.Block]bool {
	type loopInfo struct {
		head, done *cfg.Block
		stmt       *ast.ForStmt
	}
	var loops []loopInfo
	for _, b := range g.Blocks {
		if b.Kind != cfg.KindForLoop || len(b.Succs) != 2 || len(b.Nodes) == 0 {
			continue
		}
		fs, ok := b.Stmt.(*ast.ForStmt)
		if !ok || fs.Init != nil {
			continue
		}
		id, ok := ast.Unparen(fs.Cond).(*ast.Ident)
		if !ok {
			continue
		}
		v := info.Uses[id]
		initTrue, otherOutside := false, false
		ast.Inspect(body, func(n ast.Node) bool {
			as, ok := n.(*ast.AssignStmt)
			if !ok {
				return true
			}
			for i, l := range as.Lhs {
				lid, ok := l.(*ast.Ident)
				if !ok || (info.Defs[lid] != v && info.Uses[lid] != v) {
					continue
				}
				inside := fs.Body.Pos() <= as.Pos() && as.End() <= fs.Body.End()
				if inside {
					continue
				}
				isTrue := false
				if len(as.Rhs) == len(as.Lhs) {
					tv := info.Types[as.Rhs[i]]
					isTrue = tv.Value != nil && tv.Value.Kind() == constant.Bool && constant.BoolVal(tv.Value)
				}
				if isTrue && as.End() <= fs.Pos() && !initTrue {
					initTrue = true
				} else {
					otherOutside = true
				}
			}
			return true
		})
		if initTrue && !otherOutside {
			loops = append(loops, loopInfo{b, b.Succs[1], fs})
		}
	}
	compute := func(prune bool) map[*cfg.Block]bool {
		seen := map[*cfg.Block]bool{}
		var work []*cfg.Block
		if e := g.entry(); e != nil && !stop(e) {
			seen[e] = true
			work = append(work, e)
		}
		for len(work) > 0 {
			b := work[len(work)-1]
			work = work[:len(work)-1]
			for _, s := range b.Succs {
				if prune {
					skip := false
					for _, l := range loops {
						if b == l.head && s == l.done {
							skip = true
						}
					}
					if skip {
						continue
					}
				}
				if seen[s] || stop(s) {
					continue
				}
				seen[s] = true
				work = append(work, s)
			}
		}
		return seen
	}
	r := compute(true)
	for _, l := range loops {
		for b := range r {
			if b == l.head {
				continue
			}
			inBody := false
			for _, n := range b.Nodes {
				if l.stmt.Body.Pos() <= n.Pos() && n.End() <= l.stmt.Body.End() {
					inBody = true
				}
			}
			if !inBody && b.Kind != cfg.KindForPost {
				continue
			}
			for _, s := range b.Succs {
				if s == l.head {
					return compute(false)
				}
			}
		}
	}
	return r
}
