// gdv — static verifier for goderive's generator (Engine G: lints over the generator source;
// Engine R: abstract interpretation of the plugins into residual programs + analyses of those).
package main

import (
	"fmt"
	"go/types"
	"os"
	"sort"
	"strings"
)

type checkFn func(c *Ctx)

// Ctx is what a property check gets.
type Ctx struct {
	Repo *Repo
	// Raw: the tree as written (Repo is the helper-inlined view of it); rules that judge every function on its own
	// (error discipline) use this one
	Raw  *Repo
	Rep  *Report
	Tier string
	R    *Sweeper
	// GDecls: the function declarations of Repo for abstract evaluation inside Engine G rules (= R.decls unless Repo is the
	// helper-inlined view)
	GDecls map[*types.Func]*VFunc
}

type checkDef struct {
	run         checkFn
	explanation string
	assumptions []string
	technique   string
}

var checks = map[string]*checkDef{}

func main() {
	if len(os.Args) < 2 {
		usage()
	}
	switch os.Args[1] {
	case "check":
		if len(os.Args) < 3 {
			usage()
		}
		tier := "quick"
		if len(os.Args) > 3 {
			tier = os.Args[3]
		}
		if t := os.Getenv("VERIF_TIER"); t != "" && len(os.Args) <= 3 {
			tier = t
		}
		os.Exit(runCheck(os.Args[2], tier))
	case "list":
		var ids []string
		for id := range checks {
			ids = append(ids, id)
		}
		sort.Strings(ids)
		fmt.Println(strings.Join(ids, " "))
	case "funcs":
		// prints the keys of all functions of the driver packages (used to regenerate baseline_funcs.go)
		repo, err := loadRepo()
		if err != nil {
			fmt.Fprintln(os.Stderr, err)
			os.Exit(2)
		}
		var ks []string
		for fn, fi := range repo.Decls {
			if fi.Pkg.Name == "main" || fi.Pkg.Name == "derive" {
				ks = append(ks, funcKey(fn))
			}
		}
		sort.Strings(ks)
		fmt.Println(strings.Join(ks, "\n"))
	case "residuals":
		// debugging aid: print the residual programs of a plugin
		cmdResiduals(os.Args[2:])
	case "typed":
		cmdTyped(os.Args[2:])
	case "replay":
		if len(os.Args) < 3 {
			usage()
		}
		os.Exit(cmdReplay(os.Args[2]))
	default:
		usage()
	}
}

func usage() {
	fmt.Fprintln(os.Stderr, "usage: gdv check <property> [quick|thorough] | list | residuals <plugin> | replay <file>")
	os.Exit(2)
}

func runCheck(id, tier string) (code int) {
	def := checks[id]
	if def == nil {
		fmt.Fprintf(os.Stderr, "gdv: no check for %s\n", id)
		return 2
	}
	rep := newReport(id, tier)
	repo, err := loadRepo()
	if err != nil {
		// cannot analyse: this is a failure, never a pass
		rep.fail(Finding{Rule: "LOAD", Key: "LOAD|" + id, Kind: "undecided", Msg: "cannot load/type-check the generator source: " + err.Error()})
		return rep.finish(def.explanation, def.assumptions, def.technique)
	}
	rep.analysed("packages", len(repo.Pkgs))
	rep.analysed("functions", len(repo.Decls))
	ctx := &Ctx{Repo: repo, Raw: repo, Rep: rep, Tier: tier}
	// Engine R interprets the plugins as written; Engine G looks at the driver with calls to helpers that are not part of
	// the baseline inlined (normalise.go). On the baseline tree both are the same object.
	ctx.R = newSweeper(repo, tier)
	r4Repo = repo
	if os.Getenv("GDV_NO_INLINE") == "" {
		g, notes := normaliseRepo(repo)
		ctx.Repo = g
		for _, n := range notes {
			rep.note("%s", n)
		}
	}
	ctx.GDecls = ctx.R.decls
	if ctx.Repo != repo {
		ctx.GDecls = map[*types.Func]*VFunc{}
		for fn, fi := range ctx.Repo.Decls {
			if fi.Decl.Body != nil {
				ctx.GDecls[fn] = &VFunc{Decl: fi.Decl, Pkg: fi.Pkg}
			}
		}
	}
	func() {
		defer func() {
			if e := recover(); e != nil {
				rep.fail(Finding{Rule: "PANIC", Key: "PANIC|" + id, Kind: "undecided", Msg: fmt.Sprintf("checker panicked: %v", e), Detail: stack()})
			}
		}()
		def.run(ctx)
	}()
	return rep.finish(def.explanation, def.assumptions, def.technique)
}
