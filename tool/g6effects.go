package main

import (
	"fmt"
	"go/ast"
	"go/token"
	"go/types"
	"sort"
	"strings"
)

// G6 effects: a range over a Go map that the classifier accepted as order-insensitive must also be free of side effects in
// everything it calls: a callee that allocates names, registers imports, prints or stores into shared tables once per entry
// makes the result depend on the runtime's randomised map order even though the loop body itself only reads.
//
// The analysis is a whole-repository may-have-effect computation over the typed AST:
//   nodes     every declared function and every function literal of main, derive and plugin/*
//   edges     static callees; interface method calls -> every declared method with that name and signature; calls of
//             function values -> every function, method value or literal whose address is taken with an identical
//             signature; function values handed to functions outside the repository count as called
//   effects   a store whose root is not a variable created in that body (receiver, parameter, captured or package-level
//             variable, or anything reached through a pointer, map or slice obtained from those); channel operations,
//             go statements; calls into packages outside a short list of pure ones (go/types, go/ast, go/token, strings,
//             strconv, unicode, fmt.Sprint*/Errorf, path/filepath, errors, reflect, bytes' functions, go/format.Source)
// One call edge is exempted, with its reason, in effectExempt.

type effNode struct {
	name   string
	body   *Body
	direct string // non-empty: description of a direct effect
	pos    token.Pos
	out    []*effNode
	outPos map[*effNode]token.Pos
	eff    bool
}

// effectExempt: caller -> text of the callee expression -> reason.
var effectExempt = map[string]map[string]string{
	"derive.(*typesMap).nameOf": {
		"tm.qual": "nameOf qualifies the packages of the named types in its argument so that the import exists; every type list that reaches nameOf from Done/ToGenerate/isGenerated was registered by SetFuncName, which called nameOf on the same list when the call was added (in source order), so inside the map-ordered loop the qualifier only looks the package up",
	},
}

var purePkgs = map[string]bool{"go/types": true, "go/ast": true, "go/token": true, "strings": true, "strconv": true, "unicode": true, "unicode/utf8": true,
	"path": true, "path/filepath": true, "errors": true, "reflect": true, "go/constant": true, "math": true, "cmp": true, "iter": true}

// slices and maps: pure except for the functions that write their first argument (handled as a store into it, like sort)
var inPlaceFuncs = map[string]bool{"slices.Sort": true, "slices.SortFunc": true, "slices.SortStableFunc": true, "slices.Reverse": true,
	"slices.Delete": true, "slices.DeleteFunc": true, "slices.Insert": true, "slices.Compact": true, "slices.CompactFunc": true, "slices.Replace": true,
	"maps.Copy": true, "maps.DeleteFunc": true, "maps.Insert": true, "slices.Grow": false}

type effGraph struct {
	r        *Repo
	nodes    []*effNode
	byFunc   map[*types.Func]*effNode
	byLit    map[*ast.FuncLit]*effNode
	taken    []*effNode // address-taken functions / all literals
	takenSig map[*effNode]*types.Signature
	methods  map[string][]*effNode // declared methods by name
}

func buildEffGraph(r *Repo) *effGraph {
	g := &effGraph{r: r, byFunc: map[*types.Func]*effNode{}, byLit: map[*ast.FuncLit]*effNode{}, takenSig: map[*effNode]*types.Signature{}, methods: map[string][]*effNode{}}
	for _, b := range r.bodies() {
		n := &effNode{name: b.Name, body: b, outPos: map[*effNode]token.Pos{}}
		g.nodes = append(g.nodes, n)
		if b.Lit != nil {
			g.byLit[b.Lit] = n
			g.taken = append(g.taken, n)
			g.takenSig[n] = b.Sig
		} else {
			g.byFunc[b.Owner.Fn] = n
			if b.Sig != nil && b.Sig.Recv() != nil {
				g.methods[b.Owner.Fn.Name()] = append(g.methods[b.Owner.Fn.Name()], n)
			}
		}
	}
	// address-taken declared functions and method values
	for _, b := range r.bodies() {
		info := b.Pkg.TypesInfo
		inspectOwn(b.Block, func(m ast.Node) bool {
			var id *ast.Ident
			switch x := m.(type) {
			case *ast.Ident:
				id = x
			case *ast.SelectorExpr:
				id = x.Sel
			default:
				return true
			}
			fn, ok := info.Uses[id].(*types.Func)
			if !ok {
				return true
			}
			n := g.byFunc[fn]
			if n == nil {
				return true
			}
			// in call position?
			var self ast.Node = m
			if p, ok := b.Parent[m].(*ast.SelectorExpr); ok && p.Sel == m {
				self = p
			}
			if c, ok := b.Parent[self].(*ast.CallExpr); ok && c.Fun == self {
				return true
			}
			if _, dup := g.takenSig[n]; !dup {
				g.taken = append(g.taken, n)
				sig := fn.Type().(*types.Signature)
				g.takenSig[n] = types.NewSignatureType(nil, nil, nil, sig.Params(), sig.Results(), sig.Variadic())
			}
			return true
		})
	}
	for _, n := range g.nodes {
		g.scan(n)
	}
	// fixpoint
	for changed := true; changed; {
		changed = false
		for _, n := range g.nodes {
			if n.eff {
				continue
			}
			if n.direct != "" {
				n.eff, changed = true, true
				continue
			}
			for _, o := range n.out {
				if o.eff {
					n.eff, changed = true, true
					break
				}
			}
		}
	}
	return g
}

func sameSig(a, b *types.Signature) bool {
	if a == nil || b == nil {
		return false
	}
	return types.Identical(types.NewSignatureType(nil, nil, nil, a.Params(), a.Results(), a.Variadic()),
		types.NewSignatureType(nil, nil, nil, b.Params(), b.Results(), b.Variadic()))
}

// resolveValue: the nodes a function-typed expression may denote.
func (g *effGraph) resolveValue(b *Body, e ast.Expr) ([]*effNode, bool) {
	info := b.Pkg.TypesInfo
	e = ast.Unparen(e)
	switch x := e.(type) {
	case *ast.FuncLit:
		if n := g.byLit[x]; n != nil {
			return []*effNode{n}, true
		}
	case *ast.Ident:
		if fn, ok := info.Uses[x].(*types.Func); ok {
			if n := g.byFunc[fn]; n != nil {
				return []*effNode{n}, true
			}
			return nil, false // external function value
		}
	case *ast.SelectorExpr:
		if fn, ok := info.Uses[x.Sel].(*types.Func); ok {
			if n := g.byFunc[fn]; n != nil {
				return []*effNode{n}, true
			}
			if recvIsInterface(fn) {
				return g.implementers(fn), true
			}
			return nil, false
		}
	}
	sig, _ := info.TypeOf(e).Underlying().(*types.Signature)
	if sig == nil {
		return nil, true
	}
	var out []*effNode
	for _, n := range g.taken {
		if sameSig(g.takenSig[n], sig) {
			out = append(out, n)
		}
	}
	return out, len(out) > 0
}

func recvIsInterface(fn *types.Func) bool {
	sig, ok := fn.Type().(*types.Signature)
	if !ok || sig.Recv() == nil {
		return false
	}
	_, isI := sig.Recv().Type().Underlying().(*types.Interface)
	return isI
}

func (g *effGraph) implementers(fn *types.Func) []*effNode {
	var out []*effNode
	sig := fn.Type().(*types.Signature)
	for _, n := range g.methods[fn.Name()] {
		if sameSig(n.body.Sig, sig) {
			out = append(out, n)
		}
	}
	return out
}

func externalEffect(fn *types.Func) string {
	if fn.Pkg() == nil {
		return "" // error.Error etc.
	}
	p := fn.Pkg().Path()
	if purePkgs[p] {
		return ""
	}
	sig, _ := fn.Type().(*types.Signature)
	isMethod := sig != nil && sig.Recv() != nil
	switch p {
	case "fmt":
		if strings.HasPrefix(fn.Name(), "Sprint") || fn.Name() == "Errorf" {
			return ""
		}
	case "bytes":
		if !isMethod {
			return ""
		}
		switch fn.Name() {
		case "Len", "String", "Bytes":
			return ""
		}
	case "go/format":
		if fn.Name() == "Source" {
			return ""
		}
	case "sort", "slices", "maps":
		return "" // pure, or handled as a store into its first argument
	case "golang.org/x/tools/go/loader", "github.com/kisielk/gotool":
		if isMethod {
			return ""
		}
	}
	return "calls " + p + "." + fn.Name()
}

// localRoot: is the root variable of an lvalue/argument created in this body (by :=, var, make, composite literal or new)?
func localRoot(b *Body, e ast.Expr) (local bool, name string) {
	info := b.Pkg.TypesInfo
	through := false // went through an index/deref/field of pointer: the store lands in shared storage unless the root owns it
	for {
		switch x := e.(type) {
		case *ast.ParenExpr:
			e = x.X
			continue
		case *ast.IndexExpr:
			through = true
			e = x.X
			continue
		case *ast.StarExpr:
			through = true
			e = x.X
			continue
		case *ast.SliceExpr:
			through = true
			e = x.X
			continue
		case *ast.SelectorExpr:
			if sel, ok := info.Selections[x]; ok && sel.Kind() == types.FieldVal {
				if _, isPtr := info.TypeOf(x.X).Underlying().(*types.Pointer); isPtr {
					through = true
				}
				e = x.X
				continue
			}
			// package-level variable of another package
			return false, exprStr(x)
		}
		break
	}
	id, ok := e.(*ast.Ident)
	if !ok {
		return false, exprStr(e)
	}
	if id.Name == "_" {
		return true, "_"
	}
	o := info.Uses[id]
	if o == nil {
		o = info.Defs[id]
	}
	v, ok := o.(*types.Var)
	if !ok {
		return false, id.Name
	}
	// declared inside this body?
	if v.Pos() < b.Block.Pos() || v.Pos() > b.Block.End() {
		return false, id.Name
	}
	if !through {
		return true, id.Name
	}
	// stores through a local reference: fine when the local was created here (make / literal / new / append(nil...)) —
	// look at its defining assignment
	owned := false
	inspectOwn(b.Block, func(m ast.Node) bool {
		switch s := m.(type) {
		case *ast.AssignStmt:
			for i, l := range s.Lhs {
				if lid, ok := l.(*ast.Ident); ok && info.Defs[lid] == v && len(s.Rhs) == len(s.Lhs) {
					switch r := ast.Unparen(s.Rhs[i]).(type) {
					case *ast.CompositeLit:
						owned = true
					case *ast.UnaryExpr:
						if _, ok := r.X.(*ast.CompositeLit); ok && r.Op == token.AND {
							owned = true
						}
					case *ast.CallExpr:
						if bi, ok := callee(info, r).(*types.Builtin); ok && (bi.Name() == "make" || bi.Name() == "new") {
							owned = true
						}
					}
				}
			}
		case *ast.ValueSpec:
			for _, n := range s.Names {
				if info.Defs[n] == v && len(s.Values) == 0 {
					owned = true // var x T (zero value, appended to later)
				}
			}
		}
		return true
	})
	return owned, id.Name
}

func (g *effGraph) scan(n *effNode) {
	b := n.body
	info := b.Pkg.TypesInfo
	direct := func(pos token.Pos, what string) {
		if n.direct == "" {
			n.direct, n.pos = what, pos
		}
	}
	edge := func(o *effNode, pos token.Pos) {
		if _, ok := n.outPos[o]; !ok {
			n.out = append(n.out, o)
			n.outPos[o] = pos
		}
	}
	exempt := effectExempt[n.name]
	inspectOwn(b.Block, func(m ast.Node) bool {
		switch x := m.(type) {
		case *ast.FuncLit:
			if x != b.Lit {
				if o := g.byLit[x]; o != nil {
					edge(o, x.Pos())
				}
			}
		case *ast.GoStmt:
			direct(x.Pos(), "starts a goroutine")
		case *ast.SendStmt:
			direct(x.Pos(), "sends on a channel")
		case *ast.IncDecStmt:
			if local, name := localRoot(b, x.X); !local {
				direct(x.Pos(), "updates "+name)
			}
		case *ast.AssignStmt:
			if x.Tok == token.DEFINE {
				return true
			}
			for _, l := range x.Lhs {
				if local, name := localRoot(b, l); !local {
					direct(l.Pos(), "stores into "+name+" ("+exprStr(l)+")")
				}
			}
		case *ast.CallExpr:
			if tv, ok := info.Types[x.Fun]; ok && tv.IsType() {
				return true
			}
			if exempt != nil && exempt[exprStr(x.Fun)] != "" {
				return true
			}
			switch co := callee(info, x).(type) {
			case *types.Builtin:
				switch co.Name() {
				case "delete", "copy", "close", "clear":
					if len(x.Args) > 0 {
						if local, name := localRoot(b, x.Args[0]); !local {
							direct(x.Pos(), co.Name()+" on "+name)
						}
					}
				case "panic", "print", "println":
				}
			case *types.Func:
				if o := g.byFunc[co]; o != nil {
					edge(o, x.Pos())
				} else if recvIsInterface(co) && (co.Pkg() == nil || strings.HasPrefix(co.Pkg().Path(), modPath)) {
					for _, o := range g.implementers(co) {
						edge(o, x.Pos())
					}
				} else {
					if why := externalEffect(co); why != "" {
						direct(x.Pos(), why)
					}
					if co.Pkg() != nil && len(x.Args) > 0 && (co.Pkg().Path() == "sort" || inPlaceFuncs[co.Pkg().Path()+"."+co.Name()]) {
						if local, name := localRoot(b, x.Args[0]); !local && !freshSliceExpr(info, x.Args[0]) {
							direct(x.Pos(), co.Pkg().Path()+"."+co.Name()+" writes "+name+" in place")
						}
					}
					// function values handed to the outside count as called
					for _, a := range x.Args {
						if _, isSig := info.TypeOf(a).Underlying().(*types.Signature); isSig {
							if exempt != nil && exempt[exprStr(a)] != "" {
								continue
							}
							os, ok := g.resolveValue(b, a)
							if !ok {
								direct(a.Pos(), "hands the unresolved function value "+exprStr(a)+" to "+co.Name())
							}
							for _, o := range os {
								edge(o, a.Pos())
							}
						}
					}
				}
			default:
				// call of a function value
				os, ok := g.resolveValue(b, x.Fun)
				if !ok {
					direct(x.Pos(), "calls the unresolved function value "+exprStr(x.Fun))
				}
				for _, o := range os {
					edge(o, x.Pos())
				}
			}
		}
		return true
	})
}

// path: a shortest chain of calls from n to a node with a direct effect.
func (g *effGraph) path(n *effNode) []string {
	type item struct {
		n    *effNode
		prev *item
	}
	seen := map[*effNode]bool{n: true}
	q := []*item{{n, nil}}
	for len(q) > 0 {
		it := q[0]
		q = q[1:]
		if it.n.direct != "" {
			var rev []string
			rev = append(rev, fmt.Sprintf("%s %s at %s", it.n.name, it.n.direct, g.r.pos(it.n.pos)))
			for p := it; p.prev != nil; p = p.prev {
				rev = append(rev, fmt.Sprintf("%s calls %s at %s", p.prev.n.name, p.n.name, g.r.pos(p.prev.n.outPos[p.n])))
			}
			for i, j := 0, len(rev)-1; i < j; i, j = i+1, j-1 {
				rev[i], rev[j] = rev[j], rev[i]
			}
			return rev
		}
		for _, o := range it.n.out {
			if !seen[o] && o.eff {
				seen[o] = true
				q = append(q, &item{o, it})
			}
		}
	}
	return nil
}

// g6LoopEffects checks every accepted map range.
func g6LoopEffects(r *Repo, rep *Report, accepted []*mapRange) {
	g := buildEffGraph(r)
	neff := 0
	for _, n := range g.nodes {
		if n.eff {
			neff++
		}
	}
	rep.analysed("effect_graph_nodes", len(g.nodes))
	rep.analysed("effect_graph_effectful", neff)
	// the exemption must still name an existing call, otherwise it silently hides nothing and should be removed
	for fn, m := range effectExempt {
		fi := r.lookup(fn)
		for callee := range m {
			found := false
			if fi != nil {
				ast.Inspect(fi.Decl.Body, func(k ast.Node) bool {
					if c, ok := k.(*ast.CallExpr); ok && exprStr(c.Fun) == callee {
						found = true
					}
					return true
				})
			}
			if !found {
				rep.fail(Finding{Rule: "G6", Key: "G6|effects|exempt-stale|" + fn, Kind: "undecided", Msg: "the exempted call " + callee + " in " + fn + " no longer exists: the exemption and its argument need to be re-confirmed"})
				continue
			}
			// the argument for the exemption ("already done when the call was added") needs the exempted call to happen on
			// every execution of the function: the top-level statement containing it precedes every return
			var holder ast.Stmt
			for _, st := range fi.Decl.Body.List {
				if nodeHas(st, func(k ast.Node) bool {
					c, ok := k.(*ast.CallExpr)
					return ok && exprStr(c.Fun) == callee
				}) {
					holder = st
					break
				}
			}
			early := false
			for _, st := range fi.Decl.Body.List {
				if st == holder {
					break
				}
				if nodeHas(st, func(k ast.Node) bool { _, ok := k.(*ast.ReturnStmt); return ok }) {
					early = true
				}
			}
			if holder == nil || early {
				rep.fail(Finding{Rule: "G6", Key: "G6|effects|exempt-premise|" + fn, Where: []string{r.pos(fi.Decl.Pos())},
					Msg: fn + " can return before it reaches " + callee + ": the registration that is supposed to have happened when the call was added (in source order) is then left to the next caller — (*pkg).Done, which ranges over a Go map — so which plugin claims a short import alias first depends on map order"})
			} else {
				rep.pass("G6")
			}
		}
	}
	for _, mr := range accepted {
		b := mr.body
		node := g.byFunc[b.Owner.Fn]
		if b.Lit != nil {
			node = g.byLit[b.Lit]
		}
		// a pseudo node for the loop body: scan only the calls inside it
		tmp := &effNode{name: b.Name + " (map loop)", body: &Body{Pkg: b.Pkg, Owner: b.Owner, Lit: b.Lit, Type: b.Type, Block: mr.rs.Body, Sig: b.Sig, Name: b.Name, Parent: b.Parent}, outPos: map[*effNode]token.Pos{}}
		g.scan(tmp)
		// stores inside the loop body itself were classified by mapRangeInsensitive (inserts, appends-then-sort): only callees matter here
		bad := false
		var chains [][]string
		sort.Slice(tmp.out, func(i, j int) bool { return tmp.out[i].name < tmp.out[j].name })
		for _, o := range tmp.out {
			if o.eff {
				bad = true
				p := g.path(o)
				p = append([]string{fmt.Sprintf("%s calls %s at %s", tmp.name, o.name, r.pos(tmp.outPos[o]))}, p...)
				chains = append(chains, p)
			}
		}
		if strings.HasPrefix(tmp.direct, "calls ") || strings.HasPrefix(tmp.direct, "hands ") || strings.HasPrefix(tmp.direct, "starts ") || strings.HasPrefix(tmp.direct, "sends ") {
			bad = true
			chains = append(chains, []string{fmt.Sprintf("%s %s at %s", tmp.name, tmp.direct, r.pos(tmp.pos))})
		}
		_ = node
		if !bad {
			rep.pass("G6")
			rep.sample(map[string]string{"rule": "G6 map-loop callees are effect-free", "site": r.pos(mr.rs.Pos()), "function": b.Name, "callees": fmt.Sprint(len(tmp.out))})
			continue
		}
		last := chains[0][len(chains[0])-1]
		// key: the function with the direct effect (stable under line changes)
		lastFn := strings.SplitN(last, " ", 2)[0]
		rep.fail(Finding{Rule: "G6", Key: fmt.Sprintf("G6|%s|range %s|effect|%s", b.Name, exprStr(mr.rs.X), lastFn), Where: []string{r.pos(mr.rs.Pos())},
			Msg: fmt.Sprintf("%s ranges over the Go map %s and, once per entry in the runtime's random order, reaches code with a side effect: %s. Names, import aliases or output produced there depend on map order, so two runs over the same sources can differ",
				b.Name, exprStr(mr.rs.X), strings.Join(chains[0], " -> ")),
			Detail: func() string {
				var ss []string
				for _, c := range chains {
					ss = append(ss, strings.Join(c, "\n  -> "))
				}
				return strings.Join(ss, "\n")
			}()})
	}
}

type mapRange struct {
	body *Body
	rs   *ast.RangeStmt
}

// freshSliceExpr: the expression is a slice (or map) nobody else holds: a call of slices.Clone / maps.Clone / slices.Collect /
// append onto a fresh value / make.
func freshSliceExpr(info *types.Info, e ast.Expr) bool {
	c, ok := ast.Unparen(e).(*ast.CallExpr)
	if !ok {
		return false
	}
	switch o := callee(info, c).(type) {
	case *types.Builtin:
		return o.Name() == "make"
	case *types.Func:
		if o.Pkg() == nil {
			return false
		}
		switch o.Pkg().Path() + "." + o.Name() {
		case "slices.Clone", "maps.Clone", "slices.Collect", "slices.Sorted", "maps.Collect", "slices.Concat":
			return true
		}
	}
	return false
}
