package main

import (
	"fmt"
	"go/ast"
	"go/parser"
	"go/token"
	"regexp"
	"strconv"
	"strings"
)

// C06 — gostring: second-stage well-formedness. The residual prints Go source with fmt.Fprintf; the printed text is
// assembled along every structured path (if both ways, loops 0/1(/2) times) with verbs replaced by placeholders, and must
// itself be a well-formed Go expression `func() T { … }()`.

type gsPiece struct {
	text string
	call *ast.CallExpr
}

// fprintfOf recognises <fmt hole>.Fprintf(buf, "format", args…)
func fprintfOf(rs *Resid, st ast.Stmt) (*ast.CallExpr, string, bool) {
	es, ok := st.(*ast.ExprStmt)
	if !ok {
		return nil, "", false
	}
	c, ok := es.X.(*ast.CallExpr)
	if !ok || len(c.Args) < 1 {
		return nil, "", false
	}
	sel, ok := c.Fun.(*ast.SelectorExpr)
	if ok && sel.Sel.Name == "WriteString" && len(c.Args) == 1 {
		// buf.WriteString("text"): the text itself, nothing is formatted — buf being the bytes.Buffer the function prints into
		if id, isID := sel.X.(*ast.Ident); isID && isBytesBuffer(rs, id.Name) {
			if bl, isLit := c.Args[0].(*ast.BasicLit); isLit && bl.Kind == token.STRING {
				if txt, err := strconv.Unquote(bl.Value); err == nil && !strings.Contains(txt, "%") {
					return c, txt, true
				}
			}
			return c, "", false
		}
		return nil, "", false
	}
	if !ok || sel.Sel.Name != "Fprintf" || len(c.Args) < 2 {
		return nil, "", false
	}
	id, ok := sel.X.(*ast.Ident)
	if !ok {
		return nil, "", false
	}
	if h := rs.hole(id.Name); h == nil || h.Origin != "fmt" {
		return nil, "", false
	}
	bl, ok := c.Args[1].(*ast.BasicLit)
	if !ok || bl.Kind != token.STRING {
		return c, "", false
	}
	s, err := strconv.Unquote(bl.Value)
	if err != nil {
		return c, "", false
	}
	return c, s, true
}

// isBytesBuffer: name is defined in the residual from an expression of package bytes (bytes.NewBuffer(nil), &bytes.Buffer{}).
func isBytesBuffer(rs *Resid, name string) bool {
	found := false
	for _, fn := range rs.Funcs {
		ast.Inspect(fn, func(n ast.Node) bool {
			as, ok := n.(*ast.AssignStmt)
			if !ok || as.Tok != token.DEFINE || len(as.Lhs) != 1 || len(as.Rhs) != 1 {
				return true
			}
			if id, ok := as.Lhs[0].(*ast.Ident); !ok || id.Name != name {
				return true
			}
			ast.Inspect(as.Rhs[0], func(m ast.Node) bool {
				if id, ok := m.(*ast.Ident); ok {
					if h := rs.hole(id.Name); h != nil && h.Origin == "bytes" {
						found = true
					}
				}
				return true
			})
			return true
		})
	}
	return found
}

var verbRe = regexp.MustCompile(`%(\[\d+\])?(#v|v|d|s|q|t)`)
var verbIndexRe = regexp.MustCompile(`^%\[(\d+)\]`)

// renderStage2 replaces the verbs of one format string by placeholders, given the iteration number of the enclosing loop.
func renderStage2(rs *Resid, format string, args []ast.Expr, iter int) (string, []string) {
	var notes []string
	i := 0
	used := map[int]bool{}
	indexed := false
	out := verbRe.ReplaceAllStringFunc(format, func(v string) string {
		// an explicit argument index %[n]v selects the n-th operand (and the following verbs continue from there)
		if m := verbIndexRe.FindStringSubmatch(v); m != nil {
			n, _ := strconv.Atoi(m[1])
			i = n - 1
			indexed = true
			v = "%" + v[len(m[0]):]
		}
		var a ast.Expr
		if i >= 0 && i < len(args) {
			a = args[i]
			used[i] = true
		}
		i++
		switch v {
		case "%d":
			return strconv.Itoa(iter)
		case "%s":
			// the result of a nested derived GoString (an expression) or a string value
			if c, ok := a.(*ast.CallExpr); ok && funcHoleWho(rs, c.Fun) == "gostring" {
				return "NESTED()"
			}
			notes = append(notes, "%s operand "+canon(a)+" is not a nested gostring call")
			return "NESTED()"
		default: // %#v, %v, %q, %t
			if v != "%#v" {
				notes = append(notes, "value printed with "+v+" instead of %#v")
			}
			return "VALUE"
		}
	})
	if indexed {
		// with explicit indexes every operand must be used by some verb
		i = len(args)
		for k := range args {
			if !used[k] {
				i = k
			}
		}
	}
	if i != len(args) {
		notes = append(notes, fmt.Sprintf("format %q has %d verbs for %d operands", format, i, len(args)))
	}
	return out, notes
}

type gsPath struct {
	text  string
	notes []string
	conds []string
	cont  bool // a `continue` was taken: the rest of the current iteration is skipped
}

// stage2Paths enumerates the printed text along structured paths of the residual body.
func stage2Paths(rs *Resid, body *ast.BlockStmt, maxIter int) ([]gsPath, string) {
	undecided := ""
	var walk func(list []ast.Stmt, acc []gsPath, iter int) []gsPath
	walk = func(list []ast.Stmt, all []gsPath, iter int) []gsPath {
		var parked []gsPath
		acc := all
		for _, st := range list {
			// paths that took a `continue` sit out the rest of the iteration
			var act []gsPath
			for _, p := range acc {
				if p.cont {
					parked = append(parked, p)
				} else {
					act = append(act, p)
				}
			}
			acc = act
			if len(acc)+len(parked) > 4000 {
				undecided = "more than 4000 printed-text paths"
				return append(acc, parked...)
			}
			if c, format, ok := fprintfOf(rs, st); c != nil {
				if !ok {
					undecided = "Fprintf with a non-literal format"
					return append(acc, parked...)
				}
				var operands []ast.Expr
				if len(c.Args) > 2 {
					operands = c.Args[2:]
				}
				txt, notes := renderStage2(rs, format, operands, iter)
				for i := range acc {
					acc[i].text += txt
					acc[i].notes = append(acc[i].notes, notes...)
				}
				continue
			}
			switch x := st.(type) {
			case *ast.IfStmt:
				var next []gsPath
				yes := make([]gsPath, len(acc))
				no := make([]gsPath, len(acc))
				for i := range acc {
					yes[i] = gsPath{acc[i].text, append([]string{}, acc[i].notes...), append(append([]string{}, acc[i].conds...), canon(x.Cond)), false}
					no[i] = gsPath{acc[i].text, append([]string{}, acc[i].notes...), append(append([]string{}, acc[i].conds...), "!("+canon(x.Cond)+")"), false}
				}
				next = append(next, walk(x.Body.List, yes, iter)...)
				switch e := x.Else.(type) {
				case *ast.BlockStmt:
					next = append(next, walk(e.List, no, iter)...)
				case *ast.IfStmt:
					next = append(next, walk([]ast.Stmt{e}, no, iter)...)
				default:
					next = append(next, no...)
				}
				acc = next
			case *ast.RangeStmt, *ast.ForStmt:
				var body *ast.BlockStmt
				if r, ok := x.(*ast.RangeStmt); ok {
					body = r.Body
				} else {
					body = x.(*ast.ForStmt).Body
				}
				var next []gsPath
				cur := acc
				next = append(next, cur...) // zero iterations
				for k := 0; k < maxIter; k++ {
					cp := make([]gsPath, len(cur))
					for i := range cur {
						cp[i] = gsPath{cur[i].text, append([]string{}, cur[i].notes...), append([]string{}, cur[i].conds...), false}
					}
					cur = walk(body.List, cp, k)
					for i := range cur {
						cur[i].cont = false
					}
					next = append(next, cur...)
				}
				acc = next
			case *ast.AssignStmt, *ast.IncDecStmt, *ast.DeclStmt:
				// buf := …, i := 0, i++
			case *ast.ReturnStmt:
				// return buf.String()
			case *ast.BranchStmt:
				if x.Tok == token.CONTINUE {
					for i := range acc {
						acc[i].cont = true
					}
					continue
				}
				undecided = "branch statement " + x.Tok.String() + " in the printing function"
				return append(acc, parked...)
			default:
				undecided = fmt.Sprintf("statement %T in the printing function", st)
				return append(acc, parked...)
			}
		}
		return append(acc, parked...)
	}
	paths := walk(body.List, []gsPath{{}}, 0)
	return paths, undecided
}

var starTypeRe = regexp.MustCompile(`(\*|new\(|&)(__T\d+)`)
var addrLitRe = regexp.MustCompile(`&(__T\d+)\{\}`)

func gostringIssues(rs *Resid, fn *ast.FuncDecl, maxIter int) ([]sideIssue, int, string) {
	var out []sideIssue
	iss := func(n ast.Node, kind, format string, a ...interface{}) {
		out = append(out, sideIssue{n, fmt.Sprintf(format, a...), kind, ""})
	}
	paths, und := stage2Paths(rs, fn.Body, maxIter)
	if und == "Fprintf with a non-literal format" {
		// definite defect, not an analysis limit: whatever is concatenated into the format is scanned for verbs again, so a `%`
		// inside a printed string value is consumed (or becomes %!x(MISSING)) and the text no longer denotes the value
		iss(fn, "nonconstant-format", "a Fprintf call builds its format string at run time (data concatenated into the format): a %% inside a printed value is interpreted as a verb, so strings containing %% do not round-trip (or the text does not compile)")
		return out, 1, ""
	}
	if und != "" {
		return nil, 0, und
	}
	seenErr := map[string]bool{}
	// the function's result is the text assembled in the buffer: a return of anything else (a literal such as "nil") hands out
	// text that did not go through the assembly analysed here, and it must meet the same shape: `func() T { … }()`
	ast.Inspect(fn.Body, func(n ast.Node) bool {
		if _, isLit := n.(*ast.FuncLit); isLit {
			return false
		}
		ret, ok := n.(*ast.ReturnStmt)
		if !ok || len(ret.Results) != 1 {
			return true
		}
		if c, ok := unparen(ret.Results[0]).(*ast.CallExpr); ok {
			if sel, ok := c.Fun.(*ast.SelectorExpr); ok && sel.Sel.Name == "String" && len(c.Args) == 0 {
				return true
			}
		}
		if bl, ok := unparen(ret.Results[0]).(*ast.BasicLit); ok && bl.Kind == token.STRING {
			txt, _ := strconv.Unquote(bl.Value)
			e, err := parser.ParseExpr(strings.TrimSpace(txt))
			okShape := false
			if err == nil {
				if call, ok := e.(*ast.CallExpr); ok {
					if lit, ok := call.Fun.(*ast.FuncLit); ok && len(call.Args) == 0 && lit.Type.Results.NumFields() == 1 {
						okShape = true
					}
				}
			}
			if !okShape {
				iss(ret, "stage2-shape", "returns the literal text %s instead of the assembled `func() T { … }()`: an untyped expression such as nil has no type of its own, so the text does not compile wherever the context does not supply one (`key := nil`, an interface argument)", bl.Value)
			}
			return true
		}
		iss(ret, "stage2-shape", "returns %s, which is not the text assembled in the buffer", rs.src(ret.Results[0]))
		return true
	})
	for _, p := range paths {
		for _, n := range p.notes {
			if !seenErr["note:"+n] {
				seenErr["note:"+n] = true
				iss(fn, "verb", "%s", n)
			}
		}
		// must be `func() T { … }()` + newline
		txt := strings.TrimSpace(p.text)
		e, err := parser.ParseExpr(txt)
		if err != nil {
			k := "parse:" + normErr(err)
			if !seenErr[k] {
				seenErr[k] = true
				iss(fn, "stage2-parse", "the text printed on the path [%s] is not a Go expression (%v):\n%s", strings.Join(p.conds, " && "), err, txt)
			}
			continue
		}
		call, ok := e.(*ast.CallExpr)
		var lit *ast.FuncLit
		if ok {
			lit, _ = call.Fun.(*ast.FuncLit)
		}
		if lit == nil || len(call.Args) != 0 || lit.Type.Results.NumFields() != 1 {
			if !seenErr["shape"] {
				seenErr["shape"] = true
				iss(fn, "stage2-shape", "the printed text is not an immediately invoked `func() T { … }()`:\n%s", txt)
			}
			continue
		}
		// declare-before-use inside the printed closure
		fd := &ast.FuncDecl{Name: ast.NewIdent("stage2"), Type: lit.Type, Body: lit.Body}
		tmp := &Resid{Run: rs.Run, Fset: token.NewFileSet()}
		for _, id := range freeIdents(tmp, fd, map[string]bool{"NESTED": true, "VALUE": true}) {
			k := "free:" + id.Name
			if !seenErr[k] {
				seenErr[k] = true
				iss(fn, "stage2-undeclared", "the printed closure uses %s before (or without) declaring it on the path [%s]:\n%s", id.Name, strings.Join(p.conds, " && "), txt)
			}
		}
		if !stmtsTerminate(lit.Body.List) {
			if !seenErr["noreturn"] {
				seenErr["noreturn"] = true
				iss(fn, "stage2-no-return", "the printed closure does not end in a return on the path [%s]:\n%s", strings.Join(p.conds, " && "), txt)
			}
		}
	}
	// every iteration over the value's elements prints the element: a path through a loop body that prints nothing drops the
	// entry from the rebuilt value. For a map that loses the key; for a slice/array (rebuilt with its full length) it is
	// harmless only when the element is known to be nil on that path.
	ast.Inspect(fn.Body, func(n ast.Node) bool {
		r, ok := n.(*ast.RangeStmt)
		if !ok {
			return true
		}
		bodyPaths, und2 := stage2Paths(rs, r.Body, 1)
		if und2 != "" {
			return true
		}
		kind := ""
		if id, ok := unparen(r.X).(*ast.Ident); ok {
			for _, f := range fn.Type.Params.List {
				for _, nm := range f.Names {
					if nm.Name == id.Name {
						if tid, ok := f.Type.(*ast.Ident); ok {
							if h := rs.hole(tid.Name); h != nil {
								kind = kindOfVal(h.Val)
							}
						}
					}
				}
			}
		}
		for _, p := range bodyPaths {
			if strings.Contains(p.text, exprStr(r.X)+"[") && strings.Contains(p.text, "] = ") {
				continue
			}
			elemNil := false
			for _, cnd := range p.conds {
				cnd = strings.TrimSuffix(strings.TrimPrefix(cnd, "("), ")")
				if strings.HasSuffix(cnd, "==nil") || strings.HasSuffix(cnd, "== nil") {
					elemNil = true
				}
			}
			if kind != "*types.Map" && kind != "" && elemNil {
				continue
			}
			k := "loop-skip:" + kind + strings.Join(p.conds, "&&")
			if !seenErr[k] {
				seenErr[k] = true
				what := "the rebuilt map lacks that key"
				if kind != "*types.Map" {
					what = "the rebuilt value has the zero value at that position"
				}
				iss(r, "element-skipped", "an iteration of `for … range %s` prints no element assignment on the path [%s]: %s, so the round trip does not give an equal value", exprStr(r.X), strings.Join(p.conds, " && "), what)
			}
		}
		return true
	})
	// a component that is known to be non-nil is assigned on every path: under `if X != nil { … }` each path through the body
	// prints `X = …` (skipping it, e.g. because the pointee is the zero value, rebuilds a nil pointer)
	ast.Inspect(fn.Body, func(n ast.Node) bool {
		ifs, ok := n.(*ast.IfStmt)
		if !ok {
			return true
		}
		be, ok := unparen(ifs.Cond).(*ast.BinaryExpr)
		if !ok || be.Op != token.NEQ || !isNilLit(be.Y) {
			return true
		}
		target := exprStr(be.X)
		if target == fieldNames(fn.Type.Params)[0] {
			return true // the root value: handled by the nil-branch rule
		}
		bodyPaths, und2 := stage2Paths(rs, ifs.Body, 1)
		if und2 != "" {
			return true
		}
		for _, p := range bodyPaths {
			if strings.Contains(p.text, target+" = ") || strings.Contains(p.text, target+" := ") {
				continue
			}
			k := "nonnil-skip:" + target + strings.Join(p.conds, "&&")
			if !seenErr[k] {
				seenErr[k] = true
				iss(ifs, "nonnil-skipped", "%s is known to be non-nil but on the path [%s] no assignment to it is printed: the rebuilt value has nil there, so the round trip does not give an equal value", target, strings.Join(p.conds, " && "))
			}
		}
		return true
	})
	out = append(out, wholeValueVerbIssues(rs, fn)...)
	// type names inside printed text come from the package-qualifying (bypass) printer; the Go signature from the ordinary one
	printed := map[string]bool{}
	ast.Inspect(fn.Body, func(n ast.Node) bool {
		if bl, ok := n.(*ast.BasicLit); ok && bl.Kind == token.STRING {
			for _, id := range regexp.MustCompile(`__T\d+`).FindAllString(bl.Value, -1) {
				printed[id] = true
			}
			// the target of a pointer to a map or a slice starts out nil (new(T)): the code that fills it prints nothing for a nil
			// map or slice, so a target that is allocated as an empty composite (&T{}) turns a pointer to nil into a pointer to an
			// empty value — nil and empty containers behind a pointer no longer round-trip
			for _, m := range addrLitRe.FindAllStringSubmatch(bl.Value, -1) {
				h := rs.hole(m[1])
				if h == nil {
					continue
				}
				k := ""
				if o, ok := h.Val.(*VOpaque); ok {
					k = kindOfVal(underlyingVal(unmangled(o)))
					if k == "" {
						org := strings.TrimPrefix(strings.TrimPrefix(o.Origin, "mangled:"), "bypass:")
						k = kindFacts(rs.Run)[strings.ReplaceAll(org, ".Underlying()", "")]
					}
				}
				if k == "*types.Map" || k == "*types.Slice" {
					iss(bl, "nonnil-target", "prints `&%s{}` as the target of a pointer to a %s: the target is then never nil, although nothing is printed for a nil %s behind the pointer, so a pointer to a nil value comes back as a pointer to an empty one", m[1], strings.TrimPrefix(k, "*types."), strings.ToLower(strings.TrimPrefix(k, "*types.")))
				}
			}
			// a type under a pointer constructor must be the declared type, not its Underlying()
			for _, m := range starTypeRe.FindAllStringSubmatch(bl.Value, -1) {
				if h := rs.hole(m[2]); h != nil && strings.HasSuffix(h.Origin, ".Underlying()") {
					iss(bl, "underlying-under-pointer", "prints `%s%s` with the underlying type of a component: for a named component type the rebuilt pointer is not assignable to the field (e.g. *int for a *Level field)", m[1], m[2])
				} else if h != nil && strings.Contains(h.Origin, "types.Unalias(") {
					iss(bl, "unaliased-under-pointer", "prints `%s%s` with the target of an alias instead of the alias the user wrote: the target may be unexported or live in a package the text does not import (type Endpoint = endpoint), so the text does not compile where the value's own type does", m[1], m[2])
				}
			}
		}
		return true
	})
	for id := range printed {
		if h := rs.hole(id); h != nil && !strings.HasPrefix(h.Origin, "bypass:") {
			iss(fn, "unqualified-type", "the printed text names the type %s with the in-package printer: outside the type's own package the text does not compile", id)
		}
	}
	for _, f := range fn.Type.Params.List {
		if id, ok := f.Type.(*ast.Ident); ok {
			if h := rs.hole(id.Name); h != nil && strings.HasPrefix(h.Origin, "bypass:") {
				iss(fn, "bypass-in-signature", "the generated function's own signature uses the package-qualifying printer")
			}
		}
	}
	// nil branch for nilable top-level kinds
	this := fieldNames(fn.Type.Params)[0]
	var val Value
	if id, ok := fn.Type.Params.List[0].Type.(*ast.Ident); ok {
		if h := rs.hole(id.Name); h != nil {
			val = h.Val
		}
	}
	switch kindOfVal(val) {
	case "*types.Pointer", "*types.Slice", "*types.Map":
		okNil := false
		ast.Inspect(fn.Body, func(n ast.Node) bool {
			ifs, ok := n.(*ast.IfStmt)
			if !ok {
				return true
			}
			be, ok := unparen(ifs.Cond).(*ast.BinaryExpr)
			if !ok || !isNilLit(be.Y) || canon(be.X) != this {
				return true
			}
			branch := ifs.Body.List
			if be.Op == token.NEQ {
				if eb, ok := ifs.Else.(*ast.BlockStmt); ok {
					branch = eb.List
				} else {
					branch = nil
				}
			}
			for _, st := range branch {
				if _, format, ok := fprintfOf(rs, st); ok && strings.TrimSpace(format) == "return nil" {
					okNil = true
				}
			}
			return true
		})
		if !okNil {
			iss(fn, "nil-branch", "a nil %s is not printed as `return nil`: nil and empty values become indistinguishable after the round trip", strings.TrimPrefix(kindOfVal(val), "*types."))
		}
	}
	// nilable fields are assigned only when non-nil (zero value of the rebuilt struct is nil already) — and every field appears
	return out, len(paths), ""
}

func gostringFieldIssues(rs *Resid, fn *ast.FuncDecl) []sideIssue {
	var out []sideIssue
	// every field of an inlined struct is printed: its NAME hole occurs in some printed text
	text := ""
	ast.Inspect(fn.Body, func(n ast.Node) bool {
		if bl, ok := n.(*ast.BasicLit); ok && bl.Kind == token.STRING {
			text += bl.Value + "\n"
		}
		return true
	})
	fieldRe := regexp.MustCompile(`^(.*)\[(\d+)\]\.Name\(\)$`)
	byStruct := map[string]map[string]string{}
	for id, h := range rs.Run.Holes {
		if h.Kind != "NAME" {
			continue
		}
		if m := fieldRe.FindStringSubmatch(h.Origin); m != nil {
			if byStruct[m[1]] == nil {
				byStruct[m[1]] = map[string]string{}
			}
			byStruct[m[1]][m[2]] = id
		}
	}
	for _, d := range rs.Run.Decisions {
		if !strings.HasPrefix(d.Sym, "N:") || d.Choice >= len(rs.Run.Arities) {
			continue
		}
		org := strings.TrimPrefix(d.Sym, "N:")
		fields := byStruct[org]
		if strings.Contains(org, "[*]") {
			for o, fs := range byStruct {
				if tieRe.ReplaceAllString(o, "[*]") == org {
					fields = fs
				}
			}
		}
		any := false
		for _, id := range fields {
			if strings.Contains(text, id) {
				any = true
			}
		}
		if !any && d.Fn != "derive.Fields" {
			continue
		}
		blank := blankFirstField(rs.Run)
		for i := 0; i < rs.Run.Arities[d.Choice]; i++ {
			if i == 0 && (blank[org] || blank[tieRe.ReplaceAllString(org, "[*]")]) {
				continue
			}
			id, ok := fields[strconv.Itoa(i)]
			if !ok || !strings.Contains(text, id) {
				out = append(out, sideIssue{fn, fmt.Sprintf("field #%d of the struct %s is never printed: the rebuilt value has the zero value there", i, shortSym(org)), "field-missing", ""})
			}
		}
	}
	return out
}

func runR_C06(c *Ctx) {
	sweepHealth(c, "gostring")
	rR1(c, "gostring")
	rR2(c, "gostring")
	maxIter := 1
	if c.Tier == "thorough" {
		maxIter = 2
	}
	n, npaths := 0, 0
	for _, rs := range c.acceptedResids("gostring") {
		if rs.Err != nil || len(rs.Funcs) != 1 {
			continue
		}
		n++
		issues, np, und := gostringIssues(rs, rs.Funcs[0], maxIter)
		ok := true
		if und != "" {
			ok = false
			c.Rep.fail(Finding{Rule: "R-stage2", Key: "R-stage2|gostring|undecided|" + firstLine(und), Kind: "undecided", Plugin: "gostring", Script: rs.Run.Script, Msg: "gostring: printed text cannot be assembled (" + und + ")", Detail: rs.Run.excerpt(40)})
		}
		npaths += np
		ok = reportIssues(c, rs, "R-stage2", "", issues) && ok
		if !rs.Run.RecCut {
			ok = reportIssues(c, rs, "R19", "", gostringFieldIssues(rs, rs.Funcs[0])) && ok
		}
		if ok {
			c.Rep.pass("R-stage2")
			if n%6 == 1 {
				c.Rep.sample(map[string]interface{}{"plugin": "gostring", "path": rs.Run.shapeKey(), "printed_paths": np, "residual": rs.Run.Text})
			}
		}
	}
	// runs whose text repeats an earlier run's stand for other types: the operand rule is about the types
	dups := 0
	for _, r := range c.R.Runs("gostring") {
		if r.Outcome != "accepted" || !r.Dup {
			continue
		}
		rs := parseResid(r)
		if rs.Err != nil || len(rs.Funcs) != 1 {
			continue
		}
		dups++
		if reportIssues(c, rs, "R-stage2", "", wholeValueVerbIssues(rs, rs.Funcs[0])) {
			c.Rep.pass("R-stage2")
		}
	}
	c.Rep.analysed("gostring_duplicate_text_runs", dups)
	c.Rep.analysed("gostring_residuals", n)
	c.Rep.analysed("printed_text_paths", npaths)
	c.Rep.Bounds["loop_iterations"] = maxIter
	c.Rep.floor("R-stage2", 20)
}

// wholeValueVerbIssues: see the comment inside. Run for every accepted abstract run, also those whose text repeats an earlier
// run's (the same `return %#v` is emitted for a basic value and, wrongly, for a map of structs).
func wholeValueVerbIssues(rs *Resid, fn *ast.FuncDecl) []sideIssue {
	var out []sideIssue
	seenErr := map[string]bool{}
	iss := func(n ast.Node, kind, format string, a ...interface{}) {
		out = append(out, sideIssue{n, fmt.Sprintf(format, a...), kind, ""})
	}
	// %#v is handed a whole value only when fmt prints that value as the Go expression of an equal value: a basic value, or a
	// slice/array/map all of whose components this path has established to be basic. For any other component fmt prints
	// addresses (pointers), omits the package (never for basics) or calls the component's own GoString method in the middle
	// of a composite literal (the derived text ends in a newline, so a map key printed that way is followed by `;:`).
	if sd := newSided(rs, fn); sd != nil {
		established := func(o *VOpaque) string { return kindOfVal(o) }
		ast.Inspect(fn.Body, func(n ast.Node) bool {
			es, ok := n.(*ast.ExprStmt)
			if !ok {
				return true
			}
			call, format, ok := fprintfOf(rs, es)
			if !ok || len(call.Args) < 3 {
				return true
			}
			ai := 2
			for i := 0; i+1 < len(format); i++ {
				if format[i] != '%' {
					continue
				}
				if format[i+1] == '%' {
					i++
					continue
				}
				j := i + 1
				for j < len(format) && strings.ContainsRune("#+-0 ", rune(format[j])) {
					j++
				}
				verb := format[i : j+1]
				arg := ast.Expr(nil)
				if ai < len(call.Args) {
					arg = call.Args[ai]
				}
				ai++
				i = j
				if verb != "%#v" || arg == nil {
					continue
				}
				o := sd.valOfExpr(arg)
				if o == nil {
					continue
				}
				u := underlyingVal(o)
				comp := func(attr string) string {
					if u == nil {
						return ""
					}
					if c, ok := u.attrs[attr].(*VOpaque); ok {
						return established(c)
					}
					return ""
				}
				bad := ""
				switch established(o) {
				case "*types.Map":
					if comp("Key") != "*types.Basic" {
						bad = "a map whose key type this path has not established to be basic"
					} else if comp("Elem") != "*types.Basic" {
						bad = "a map whose element type this path has not established to be basic"
					}
				case "*types.Slice", "*types.Array":
					if comp("Elem") != "*types.Basic" {
						bad = "a list whose element type this path has not established to be basic"
					}
				case "*types.Pointer", "*types.Struct", "*types.Chan", "*types.Signature", "*types.Interface":
					bad = "a value of kind " + strings.TrimPrefix(established(o), "*types.")
				}
				if bad != "" {
					k := "whole:" + bad
					if !seenErr[k] {
						seenErr[k] = true
						iss(call, "whole-value-verb", "prints %s (%s) as a whole with %%#v: for a component that is a pointer, a struct of another package or a type with its own GoString method fmt does not print the Go expression of an equal value (a GoString ending in a newline inside a composite literal does not even parse)", exprStr(arg), bad)
					}
				}
			}
			return true
		})
	}
	return out
}
