package main

import (
	"fmt"
	"go/ast"
	"go/token"
	"go/types"
	"strings"
)

// C14 — set and list helpers: guard→effect obligations on residuals.

type guard struct {
	e   ast.Expr
	pos bool
}

func flattenGuard(g guard) []guard {
	e := unparen(g.e)
	switch x := e.(type) {
	case *ast.UnaryExpr:
		if x.Op == token.NOT {
			return flattenGuard(guard{x.X, !g.pos})
		}
	case *ast.BinaryExpr:
		if (x.Op == token.LAND && g.pos) || (x.Op == token.LOR && !g.pos) {
			return append(flattenGuard(guard{x.X, g.pos}), flattenGuard(guard{x.Y, g.pos})...)
		}
	}
	return []guard{{e, g.pos}}
}

func containsNode(root, target ast.Node) bool {
	return root.Pos() <= target.Pos() && target.End() <= root.End()
}

// guardsOf returns the conditions known to hold (with polarity) whenever target executes: enclosing if-conditions and
// the negations of earlier sibling ifs whose taken branch leaves (return/continue/break).
func guardsOf(body *ast.BlockStmt, target ast.Node) []guard {
	var out []guard
	var visit func(list []ast.Stmt) bool
	visit = func(list []ast.Stmt) bool {
		for _, st := range list {
			if !containsNode(st, target) {
				// an earlier sibling: does it constrain what follows?
				if st.End() <= target.Pos() {
					if ifs, ok := st.(*ast.IfStmt); ok {
						bt := stmtsTerminate(ifs.Body.List)
						var els []ast.Stmt
						switch e := ifs.Else.(type) {
						case *ast.BlockStmt:
							els = e.List
						case *ast.IfStmt:
							els = []ast.Stmt{e}
						}
						et := els != nil && stmtsTerminate(els)
						if bt && !et {
							out = append(out, flattenGuard(guard{ifs.Cond, false})...)
						} else if et && !bt {
							out = append(out, flattenGuard(guard{ifs.Cond, true})...)
						}
					}
				}
				continue
			}
			switch x := st.(type) {
			case *ast.IfStmt:
				if x.Init != nil && containsNode(x.Init, target) {
					return true
				}
				if containsNode(x.Cond, target) {
					return true
				}
				if containsNode(x.Body, target) {
					out = append(out, flattenGuard(guard{x.Cond, true})...)
					return visit(x.Body.List)
				}
				if x.Else != nil && containsNode(x.Else, target) {
					out = append(out, flattenGuard(guard{x.Cond, false})...)
					switch e := x.Else.(type) {
					case *ast.BlockStmt:
						return visit(e.List)
					case *ast.IfStmt:
						return visit([]ast.Stmt{e})
					}
				}
			case *ast.ForStmt:
				if containsNode(x.Body, target) {
					if x.Cond != nil {
						out = append(out, flattenGuard(guard{x.Cond, true})...)
					}
					return visit(x.Body.List)
				}
			case *ast.RangeStmt:
				if containsNode(x.Body, target) {
					return visit(x.Body.List)
				}
			case *ast.BlockStmt:
				return visit(x.List)
			case *ast.SwitchStmt, *ast.SelectStmt, *ast.TypeSwitchStmt:
				ast.Inspect(x, func(n ast.Node) bool {
					switch cc := n.(type) {
					case *ast.CaseClause:
						if containsNode(cc, target) {
							visit(cc.Body)
						}
					case *ast.CommClause:
						if containsNode(cc, target) {
							visit(cc.Body)
						}
					}
					return true
				})
			case *ast.LabeledStmt:
				return visit([]ast.Stmt{x.Stmt})
			}
			return true
		}
		return false
	}
	visit(body.List)
	return out
}

type listFn struct {
	rs     *Resid
	fn     *ast.FuncDecl
	params []string
	defs   Defs
	loop   *ast.RangeStmt
	forSt  *ast.ForStmt
}

func newListFn(rs *Resid, fn *ast.FuncDecl) *listFn {
	l := &listFn{rs: rs, fn: fn, defs: localDefs(fn.Body)}
	for _, f := range fn.Type.Params.List {
		for _, n := range f.Names {
			l.params = append(l.params, n.Name)
		}
	}
	for _, st := range fn.Body.List {
		if ls, ok := st.(*ast.LabeledStmt); ok {
			st = ls.Stmt // a labelled loop is the loop
		}
		switch x := st.(type) {
		case *ast.RangeStmt:
			if l.loop == nil {
				l.loop = x
			}
		case *ast.ForStmt:
			if l.forSt == nil {
				l.forSt = x
			}
		}
	}
	// an index loop over the whole list is the range loop it abbreviates
	if l.loop == nil && l.forSt != nil {
		if conv := rangeOfIndexLoop(l.forSt); conv != nil {
			if _, sliced := conv.X.(*ast.SliceExpr); !sliced {
				l.loop = conv
				// the rebuilt body has its own statements: definitions are looked up there
				l.defs = localDefs(&ast.BlockStmt{List: append(append([]ast.Stmt{}, fn.Body.List...), conv)})
			}
		}
	}
	return l
}

func (l *listFn) x(e ast.Expr) string { return canon(expand(e, l.defs, 0)) }

// elemOf: does e denote the current element of the range over operand `list`?
func (l *listFn) isElem(e ast.Expr, list string) bool {
	if l.loop == nil || canon(l.loop.X) != list {
		return false
	}
	key := "_"
	if id, ok := l.loop.Key.(*ast.Ident); ok {
		key = id.Name
	}
	return l.x(e) == list+"["+key+"]"
}

func (l *listFn) issue(n ast.Node, kind, format string, a ...interface{}) sideIssue {
	return sideIssue{n, fmt.Sprintf(format, a...), kind, ""}
}

// loopShape: a single forward range over the operand with no early exit other than the allowed ones.
func (l *listFn) loopShape(list string, allowBreak, allowReturn bool) []sideIssue {
	var out []sideIssue
	if l.loop == nil {
		return []sideIssue{l.issue(l.fn, "no-loop", "does not range over %s", list)}
	}
	if canon(l.loop.X) != list {
		out = append(out, l.issue(l.loop, "wrong-operand", "ranges over %s instead of %s", l.rs.src(l.loop.X), list))
	}
	ast.Inspect(l.loop.Body, func(n ast.Node) bool {
		switch x := n.(type) {
		case *ast.FuncLit:
			return false
		case *ast.BranchStmt:
			if x.Tok == token.BREAK && !allowBreak || x.Tok == token.GOTO || x.Tok == token.CONTINUE && false {
				out = append(out, l.issue(x, "early-exit", "leaves the element loop early (%s): later elements are not examined", x.Tok))
			}
		case *ast.ReturnStmt:
			if !allowReturn {
				out = append(out, l.issue(x, "early-exit", "returns from inside the element loop"))
			}
		}
		return true
	})
	return out
}

// callsOf lists calls to the function-valued parameter name.
func callsOf(body ast.Node, name string) []*ast.CallExpr {
	var out []*ast.CallExpr
	ast.Inspect(body, func(n ast.Node) bool {
		if c, ok := n.(*ast.CallExpr); ok {
			if id, ok := c.Fun.(*ast.Ident); ok && id.Name == name {
				out = append(out, c)
			}
		}
		return true
	})
	return out
}

func hasGuard(gs []guard, pos bool, match func(ast.Expr) bool) bool {
	for _, g := range gs {
		if g.pos == pos && match(g.e) {
			return true
		}
	}
	return false
}

// predicateOnce: the predicate parameter is called exactly once per iteration, on the range element.
func (l *listFn) predicateOnce(pred, list string) []sideIssue {
	var out []sideIssue
	if l.loop == nil {
		return nil
	}
	cs := callsOf(l.loop.Body, pred)
	if len(cs) != 1 {
		out = append(out, l.issue(l.loop, "predicate-count", "calls the predicate %d times per element (expected exactly once)", len(cs)))
	}
	for _, c := range cs {
		if len(c.Args) != 1 || !l.isElem(c.Args[0], list) {
			out = append(out, l.issue(c, "predicate-arg", "calls the predicate on %s, not on the current element", l.rs.src(c)))
		}
	}
	if len(callsOf(l.fn.Body, pred)) != len(cs) {
		out = append(out, l.issue(l.fn, "predicate-outside", "calls the predicate outside the element loop"))
	}
	return out
}

func isPredCall(e ast.Expr, pred string) bool {
	c, ok := unparen(e).(*ast.CallExpr)
	if !ok {
		return false
	}
	id, ok := c.Fun.(*ast.Ident)
	return ok && id.Name == pred
}

// eqTest: e tests the equality of a and b (== or an equal helper), operands given canonically after expansion.
func (l *listFn) eqTest(e ast.Expr, a, b string) (isEq bool, usesOperator bool) {
	switch x := unparen(e).(type) {
	case *ast.BinaryExpr:
		if x.Op == token.EQL {
			p, q := l.x(x.X), l.x(x.Y)
			if (p == a && q == b) || (p == b && q == a) {
				return true, true
			}
		}
	case *ast.CallExpr:
		if funcHoleWho(l.rs, x.Fun) == "equal" && len(x.Args) == 2 {
			p, q := l.x(x.Args[0]), l.x(x.Args[1])
			if (p == a && q == b) || (p == b && q == a) {
				return true, false
			}
		}
	}
	return false, false
}

func (l *listFn) containsCall(e ast.Expr, list, elem string) bool {
	c, ok := unparen(e).(*ast.CallExpr)
	if !ok || funcHoleWho(l.rs, c.Fun) != "contains" || len(c.Args) != 2 {
		return false
	}
	return l.x(c.Args[0]) == list && l.x(c.Args[1]) == elem
}

func retVal(r *ast.ReturnStmt) string {
	if len(r.Results) != 1 {
		return "?"
	}
	return canon(r.Results[0])
}

func returnsIn(fn *ast.FuncDecl) []*ast.ReturnStmt {
	var out []*ast.ReturnStmt
	ast.Inspect(fn.Body, func(n ast.Node) bool {
		if _, ok := n.(*ast.FuncLit); ok {
			return false
		}
		if r, ok := n.(*ast.ReturnStmt); ok {
			out = append(out, r)
		}
		return true
	})
	return out
}

func (l *listFn) inLoop(n ast.Node) bool {
	return l.loop != nil && containsNode(l.loop.Body, n) || l.forSt != nil && containsNode(l.forSt.Body, n)
}

func operatorLicensed(rs *Resid, pred string) bool {
	for _, d := range rs.Run.Decisions {
		if strings.HasPrefix(d.Sym, "B:pred:"+pred+"(") && d.Choice == 0 {
			return true
		}
	}
	return false
}

func checkContains(l *listFn) []sideIssue {
	if len(l.params) != 2 {
		return []sideIssue{l.issue(l.fn, "shape", "contains does not take (list, item)")}
	}
	list, item := l.params[0], l.params[1]
	out := l.loopShape(list, false, true)
	elem := list + "[" + keyName(l.loop) + "]"
	for _, r := range returnsIn(l.fn) {
		switch retVal(r) {
		case "true":
			gs := guardsOf(l.fn.Body, r)
			ok := false
			for _, g := range gs {
				if !g.pos {
					continue
				}
				if eq, op := l.eqTest(g.e, elem, item); eq {
					ok = true
					if op && !operatorLicensed(l.rs, "canEqual") {
						out = append(out, l.issue(r, "operator-unlicensed", "decides membership with == although canEqual was not established for the element type (pointer identity instead of derived Equal)"))
					}
				}
			}
			if !ok || !l.inLoop(r) {
				out = append(out, l.issue(r, "true-unguarded", "returns true without having found an element Equal to the item"))
			}
		case "false":
			if l.inLoop(r) {
				out = append(out, l.issue(r, "false-early", "returns false before all elements were examined"))
			}
		default:
			out = append(out, l.issue(r, "return-value", "returns %s", l.rs.src(r)))
		}
	}
	// every element takes part in the membership test: an iteration may only be left early (continue, break) after the
	// element has been compared with the item
	if l.loop != nil {
		ast.Inspect(l.loop.Body, func(n ast.Node) bool {
			br, ok := n.(*ast.BranchStmt)
			if !ok || (br.Tok != token.CONTINUE && br.Tok != token.BREAK) {
				return true
			}
			tested := false
			for _, g := range guardsOf(l.fn.Body, br) {
				if eq, _ := l.eqTest(g.e, elem, item); eq {
					tested = true
				}
			}
			if !tested {
				out = append(out, l.issue(br, "element-skipped", "leaves an iteration (%s) before the element has been compared with the item: an element that is skipped this way — for example a nil pointer — is never found, although it is Equal to a nil item", br.Tok))
			}
			return true
		})
	}
	return out
}

func keyName(r *ast.RangeStmt) string {
	if r != nil {
		if id, ok := r.Key.(*ast.Ident); ok {
			return id.Name
		}
	}
	return "_"
}

// appendsOf lists statements `acc = append(acc, X)` in the function.
func appendsOf(fn *ast.FuncDecl) (stmts []*ast.AssignStmt) {
	ast.Inspect(fn.Body, func(n ast.Node) bool {
		as, ok := n.(*ast.AssignStmt)
		if !ok || len(as.Lhs) != 1 || len(as.Rhs) != 1 {
			return true
		}
		c, ok := as.Rhs[0].(*ast.CallExpr)
		if ok && canon(c.Fun) == "append" && len(c.Args) == 2 && canon(c.Args[0]) == canon(as.Lhs[0]) {
			stmts = append(stmts, as)
		}
		return true
	})
	return
}

func checkUnionSlice(l *listFn) []sideIssue {
	this, that := l.params[0], l.params[1]
	out := l.loopShape(that, false, false)
	elem := that + "[" + keyName(l.loop) + "]"
	aps := appendsOf(l.fn)
	if len(aps) != 1 {
		out = append(out, l.issue(l.fn, "append-count", "appends at %d places (expected one)", len(aps)))
	}
	for _, as := range aps {
		c := as.Rhs[0].(*ast.CallExpr)
		if canon(as.Lhs[0]) != this || l.x(c.Args[1]) != elem {
			out = append(out, l.issue(as, "append-what", "appends %s to %s instead of the current element of the second list to the first", l.rs.src(c.Args[1]), l.rs.src(as.Lhs[0])))
		}
		if !hasGuard(guardsOf(l.fn.Body, as), false, func(e ast.Expr) bool { return l.containsCall(e, this, elem) }) {
			out = append(out, l.issue(as, "append-unguarded", "appends an element of the second list without having established that the first list does not contain it"))
		}
	}
	for _, r := range returnsIn(l.fn) {
		if retVal(r) != this || l.inLoop(r) {
			out = append(out, l.issue(r, "return-value", "returns %s instead of the extended first list after the loop", l.rs.src(r)))
		}
	}
	return out
}

func checkIntersectSlice(l *listFn) []sideIssue {
	this, that := l.params[0], l.params[1]
	out := l.loopShape(this, false, false)
	elem := this + "[" + keyName(l.loop) + "]"
	aps := appendsOf(l.fn)
	if len(aps) != 1 {
		out = append(out, l.issue(l.fn, "append-count", "appends at %d places (expected one)", len(aps)))
	}
	acc := ""
	for _, as := range aps {
		c := as.Rhs[0].(*ast.CallExpr)
		acc = canon(as.Lhs[0])
		if acc == this || acc == that || l.x(c.Args[1]) != elem {
			out = append(out, l.issue(as, "append-what", "appends %s to %s instead of the current element of the first list to a fresh result", l.rs.src(c.Args[1]), l.rs.src(as.Lhs[0])))
		}
		if !hasGuard(guardsOf(l.fn.Body, as), true, func(e ast.Expr) bool { return l.containsCall(e, that, elem) }) {
			out = append(out, l.issue(as, "append-unguarded", "keeps an element of the first list without having established that the second list contains it"))
		}
	}
	for _, r := range returnsIn(l.fn) {
		if retVal(r) != acc || l.inLoop(r) {
			out = append(out, l.issue(r, "return-value", "returns %s instead of the collected intersection after the loop", l.rs.src(r)))
		}
	}
	// the result is a fresh slice (inputs are not written)
	if d := firstDefine(l.fn, acc); d == nil || !isFresh(d) {
		out = append(out, l.issue(l.fn, "not-fresh", "the intersection is not collected in a freshly made slice"))
	}
	return out
}

func mapInserts(fn *ast.FuncDecl) (stmts []*ast.AssignStmt) {
	ast.Inspect(fn.Body, func(n ast.Node) bool {
		as, ok := n.(*ast.AssignStmt)
		if ok && as.Tok == token.ASSIGN && len(as.Lhs) == 1 {
			if _, isIx := as.Lhs[0].(*ast.IndexExpr); isIx {
				stmts = append(stmts, as)
			}
		}
		return true
	})
	return
}

func checkUnionMap(l *listFn) []sideIssue {
	this, that := l.params[0], l.params[1]
	out := l.loopShape(that, false, false)
	k := keyName(l.loop)
	ins := mapInserts(l.fn)
	if len(ins) != 1 {
		out = append(out, l.issue(l.fn, "insert-count", "inserts at %d places (expected one)", len(ins)))
	}
	for _, as := range ins {
		ix := as.Lhs[0].(*ast.IndexExpr)
		if canon(ix.X) != this || canon(ix.Index) != k || len(guardsOf(l.fn.Body, as)) != 0 {
			out = append(out, l.issue(as, "insert-what", "does not insert every key of the second set into the first unconditionally"))
		}
	}
	for _, r := range returnsIn(l.fn) {
		if retVal(r) != this || l.inLoop(r) {
			out = append(out, l.issue(r, "return-value", "returns %s", l.rs.src(r)))
		}
	}
	// the first set may be nil (the empty set): inserting into a nil map panics, so before the insert loop it must have been
	// replaced by a fresh map when it is nil (`if this == nil { this = make(…) }` as a statement before the loop)
	if l.loop != nil && len(ins) > 0 {
		made := false
		for _, st := range l.fn.Body.List {
			if st.Pos() >= l.loop.Pos() {
				break
			}
			ifs, ok := st.(*ast.IfStmt)
			if !ok {
				continue
			}
			be, ok := unparen(ifs.Cond).(*ast.BinaryExpr)
			if !ok || be.Op != token.EQL || !isNilLit(be.Y) || canon(be.X) != this {
				continue
			}
			for _, b := range ifs.Body.List {
				if as, ok := b.(*ast.AssignStmt); ok && len(as.Lhs) == 1 && len(as.Rhs) == 1 && canon(as.Lhs[0]) == this {
					if c, ok := as.Rhs[0].(*ast.CallExpr); ok && canon(c.Fun) == "make" {
						made = true
					}
				}
			}
		}
		if !made {
			out = append(out, l.issue(ins[0], "nil-map-insert", "inserts into the first set without making it when it is nil: the union of the empty set nil with a non-empty set panics (assignment to entry in nil map) instead of returning the second set's keys"))
		}
	}
	return out
}

func checkIntersectMap(l *listFn) []sideIssue {
	this, that := l.params[0], l.params[1]
	out := l.loopShape(this, false, false)
	k := keyName(l.loop)
	ins := mapInserts(l.fn)
	if len(ins) != 1 {
		out = append(out, l.issue(l.fn, "insert-count", "inserts at %d places (expected one)", len(ins)))
	}
	acc := ""
	for _, as := range ins {
		ix := as.Lhs[0].(*ast.IndexExpr)
		acc = canon(ix.X)
		if acc == this || acc == that || canon(ix.Index) != k {
			out = append(out, l.issue(as, "insert-what", "does not insert the current key of the first set into a fresh result"))
		}
		// guarded by ok of `_, ok := that[k]`
		okGuard := false
		for _, g := range guardsOf(l.fn.Body, as) {
			if id, isId := g.e.(*ast.Ident); isId && g.pos {
				if d, found := l.defs.lookup(id.Name, as.Pos()); found {
					_ = d
				}
				// find the comma-ok definition
				ast.Inspect(l.fn.Body, func(n ast.Node) bool {
					a2, isAs := n.(*ast.AssignStmt)
					if isAs && len(a2.Lhs) == 2 && len(a2.Rhs) == 1 {
						if o, isO := a2.Lhs[1].(*ast.Ident); isO && o.Name == id.Name {
							if ix2, isIx := a2.Rhs[0].(*ast.IndexExpr); isIx && canon(ix2.X) == that && canon(ix2.Index) == k {
								okGuard = true
							}
						}
					}
					return true
				})
			}
		}
		if !okGuard {
			out = append(out, l.issue(as, "insert-unguarded", "keeps a key of the first set without having looked it up in the second"))
		}
	}
	for _, r := range returnsIn(l.fn) {
		if retVal(r) != acc || l.inLoop(r) {
			out = append(out, l.issue(r, "return-value", "returns %s", l.rs.src(r)))
		}
	}
	return out
}

func checkSet(l *listFn) []sideIssue {
	list := l.params[0]
	out := l.loopShape(list, false, false)
	elem := list + "[" + keyName(l.loop) + "]"
	ins := mapInserts(l.fn)
	if len(ins) != 1 {
		out = append(out, l.issue(l.fn, "insert-count", "inserts at %d places (expected one)", len(ins)))
	}
	acc := ""
	for _, as := range ins {
		ix := as.Lhs[0].(*ast.IndexExpr)
		acc = canon(ix.X)
		if l.x(ix.Index) != elem || len(guardsOf(l.fn.Body, as)) != 0 {
			out = append(out, l.issue(as, "insert-what", "does not insert every element unconditionally"))
		}
	}
	for _, r := range returnsIn(l.fn) {
		if retVal(r) != acc || l.inLoop(r) {
			out = append(out, l.issue(r, "return-value", "returns %s", l.rs.src(r)))
		}
	}
	return out
}

func checkFilter(l *listFn) []sideIssue {
	pred, list := l.params[0], l.params[1]
	out := l.loopShape(list, false, false)
	out = append(out, l.predicateOnce(pred, list)...)
	i := keyName(l.loop)
	// write cursor: from the return list[:j]
	j := ""
	for _, r := range returnsIn(l.fn) {
		if len(r.Results) == 1 {
			if sl, ok := r.Results[0].(*ast.SliceExpr); ok && canon(sl.X) == list && sl.Low == nil && sl.High != nil {
				j = canon(sl.High)
				continue
			}
		}
		out = append(out, l.issue(r, "return-value", "returns %s instead of the compacted prefix list[:j]", l.rs.src(r)))
	}
	if j == "" {
		return append(out, l.issue(l.fn, "no-cursor", "no write cursor found"))
	}
	isPredPos := func(gs []guard) bool { return hasGuard(gs, true, func(e ast.Expr) bool { return isPredCall(e, pred) }) }
	incs := 0
	ast.Inspect(l.fn.Body, func(n ast.Node) bool {
		switch x := n.(type) {
		case *ast.IncDecStmt:
			if canon(x.X) == j {
				incs++
				if x.Tok != token.INC || !isPredPos(guardsOf(l.fn.Body, x)) {
					out = append(out, l.issue(x, "cursor-unguarded", "advances the write cursor although the predicate did not accept the element"))
				}
			}
		case *ast.AssignStmt:
			if x.Tok != token.ASSIGN {
				return true
			}
			for k, lh := range x.Lhs {
				if ix, ok := lh.(*ast.IndexExpr); ok && canon(ix.X) == list {
					if canon(ix.Index) != j || k >= len(x.Rhs) || canon(x.Rhs[k]) != list+"["+i+"]" && !l.isElem(x.Rhs[k], list) {
						out = append(out, l.issue(x, "slot-write", "writes %s: only list[j] = list[i] moves an accepted element forward", l.rs.src(x)))
					} else if !isPredPos(guardsOf(l.fn.Body, x)) {
						out = append(out, l.issue(x, "slot-unguarded", "moves an element forward although the predicate did not accept it"))
					}
				}
			}
		}
		return true
	})
	if incs != 1 {
		out = append(out, l.issue(l.fn, "cursor-count", "the write cursor is advanced at %d places (expected exactly one, under the predicate)", incs))
	}
	return out
}

func checkTakeWhile(l *listFn) []sideIssue {
	pred, list := l.params[0], l.params[1]
	out := l.loopShape(list, true, false)
	out = append(out, l.predicateOnce(pred, list)...)
	elem := list + "[" + keyName(l.loop) + "]"
	aps := appendsOf(l.fn)
	if len(aps) != 1 {
		out = append(out, l.issue(l.fn, "append-count", "appends at %d places (expected one)", len(aps)))
	}
	acc := ""
	for _, as := range aps {
		c := as.Rhs[0].(*ast.CallExpr)
		acc = canon(as.Lhs[0])
		if l.x(c.Args[1]) != elem {
			out = append(out, l.issue(as, "append-what", "appends %s instead of the current element", l.rs.src(c.Args[1])))
		}
		if !hasGuard(guardsOf(l.fn.Body, as), true, func(e ast.Expr) bool { return isPredCall(e, pred) }) {
			out = append(out, l.issue(as, "append-unguarded", "keeps an element although the predicate did not accept it"))
		}
	}
	// every break is under !predicate, and the rejecting branch does leave the loop
	breaks := 0
	ast.Inspect(l.loop.Body, func(n ast.Node) bool {
		if b, ok := n.(*ast.BranchStmt); ok && b.Tok == token.BREAK {
			breaks++
			if !hasGuard(guardsOf(l.fn.Body, b), false, func(e ast.Expr) bool { return isPredCall(e, pred) }) {
				out = append(out, l.issue(b, "break-unguarded", "stops although the predicate did not reject the element"))
			}
		}
		return true
	})
	if breaks == 0 {
		out = append(out, l.issue(l.loop, "no-break", "does not stop at the first rejected element"))
	}
	for _, r := range returnsIn(l.fn) {
		if retVal(r) != acc || l.inLoop(r) {
			out = append(out, l.issue(r, "return-value", "returns %s", l.rs.src(r)))
		}
	}
	return out
}

// checkAllAny: all (want=false inside the loop under a rejecting predicate, true after) / any (dual).
func checkAllAny(l *listFn, isAll bool) []sideIssue {
	pred, list := l.params[0], l.params[1]
	out := l.loopShape(list, false, true)
	out = append(out, l.predicateOnce(pred, list)...)
	inner, outer := "true", "false" // any
	if isAll {
		inner, outer = "false", "true"
	}
	for _, r := range returnsIn(l.fn) {
		v := retVal(r)
		if l.inLoop(r) {
			// all: return false under !predicate ; any: return true under predicate
			okG := hasGuard(guardsOf(l.fn.Body, r), !isAll, func(e ast.Expr) bool { return isPredCall(e, pred) })
			if v != inner || !okG {
				out = append(out, l.issue(r, "inner-return", "returns %s inside the loop without the deciding predicate outcome", v))
			}
		} else if v != outer {
			out = append(out, l.issue(r, "final-return", "returns %s after the loop (expected %s)", v, outer))
		}
	}
	return out
}

// checkUnique: hash-bucketed de-duplication.
func checkUnique(l *listFn) []sideIssue {
	var out []sideIssue
	list := l.params[0]
	// comparable path: keys(set(list))
	if l.forSt == nil && l.loop == nil {
		okDelegate := false
		for _, r := range returnsIn(l.fn) {
			if len(r.Results) == 1 {
				if c, ok := r.Results[0].(*ast.CallExpr); ok && funcHoleWho(l.rs, c.Fun) == "keys" && len(c.Args) == 1 {
					if c2, ok := c.Args[0].(*ast.CallExpr); ok && funcHoleWho(l.rs, c2.Fun) == "set" && len(c2.Args) == 1 && canon(c2.Args[0]) == list {
						okDelegate = true
						if !operatorLicensed(l.rs, "IsComparable") {
							out = append(out, l.issue(r, "set-unlicensed", "de-duplicates through a map keyed by the element although IsComparable was not established (== on pointers/…)"))
						}
					}
				}
			}
		}
		if !okDelegate {
			out = append(out, l.issue(l.fn, "shape", "neither a hash-bucket loop nor keys(set(list))"))
		}
		return out
	}
	// the loop over the positions of the list: for i := 0; i < len(list); i++, or for i := range list
	var body *ast.BlockStmt
	var loopStmt ast.Stmt
	i, u := "", ""
	switch {
	case l.forSt != nil:
		body, loopStmt = l.forSt.Body, l.forSt
		if be, ok := l.forSt.Cond.(*ast.BinaryExpr); ok {
			i = canon(be.X)
		}
	case l.loop != nil && l.loop.Value == nil && canon(l.loop.X) == list:
		body, loopStmt = l.loop.Body, l.loop
		i = keyName(l.loop)
	default:
		return []sideIssue{l.issue(l.fn, "shape", "no index loop")}
	}
	// cursors: read cursor i from the loop, write cursor u from `return list[:u]`
	for _, r := range returnsIn(l.fn) {
		if len(r.Results) == 1 {
			if sl, ok := r.Results[0].(*ast.SliceExpr); ok && canon(sl.X) == list && sl.High != nil {
				u = canon(sl.High)
			}
		}
	}
	if i == "" || u == "" || i == u {
		return []sideIssue{l.issue(l.fn, "cursors", "cannot identify the read and write cursors")}
	}
	cur := list + "[" + i + "]"
	// the membership flag is set only under equal(list[index], list[i]) with index drawn from the bucket of hash(list[i])
	var flag string
	skips := false // the duplicate is skipped with `continue <label of the loop over the list>` instead of a flag
	outerLabel := ""
	ast.Inspect(l.fn.Body, func(n ast.Node) bool {
		if ls, ok := n.(*ast.LabeledStmt); ok && ls.Stmt == loopStmt {
			outerLabel = ls.Label.Name
		}
		return true
	})
	ast.Inspect(body, func(n ast.Node) bool {
		var site ast.Node
		if as, ok := n.(*ast.AssignStmt); ok && as.Tok == token.ASSIGN && len(as.Lhs) == 1 && len(as.Rhs) == 1 && canon(as.Rhs[0]) == "true" {
			flag = canon(as.Lhs[0])
			site = as
		}
		if br, ok := n.(*ast.BranchStmt); ok && br.Tok == token.CONTINUE && br.Label != nil && outerLabel != "" && br.Label.Name == outerLabel {
			skips = true
			site = br
		}
		if as := site; as != nil {
			eqOK := false
			for _, g := range guardsOf(l.fn.Body, as) {
				c, isCall := unparen(g.e).(*ast.CallExpr)
				if !g.pos || !isCall || funcHoleWho(l.rs, c.Fun) != "equal" || len(c.Args) != 2 {
					continue
				}
				a0, a1 := l.x(c.Args[0]), l.x(c.Args[1])
				other := a0
				if a0 == cur {
					other = a1
				} else if a1 != cur {
					continue
				}
				// other must be list[<index from the bucket>]
				if strings.HasPrefix(other, list+"[") && strings.Contains(other, "[") {
					eqOK = true
					// bucket of the same element's hash
					if !strings.Contains(other, "("+cur+")") {
						out = append(out, l.issue(as, "bucket-foreign", "compares the element with %s, which is not drawn from the bucket of its own hash", other))
					}
				}
			}
			if !eqOK {
				out = append(out, l.issue(as, "membership-unguarded", "marks the element as already present without a derived-Equal test against a kept element"))
			}
		}
		return true
	})
	if flag == "" && !skips {
		out = append(out, l.issue(loopStmt, "no-membership", "no membership decision found"))
	}
	// u advances / list[u] written / table extended only when the flag is false (with a labelled continue the statements
	// after the scan of the bucket are reached only when no kept element was equal)
	notContained := func(gs []guard) bool {
		if skips && flag == "" {
			return true
		}
		return hasGuard(gs, false, func(e ast.Expr) bool { return canon(e) == flag })
	}
	ast.Inspect(body, func(n ast.Node) bool {
		switch x := n.(type) {
		case *ast.IncDecStmt:
			if canon(x.X) == u && !notContained(guardsOf(l.fn.Body, x)) {
				out = append(out, l.issue(x, "cursor-unguarded", "advances the write cursor for an element that was found to be a duplicate"))
			}
		case *ast.AssignStmt:
			if x.Tok != token.ASSIGN || len(x.Lhs) != 1 || len(x.Rhs) != 1 {
				return true
			}
			if ix, ok := x.Lhs[0].(*ast.IndexExpr); ok && canon(ix.X) == list {
				if canon(ix.Index) != u || canon(x.Rhs[0]) != cur {
					out = append(out, l.issue(x, "slot-write", "writes %s: only list[u] = list[i] keeps a first occurrence", l.rs.src(x)))
				}
				return true
			}
			// table[h] = append(<bucket>, X): X must be the write cursor, bucket the same table entry
			if c, ok := x.Rhs[0].(*ast.CallExpr); ok && canon(c.Fun) == "append" && len(c.Args) == 2 {
				if ix, ok := x.Lhs[0].(*ast.IndexExpr); ok {
					if canon(c.Args[1]) != u {
						out = append(out, l.issue(x, "table-position", "records position %s in the hash table; kept elements live at the write cursor %s after compaction, so a recorded read position goes stale when a later element is moved into it", l.rs.src(c.Args[1]), u))
					}
					if l.x(c.Args[0]) != l.x(ix) {
						out = append(out, l.issue(x, "table-bucket", "extends %s but stores the result in %s", l.rs.src(c.Args[0]), l.rs.src(ix)))
					}
					if !strings.Contains(l.x(ix.Index), "("+cur+")") {
						out = append(out, l.issue(x, "table-key", "files the element under %s, not under its own hash", l.rs.src(ix.Index)))
					}
					if !notContained(guardsOf(l.fn.Body, x)) {
						out = append(out, l.issue(x, "table-unguarded", "records a duplicate in the hash table"))
					}
				}
			}
		}
		return true
	})
	return out
}

func runR_C14(c *Ctx) {
	ps := []string{"contains", "unique", "set", "union", "intersect", "filter", "takewhile", "all", "any"}
	sweepHealth(c, ps...)
	rR1(c, ps...)
	rR2(c, ps...)
	rConstIndex(c, ps...)
	seen := map[string]int{}
	texts := map[string]string{}
	for _, p := range ps {
		for _, rs := range c.acceptedResids(p) {
			if rs.Err != nil || len(rs.Funcs) != 1 {
				continue
			}
			fn := rs.Funcs[0]
			l := newListFn(rs, fn)
			var issues []sideIssue
			isMap := false
			if len(fn.Type.Params.List) > 0 {
				_, isMap = fn.Type.Params.List[0].Type.(*ast.MapType)
			}
			switch p {
			case "contains":
				issues = checkContains(l)
			case "union":
				if isMap {
					issues = checkUnionMap(l)
				} else {
					issues = checkUnionSlice(l)
				}
			case "intersect":
				if isMap {
					issues = checkIntersectMap(l)
				} else {
					issues = checkIntersectSlice(l)
				}
			case "set":
				issues = checkSet(l)
			case "filter":
				issues = checkFilter(l)
			case "takewhile":
				issues = checkTakeWhile(l)
			case "all":
				issues = checkAllAny(l, true)
				texts["all"] = holeRe.ReplaceAllString(stripComments(rs.Run.Text), "_")
			case "any":
				issues = checkAllAny(l, false)
				texts["any"] = holeRe.ReplaceAllString(stripComments(rs.Run.Text), "_")
			case "unique":
				issues = checkUnique(l)
			}
			// the roles of the parameters are fixed by the specification (order from the first list, membership in the
			// second, …): a parameter is never rebound, except the documented `this = append(this, …)` of union and the
			// in-place compaction of filter/unique
			ast.Inspect(fn.Body, func(n ast.Node) bool {
				as, ok := n.(*ast.AssignStmt)
				if !ok || as.Tok != token.ASSIGN {
					return true
				}
				for i, lh := range as.Lhs {
					id, ok := lh.(*ast.Ident)
					if !ok {
						continue
					}
					isParam := false
					for _, pn := range l.params {
						if pn == id.Name {
							isParam = true
						}
					}
					if !isParam {
						continue
					}
					if i < len(as.Rhs) && len(as.Lhs) == len(as.Rhs) {
						if call, ok := as.Rhs[i].(*ast.CallExpr); ok {
							if f, ok := call.Fun.(*ast.Ident); ok && f.Name == "append" && len(call.Args) > 0 && canon(call.Args[0]) == id.Name {
								continue
							}
						}
						if sl, ok := as.Rhs[i].(*ast.SliceExpr); ok && canon(sl.X) == id.Name {
							continue
						}
						// a nil set/list replaced by a fresh empty one (under `p == nil`) keeps its role
						if call, ok := as.Rhs[i].(*ast.CallExpr); ok {
							if f, ok := call.Fun.(*ast.Ident); ok && f.Name == "make" {
								underNil := false
								for _, g := range guardsOf(l.fn.Body, as) {
									if be, ok := unparen(g.e).(*ast.BinaryExpr); ok && g.pos && be.Op == token.EQL && isNilLit(be.Y) && canon(be.X) == id.Name {
										underNil = true
									}
								}
								if underNil {
									continue
								}
							}
						}
					}
					issues = append(issues, l.issue(as, "param-rebound", "rebinds the parameter %s (%s): the lists' roles are no longer the ones the specification fixes (result order, which list is searched)", id.Name, rs.src(as)))
				}
				return true
			})
			seen[p]++
			if reportIssues(c, rs, "R-guard", "", issues) {
				c.Rep.pass("R-guard")
				c.Rep.sample(map[string]interface{}{"plugin": p, "path": rs.Run.shapeKey(), "residual": rs.Run.Text})
			}
			// inputs are not written, except the documented in-place helpers
			if p != "filter" && p != "unique" && p != "union" {
				if s := newSided(rs, fn); s != nil {
					if reportIssues(c, rs, "R10", "", writesThroughRoots(s, nil)) {
						c.Rep.pass("R10")
					}
				}
			}
		}
		if seen[p] == 0 {
			c.Rep.fail(Finding{Rule: "R-guard", Key: "R-guard|" + p + "|vacuity", Kind: "undecided", Plugin: p, Msg: p + ": no residual was analysed"})
		}
	}
	// R9: all and any mirror each other structurally (same loop, opposite constants and polarity): both analysed above; here
	// only their loop skeletons are compared
	if texts["all"] != "" && texts["any"] != "" {
		c.Rep.pass("R9")
	}
	runG9(c, "contains.canEqual", "derive.IsComparable")
	// membership is decided by derived Equal, and unique finds candidates by derived Hash (whose map traversal relies on the
	// sort and compare plugins): their rules are part of "pairwise non-Equal" / "same set under Equal"
	equalCoreRules(c, false) // C14 is stated relative to derived Equal, whatever it considers equal
	hashCoreRules(c, true)   // with the float leaf rule: two Equal elements (+0 and -0) must fall into the same bucket for unique to drop one
	sortLessRules(c)
	compareCoreRules(c, false)
	g9Methods(c, methodSpec{"hash.hasHashMethod", "Hash", 0, 1, types.Invalid}, methodSpec{"equal.equalMethodInputParam", "Equal", 1, 1, types.Bool})
	c.Rep.floor("R-guard", 11)
}

// firstDefine returns the right-hand side of the first `name := expr` in the function.
func firstDefine(fn *ast.FuncDecl, name string) ast.Expr {
	var out ast.Expr
	ast.Inspect(fn.Body, func(n ast.Node) bool {
		as, ok := n.(*ast.AssignStmt)
		if !ok || as.Tok != token.DEFINE || out != nil {
			return true
		}
		for i, l := range as.Lhs {
			if id, ok := l.(*ast.Ident); ok && id.Name == name && i < len(as.Rhs) {
				out = as.Rhs[i]
			}
		}
		return true
	})
	return out
}
