package main

// normalise.go — a helper-inlined view of the driver packages (main, derive) for Engine G.
//
// Engine G's rules are about named places of the driver (generatePackage, newPackage, SetFuncName, ...). Extracting part
// of such a function into a new helper must not hide what a rule is about, and it must not let a change escape the rule
// either. So before Engine G runs, every call to a function of main/derive that did not exist on the tree the rules were
// confirmed against (baseline_funcs.go) is inlined, source to source, and the result is type-checked again through a
// go/packages overlay. Functions of the baseline are never inlined: on the unchanged tree this file does nothing.
//
// The transformation is exact for the forms it accepts (anything else is left as a call and the reason is noted):
//
//	x, y := h(a, b)      var _i1_a0 P0 = a; var _i1_a1 P1 = b; var _i1_r0 R0; var _i1_r1 R1
//	                     { var p0 P0 = _i1_a0; ...; _i1_L: for { BODY; break _i1_L } }      // return e0, e1 => _i1_r0, _i1_r1 = e0, e1; break _i1_L
//	                     x, y := _i1_r0, _i1_r1
//
// Not inlined: recursive helpers, helpers with defer/go/recover/labels/goto, variadic or generic helpers, promoted
// methods, method values, calls whose hoisting could reorder evaluation (a call evaluated before it in the same
// statement, the right operand of && or ||, loop conditions, go/defer statements).

import (
	"bytes"
	"fmt"
	"go/ast"
	"go/format"
	"go/parser"
	"go/token"
	"go/types"
	"os"
	"sort"
	"strconv"
	"strings"

	"golang.org/x/tools/go/packages"
)

type inlSite struct {
	off       int // offset of the call expression in its file
	callee    *FuncInfo
	recvAdj   string // "", "&", "*"
	calleeOff int    // offset of the callee's declaration in its file
	lhsNew    []bool // the call is the right-hand side of x, y := call: which of x, y the statement declares
}

// normaliseRepo returns the helper-inlined view of r (r itself when nothing is to be inlined) and notes for the evidence.
func normaliseRepo(r *Repo) (*Repo, []string) {
	var notes []string
	cur := r
	overlay := map[string][]byte{}
	for round := 0; round < 5; round++ {
		sites, skipped := findInlineSites(cur)
		for _, s := range skipped {
			notes = append(notes, s)
		}
		if len(sites) == 0 {
			break
		}
		changed := 0
		snap := map[string][]byte{}
		for f, b := range overlay {
			snap[f] = b
		}
		for file, ss := range sites {
			src := overlay[file]
			if src == nil {
				b, err := os.ReadFile(file)
				if err != nil {
					return r, append(notes, "normalise: "+err.Error())
				}
				src = b
			}
			out, n, ns, err := inlineInFile(cur, file, src, ss, snap, round)
			notes = append(notes, ns...)
			if err != nil {
				return r, append(notes, "normalise: "+err.Error())
			}
			if n > 0 {
				overlay[file] = out
				changed += n
			}
		}
		if changed == 0 {
			break
		}
		next, err := loadRepoOverlay(overlay)
		if err != nil {
			if os.Getenv("GDV_DEBUG_INLINE") != "" {
				for f, b := range overlay {
					fmt.Fprintf(os.Stderr, "==== %s\n%s\n", f, b)
				}
			}
			return r, append(notes, "normalise: the helper-inlined view does not type-check ("+err.Error()+"); the rules ran on the tree as written")
		}
		cur = next
		if d := os.Getenv("GDV_DUMP_INLINE"); d != "" {
			for f, b := range overlay {
				os.WriteFile(d+"/"+strings.ReplaceAll(strings.TrimPrefix(f, r.Dir+"/"), "/", "_"), b, 0o644)
			}
		}
		notes = append(notes, fmt.Sprintf("normalise: round %d inlined %d call(s) to helpers that are not part of the baseline", round+1, changed))
	}
	if cur != r {
		cur.Normalised = true
		// helpers whose every use was inlined are dead text: the rules must not look at them a second time
		used := map[*types.Func]bool{}
		for _, p := range cur.Pkgs {
			for _, o := range p.TypesInfo.Uses {
				if fn, ok := o.(*types.Func); ok {
					used[fn] = true
				}
			}
		}
		for fn, fi := range cur.Decls {
			if !isDriverPkg(fi.Pkg) || baselineFuncs[funcKey(fn)] || used[fn] || fn.Name() == "init" || fn.Name() == "main" {
				continue
			}
			if fn.Exported() && fn.Type().(*types.Signature).Recv() != nil {
				continue // may implement an interface
			}
			delete(cur.Decls, fn)
			for _, f := range fi.Pkg.Syntax {
				for i, d := range f.Decls {
					if d == ast.Decl(fi.Decl) {
						f.Decls = append(f.Decls[:i:i], f.Decls[i+1:]...)
						break
					}
				}
			}
			notes = append(notes, "normalise: "+funcKey(fn)+" is fully inlined; its declaration is not analysed a second time")
		}
	}
	return cur, notes
}

func loadRepoOverlay(overlay map[string][]byte) (*Repo, error) {
	return loadRepoWith(overlay)
}

func isDriverPkg(p *packages.Package) bool { return p.Name == "main" || p.PkgPath == modPath+"/derive" }

// findInlineSites: calls, in the driver packages, whose static callee is a driver function outside the baseline.
func findInlineSites(r *Repo) (map[string][]inlSite, []string) {
	sites := map[string][]inlSite{}
	var skipped []string
	seenSkip := map[string]bool{}
	skip := func(fi *FuncInfo, why string) {
		k := funcKey(fi.Fn) + ": " + why
		if !seenSkip[k] {
			seenSkip[k] = true
			skipped = append(skipped, "normalise: calls to "+funcKey(fi.Fn)+" are not inlined ("+why+")")
		}
	}
	inlinable := map[*types.Func]string{}
	why := func(fi *FuncInfo) string {
		if w, ok := inlinable[fi.Fn]; ok {
			return w
		}
		w := ""
		sig := fi.Fn.Type().(*types.Signature)
		switch {
		case fi.Decl.Body == nil:
			w = "no body"
		case sig.Variadic():
			w = "variadic"
		case sig.TypeParams() != nil || sig.RecvTypeParams() != nil:
			w = "generic"
		}
		if w == "" {
			ast.Inspect(fi.Decl.Body, func(n ast.Node) bool {
				switch x := n.(type) {
				case *ast.FuncLit:
					return false
				case *ast.DeferStmt:
					w = "defer"
				case *ast.GoStmt:
					w = "go statement"
				case *ast.LabeledStmt:
					w = "label"
				case *ast.BranchStmt:
					if x.Tok == token.GOTO {
						w = "goto"
					}
				case *ast.CallExpr:
					if id, ok := x.Fun.(*ast.Ident); ok && id.Name == "recover" {
						w = "recover"
					}
					if callee(fi.Pkg.TypesInfo, x) == fi.Fn {
						w = "recursive"
					}
				}
				return true
			})
		}
		inlinable[fi.Fn] = w
		return w
	}
	for _, p := range r.Pkgs {
		if !isDriverPkg(p) {
			continue
		}
		info := p.TypesInfo
		for _, f := range p.Syntax {
			fname := r.Fset.Position(f.Pos()).Filename
			par := parents(f)
			ast.Inspect(f, func(n ast.Node) bool {
				c, ok := n.(*ast.CallExpr)
				if !ok {
					return true
				}
				fn, _ := callee(info, c).(*types.Func)
				if fn == nil {
					return true
				}
				fi := r.Decls[fn]
				if fi == nil || !isDriverPkg(fi.Pkg) || baselineFuncs[funcKey(fn)] {
					return true
				}
				if w := why(fi); w != "" {
					skip(fi, w)
					return true
				}
				adj := ""
				if sig := fn.Type().(*types.Signature); sig.Recv() != nil {
					sel, ok := ast.Unparen(c.Fun).(*ast.SelectorExpr)
					if !ok {
						skip(fi, "method expression")
						return true
					}
					s := info.Selections[sel]
					if s == nil || s.Kind() != types.MethodVal || len(s.Index()) != 1 {
						skip(fi, "promoted method or method expression")
						return true
					}
					_, wantPtr := sig.Recv().Type().(*types.Pointer)
					_, havePtr := info.TypeOf(sel.X).Underlying().(*types.Pointer)
					if _, isIface := sig.Recv().Type().Underlying().(*types.Interface); isIface {
						skip(fi, "interface method")
						return true
					}
					switch {
					case wantPtr && !havePtr:
						adj = "&"
					case !wantPtr && havePtr:
						adj = "*"
					}
				}
				var lhsNew []bool
				var up ast.Node = par[c]
				for {
					if pe, ok := up.(*ast.ParenExpr); ok {
						up = par[pe]
						continue
					}
					break
				}
				if as, ok := up.(*ast.AssignStmt); ok && as.Tok == token.DEFINE && len(as.Rhs) == 1 {
					for _, l := range as.Lhs {
						id, ok := l.(*ast.Ident)
						lhsNew = append(lhsNew, ok && info.Defs[id] != nil)
					}
				}
				sites[fname] = append(sites[fname], inlSite{off: r.Fset.Position(c.Pos()).Offset, callee: fi, recvAdj: adj,
					calleeOff: r.Fset.Position(fi.Decl.Pos()).Offset, lhsNew: lhsNew})
				return true
			})
		}
	}
	return sites, skipped
}

type inliner struct {
	r          *Repo
	fset       *token.FileSet
	file       *ast.File
	fname      string
	sites      map[int]inlSite // by offset of the call
	overlay    map[string][]byte
	n          int
	seq        int
	round      int
	notes      []string
	imports    map[string]string // local name -> path of the file being rewritten
	addImp     map[string]string
	failed     string
	typedInfo  *types.Info
	typedCalls map[int]*ast.CallExpr // calls of the typed tree of this file, by offset
	drop       map[ast.Stmt]bool     // statements replaced entirely by the inlined text
	unified    map[int]bool          // offsets (typed tree) of `v := e` statements whose v became the destination of the result
}

func inlineInFile(r *Repo, fname string, src []byte, sites []inlSite, overlay map[string][]byte, round int) ([]byte, int, []string, error) {
	fset := token.NewFileSet()
	file, err := parser.ParseFile(fset, fname, src, 0)
	if err != nil {
		return nil, 0, nil, err
	}
	in := &inliner{r: r, fset: fset, file: file, fname: fname, sites: map[int]inlSite{}, overlay: overlay, round: round,
		imports: map[string]string{}, addImp: map[string]string{}, unified: map[int]bool{}, drop: map[ast.Stmt]bool{}}
	for _, s := range sites {
		in.sites[s.off] = s
	}
	for _, im := range file.Imports {
		path, _ := strconv.Unquote(im.Path.Value)
		name := path[strings.LastIndex(path, "/")+1:]
		if im.Name != nil {
			name = im.Name.Name
		} else if p := in.pkgNameOf(path); p != "" {
			name = p
		}
		in.imports[name] = path
	}
	for _, d := range file.Decls {
		if fd, ok := d.(*ast.FuncDecl); ok && fd.Body != nil {
			fd.Body.List = in.stmts(fd.Body.List)
		}
	}
	if in.n == 0 {
		return src, 0, in.notes, nil
	}
	// missing imports
	if len(in.addImp) > 0 {
		var names []string
		for n := range in.addImp {
			names = append(names, n)
		}
		sort.Strings(names)
		gd := &ast.GenDecl{Tok: token.IMPORT, Lparen: 1, Rparen: 1}
		for _, n := range names {
			gd.Specs = append(gd.Specs, &ast.ImportSpec{Name: ast.NewIdent(n), Path: &ast.BasicLit{Kind: token.STRING, Value: strconv.Quote(in.addImp[n])}})
		}
		file.Decls = append([]ast.Decl{gd}, file.Decls...)
	}
	var buf bytes.Buffer
	// keep what precedes the package clause (build constraints)
	pkgOff := fset.Position(file.Package).Offset
	buf.Write(src[:pkgOff])
	file.Doc = nil
	if err := format.Node(&buf, fset, file); err != nil {
		return nil, 0, in.notes, fmt.Errorf("printing the inlined view of %s: %v", fname, err)
	}
	return buf.Bytes(), in.n, in.notes, nil
}

func (in *inliner) pkgNameOf(path string) string {
	for _, p := range in.r.Pkgs {
		if imp, ok := p.Imports[path]; ok && imp.Name != "" {
			return imp.Name
		}
		if p.Types != nil {
			for _, ip := range p.Types.Imports() {
				if ip.Path() == path {
					return ip.Name()
				}
			}
		}
	}
	return ""
}

func (in *inliner) off(p token.Pos) int { return in.fset.Position(p).Offset }

// stmts rewrites a statement list: nested lists first, then the sites at this level.
func (in *inliner) stmts(list []ast.Stmt) []ast.Stmt {
	var out []ast.Stmt
	for _, s := range list {
		out = append(out, in.stmt(s)...)
	}
	return out
}

func (in *inliner) block(b *ast.BlockStmt) {
	if b != nil {
		b.List = in.stmts(b.List)
	}
}

// funcLits rewrites the bodies of function literals inside an expression or simple statement.
func (in *inliner) funcLits(n ast.Node) {
	if n == nil {
		return
	}
	ast.Inspect(n, func(m ast.Node) bool {
		if fl, ok := m.(*ast.FuncLit); ok {
			in.block(fl.Body)
			return false
		}
		return true
	})
}

func (in *inliner) stmt(s ast.Stmt) []ast.Stmt {
	switch x := s.(type) {
	case *ast.BlockStmt:
		in.block(x)
		return []ast.Stmt{x}
	case *ast.LabeledStmt:
		r := in.stmt(x.Stmt)
		if len(r) == 1 {
			x.Stmt = r[0]
		} else {
			x.Stmt = &ast.BlockStmt{List: r}
		}
		return []ast.Stmt{x}
	case *ast.IfStmt:
		return []ast.Stmt{in.ifStmt(x)}
	case *ast.ForStmt:
		in.block(x.Body)
		in.funcLits(x.Init)
		in.funcLits(x.Cond)
		in.funcLits(x.Post)
		if x.Init != nil {
			if pre, ok := in.simple(x.Init); ok && len(pre) > 0 {
				if in.drop[x.Init] {
					x.Init = nil
				}
				return []ast.Stmt{&ast.BlockStmt{List: append(pre, x)}}
			}
		}
		return []ast.Stmt{x}
	case *ast.RangeStmt:
		in.block(x.Body)
		in.funcLits(x.X)
		if pre, ok := in.expr(&x.X, x, nil); ok && len(pre) > 0 {
			return []ast.Stmt{&ast.BlockStmt{List: append(pre, x)}}
		}
		return []ast.Stmt{x}
	case *ast.SwitchStmt:
		for _, c := range x.Body.List {
			cc := c.(*ast.CaseClause)
			cc.Body = in.stmts(cc.Body)
		}
		in.funcLits(x.Init)
		in.funcLits(x.Tag)
		var pre []ast.Stmt
		if x.Init != nil {
			if p, ok := in.simple(x.Init); ok && len(p) > 0 {
				pre = append(pre, p...)
				if !in.drop[x.Init] {
					pre = append(pre, x.Init)
				}
				x.Init = nil
			}
		}
		if x.Tag != nil {
			if p, ok := in.expr(&x.Tag, x, nil); ok && len(p) > 0 {
				if x.Init != nil {
					pre = append(pre, x.Init)
					x.Init = nil
				}
				pre = append(pre, p...)
			}
		}
		if len(pre) > 0 {
			return []ast.Stmt{&ast.BlockStmt{List: append(pre, x)}}
		}
		return []ast.Stmt{x}
	case *ast.TypeSwitchStmt:
		for _, c := range x.Body.List {
			cc := c.(*ast.CaseClause)
			cc.Body = in.stmts(cc.Body)
		}
		return []ast.Stmt{x}
	case *ast.SelectStmt:
		for _, c := range x.Body.List {
			cc := c.(*ast.CommClause)
			cc.Body = in.stmts(cc.Body)
		}
		return []ast.Stmt{x}
	case *ast.GoStmt, *ast.DeferStmt:
		in.funcLits(s)
		return []ast.Stmt{s}
	default:
		in.funcLits(s)
		pre, ok := in.simple(s)
		if !ok || len(pre) == 0 {
			return []ast.Stmt{s}
		}
		// an expression statement that was nothing but the call disappears
		if es, isES := s.(*ast.ExprStmt); isES {
			if _, isID := es.X.(*ast.Ident); isID {
				return pre
			}
		}
		if in.drop[s] {
			return pre
		}
		return append(pre, s)
	}
}

func (in *inliner) ifStmt(x *ast.IfStmt) ast.Stmt {
	in.block(x.Body)
	switch e := x.Else.(type) {
	case *ast.BlockStmt:
		in.block(e)
	case *ast.IfStmt:
		r := in.ifStmt(e)
		if b, ok := r.(*ast.BlockStmt); ok {
			x.Else = b
		} else {
			x.Else = r
		}
	}
	in.funcLits(x.Init)
	in.funcLits(x.Cond)
	// if h(a) { … } / if !h(a) { … } with a straight-line h: the statements of h, then the condition h returns, in one
	// block — so that the condition a rule looks at is the expression itself and not a variable holding its value
	if x.Init == nil {
		ce := ast.Unparen(x.Cond)
		neg := false
		if u, ok := ce.(*ast.UnaryExpr); ok && u.Op == token.NOT {
			neg = true
			ce = ast.Unparen(u.X)
		}
		if c, ok := ce.(*ast.CallExpr); ok {
			if site, ok := in.sites[in.off(c.Pos())]; ok && in.straightLine(site) {
				if pre, res, ok := in.inline(site, c, inlDest{kind: "cond"}); ok {
					var cond ast.Expr = res[0]
					if neg {
						cond = &ast.UnaryExpr{Op: token.NOT, X: cond}
					}
					x.Cond = cond
					return &ast.BlockStmt{List: append(pre, x)}
				}
			}
		}
	}
	var pre []ast.Stmt
	if x.Init != nil {
		if p, ok := in.simple(x.Init); ok && len(p) > 0 {
			pre = append(pre, p...)
			if es, isES := x.Init.(*ast.ExprStmt); (!isES || !isIdent(es.X)) && !in.drop[x.Init] {
				pre = append(pre, x.Init)
			}
			x.Init = nil
		}
	}
	if p, ok := in.expr(&x.Cond, x, nil); ok && len(p) > 0 {
		if x.Init != nil {
			pre = append(pre, x.Init)
			x.Init = nil
		}
		pre = append(pre, p...)
	}
	if len(pre) > 0 {
		return &ast.BlockStmt{List: append(pre, x)}
	}
	return x
}

func isIdent(e ast.Expr) bool { _, ok := e.(*ast.Ident); return ok }

// simple handles the simple statements: expression, assignment, return, declaration, send, inc/dec.
// It returns the statements to execute before s; s itself was changed in place.
func (in *inliner) simple(s ast.Stmt) ([]ast.Stmt, bool) {
	switch x := s.(type) {
	case *ast.ExprStmt:
		return in.expr(&x.X, s, nil)
	case *ast.AssignStmt:
		if len(x.Rhs) == 1 {
			if c, ok := ast.Unparen(x.Rhs[0]).(*ast.CallExpr); ok {
				if site, ok := in.sites[in.off(c.Pos())]; ok && in.safeBefore(s, c) && (x.Tok == token.DEFINE || x.Tok == token.ASSIGN) {
					allIdents := true
					for _, l := range x.Lhs {
						if _, ok := l.(*ast.Ident); !ok {
							allIdents = false
						}
					}
					nres := site.callee.Fn.Type().(*types.Signature).Results().Len()
					if allIdents && nres == len(x.Lhs) {
						if pre, _, ok := in.inline(site, c, inlDest{kind: "assign", lhs: x.Lhs, define: x.Tok == token.DEFINE}); ok {
							in.drop[s] = true
							return pre, true
						}
					} else if nres == len(x.Lhs) {
						if pre, res, ok := in.inline(site, c, inlDest{kind: "temps"}); ok {
							x.Rhs = res
							return pre, true
						}
					}
				}
			}
		}
		var pre []ast.Stmt
		for i := range x.Rhs {
			p, _ := in.expr(&x.Rhs[i], s, nil)
			pre = append(pre, p...)
		}
		return pre, true
	case *ast.ReturnStmt:
		if len(x.Results) == 1 {
			if c, ok := ast.Unparen(x.Results[0]).(*ast.CallExpr); ok {
				if site, ok := in.sites[in.off(c.Pos())]; ok && site.callee.Fn.Type().(*types.Signature).Results().Len() > 0 {
					if pre, _, ok := in.inline(site, c, inlDest{kind: "return"}); ok {
						in.drop[s] = true
						return pre, true
					}
				}
			}
		}
		var pre []ast.Stmt
		for i := range x.Results {
			p, _ := in.expr(&x.Results[i], s, nil)
			pre = append(pre, p...)
		}
		return pre, true
	case *ast.DeclStmt:
		gd, ok := x.Decl.(*ast.GenDecl)
		if !ok || gd.Tok != token.VAR {
			return nil, true
		}
		var pre []ast.Stmt
		for _, sp := range gd.Specs {
			vs := sp.(*ast.ValueSpec)
			if len(vs.Values) == 1 && len(vs.Names) > 1 {
				continue // var a, b = h(): left as a call
			}
			for i := range vs.Values {
				p, _ := in.expr(&vs.Values[i], s, nil)
				pre = append(pre, p...)
			}
		}
		return pre, true
	case *ast.SendStmt:
		return in.expr(&x.Value, s, nil)
	}
	return nil, true
}

// expr inlines the sites inside *e that have exactly one result and can be hoisted in front of stmt without reordering
// evaluation; a call that is the whole expression of an expression statement may have any number of results.
func (in *inliner) expr(e *ast.Expr, stmt ast.Stmt, _ interface{}) ([]ast.Stmt, bool) {
	if e == nil || *e == nil {
		return nil, true
	}
	var pre []ast.Stmt
	for iter := 0; iter < 8; iter++ {
		var target *ast.CallExpr
		var parent ast.Node
		var stack []ast.Node
		ast.Inspect(*e, func(n ast.Node) bool {
			if n == nil {
				stack = stack[:len(stack)-1]
				return true
			}
			if _, ok := n.(*ast.FuncLit); ok {
				stack = append(stack, n)
				return true // pushed; children skipped below
			}
			if c, ok := n.(*ast.CallExpr); ok && target == nil {
				if _, ok := in.sites[in.off(c.Pos())]; ok && !in.inFuncLit(stack) && in.unconditional(stack, c) && in.safeBefore(stmt, c) {
					target = c
					if len(stack) > 0 {
						parent = stack[len(stack)-1]
					}
				}
			}
			stack = append(stack, n)
			return true
		})
		if target == nil {
			break
		}
		site := in.sites[in.off(target.Pos())]
		delete(in.sites, in.off(target.Pos())) // one attempt per site
		p, res, ok := in.inline(site, target, inlDest{kind: "temps"})
		if !ok {
			continue
		}
		_, isES := stmt.(*ast.ExprStmt)
		if len(res) != 1 && !(isES && ast.Unparen(*e) == ast.Expr(target)) {
			in.n-- // undone: cannot substitute a multi-value call inside an expression
			continue
		}
		pre = append(pre, p...)
		var repl ast.Expr
		if len(res) >= 1 {
			repl = res[0]
		}
		if ast.Unparen(*e) == ast.Expr(target) || parent == nil {
			if isES {
				// an expression statement that was nothing but the call: its results are dropped, the statement `_` is
				// removed by the caller
				for _, r := range res {
					pre = append(pre, &ast.AssignStmt{Lhs: []ast.Expr{ast.NewIdent("_")}, Tok: token.ASSIGN, Rhs: []ast.Expr{r}})
				}
				*e = ast.NewIdent("_")
			} else {
				*e = repl
			}
			break
		}
		replaceChild(parent, target, repl)
	}
	return pre, true
}

func (in *inliner) inFuncLit(stack []ast.Node) bool {
	for _, n := range stack {
		if _, ok := n.(*ast.FuncLit); ok {
			return true
		}
	}
	return false
}

// unconditional: on the way from the root of the expression to c there is no right operand of && or ||.
func (in *inliner) unconditional(stack []ast.Node, c *ast.CallExpr) bool {
	var child ast.Node = c
	for i := len(stack) - 1; i >= 0; i-- {
		if be, ok := stack[i].(*ast.BinaryExpr); ok && (be.Op == token.LAND || be.Op == token.LOR) {
			if astContains(be.Y, child) {
				return false
			}
		}
		child = stack[i]
	}
	return true
}

func astContains(root, n ast.Node) bool {
	found := false
	ast.Inspect(root, func(m ast.Node) bool {
		if m == n {
			found = true
		}
		return !found
	})
	return found
}

// safeBefore: no call (or receive) that does not enclose c is evaluated before c in stmt.
func (in *inliner) safeBefore(stmt ast.Stmt, c *ast.CallExpr) bool {
	ok := true
	var roots []ast.Node
	switch x := stmt.(type) {
	case *ast.IfStmt:
		roots = []ast.Node{x.Cond}
		if x.Init != nil && astContains(x.Init, c) {
			roots = []ast.Node{x.Init}
		}
	case *ast.RangeStmt:
		roots = []ast.Node{x.X}
	case *ast.SwitchStmt:
		roots = []ast.Node{x.Tag}
		if x.Init != nil && astContains(x.Init, c) {
			roots = []ast.Node{x.Init}
		}
	case *ast.ForStmt:
		roots = []ast.Node{x.Init}
	default:
		roots = []ast.Node{stmt}
	}
	for _, root := range roots {
		if root == nil {
			continue
		}
		ast.Inspect(root, func(n ast.Node) bool {
			switch y := n.(type) {
			case *ast.FuncLit:
				return false
			case *ast.CallExpr:
				if y != c && y.Pos() < c.Pos() && !astContains(y, c) {
					ok = false
				}
			case *ast.UnaryExpr:
				if y.Op == token.ARROW && y.Pos() < c.Pos() && !astContains(y, c) {
					ok = false
				}
			}
			return true
		})
	}
	return ok
}

func replaceChild(parent ast.Node, old, repl ast.Expr) {
	switch p := parent.(type) {
	case *ast.CallExpr:
		if p.Fun == old {
			p.Fun = repl
		}
		for i := range p.Args {
			if p.Args[i] == old {
				p.Args[i] = repl
			}
		}
	case *ast.BinaryExpr:
		if p.X == old {
			p.X = repl
		}
		if p.Y == old {
			p.Y = repl
		}
	case *ast.UnaryExpr:
		if p.X == old {
			p.X = repl
		}
	case *ast.ParenExpr:
		if p.X == old {
			p.X = repl
		}
	case *ast.SelectorExpr:
		if p.X == old {
			p.X = repl
		}
	case *ast.IndexExpr:
		if p.X == old {
			p.X = repl
		}
		if p.Index == old {
			p.Index = repl
		}
	case *ast.SliceExpr:
		if p.X == old {
			p.X = repl
		}
		if p.Low == old {
			p.Low = repl
		}
		if p.High == old {
			p.High = repl
		}
	case *ast.StarExpr:
		if p.X == old {
			p.X = repl
		}
	case *ast.KeyValueExpr:
		if p.Key == old {
			p.Key = repl
		}
		if p.Value == old {
			p.Value = repl
		}
	case *ast.CompositeLit:
		for i := range p.Elts {
			if p.Elts[i] == old {
				p.Elts[i] = repl
			}
		}
	case *ast.TypeAssertExpr:
		if p.X == old {
			p.X = repl
		}
	}
}

// straightLine: the callee's body is a sequence of simple statements (no branches, loops or nested returns) that ends
// in a return of one value.
func (in *inliner) straightLine(site inlSite) bool {
	body := site.callee.Decl.Body
	if body == nil || len(body.List) == 0 || site.callee.Fn.Type().(*types.Signature).Results().Len() != 1 {
		return false
	}
	for i, st := range body.List {
		switch x := st.(type) {
		case *ast.ReturnStmt:
			if i != len(body.List)-1 || len(x.Results) != 1 {
				return false
			}
		case *ast.AssignStmt, *ast.ExprStmt, *ast.DeclStmt, *ast.IncDecStmt:
		default:
			return false
		}
	}
	_, ok := body.List[len(body.List)-1].(*ast.ReturnStmt)
	return ok
}

// typedCallAt: the call expression at this offset in the typed tree of the file being rewritten.
func (in *inliner) typedCallAt(off int) *ast.CallExpr {
	if in.typedCalls == nil {
		in.typedCalls = map[int]*ast.CallExpr{}
		for _, p := range in.r.Pkgs {
			for _, f := range p.Syntax {
				if in.r.Fset.Position(f.Pos()).Filename != in.fname {
					continue
				}
				in.typedInfo = p.TypesInfo
				ast.Inspect(f, func(n ast.Node) bool {
					if c, ok := n.(*ast.CallExpr); ok {
						in.typedCalls[in.r.Fset.Position(c.Pos()).Offset] = c
					}
					return true
				})
			}
		}
	}
	return in.typedCalls[off]
}

// cannotChangeFields: nothing the function does can change a field with one of these names — it assigns no such field,
// takes no address of one, and calls only builtins, conversions, functions of other packages that get no pointer to the
// struct (package-level functions of the standard library) and helpers outside the baseline for which the same holds.
func (in *inliner) cannotChangeFields(fi *FuncInfo, fields map[string]bool, depth int) bool {
	if depth > 3 || fi.Decl.Body == nil {
		return false
	}
	info := fi.Pkg.TypesInfo
	ok := true
	touches := func(e ast.Expr) bool {
		sel, isSel := ast.Unparen(e).(*ast.SelectorExpr)
		return isSel && fields[sel.Sel.Name]
	}
	ast.Inspect(fi.Decl.Body, func(n ast.Node) bool {
		switch x := n.(type) {
		case *ast.AssignStmt:
			for _, l := range x.Lhs {
				if touches(l) {
					ok = false
				}
			}
		case *ast.IncDecStmt:
			if touches(x.X) {
				ok = false
			}
		case *ast.UnaryExpr:
			if x.Op == token.AND && touches(x.X) {
				ok = false
			}
		case *ast.RangeStmt:
			if x.Tok == token.ASSIGN && ((x.Key != nil && touches(x.Key)) || (x.Value != nil && touches(x.Value))) {
				ok = false
			}
		case *ast.CallExpr:
			if tv, isT := info.Types[x.Fun]; isT && tv.IsType() {
				return true
			}
			switch o := callee(info, x).(type) {
			case *types.Builtin:
			case *types.Func:
				if o.Pkg() != nil && !strings.HasPrefix(o.Pkg().Path(), modPath) {
					if rv := o.Type().(*types.Signature).Recv(); rv == nil || !types.IsInterface(rv.Type()) {
						return true // a function, or a method of a concrete type, of another module: it knows nothing of these fields
					}
				}
				if osig := o.Type().(*types.Signature); osig.Recv() != nil {
					if _, isIface := osig.Recv().Type().Underlying().(*types.Interface); isIface {
						if !in.ifaceMethodLeavesFields(info, x, fields, depth) {
							ok = false
						}
						return true
					}
				}
				cfi := in.r.Decls[o]
				if cfi == nil || baselineFuncs[funcKey(o)] || !in.cannotChangeFields(cfi, fields, depth+1) {
					ok = false
				}
			default:
				resolved := in.ifaceMethodLeavesFields(info, x, fields, depth)
				if !resolved {
					if os.Getenv("GDV_DEBUG_INLINE") != "" {
						fmt.Fprintf(os.Stderr, "cannotChangeFields: unresolved call %s in %s\n", exprStr(x), fi.Fn.Name())
					}
					ok = false // a function value, or an interface method with an implementation that could
				}
			}
		}
		return true
	})
	return ok
}

// where the results of an inlined call go
type inlDest struct {
	kind   string     // "temps" | "assign" | "return"
	lhs    []ast.Expr // assign: identifiers (or _) that receive the results directly
	define bool       // assign: the statement was a := (lhsNew says which identifiers it declared)
}

// inline builds the statements that execute the callee's body for this call. With dest.kind == "temps" the results are
// left in fresh variables, which are returned; with "assign" they are assigned to dest.lhs where the callee returns; with
// "return" the callee's returns remain returns of the caller (the call was the operand of a return statement).
//
// Every local of the callee (parameters, results, variables) gets a fresh name, so nothing of the caller is captured and
// nothing of the callee captures; a parameter that is never assigned and whose argument is a variable is replaced by that
// variable; a local variable that every return returns is replaced by the variable that receives the result.
func (in *inliner) inline(site inlSite, call *ast.CallExpr, dest inlDest) ([]ast.Stmt, []ast.Expr, bool) {
	delete(in.sites, in.off(call.Pos()))
	fi := site.callee
	tinfo := fi.Pkg.TypesInfo
	cfile := in.r.Fset.Position(fi.Decl.Pos()).Filename
	csrc := in.overlay[cfile]
	if csrc == nil {
		b, err := os.ReadFile(cfile)
		if err != nil {
			return nil, nil, false
		}
		csrc = b
	}
	cf, err := parser.ParseFile(in.fset, cfile+fmt.Sprintf("#%d.%d", in.round, in.seq), csrc, 0)
	if err != nil {
		return nil, nil, false
	}
	var decl *ast.FuncDecl
	for _, d := range cf.Decls {
		if fd, ok := d.(*ast.FuncDecl); ok && in.fset.Position(fd.Pos()).Offset == site.calleeOff {
			decl = fd
		}
	}
	if decl == nil || decl.Body == nil {
		return nil, nil, false
	}
	// imports the callee's text needs
	if cfile != in.fname {
		need := map[string]string{}
		ast.Inspect(fi.Decl, func(n ast.Node) bool {
			if id, ok := n.(*ast.Ident); ok {
				if pn, ok := tinfo.Uses[id].(*types.PkgName); ok {
					need[id.Name] = pn.Imported().Path()
				}
			}
			return true
		})
		for name, path := range need {
			if have, ok := in.imports[name]; ok {
				if have != path {
					in.notes = append(in.notes, fmt.Sprintf("normalise: %s not inlined into %s (import name %s means another package there)", funcKey(fi.Fn), in.fname, name))
					return nil, nil, false
				}
				continue
			}
			for n2, p2 := range in.imports {
				if p2 == path && n2 != name {
					in.notes = append(in.notes, fmt.Sprintf("normalise: %s not inlined into %s (package %s is imported under another name there)", funcKey(fi.Fn), in.fname, path))
					return nil, nil, false
				}
			}
			in.addImp[name] = path
			in.imports[name] = path
		}
	}
	in.seq++
	in.n++
	sfx := fmt.Sprintf("_i%d_%d", in.round, in.seq)
	label := "L" + sfx

	// the callee's own objects (typed tree) and how they are written in the inlined text
	declStart, declEnd := fi.Decl.Pos(), fi.Decl.End()
	local := func(o types.Object) bool { return o != nil && o.Pos() >= declStart && o.Pos() < declEnd }
	assigned := map[types.Object]bool{} // assigned, incremented or address taken somewhere in the body
	ast.Inspect(fi.Decl.Body, func(n ast.Node) bool {
		mark := func(e ast.Expr) {
			if id, ok := ast.Unparen(e).(*ast.Ident); ok {
				if o := tinfo.Uses[id]; o != nil {
					assigned[o] = true
				}
			}
		}
		switch x := n.(type) {
		case *ast.AssignStmt:
			for _, l := range x.Lhs {
				mark(l)
			}
		case *ast.IncDecStmt:
			mark(x.X)
		case *ast.UnaryExpr:
			if x.Op == token.AND {
				mark(x.X)
			}
		case *ast.RangeStmt:
			if x.Tok == token.ASSIGN {
				if x.Key != nil {
					mark(x.Key)
				}
				if x.Value != nil {
					mark(x.Value)
				}
			}
		}
		return true
	})
	names := map[types.Object]string{}
	// the typed call (for the kinds of its argument expressions)
	typedCall := in.typedCallAt(in.off(call.Pos()))
	argIndex := map[ast.Expr]int{}
	for i, a := range call.Args {
		argIndex[a] = i
	}
	// argVar: the argument is a variable, or a chain of field selections on a variable that the callee cannot change
	// (x.f.g, with a callee that neither assigns a field of that name nor calls anything that could): such an argument
	// replaces the parameter
	argVar := func(e ast.Expr) (string, bool) {
		e = ast.Unparen(e)
		if id, ok := e.(*ast.Ident); ok {
			if id.Name == "_" || id.Name == "nil" || id.Name == "true" || id.Name == "false" || id.Name == "iota" {
				return "", false
			}
			return id.Name, true
		}
		if typedCall == nil {
			return "", false
		}
		var typed ast.Expr
		if i, ok := argIndex[e]; ok && i < len(typedCall.Args) {
			typed = ast.Unparen(typedCall.Args[i])
		} else if sel, ok := ast.Unparen(call.Fun).(*ast.SelectorExpr); ok && ast.Unparen(sel.X) == e {
			if tsel, ok := ast.Unparen(typedCall.Fun).(*ast.SelectorExpr); ok {
				typed = ast.Unparen(tsel.X)
			}
		}
		if typed == nil {
			return "", false
		}
		cinfo := in.typedInfo
		fields := map[string]bool{}
		cur := typed
		for {
			sel, ok := cur.(*ast.SelectorExpr)
			if !ok {
				break
			}
			s := cinfo.Selections[sel]
			if s == nil || s.Kind() != types.FieldVal {
				return "", false
			}
			fields[sel.Sel.Name] = true
			cur = ast.Unparen(sel.X)
		}
		root, ok := cur.(*ast.Ident)
		if !ok || len(fields) == 0 {
			return "", false
		}
		if _, isVar := cinfo.Uses[root].(*types.Var); !isVar {
			return "", false
		}
		if !in.cannotChangeFields(fi, fields, 0) {
			return "", false
		}
		return types.ExprString(typed), true
	}
	var pre, inner []ast.Stmt
	declVar := func(name string, typ ast.Expr, val ast.Expr) ast.Stmt {
		vs := &ast.ValueSpec{Names: []*ast.Ident{ast.NewIdent(name)}, Type: typ}
		if val != nil {
			vs.Values = []ast.Expr{val}
		}
		return &ast.DeclStmt{Decl: &ast.GenDecl{Tok: token.VAR, Specs: []ast.Spec{vs}}}
	}
	use := func(name string) ast.Stmt {
		return &ast.AssignStmt{Lhs: []ast.Expr{ast.NewIdent("_")}, Tok: token.ASSIGN, Rhs: []ast.Expr{ast.NewIdent(name)}}
	}
	// typed parameter / receiver / result objects, in order
	sig := fi.Fn.Type().(*types.Signature)
	bind := func(obj *types.Var, typ ast.Expr, arg ast.Expr) {
		if obj == nil || obj.Name() == "_" || obj.Name() == "" {
			tmp := "arg" + sfx + "_" + strconv.Itoa(len(pre))
			pre = append(pre, declVar(tmp, typ, arg), use(tmp))
			return
		}
		if an, ok := argVar(arg); ok && !assigned[obj] {
			names[obj] = an
			return
		}
		nm := obj.Name() + sfx
		names[obj] = nm
		pre = append(pre, declVar(nm, typ, arg), use(nm))
	}
	if decl.Recv != nil && len(decl.Recv.List) == 1 {
		sel := ast.Unparen(call.Fun).(*ast.SelectorExpr)
		var rx ast.Expr = sel.X
		switch site.recvAdj {
		case "&":
			rx = &ast.UnaryExpr{Op: token.AND, X: rx}
		case "*":
			rx = &ast.StarExpr{X: rx}
		}
		bind(sig.Recv(), decl.Recv.List[0].Type, rx)
	}
	ai := 0
	if decl.Type.Params != nil {
		for _, f := range decl.Type.Params.List {
			k := len(f.Names)
			if k == 0 {
				k = 1
			}
			for j := 0; j < k; j++ {
				if ai >= len(call.Args) || ai >= sig.Params().Len() {
					in.n--
					return nil, nil, false
				}
				bind(sig.Params().At(ai), f.Type, call.Args[ai])
				ai++
			}
		}
	}
	if ai != len(call.Args) {
		in.n--
		return nil, nil, false
	}
	// results
	nres := sig.Results().Len()
	var resTypes []ast.Expr
	if decl.Type.Results != nil {
		for _, f := range decl.Type.Results.List {
			k := len(f.Names)
			if k == 0 {
				k = 1
			}
			for j := 0; j < k; j++ {
				resTypes = append(resTypes, f.Type)
			}
		}
	}
	var dst []ast.Expr // what a return assigns to
	var res []ast.Expr // what stands for the call afterwards (temps)
	switch dest.kind {
	case "assign":
		for i, l := range dest.lhs {
			id := l.(*ast.Ident)
			if dest.define && id.Name != "_" && i < len(site.lhsNew) && site.lhsNew[i] {
				pre = append(pre, declVar(id.Name, resTypes[i], nil))
			}
			dst = append(dst, ast.NewIdent(id.Name))
		}
	case "temps":
		for i := 0; i < nres; i++ {
			tmp := "res" + sfx + "_" + strconv.Itoa(i)
			pre = append(pre, declVar(tmp, resTypes[i], nil))
			dst = append(dst, ast.NewIdent(tmp))
			res = append(res, ast.NewIdent(tmp))
		}
	}
	// a local variable that every return returns for result i becomes the destination itself (assign context, new variable)
	if dest.kind == "assign" && dest.define {
		for i := 0; i < nres && i < len(dest.lhs); i++ {
			id := dest.lhs[i].(*ast.Ident)
			if id.Name == "_" || i >= len(site.lhsNew) || !site.lhsNew[i] {
				continue
			}
			var same types.Object
			okAll := true
			ast.Inspect(fi.Decl.Body, func(n ast.Node) bool {
				if _, ok := n.(*ast.FuncLit); ok {
					return false
				}
				ret, ok := n.(*ast.ReturnStmt)
				if !ok {
					return true
				}
				if len(ret.Results) != nres {
					okAll = false
					return true
				}
				rid, ok := ast.Unparen(ret.Results[i]).(*ast.Ident)
				if !ok || !local(tinfo.Uses[rid]) {
					// any other operand (a constant on an error path, ...) is simply assigned to the destination, unless it
					// reads the local itself
					return true
				}
				if same == nil {
					same = tinfo.Uses[rid]
				} else if same != tinfo.Uses[rid] {
					okAll = false
				}
				return true
			})
			if !okAll || same == nil {
				continue
			}
			// declared by a single `v := e` at the top level of the body
			for _, st := range fi.Decl.Body.List {
				as, ok := st.(*ast.AssignStmt)
				if ok && as.Tok == token.DEFINE && len(as.Lhs) == 1 && len(as.Rhs) == 1 {
					if l, ok := as.Lhs[0].(*ast.Ident); ok && tinfo.Defs[l] == same {
						if _, taken := names[same]; !taken {
							names[same] = id.Name
							in.unified[in.r.Fset.Position(as.Pos()).Offset] = true
						}
					}
				}
			}
		}
	}
	// named results are variables of the body
	for i := 0; i < nres; i++ {
		rv := sig.Results().At(i)
		if rv.Name() != "" && rv.Name() != "_" {
			nm := rv.Name() + sfx
			names[rv] = nm
			inner = append(inner, declVar(nm, resTypes[i], nil), use(nm))
		}
	}
	// rename: offset of every identifier of the callee's declaration that refers to one of its own objects
	ren := map[int]string{}
	ast.Inspect(fi.Decl, func(n ast.Node) bool {
		id, ok := n.(*ast.Ident)
		if !ok {
			return true
		}
		o := tinfo.Uses[id]
		if o == nil {
			o = tinfo.Defs[id]
		}
		if !local(o) || id.Name == "_" {
			return true
		}
		if _, isLabel := o.(*types.Label); isLabel {
			return true
		}
		nm, ok := names[o]
		if !ok {
			if v, isVar := o.(*types.Var); isVar && v.IsField() {
				return true
			}
			nm = o.Name() + sfx
			names[o] = nm
		}
		ren[in.r.Fset.Position(id.Pos()).Offset] = nm
		return true
	})
	ast.Inspect(decl.Body, func(n ast.Node) bool {
		switch x := n.(type) {
		case *ast.Ident:
			if nm, ok := ren[in.fset.Position(x.Pos()).Offset]; ok {
				x.Name = nm
			}
		case *ast.KeyValueExpr:
			// the key of a struct literal is a field name, never a local (typed tree: Uses maps it to the field)
		}
		return true
	})
	// `v := e` of a unified variable becomes `v = e`
	ast.Inspect(decl.Body, func(n ast.Node) bool {
		if as, ok := n.(*ast.AssignStmt); ok && as.Tok == token.DEFINE && in.unified[in.fset.Position(as.Pos()).Offset] {
			as.Tok = token.ASSIGN
			delete(in.unified, in.fset.Position(as.Pos()).Offset)
		}
		return true
	})
	namedOf := func(i int) string {
		rv := sig.Results().At(i)
		if rv.Name() != "" && rv.Name() != "_" {
			return names[rv]
		}
		return ""
	}
	// returns
	usedLabel := false
	var rewrite func(list []ast.Stmt, tail bool) []ast.Stmt
	var rewriteStmt func(s ast.Stmt, tail bool)
	rewriteStmt = func(s ast.Stmt, tail bool) {
		switch x := s.(type) {
		case *ast.BlockStmt:
			x.List = rewrite(x.List, tail)
		case *ast.IfStmt:
			rewriteStmt(x.Body, tail)
			if x.Else != nil {
				rewriteStmt(x.Else, tail)
			}
		case *ast.ForStmt:
			rewriteStmt(x.Body, false)
		case *ast.RangeStmt:
			rewriteStmt(x.Body, false)
		case *ast.SwitchStmt:
			for _, c := range x.Body.List {
				cc := c.(*ast.CaseClause)
				cc.Body = rewrite(cc.Body, false)
			}
		case *ast.TypeSwitchStmt:
			for _, c := range x.Body.List {
				cc := c.(*ast.CaseClause)
				cc.Body = rewrite(cc.Body, false)
			}
		case *ast.SelectStmt:
			for _, c := range x.Body.List {
				cc := c.(*ast.CommClause)
				cc.Body = rewrite(cc.Body, false)
			}
		}
	}
	selfAssign := func(l, r []ast.Expr) bool {
		if len(l) != len(r) {
			return false
		}
		for i := range l {
			a, ok1 := l[i].(*ast.Ident)
			b, ok2 := ast.Unparen(r[i]).(*ast.Ident)
			if !ok1 || !ok2 || a.Name != b.Name {
				return false
			}
		}
		return true
	}
	copyIdents := func(es []ast.Expr) []ast.Expr {
		var out []ast.Expr
		for _, e := range es {
			out = append(out, ast.NewIdent(e.(*ast.Ident).Name))
		}
		return out
	}
	rewrite = func(list []ast.Stmt, tail bool) []ast.Stmt {
		var out []ast.Stmt
		for i, s := range list {
			last := tail && i == len(list)-1
			ret, ok := s.(*ast.ReturnStmt)
			if !ok {
				rewriteStmt(s, last)
				out = append(out, s)
				continue
			}
			if dest.kind == "return" {
				if len(ret.Results) == 0 && nres > 0 {
					for k := 0; k < nres; k++ {
						ret.Results = append(ret.Results, ast.NewIdent(namedOf(k)))
					}
				}
				out = append(out, ret)
				continue
			}
			brk := &ast.BranchStmt{Tok: token.BREAK, Label: ast.NewIdent(label)}
			switch {
			case nres == 0 || len(dst) == 0:
				// results dropped: still evaluate the operands
				for _, e := range ret.Results {
					if pureOperand(e) {
						continue // `_ = nil` does not compile, and a name or a literal has nothing to evaluate
					}
					out = append(out, &ast.AssignStmt{Lhs: []ast.Expr{ast.NewIdent("_")}, Tok: token.ASSIGN, Rhs: []ast.Expr{e}})
				}
			case len(ret.Results) == 0:
				var rhs []ast.Expr
				for k := 0; k < nres; k++ {
					rhs = append(rhs, ast.NewIdent(namedOf(k)))
				}
				out = append(out, &ast.AssignStmt{Lhs: copyIdents(dst), Tok: token.ASSIGN, Rhs: rhs})
			case len(ret.Results) == len(dst):
				// components that return the destination itself (a unified local) need no assignment
				var l, rr []ast.Expr
				for k := range dst {
					if b, ok := ast.Unparen(ret.Results[k]).(*ast.Ident); ok && b.Name == dst[k].(*ast.Ident).Name {
						continue
					}
					if dst[k].(*ast.Ident).Name == "_" && pureOperand(ret.Results[k]) {
						continue // a dropped result that is a name or a literal (`_ = nil` does not compile)
					}
					l = append(l, ast.NewIdent(dst[k].(*ast.Ident).Name))
					rr = append(rr, ret.Results[k])
				}
				if len(l) > 0 {
					out = append(out, &ast.AssignStmt{Lhs: l, Tok: token.ASSIGN, Rhs: rr})
				}
			default:
				if !selfAssign(dst, ret.Results) {
					out = append(out, &ast.AssignStmt{Lhs: copyIdents(dst), Tok: token.ASSIGN, Rhs: ret.Results})
				}
			}
			if !last {
				usedLabel = true
				out = append(out, brk)
			}
		}
		return out
	}
	if dest.kind == "cond" {
		// the callee is straight-line code that ends in `return E`: its statements, then E itself where the call stood
		n := len(decl.Body.List)
		ret, ok := decl.Body.List[n-1].(*ast.ReturnStmt)
		if !ok || len(ret.Results) != 1 {
			in.n--
			return nil, nil, false
		}
		out := append(append([]ast.Stmt{}, pre...), inner...)
		out = append(out, decl.Body.List[:n-1]...)
		return out, []ast.Expr{&ast.ParenExpr{X: ret.Results[0]}}, true
	}
	body := rewrite(decl.Body.List, true)
	if dest.kind != "return" && nres > 0 && len(dst) > 0 {
		// falling off the end of a function with results cannot happen (the compiler demands a terminating statement)
	}
	if dest.kind == "return" {
		inner = append(inner, body...)
		pre = append(pre, &ast.BlockStmt{List: inner})
		return pre, nil, true
	}
	if usedLabel {
		sw := &ast.SwitchStmt{Body: &ast.BlockStmt{List: []ast.Stmt{&ast.CaseClause{Body: body}}}}
		inner = append(inner, &ast.LabeledStmt{Label: ast.NewIdent(label), Stmt: sw})
	} else {
		inner = append(inner, body...)
	}
	pre = append(pre, &ast.BlockStmt{List: inner})
	return pre, res, true
}

// pureOperand: a name or a literal — evaluating it has no effect.
func pureOperand(e ast.Expr) bool {
	switch ast.Unparen(e).(type) {
	case *ast.Ident, *ast.BasicLit:
		return true
	}
	return false
}

// ifaceMethodLeavesFields: the call is a call of an interface method, and every implementation of that method in this module
// leaves fields with these names alone.
func (in *inliner) ifaceMethodLeavesFields(info *types.Info, x *ast.CallExpr, fields map[string]bool, depth int) bool {
	sel, isSel := ast.Unparen(x.Fun).(*ast.SelectorExpr)
	if !isSel {
		return false
	}
	s := info.Selections[sel]
	if s == nil || s.Kind() != types.MethodVal {
		return false
	}
	iface, isIface := s.Recv().Underlying().(*types.Interface)
	if !isIface {
		return false
	}
	n := 0
	for fn, cfi := range in.r.Decls {
		sig, _ := fn.Type().(*types.Signature)
		if sig == nil || sig.Recv() == nil || fn.Name() != sel.Sel.Name {
			continue
		}
		rt := sig.Recv().Type()
		if !types.Implements(rt, iface) {
			if _, isPtr := rt.(*types.Pointer); isPtr || !types.Implements(types.NewPointer(rt), iface) {
				continue
			}
		}
		n++
		if !in.cannotChangeFields(cfi, fields, depth+1) {
			return false
		}
	}
	return n > 0
}
