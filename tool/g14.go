package main

import (
	"fmt"
	"go/ast"
	"go/token"
	"go/types"
	"strings"
)

// G14: small driver rules added after the second wave of seeded changes.

// g14ReservedProvenance: the reserved-name set handed to the name tables may be filled only from the user's files
// (fileInfo.funcNames, which find.go builds while skipping derived.gen.go) or from constants. Anything taken from the
// type-checked package as a whole (Scope, Defs, Uses, Files) includes the functions of the previous derived.gen.go, so the
// fresh names chosen would depend on the previous output.
func g14ReservedProvenance(c *Ctx) {
	r, rep := c.Repo, c.Rep
	// with the previous output hidden from the first pass (G22) the type-checked package holds nothing but the user's files and,
	// after a reload, what this very run has generated: names taken from it are a function of the current sources
	previousOutputHidden := staleHidden(c).goFiles
	fi := r.lookup("derive.newPackage")
	ntm := r.lookup("derive.newTypesMap")
	if fi == nil || ntm == nil {
		rep.fail(Finding{Rule: "G14", Key: "G14|reserved|missing", Kind: "undecided", Msg: "newPackage/newTypesMap not found"})
		return
	}
	info := fi.Pkg.TypesInfo
	var resVar types.Object
	ast.Inspect(fi.Decl.Body, func(n ast.Node) bool {
		if c, ok := n.(*ast.CallExpr); ok && callee(info, c) == ntm.Fn {
			if o := reservedSetArg(info, fi.Decl.Body, ntm.Fn, c); o != nil {
				resVar = o
			}
		}
		return true
	})
	if resVar == nil {
		rep.fail(Finding{Rule: "G14", Key: "G14|reserved|arg", Kind: "undecided", Where: []string{r.pos(fi.Decl.Pos())}, Msg: "cannot identify the reserved-name set passed to newTypesMap"})
		return
	}
	par := parents(fi.Decl)
	// value sources of one store
	classify := func(store ast.Node, vals []ast.Expr) {
		// expand the enclosing range statements' iteration sources: `for _, name := range X` makes name depend on X
		var srcs []ast.Node
		for _, v := range vals {
			srcs = append(srcs, v)
		}
		for p := par[store]; p != nil; p = par[p] {
			if rs, ok := p.(*ast.RangeStmt); ok {
				srcs = append(srcs, rs.X)
			}
		}
		// a local variable stands for what it was assigned (scope := pkgInfo.Pkg.Scope())
		for i := 0; i < len(srcs) && i < 16; i++ {
			ast.Inspect(srcs[i], func(m ast.Node) bool {
				id, ok := m.(*ast.Ident)
				if !ok {
					return true
				}
				o := info.Uses[id]
				if _, isVar := o.(*types.Var); !isVar || o.Parent() == nil {
					return true
				}
				ast.Inspect(fi.Decl.Body, func(k ast.Node) bool {
					if as, ok := k.(*ast.AssignStmt); ok && as.Tok == token.DEFINE && len(as.Lhs) == 1 && len(as.Rhs) == 1 {
						if l, ok := as.Lhs[0].(*ast.Ident); ok && info.Defs[l] == o {
							dup := false
							for _, have := range srcs {
								if have == ast.Node(as.Rhs[0]) {
									dup = true
								}
							}
							if !dup {
								srcs = append(srcs, as.Rhs[0])
							}
						}
					}
					return true
				})
				return true
			})
		}
		whole := ""
		user := false
		opaque := ""
		for _, s := range srcs {
			ast.Inspect(s, func(m ast.Node) bool {
				switch x := m.(type) {
				case *ast.SelectorExpr:
					switch x.Sel.Name {
					case "funcNames":
						user = true
					case "Scope", "Defs", "Uses", "Files", "Implicits", "Selections", "Types", "AllPackages", "Imported", "Created":
						if whole == "" {
							whole = exprStr(x)
						}
					}
				case *ast.CallExpr:
					if fn, ok := callee(info, x).(*types.Func); ok && fn.Pkg() != nil && fn.Pkg().Path() != fi.Pkg.PkgPath && opaque == "" {
						if !(fn.Pkg().Path() == "go/types" && fn.Name() == "Scope") {
							opaque = exprStr(x)
						}
					}
				}
				return true
			})
		}
		switch {
		case whole != "" && previousOutputHidden:
			rep.pass("G14")
			rep.sample(map[string]string{"rule": "G14 reserved names from the whole package: harmless while the previous output is hidden (G22)", "site": r.pos(store.Pos()), "source": whole})
		case whole != "":
			rep.fail(Finding{Rule: "G14", Key: "G14|reserved|whole-package-source", Where: []string{r.pos(store.Pos())},
				Msg: fmt.Sprintf("newPackage adds names taken from %s to the reserved set: the type-checked package includes the functions of the previous derived.gen.go, so fresh helper names would avoid the names of the previous output and change from run to run", whole)})
		case user:
			rep.pass("G14")
		default:
			onlyConst := true
			for _, v := range vals {
				if tv, ok := info.Types[v]; !ok || tv.Value == nil {
					if _, isLit := v.(*ast.CompositeLit); !isLit {
						onlyConst = false
					}
				}
			}
			if onlyConst && opaque == "" && len(srcs) == len(vals) {
				rep.pass("G14")
				return
			}
			rep.fail(Finding{Rule: "G14", Key: "G14|reserved|source-undecided", Kind: "undecided", Where: []string{r.pos(store.Pos())},
				Msg: "newPackage adds names to the reserved set from a source the rule cannot attribute to the user's files: " + exprStr(vals[0])})
		}
	}
	n := 0
	ast.Inspect(fi.Decl.Body, func(m ast.Node) bool {
		switch x := m.(type) {
		case *ast.ExprStmt:
			// maps.Copy(reserved, X): every key of X is added
			if c, ok := x.X.(*ast.CallExpr); ok && isPkgFunc(callee(info, c), "maps", "Copy") && len(c.Args) == 2 {
				if id, ok := ast.Unparen(c.Args[0]).(*ast.Ident); ok && info.Uses[id] == resVar {
					n++
					classify(x, []ast.Expr{c.Args[1]})
				}
			}
		case *ast.AssignStmt:
			for i, l := range x.Lhs {
				if ix, ok := l.(*ast.IndexExpr); ok {
					if id, ok := ix.X.(*ast.Ident); ok && info.Uses[id] == resVar {
						n++
						classify(x, []ast.Expr{ix.Index})
					}
					continue
				}
				if id, ok := l.(*ast.Ident); ok && (info.Uses[id] == resVar || info.Defs[id] == resVar) && i < len(x.Rhs) {
					rhs := x.Rhs[i]
					// reserved := make(...) / reserved = union(reserved, X)
					if c, ok := rhs.(*ast.CallExpr); ok {
						if bi, ok := callee(info, c).(*types.Builtin); ok && bi.Name() == "make" {
							continue
						}
						var vals []ast.Expr
						for _, a := range c.Args {
							if aid, ok := a.(*ast.Ident); ok && info.Uses[aid] == resVar {
								continue
							}
							vals = append(vals, a)
						}
						if len(vals) > 0 {
							n++
							classify(x, vals)
							continue
						}
					}
					n++
					classify(x, []ast.Expr{rhs})
				}
			}
		}
		return true
	})
	rep.analysed("reserved_stores", n)
	if n == 0 {
		rep.fail(Finding{Rule: "G14", Key: "G14|reserved|no-store", Kind: "undecided", Where: []string{r.pos(fi.Decl.Pos())}, Msg: "no store into the reserved set found in newPackage"})
	}
}

// g14AddNameUsed: the name (*pkg).Add returns for a call is the name of the function that will be generated for it.
// Every call site of Add in the driver (directly, or through a local closure that returns Add's results) must bind that name
// and, in the same function, the binding must flow into `call.Expr.Fun = ast.NewIdent(name)`; a discarded name means a
// rename decided by the tables (-autoname / -dedup) never reaches the call site.
func g14AddNameUsed(r *Repo, rep *Report) {
	add := r.lookup("derive.(*pkg).Add")
	if add == nil {
		rep.fail(Finding{Rule: "G14", Key: "G14|add|missing", Kind: "undecided", Msg: "(*pkg).Add not found"})
		return
	}
	sites := 0
	for _, fi := range r.sortedFuncs() {
		if fi.Pkg.Name != "derive" {
			continue
		}
		info := fi.Pkg.TypesInfo
		par := parents(fi.Decl)
		// local closures that forward Add's results: v := func(...) (string, error) { ... return pkg.Add(call) }
		wrappers := map[types.Object]bool{}
		ast.Inspect(fi.Decl.Body, func(n ast.Node) bool {
			as, ok := n.(*ast.AssignStmt)
			if !ok || len(as.Lhs) != 1 || len(as.Rhs) != 1 {
				return true
			}
			lit, ok := as.Rhs[0].(*ast.FuncLit)
			if !ok {
				return true
			}
			fwd := false
			ast.Inspect(lit.Body, func(m ast.Node) bool {
				if rs, ok := m.(*ast.ReturnStmt); ok && len(rs.Results) == 1 {
					if c, ok := rs.Results[0].(*ast.CallExpr); ok && callee(info, c) == add.Fn {
						fwd = true
					}
				}
				return true
			})
			if fwd {
				if id, ok := as.Lhs[0].(*ast.Ident); ok {
					if o := info.Defs[id]; o != nil {
						wrappers[o] = true
					} else if o := info.Uses[id]; o != nil {
						wrappers[o] = true
					}
				}
			}
			return true
		})
		isAdd := func(c *ast.CallExpr) bool {
			if callee(info, c) == add.Fn {
				return true
			}
			if id, ok := c.Fun.(*ast.Ident); ok && wrappers[info.Uses[id]] {
				return true
			}
			return false
		}
		ast.Inspect(fi.Decl.Body, func(n ast.Node) bool {
			c, ok := n.(*ast.CallExpr)
			if !ok || !isAdd(c) {
				return true
			}
			// forwarded by a return: fine (the wrapper's callers are checked)
			if _, isRet := par[c].(*ast.ReturnStmt); isRet {
				return true
			}
			sites++
			as, ok := par[c].(*ast.AssignStmt)
			var nameObj types.Object
			if ok && len(as.Lhs) == 2 {
				if id, ok := as.Lhs[0].(*ast.Ident); ok && id.Name != "_" {
					nameObj = info.Defs[id]
					if nameObj == nil {
						nameObj = info.Uses[id]
					}
				}
			}
			if nameObj == nil {
				rep.fail(Finding{Rule: "G14", Key: "G14|add|" + funcKey(fi.Fn) + "|name-discarded", Where: []string{r.pos(c.Pos())},
					Msg: fmt.Sprintf("%s discards the function name returned by (*pkg).Add: when the tables pick another name for this call (-autoname/-dedup) the call site keeps the old identifier and calls a function that is not generated, or one generated for other types", funcKey(fi.Fn))})
				return true
			}
			// the binding reaches `X.Fun = ast.NewIdent(name)`
			reaches := false
			ast.Inspect(fi.Decl.Body, func(m ast.Node) bool {
				st, ok := m.(*ast.AssignStmt)
				if !ok || len(st.Lhs) != 1 || len(st.Rhs) != 1 || st.Pos() < c.Pos() {
					return true
				}
				sel, ok := st.Lhs[0].(*ast.SelectorExpr)
				if !ok || sel.Sel.Name != "Fun" {
					return true
				}
				if nameE, _ := replacementIdent(info, st.Rhs[0]); nameE != nil {
					if id, ok := nameE.(*ast.Ident); ok && info.Uses[id] == nameObj {
						reaches = true
					}
				}
				return true
			})
			if reaches {
				rep.pass("G14")
				rep.sample(map[string]string{"rule": "G14 Add's name reaches the call identifier", "site": r.pos(c.Pos())})
			} else {
				rep.fail(Finding{Rule: "G14", Key: "G14|add|" + funcKey(fi.Fn) + "|name-not-applied", Where: []string{r.pos(c.Pos())},
					Msg: fmt.Sprintf("%s binds the name returned by (*pkg).Add but never stores it into the call expression (call.Expr.Fun = ast.NewIdent(name))", funcKey(fi.Fn))})
			}
			return true
		})
	}
	rep.analysed("add_call_sites", sites)
	if sites == 0 {
		rep.fail(Finding{Rule: "G14", Key: "G14|add|no-site", Kind: "undecided", Msg: "no call of (*pkg).Add found in the driver"})
	}
}

// g14NilPkg: (types.Object).Pkg() is nil for predeclared objects (error, any, the basic types). A package value obtained
// from it must be nil-checked before it is dereferenced or handed to the qualifier (which dereferences it). Accepted:
// use inside the true branch of `p != nil`; use after `if p == nil { return/continue }`; passing it on to go/types
// constructors (NewVar etc. accept nil); (*typesMap).IsExternal, whose argument is established to be a struct at every
// plugin call site (checked by the abstract interpreter: predeclared named types are never structs).
func g14NilPkg(r *Repo, rep *Report) {
	n := 0
	for _, b := range r.bodies() {
		info := b.Pkg.TypesInfo
		isPkgCall := func(e ast.Expr) bool {
			c, ok := ast.Unparen(e).(*ast.CallExpr)
			if !ok || len(c.Args) != 0 {
				return false
			}
			fn, ok := callee(info, c).(*types.Func)
			if !ok || fn.Name() != "Pkg" || fn.Pkg() == nil || fn.Pkg().Path() != "go/types" {
				return false
			}
			return true
		}
		guarded := func(use ast.Node, v types.Object) bool {
			for p, child := b.Parent[use], use; p != nil; child, p = p, b.Parent[p] {
				switch x := p.(type) {
				case *ast.IfStmt:
					if child == x.Body {
						for _, cj := range conjuncts(x.Cond) {
							if op, ok := nilCompare(info, cj, v); ok && op == token.NEQ {
								return true
							}
						}
					}
				case *ast.BlockStmt:
					// an earlier sibling `if v == nil { return / continue / panic }`
					for _, s := range x.List {
						if s == child {
							break
						}
						if is, ok := s.(*ast.IfStmt); ok && is.Else == nil && len(is.Body.List) > 0 {
							if op, ok := nilCompare(info, is.Cond, v); ok && op == token.EQL {
								switch last := is.Body.List[len(is.Body.List)-1].(type) {
								case *ast.ReturnStmt:
									return true
								case *ast.BranchStmt:
									if last.Tok == token.CONTINUE || last.Tok == token.BREAK {
										return true
									}
								case *ast.ExprStmt:
									if c, ok := last.X.(*ast.CallExpr); ok && isNoReturn(info, c) {
										return true
									}
								}
							}
						}
					}
				case *ast.FuncLit:
					return false
				}
			}
			return false
		}
		// a use of a possibly-nil package expression e (direct call result or variable)
		checkUse := func(e ast.Expr, v types.Object) {
			p := b.Parent[e]
			for {
				if pe, ok := p.(*ast.ParenExpr); ok {
					e, p = pe, b.Parent[pe]
					continue
				}
				break
			}
			bad := ""
			switch x := p.(type) {
			case *ast.BinaryExpr:
				return // comparison
			case *ast.SelectorExpr:
				if x.X == e {
					bad = "calls ." + x.Sel.Name + " on it"
				}
			case *ast.CallExpr:
				if x.Fun == e {
					return
				}
				switch fn := callee(info, x).(type) {
				case *types.Func:
					if fn.Pkg() != nil && fn.Pkg().Path() == "go/types" && strings.HasPrefix(fn.Name(), "New") {
						return
					}
					bad = "passes it to " + fn.Name()
				default:
					bad = "passes it to " + exprStr(x.Fun)
				}
			case *ast.AssignStmt, *ast.ValueSpec:
				return // tracked through the variable
			case *ast.ReturnStmt, *ast.CompositeLit, *ast.KeyValueExpr:
				bad = "lets it escape unchecked"
			default:
				return
			}
			if bad == "" {
				return
			}
			n++
			if v != nil && guarded(e, v) {
				rep.pass("G14")
				return
			}
			if b.Name == "derive.(*typesMap).IsExternal" {
				rep.pass("G14")
				rep.sample(map[string]string{"rule": "G14 nil package", "site": r.pos(e.Pos()), "exception": "IsExternal: argument is a struct-kinded named type at every call site (R rule)"})
				return
			}
			rep.fail(Finding{Rule: "G14", Key: fmt.Sprintf("G14|nil-pkg|%s", b.Name), Where: []string{r.pos(e.Pos())},
				Msg: fmt.Sprintf("%s takes a *types.Package from Obj().Pkg() and %s without a nil check: predeclared types (error, any) have no package, so a call whose argument type is one of them makes goderive panic instead of reporting it", b.Name, bad)})
		}
		inspectOwn(b.Block, func(m ast.Node) bool {
			switch x := m.(type) {
			case *ast.CallExpr:
				if isPkgCall(x) {
					checkUse(x, nil)
				}
			case *ast.AssignStmt:
				for i, rhs := range x.Rhs {
					if i < len(x.Lhs) && isPkgCall(rhs) {
						id, ok := x.Lhs[i].(*ast.Ident)
						if !ok || id.Name == "_" {
							continue
						}
						v := info.Defs[id]
						if v == nil {
							v = info.Uses[id]
						}
						inspectOwn(b.Block, func(u ast.Node) bool {
							if uid, ok := u.(*ast.Ident); ok && info.Uses[uid] == v && uid.Pos() > x.End() {
								checkUse(uid, v)
							}
							return true
						})
					}
				}
			}
			return true
		})
	}
	rep.analysed("pkg_value_uses", n)
	if n < 2 {
		rep.fail(Finding{Rule: "G14", Key: "G14|nil-pkg|floor", Kind: "undecided", Msg: "fewer than 2 uses of Obj().Pkg() values found (the rule matched less than was confirmed by hand)"})
	}
}

func conjuncts(e ast.Expr) []ast.Expr {
	e = ast.Unparen(e)
	if b, ok := e.(*ast.BinaryExpr); ok && b.Op == token.LAND {
		return append(conjuncts(b.X), conjuncts(b.Y)...)
	}
	return []ast.Expr{e}
}

// g14VisitContinues: (*finder).Visit is the ast.Visitor that discovers derive calls. ast.Walk descends into a node's children
// only when Visit returns a non-nil visitor, so every return must hand back the finder itself: returning nil (or another
// visitor) prunes the subtree, and derive calls nested in it (deriveSort(deriveKeys(m)), calls inside function literals
// passed as arguments) are never discovered — the run then succeeds with functions missing. A nil return is accepted only
// under a type test that establishes a leaf node.
func g14VisitContinues(r *Repo, rep *Report) {
	fi := r.lookup("derive.(*finder).Visit")
	if fi == nil {
		rep.fail(Finding{Rule: "G14", Key: "G14|visit|missing", Kind: "undecided", Msg: "(*finder).Visit not found"})
		return
	}
	info := fi.Pkg.TypesInfo
	var recv types.Object
	if fi.Decl.Recv != nil && len(fi.Decl.Recv.List) == 1 && len(fi.Decl.Recv.List[0].Names) == 1 {
		recv = info.Defs[fi.Decl.Recv.List[0].Names[0]]
	}
	var nodeParam types.Object
	if ps := fi.Decl.Type.Params; ps != nil && len(ps.List) == 1 && len(ps.List[0].Names) == 1 {
		nodeParam = info.Defs[ps.List[0].Names[0]]
	}
	// the visitor written as a function literal for ast.Inspect: the walk continues into the children when it returns true
	inspectForm := fi.Decl.Recv == nil
	if (recv == nil && !inspectForm) || nodeParam == nil {
		rep.fail(Finding{Rule: "G14", Key: "G14|visit|shape", Kind: "undecided", Where: []string{r.pos(fi.Decl.Pos())}, Msg: "(*finder).Visit: receiver or node parameter is unnamed"})
		return
	}
	par := parents(fi.Decl)
	leaf := map[string]bool{"Ident": true, "BasicLit": true, "Comment": true, "CommentGroup": true, "ImportSpec": true, "BadExpr": true, "EmptyStmt": true, "BranchStmt": true}
	isLeafType := func(e ast.Expr) bool {
		if st, ok := e.(*ast.StarExpr); ok {
			if sel, ok := st.X.(*ast.SelectorExpr); ok {
				return leaf[sel.Sel.Name]
			}
		}
		return false
	}
	underLeafTest := func(n ast.Node) bool {
		for p, child := par[n], n; p != nil; child, p = p, par[p] {
			switch x := p.(type) {
			case *ast.CaseClause:
				if ts, ok := par[par[x]].(*ast.TypeSwitchStmt); ok && usesVar(info, ts.Assign, nodeParam) && len(x.List) > 0 {
					all := true
					for _, e := range x.List {
						all = all && isLeafType(e)
					}
					if all {
						return true
					}
				}
			case *ast.IfStmt:
				if child == x.Body && x.Init != nil {
					if as, ok := x.Init.(*ast.AssignStmt); ok && len(as.Rhs) == 1 {
						if ta, ok := as.Rhs[0].(*ast.TypeAssertExpr); ok && usesVar(info, ta.X, nodeParam) && ta.Type != nil && isLeafType(ta.Type) {
							if id, ok := x.Cond.(*ast.Ident); ok && len(as.Lhs) == 2 {
								if l, ok := as.Lhs[1].(*ast.Ident); ok && info.Defs[l] != nil && info.Uses[id] == info.Defs[l] {
									return true
								}
							}
						}
					}
				}
			}
		}
		return false
	}
	n := 0
	inspectOwn(fi.Decl.Body, func(m ast.Node) bool {
		rs, ok := m.(*ast.ReturnStmt)
		if !ok {
			return true
		}
		n++
		good := false
		if len(rs.Results) == 1 {
			if id, ok := ast.Unparen(rs.Results[0]).(*ast.Ident); ok && !inspectForm && info.Uses[id] == recv {
				good = true
			}
			if tv, ok := info.Types[rs.Results[0]]; ok && inspectForm && tv.Value != nil && tv.Value.String() == "true" {
				good = true
			}
		}
		if good || underLeafTest(rs) {
			rep.pass("G14")
			return true
		}
		what := "a bare return"
		if len(rs.Results) == 1 {
			what = "`return " + exprStr(rs.Results[0]) + "`"
		}
		rep.fail(Finding{Rule: "G14", Key: "G14|visit|prunes", Where: []string{r.pos(rs.Pos())},
			Msg: "(*finder).Visit ends a path with " + what + " instead of returning the finder: ast.Walk then skips the node's children, so derive calls nested in them (arguments of an already generated call, function literals) are never discovered and their functions are silently missing from derived.gen.go"})
		return true
	})
	rep.analysed("visit_returns", n)
	if n < 5 {
		rep.fail(Finding{Rule: "G14", Key: "G14|visit|floor", Kind: "undecided", Where: []string{r.pos(fi.Decl.Pos())}, Msg: "fewer return statements in (*finder).Visit than confirmed by hand"})
	}
}

// g14ReservedBeforeNaming — newName avoids the names in the reserved set at the moment it is asked; -autoname asks while the
// calls are still being registered (SetFuncName → GetFuncName → newName). The set must therefore be complete before the first
// call is registered: in newPackage no store into the reserved set (an assignment to the variable handed to newTypesMap, or an
// index store into it) may be reachable from a call of (*pkg).Add.
func g14ReservedBeforeNaming(c *Ctx) {
	r, rep := c.Repo, c.Rep
	fi := r.lookup("derive.newPackage")
	ntm := r.lookup("derive.newTypesMap")
	if fi == nil || ntm == nil {
		rep.fail(Finding{Rule: "G14", Key: "G14|reserved-order|missing", Kind: "undecided", Msg: "newPackage/newTypesMap not found"})
		return
	}
	info := fi.Pkg.TypesInfo
	var resVar types.Object
	ast.Inspect(fi.Decl.Body, func(n ast.Node) bool {
		if c, ok := n.(*ast.CallExpr); ok && callee(info, c) == ntm.Fn {
			if o := reservedSetArg(info, fi.Decl.Body, ntm.Fn, c); o != nil {
				resVar = o
			}
		}
		return true
	})
	if resVar == nil {
		rep.fail(Finding{Rule: "G14", Key: "G14|reserved-order|arg", Kind: "undecided", Where: []string{r.pos(fi.Decl.Pos())}, Msg: "cannot identify the reserved-name set passed to newTypesMap"})
		return
	}
	g := newGraph(fi.Decl.Body, func(*ast.CallExpr) bool { return true })
	var stores, adds []ast.Node
	for _, b := range g.Blocks {
		for _, n := range b.Nodes {
			ast.Inspect(n, func(m ast.Node) bool {
				switch x := m.(type) {
				case *ast.FuncLit:
					return false
				case *ast.AssignStmt:
					for _, l := range x.Lhs {
						switch lv := l.(type) {
						case *ast.Ident:
							if objOf(info, lv) == resVar && x.Tok == token.ASSIGN {
								stores = append(stores, x)
							}
						case *ast.IndexExpr:
							if id, ok := ast.Unparen(lv.X).(*ast.Ident); ok && info.Uses[id] == resVar {
								stores = append(stores, x)
							}
						}
					}
				case *ast.CallExpr:
					if fn, ok := callee(info, x).(*types.Func); ok && funcKey(fn) == "derive.(*pkg).Add" {
						adds = append(adds, x)
					}
					// maps.Copy(reserved, X) stores every key of X
					if isPkgFunc(callee(info, x), "maps", "Copy") && len(x.Args) == 2 {
						if id, ok := ast.Unparen(x.Args[0]).(*ast.Ident); ok && info.Uses[id] == resVar {
							stores = append(stores, x)
						}
					}
				}
				return true
			})
		}
	}
	rep.analysed("reserved_stores", len(stores))
	if len(adds) == 0 || len(stores) == 0 {
		rep.fail(Finding{Rule: "G14", Key: "G14|reserved-order|floor", Kind: "undecided", Where: []string{r.pos(fi.Decl.Pos())}, Msg: fmt.Sprintf("newPackage: %d stores into the reserved set and %d calls of (*pkg).Add found (both were confirmed by hand)", len(stores), len(adds))})
		return
	}
	for _, a := range adds {
		ab, ai := g.locate(a.Pos())
		if ab == nil {
			continue
		}
		// blocks reachable from the Add call (its own block counts from the following nodes on; the block itself again if it lies on a cycle)
		reach := g.reachable(ab.Succs, nil)
		for _, s := range stores {
			sb, si := g.locate(s.Pos())
			if sb == nil {
				continue
			}
			if reach[sb] || (sb == ab && si > ai) {
				rep.fail(Finding{Rule: "G14", Key: "G14|reserved-order|store-after-naming", Where: []string{r.pos(s.Pos()), r.pos(a.Pos())},
					Msg: "newPackage still adds names to the reserved set (at " + r.pos(s.Pos()) + ") after calls have begun to be registered: with -autoname a fresh name is chosen while registering (SetFuncName → newName), so a function the user calls in a file that is visited later is not avoided and the package gets two declarations of that name"})
				return
			}
		}
	}
	rep.pass("G14")
}

// g32ReserveDeclared — a fresh helper name must avoid every name the user's package declares at package level, whether or not
// the user *calls* it: a function that is only used as a value (`var cmp = deriveEqual_`), a variable, a type. The finder only
// sees called identifiers; newPackage must therefore also reserve the names of the package scope (types.Scope.Names), except
// those declared in the derived file — which, after a reload, holds this run's own functions. Checked: newPackage stores into
// the reserved set, inside a loop over `….Scope().Names()` (or a variable assigned from it), under a guard that mentions
// derivedFilename.
func g32ReserveDeclared(c *Ctx) {
	r, rep := c.Repo, c.Rep
	fi := r.lookup("derive.newPackage")
	ntm := r.lookup("derive.newTypesMap")
	if fi == nil || ntm == nil {
		rep.fail(Finding{Rule: "G32", Key: "G32|reserve-declared|missing", Kind: "undecided", Msg: "newPackage/newTypesMap not found"})
		return
	}
	info := fi.Pkg.TypesInfo
	var resVar types.Object
	ast.Inspect(fi.Decl.Body, func(n ast.Node) bool {
		if c, ok := n.(*ast.CallExpr); ok && callee(info, c) == ntm.Fn {
			if o := reservedSetArg(info, fi.Decl.Body, ntm.Fn, c); o != nil {
				resVar = o
			}
		}
		return true
	})
	if resVar == nil {
		rep.fail(Finding{Rule: "G32", Key: "G32|reserve-declared|arg", Kind: "undecided", Where: []string{r.pos(fi.Decl.Pos())}, Msg: "cannot identify the reserved-name set passed to newTypesMap"})
		return
	}
	isScopeNames := func(e ast.Expr) bool {
		found := false
		ast.Inspect(e, func(m ast.Node) bool {
			if call, ok := m.(*ast.CallExpr); ok {
				if fn, ok := callee(info, call).(*types.Func); ok && fn.Pkg() != nil && fn.Pkg().Path() == "go/types" && fn.Name() == "Names" {
					found = true
				}
			}
			return true
		})
		return found
	}
	ok := false
	par := parents(fi.Decl)
	ast.Inspect(fi.Decl.Body, func(n ast.Node) bool {
		as, isAs := n.(*ast.AssignStmt)
		if !isAs || len(as.Lhs) != 1 {
			return true
		}
		ix, isIx := as.Lhs[0].(*ast.IndexExpr)
		if !isIx {
			return true
		}
		id, isID := ast.Unparen(ix.X).(*ast.Ident)
		if !isID || info.Uses[id] != resVar {
			return true
		}
		// enclosing range over Scope().Names(), and a guard mentioning derivedFilename on the way
		inNames, guarded := false, false
		for p := par[as]; p != nil; p = par[p] {
			switch x := p.(type) {
			case *ast.RangeStmt:
				if isScopeNames(x.X) {
					inNames = true
				} else if xid, ok := ast.Unparen(x.X).(*ast.Ident); ok {
					// a variable assigned from Scope().Names()
					ast.Inspect(fi.Decl.Body, func(m ast.Node) bool {
						if a2, ok := m.(*ast.AssignStmt); ok && len(a2.Lhs) == 1 && len(a2.Rhs) == 1 {
							if l, ok := a2.Lhs[0].(*ast.Ident); ok && objOf(info, l) == info.Uses[xid] && isScopeNames(a2.Rhs[0]) {
								inNames = true
							}
						}
						return true
					})
				}
			case *ast.IfStmt:
				if nodeHas(x.Cond, func(k ast.Node) bool { kid, ok := k.(*ast.Ident); return ok && kid.Name == "derivedFilename" }) {
					guarded = true
				}
			case *ast.BlockStmt:
				// the same guard as an earlier statement that leaves the iteration: if fname == derivedFilename { continue }
				for _, st := range x.List {
					if st.Pos() >= as.Pos() {
						break
					}
					if ifs, isIf := st.(*ast.IfStmt); isIf && ifs.Else == nil && len(ifs.Body.List) > 0 {
						if br, isBr := ifs.Body.List[len(ifs.Body.List)-1].(*ast.BranchStmt); isBr && br.Tok == token.CONTINUE {
							if nodeHas(ifs.Cond, func(k ast.Node) bool { kid, ok := k.(*ast.Ident); return ok && kid.Name == "derivedFilename" }) {
								guarded = true
							}
						}
					}
				}
			}
		}
		if inNames && guarded {
			ok = true
		}
		return true
	})
	if ok {
		rep.pass("G32")
		rep.sample(map[string]string{"rule": "G32 every name the user's package declares is reserved", "function": "derive.newPackage"})
		return
	}
	rep.fail(Finding{Rule: "G32", Key: "G32|reserve-declared|called-names-only", Where: []string{r.pos(fi.Decl.Pos())},
		Msg: "newPackage reserves only the identifiers the user calls: a function the package declares but only uses as a value (var cmp = deriveEqual_), or any other package-level name, can be handed out as a fresh helper name — goderive exits 0 and the package has two declarations of that name"})
}

// reservedSetArg: the set of reserved names handed to newTypesMap by this call — the argument for the parameter called reserved,
// or, when the options travel in a struct, the map[string]struct{} value in the composite literal that is passed (directly, or
// through a local with that literal as its one definition).
func reservedSetArg(info *types.Info, body ast.Node, ntm *types.Func, c *ast.CallExpr) types.Object {
	sig := ntm.Type().(*types.Signature)
	for i := 0; i < sig.Params().Len() && i < len(c.Args); i++ {
		if sig.Params().At(i).Name() == "reserved" {
			if id, ok := ast.Unparen(c.Args[i]).(*ast.Ident); ok {
				return info.Uses[id]
			}
		}
	}
	isSet := func(t types.Type) bool {
		m, ok := t.Underlying().(*types.Map)
		if !ok {
			return false
		}
		st, ok := m.Elem().Underlying().(*types.Struct)
		kb, isB := m.Key().Underlying().(*types.Basic)
		return ok && st.NumFields() == 0 && isB && kb.Kind() == types.String
	}
	var fromLit func(e ast.Expr, depth int) types.Object
	fromLit = func(e ast.Expr, depth int) types.Object {
		e = ast.Unparen(e)
		if u, ok := e.(*ast.UnaryExpr); ok && u.Op == token.AND {
			e = ast.Unparen(u.X)
		}
		switch x := e.(type) {
		case *ast.CompositeLit:
			for _, el := range x.Elts {
				v := el
				if kv, ok := el.(*ast.KeyValueExpr); ok {
					v = kv.Value
				}
				if id, ok := ast.Unparen(v).(*ast.Ident); ok {
					if o := info.Uses[id]; o != nil && isSet(o.Type()) {
						return o
					}
				}
			}
		case *ast.Ident:
			if depth > 2 {
				return nil
			}
			var defs []ast.Expr
			ast.Inspect(body, func(n ast.Node) bool {
				if as, ok := n.(*ast.AssignStmt); ok && len(as.Lhs) == len(as.Rhs) {
					for k, l := range as.Lhs {
						if lid, ok := l.(*ast.Ident); ok && objOf(info, lid) == info.Uses[x] {
							defs = append(defs, as.Rhs[k])
						}
					}
				}
				return true
			})
			if len(defs) == 1 {
				return fromLit(defs[0], depth+1)
			}
		}
		return nil
	}
	for _, a := range c.Args {
		if o := fromLit(a, 0); o != nil {
			return o
		}
	}
	return nil
}
