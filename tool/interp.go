// Engine R, part 1: abstract interpreter ("specialiser") for goderive's plugin generators.
// It interprets a plugin's New -> Add -> Generate over abstract values (opaque go/types values, template strings with
// holes) and records the emitted text ("residual program") of every abstract path. Nothing of goderive is executed.
package main

import (
	"fmt"
	"go/ast"
	"go/constant"
	"go/token"
	"go/types"
	"regexp"
	"strconv"
	"strings"
	"unicode"
	"unicode/utf8"

	"golang.org/x/tools/go/packages"
)

// ---------- values ----------

type Value interface{}

type Part struct {
	Lit  string
	Hole *Hole
}
type Hole struct {
	Kind   string // TYPE FUNC PKG NAME EXPR OPAQUE
	Origin string
	Val    Value   // TYPE: the opaque type value
	Who    string  // FUNC: plugin asked ("self" = the generating plugin)
	Args   []Value // FUNC: argument type values
	ID     string  // placeholder identifier once rendered
}
type VStr struct{ Parts []Part }
type VInt struct {
	Known bool
	V     int
	Sym   string
}
type VBool struct {
	Known bool
	V     bool
	Sym   string
}
type VList struct{ Elems []Value }
type VNil struct{}
type VErr struct{ Sym string } // non-nil error
type VOpaque struct {
	Origin   string
	Kind     string // dynamic go/types kind once refined ("" unknown)
	attrs    map[string]Value
	recv     *VOpaque
	meth     string
	notNamed bool
	notKinds []string
	built    bool // constructed by types.NewX in the generator (kind and components known)
}
type VStruct struct {
	Type   *types.Named
	Fields map[string]Value
}
type VPtr struct{ Elem Value }
type VFunc struct {
	Decl *ast.FuncDecl
	Pkg  *packages.Package
	Recv Value
	Lit  *ast.FuncLit
	Env  *Frame
}
type VSpecial struct {
	Kind string // printer typesmap deps dep import
	Name string
}
type VTuple struct{ Vals []Value }

// VMap is a lookup table written as a map literal with constant keys (package level or local): looking a symbolic key
// up in it is a choice between its entries and "not present", exactly like a switch over the key.
type VMap struct {
	Keys    []Value
	KeyText []string
	Vals    []Value
	Zero    Value
	ID      string
}

// VBuf models a strings.Builder / bytes.Buffer the generator assembles text in: the text written so far.
type VBuf struct{ S VStr }

// VBufMeth is a method value of a VBuf (WriteString, String, ...).
type VBufMeth struct {
	B    *VBuf
	Name string
}

func isBufType(t types.Type) bool {
	if p, ok := t.(*types.Pointer); ok {
		t = p.Elem()
	}
	n, ok := t.(*types.Named)
	if !ok || n.Obj().Pkg() == nil {
		return false
	}
	q := n.Obj().Pkg().Path() + "." + n.Obj().Name()
	return q == "strings.Builder" || q == "bytes.Buffer"
}

func lit(s string) VStr { return VStr{[]Part{{Lit: s}}} }
func hole(kind, origin string) VStr {
	return VStr{[]Part{{Hole: &Hole{Kind: kind, Origin: origin}}}}
}
func holeV(h *Hole) VStr { return VStr{[]Part{{Hole: h}}} }
func (s VStr) concat(t VStr) VStr {
	out := VStr{append([]Part{}, s.Parts...)}
	for _, p := range t.Parts {
		if p.Hole == nil && len(out.Parts) > 0 && out.Parts[len(out.Parts)-1].Hole == nil {
			out.Parts[len(out.Parts)-1].Lit += p.Lit
		} else {
			out.Parts = append(out.Parts, p)
		}
	}
	return out
}
func (s VStr) isLit() (string, bool) {
	b := ""
	for _, p := range s.Parts {
		if p.Hole != nil {
			return "", false
		}
		b += p.Lit
	}
	return b, true
}

// key renders a template string independently of placeholder numbering (used in decision symbols).
func (s VStr) key() string {
	b := ""
	for _, p := range s.Parts {
		if p.Hole != nil {
			b += "\u2039" + p.Hole.Kind + ":" + p.Hole.Origin + "\u203a"
		} else {
			b += p.Lit
		}
	}
	return b
}

func (s VStr) render() string { return s.key() }

func origin(v Value) string {
	switch x := v.(type) {
	case VStr:
		return x.render()
	case VInt:
		if x.Known {
			return strconv.Itoa(x.V)
		}
		return x.Sym
	case VBool:
		if x.Known {
			return fmt.Sprint(x.V)
		}
		return x.Sym
	case *VOpaque:
		return x.Origin
	case *VList:
		ss := []string{}
		for _, e := range x.Elems {
			ss = append(ss, origin(e))
		}
		return "[" + strings.Join(ss, ",") + "]"
	case VNil:
		return "nil"
	case *VSpecial:
		return x.Kind + ":" + x.Name
	case *VStruct:
		return "struct"
	case *VPtr:
		return "&" + origin(x.Elem)
	case VErr:
		return "err"
	case *VFunc:
		return "func"
	}
	return fmt.Sprintf("%T", v)
}

// ---------- oracle (stateless DFS over unknown decisions) ----------

type Oracle struct {
	script []int
	arity  []int
	pos    int
}

func (o *Oracle) choose(n int) int {
	if o.pos < len(o.script) {
		c := o.script[o.pos]
		o.pos++
		return c
	}
	o.script = append(o.script, 0)
	o.arity = append(o.arity, n)
	o.pos++
	return 0
}
func (o *Oracle) next() bool {
	for i := len(o.script) - 1; i >= 0; i-- {
		if o.script[i]+1 < o.arity[i] {
			o.script[i]++
			o.script = o.script[:i+1]
			o.arity = o.arity[:i+1]
			o.pos = 0
			return true
		}
	}
	return false
}

// ---------- interpreter ----------

type Frame struct {
	vars map[types.Object]*Value
	pkg  *packages.Package
	up   *Frame
	// defers: the deferred calls of the function activation this frame is the root of (nil for block frames)
	defers *[]func()
}

// fnFrame: the root frame of the function activation a statement runs in.
func (f *Frame) fnFrame() *Frame {
	for x := f; x != nil; x = x.up {
		if x.defers != nil {
			return x
		}
	}
	return nil
}

func (f *Frame) lookup(o types.Object) *Value {
	for fr := f; fr != nil; fr = fr.up {
		if v, ok := fr.vars[o]; ok {
			return v
		}
	}
	return nil
}

type ctl int

const (
	cNone ctl = iota
	cBreak
	cContinue
	cReturn
)

// Line is one emitted line of the residual program.
type Line struct {
	Indent int
	Str    VStr
	Pos    token.Pos // generator position of the P call
}

// Decision is one answer the oracle gave on this run.
type Decision struct {
	Sym    string   `json:"sym"`
	Choice int      `json:"choice"`
	N      int      `json:"n"`
	Cands  []string `json:"cands,omitempty"` // for switches: the case expressions, in choice order (last = default/none)
	Fn     string   `json:"fn,omitempty"`    // generator function that asked
}

// Request is a helper function requested through GetFuncName.
type Request struct {
	Who  string // plugin asked; "self" for the generating plugin
	Args []Value
	Hole *Hole
	Pos  token.Pos
}

type Interp struct {
	ext             map[string]func([]Value) Value // models of external functions supplied by a rule (by the callee's origin)
	formatData      []token.Pos                    // calls of Printer.P whose format argument contains the text of a type
	typeStringCalls []typeStringCall               // results of TypesMap.TypeString (each imports the packages of the named types it spells)
	repo            *Repo
	plugin          string
	decls           map[*types.Func]*VFunc
	or              *Oracle
	memo            map[string]int // decision memo by symbol within a run
	tie             bool           // tie decisions of sibling fields/elements together (structure sweep)
	lines           []Line
	indent          int
	depth           int
	shape           int
	arities         []int
	preds           map[string]Value
	stack           map[*ast.FuncDecl]int
	steps           int

	decisions  []Decision
	registered []Value
	regName    Value
	generating [][]Value
	requests   []*Request
	imports    map[string]int // import path -> times the closure was called
	importUse  map[string]bool
	holes      map[string]*Hole // key -> hole (canonical)
	holeList   []*Hole
	recCut     bool
	predCalls  []predCall
	recN       int
	callNames  []string
	intEq      map[string]int               // facts about symbolic integers (e.g. a type's Kind()) learnt from decisions on this path
	intNe      map[string]map[int]bool      //
	tupleNames map[string]map[string]string // parameter list -> literal name -> parameter that carries it
	leafPred   map[*ast.FuncDecl]bool
	active     map[*ast.FuncDecl][]string // type-argument identity of the active calls, per function (progress check)
	g9mode     bool                       // tabulating a predicate: helper predicates are interpreted, only recursive calls are answered by the oracle
	holeEq     map[string]string          // symbolic text (a user-chosen name) -> the literal this path identified it with
}

// leafPredNames: call-free predicates that are interpreted rather than answered by the oracle (confirmed by reading: each is
// one type switch / kind switch).
var leafPredNames = map[string]bool{"nullable": true, "nillable": true, "isOrdered": true}

// baselinePredNames: the predicates over go/types values that exist on the tree the rules were confirmed against; they keep
// the treatment they were confirmed with (oracle answers tabulated by G9, or interpretation for leafPredNames).
var baselinePredNames = map[string]bool{"IsComparable": true, "IsError": true, "canCopy": true, "canEqual": true,
	"compareMethodInputParam": true, "equalMethodInputParam": true, "hasDeepCopyMethod": true, "hasEqualMethod": true,
	"hasHashMethod": true, "hasGoStringMethod": true, "identical": true, "eq": true, "isBasicPointer": true, "isOrdered": true, "nullable": true, "nillable": true}

type predCall struct {
	name string
	arg  *VOpaque
	sym  string
}

// siblingPreds are the copies of "plain ==/assignment is structural for this type" whose definitions G9 checks; their
// answers on one abstract path must be consistent with that definition, else the path is infeasible.
var siblingPreds = map[string]bool{"canEqual": true, "canCopy": true, "IsComparable": true}

func (in *Interp) predAnswer(name string, o *VOpaque) (bool, bool) {
	for _, pc := range in.predCalls {
		if pc.name == name && pc.arg == o {
			if c, ok := in.peek("B:" + pc.sym); ok {
				return c == 0, true
			}
		}
	}
	return false, false
}

// infeasiblePreds reports a contradiction between sibling-predicate answers and the kinds established on this path.
func (in *Interp) infeasiblePreds() string {
	for _, pc := range in.predCalls {
		if !siblingPreds[pc.name] {
			continue
		}
		ans, ok := in.predAnswer(pc.name, pc.arg)
		if !ok {
			continue
		}
		u := pc.arg
		if u.Kind == "" || u.Kind == "*types.Named" || u.Kind == "*types.Alias" || u.Kind == "other" {
			if uu, ok := u.attrs["Underlying"].(*VOpaque); ok {
				u = uu
			} else {
				continue
			}
		}
		switch u.Kind {
		case "*types.Basic":
			if !ans {
				return pc.name + " false for a basic type"
			}
		case "*types.Pointer", "*types.Slice", "*types.Map", "*types.Chan", "*types.Signature", "*types.Interface":
			if ans {
				return pc.name + " true for a " + u.Kind
			}
		case "*types.Array":
			if e, ok := u.attrs["Elem"].(*VOpaque); ok {
				if ea, ok := in.predAnswer(pc.name, e); ok && ea != ans {
					return pc.name + " differs between an array and its element type"
				}
			}
		case "*types.Struct":
			el, ok := u.attrs["#elems"].(*VList)
			if !ok {
				continue
			}
			all, allKnown := true, true
			for _, f := range el.Elems {
				fo, ok := f.(*VOpaque)
				if !ok {
					allKnown = false
					continue
				}
				ft, ok := fo.attrs["Type"].(*VOpaque)
				if !ok {
					allKnown = false
					continue
				}
				fa, ok := in.predAnswer(pc.name, ft)
				if !ok {
					allKnown = false
					continue
				}
				if !fa {
					all = false
				}
			}
			if ans && !all {
				return pc.name + " true for a struct with a field for which it is false"
			}
			if !ans && all && allKnown {
				return pc.name + " false for a struct all of whose fields satisfy it"
			}
		}
	}
	return ""
}

type abort struct {
	kind string // "panic": definite generator panic; "unsupported": construct outside the interpreter's subset
	msg  string
	pos  token.Pos
}

func (in *Interp) fail(format string, a ...interface{}) {
	panic(abort{kind: "unsupported", msg: fmt.Sprintf(format, a...)})
}

// gpanic: the generator itself would panic here on some input consistent with this abstract path.
func (in *Interp) gpanic(pos token.Pos, format string, a ...interface{}) {
	panic(abort{kind: "panic", msg: fmt.Sprintf(format, a...), pos: pos})
}

var tieRe = regexp.MustCompile(`\[\d+\]`)

func (in *Interp) decideC(sym string, n int, cands []string) int {
	c := in.decide(sym, n)
	if len(in.decisions) > 0 && in.decisions[len(in.decisions)-1].Sym == in.canonSym(sym) && in.decisions[len(in.decisions)-1].Cands == nil {
		in.decisions[len(in.decisions)-1].Cands = cands
	}
	return c
}

func (in *Interp) canonSym(sym string) string {
	if in.tie {
		return tieRe.ReplaceAllString(sym, "[*]")
	}
	return sym
}

func (in *Interp) decide(sym string, n int) int {
	if in.tie {
		sym = tieRe.ReplaceAllString(sym, "[*]")
	}
	if c, ok := in.memo[sym]; ok {
		if c >= n {
			c = n - 1
		}
		return c
	}
	c := in.or.choose(n)
	in.memo[sym] = c
	fnName := ""
	if len(in.callNames) > 0 {
		fnName = in.callNames[len(in.callNames)-1]
	}
	in.decisions = append(in.decisions, Decision{Sym: sym, Choice: c, N: n, Fn: fnName})
	return c
}

// peek returns an earlier decision for sym, if any.
func (in *Interp) peek(sym string) (int, bool) {
	if in.tie {
		sym = tieRe.ReplaceAllString(sym, "[*]")
	}
	c, ok := in.memo[sym]
	return c, ok
}

// canonHole interns a hole so that the same origin gets the same placeholder identifier.
func (in *Interp) canonHole(h *Hole) *Hole {
	key := h.Kind + ":" + h.Origin
	if c, ok := in.holes[key]; ok {
		return c
	}
	h.ID = fmt.Sprintf("__%s%d", h.Kind[:1], len(in.holeList))
	in.holes[key] = h
	in.holeList = append(in.holeList, h)
	return h
}

// renderStr renders a template string with placeholder identifiers.
func (in *Interp) renderStr(s VStr) string {
	b := ""
	for _, p := range s.Parts {
		if p.Hole != nil {
			b += in.canonHole(p.Hole).ID
		} else {
			b += p.Lit
		}
	}
	return b
}

func (in *Interp) truth(v Value) bool {
	b, ok := v.(VBool)
	if !ok {
		in.fail("condition not bool: %T", v)
	}
	if b.Known {
		return b.V
	}
	// one question per nil test, however it is written: x == nil is asked as not (x != nil), nil on the left as nil on the right
	if strings.HasPrefix(b.Sym, "nil==") || strings.HasPrefix(b.Sym, "nil!=") {
		b.Sym = b.Sym[5:] + b.Sym[3:5] + "nil"
	}
	if strings.HasSuffix(b.Sym, "==nil") {
		return in.decide("B:"+strings.TrimSuffix(b.Sym, "==nil")+"!=nil", 2) != 0
	}
	res := in.decide("B:"+b.Sym, 2) == 0
	if m := intCmpRe.FindStringSubmatch(b.Sym); m != nil {
		n, _ := strconv.Atoi(m[3])
		in.learnInt(m[1], n, (m[2] == "==") == res)
	}
	return res
}

var intCmpRe = regexp.MustCompile(`^(.*[^=!<>])(==|!=)(-?\d+)$`)

// intFact: is the symbolic integer known to be equal / unequal to the constant on this path?
func (in *Interp) intFact(x, y VInt) (equal bool, known bool) {
	if x.Known {
		x, y = y, x
	}
	if x.Known || !y.Known || x.Sym == "" {
		return false, false
	}
	if v, ok := in.intEq[x.Sym]; ok {
		return v == y.V, true
	}
	if in.intNe[x.Sym][y.V] {
		return false, true
	}
	return false, false
}

func (in *Interp) learnInt(sym string, n int, equal bool) {
	if equal {
		if in.intEq == nil {
			in.intEq = map[string]int{}
		}
		in.intEq[sym] = n
		return
	}
	if in.intNe == nil {
		in.intNe = map[string]map[int]bool{}
	}
	if in.intNe[sym] == nil {
		in.intNe[sym] = map[int]bool{}
	}
	in.intNe[sym][n] = true
}

func (in *Interp) info(fr *Frame) *types.Info { return fr.pkg.TypesInfo }

func (in *Interp) opaqueList(org string, n int, elemKind string) *VList {
	l := &VList{}
	for i := 0; i < n; i++ {
		l.Elems = append(l.Elems, &VOpaque{Origin: fmt.Sprintf("%s[%d]", org, i), Kind: elemKind})
	}
	return l
}

func (o *VOpaque) attr(name string, mk func() Value) Value {
	if o.attrs == nil {
		o.attrs = map[string]Value{}
	}
	if v, ok := o.attrs[name]; ok {
		return v
	}
	v := mk()
	o.attrs[name] = v
	return v
}

// result of a call on opaque receivers / unknown functions, typed by static result type
func (in *Interp) opaqueOfType(org string, t types.Type) Value {
	switch tt := t.(type) {
	case *types.Tuple:
		if tt.Len() == 1 {
			return in.opaqueOfType(org, tt.At(0).Type())
		}
		vs := []Value{}
		for i := 0; i < tt.Len(); i++ {
			vs = append(vs, in.opaqueOfType(fmt.Sprintf("%s#%d", org, i), tt.At(i).Type()))
		}
		return VTuple{vs}
	}
	switch u := t.Underlying().(type) {
	case *types.Basic:
		switch {
		case u.Info()&types.IsString != 0:
			return hole("OPAQUE", org)
		case u.Info()&types.IsBoolean != 0:
			return VBool{Sym: org}
		case u.Info()&types.IsInteger != 0:
			return VInt{Sym: org}
		}
	case *types.Slice:
		if b, ok := u.Elem().Underlying().(*types.Basic); ok && b.Info()&types.IsString != 0 {
			l := &VList{}
			for i := 0; i < in.shape; i++ {
				l.Elems = append(l.Elems, hole("OPAQUE", fmt.Sprintf("%s[%d]", org, i)))
			}
			return l
		}
		return in.opaqueList(org, in.shape, "")
	case *types.Interface:
		if t.String() == "error" {
			if in.decide("E:"+org, 2) == 0 {
				return VNil{}
			}
			return VErr{org}
		}
	}
	return &VOpaque{Origin: org}
}

func (in *Interp) callFunc(fn *VFunc, args []Value, callPos token.Pos) Value {
	var ftype *ast.FuncType
	var body *ast.BlockStmt
	var recv *ast.FieldList
	fr := &Frame{vars: map[types.Object]*Value{}, pkg: fn.Pkg, up: fn.Env}
	if fn.Lit != nil {
		ftype, body = fn.Lit.Type, fn.Lit.Body
	} else {
		ftype, body, recv = fn.Decl.Type, fn.Decl.Body, fn.Decl.Recv
		// progress: a recursive call whose type arguments are the very values an enclosing activation of the same
		// function was called with (e.g. f(T) -> f(NewPointer(T)) -> f(T)) repeats the same decisions for ever.
		if key, ok := typeArgsKey(args); ok {
			for _, k := range in.active[fn.Decl] {
				if k == key {
					in.gpanic(callPos, "unbounded recursion: %s is re-entered with the very type argument(s) an enclosing activation of it is already working on (no constituent was removed in between), so the generator recurses until memory is exhausted", fn.Decl.Name.Name)
				}
			}
			if in.active == nil {
				in.active = map[*ast.FuncDecl][]string{}
			}
			in.active[fn.Decl] = append(in.active[fn.Decl], key)
			defer func() { in.active[fn.Decl] = in.active[fn.Decl][:len(in.active[fn.Decl])-1] }()
		}
		// the recursion cut is for emitters that descend the structure of a type (genStatement <-> genField): a helper that
		// is re-entered without any type among its arguments (block(opening, body func()) nested three deep) is not recursing
		// over the input, its depth is the depth of the generator's own text; it is only bounded by a generous limit
		typeDriven := false
		for _, a := range args {
			switch x := a.(type) {
			case *VOpaque:
				typeDriven = typeDriven || x != nil
			case *VList:
				for _, e := range x.Elems {
					if _, isOp := e.(*VOpaque); isOp {
						typeDriven = true
					}
				}
			}
		}
		if (typeDriven && in.stack[fn.Decl] >= 2) || in.stack[fn.Decl] >= 24 {
			// recursion cut: statement emitters leave a marker line; string-returning emitters return an EXPR hole
			sig := fn.Pkg.TypesInfo.Defs[fn.Decl.Name].Type().(*types.Signature)
			in.recCut = true
			returnsString := false
			for i := 0; i < sig.Results().Len(); i++ {
				if b, ok := sig.Results().At(i).Type().Underlying().(*types.Basic); ok && b.Info()&types.IsString != 0 {
					returnsString = true
				}
			}
			in.memo["E:recurse:"+fn.Decl.Name.Name] = 0
			if !returnsString {
				in.emit(lit("__RECURSE_"+fn.Decl.Name.Name+"__()"), callPos)
				return in.opaqueOfType("recurse:"+fn.Decl.Name.Name, sig.Results())
			}
			in.recN++
			vs := []Value{}
			for i := 0; i < sig.Results().Len(); i++ {
				t := sig.Results().At(i).Type()
				if b, ok := t.Underlying().(*types.Basic); ok && b.Info()&types.IsString != 0 {
					vs = append(vs, hole("EXPR", fmt.Sprintf("recurse:%s#%d", fn.Decl.Name.Name, in.recN)))
				} else {
					vs = append(vs, in.opaqueOfType("recurse:"+fn.Decl.Name.Name, t))
				}
			}
			if len(vs) == 1 {
				return vs[0]
			}
			return VTuple{vs}
		}
		in.stack[fn.Decl]++
		in.callNames = append(in.callNames, fn.Pkg.Name+"."+fn.Decl.Name.Name)
		defer func() { in.stack[fn.Decl]--; in.callNames = in.callNames[:len(in.callNames)-1] }()
	}
	if recv != nil && len(recv.List) == 1 && len(recv.List[0].Names) == 1 {
		v := fn.Recv
		fr.vars[fn.Pkg.TypesInfo.Defs[recv.List[0].Names[0]]] = &v
	}
	i := 0
	variadic := false
	if ftype.Params != nil {
		nparams := 0
		for _, f := range ftype.Params.List {
			nparams += len(f.Names)
		}
		for _, f := range ftype.Params.List {
			_, isEll := f.Type.(*ast.Ellipsis)
			for _, n := range f.Names {
				var v Value
				if isEll {
					variadic = true
					rest := &VList{}
					if i < len(args) {
						rest.Elems = append(rest.Elems, args[i:]...)
					}
					v = rest
				} else if i < len(args) {
					v = args[i]
				} else {
					v = &VOpaque{Origin: "missingarg"}
				}
				vv := v
				fr.vars[fn.Pkg.TypesInfo.Defs[n]] = &vv
				i++
			}
		}
	}
	_ = variadic
	// named results
	var resObjs []types.Object
	if ftype.Results != nil {
		for _, f := range ftype.Results.List {
			for _, n := range f.Names {
				o := fn.Pkg.TypesInfo.Defs[n]
				var z Value = in.zero(o.Type())
				fr.vars[o] = &z
				resObjs = append(resObjs, o)
			}
		}
	}
	var deferred []func()
	fr.defers = &deferred
	c, ret := in.block(fr, body.List)
	for k := len(deferred) - 1; k >= 0; k-- {
		deferred[k]()
	}
	if c == cReturn && ret != nil {
		return ret
	}
	if len(resObjs) > 0 {
		vs := []Value{}
		for _, o := range resObjs {
			vs = append(vs, *fr.vars[o])
		}
		if len(vs) == 1 {
			return vs[0]
		}
		return VTuple{vs}
	}
	return VTuple{}
}

func (in *Interp) zero(t types.Type) Value {
	if _, isPtr := t.(*types.Pointer); !isPtr && isBufType(t) {
		return &VBuf{}
	}
	switch u := t.Underlying().(type) {
	case *types.Basic:
		switch {
		case u.Info()&types.IsString != 0:
			return lit("")
		case u.Info()&types.IsBoolean != 0:
			return VBool{Known: true}
		case u.Info()&types.IsInteger != 0:
			return VInt{Known: true}
		}
	case *types.Struct:
		// the zero value of a struct type of the generator itself (var n Named; n.Fields = …): a struct of zero fields
		if n, ok := t.(*types.Named); !ok || (n.Obj().Pkg() != nil && strings.HasPrefix(n.Obj().Pkg().Path(), modPath)) {
			st := &VStruct{Fields: map[string]Value{}}
			if ok {
				st.Type = n
			}
			for i := 0; i < u.NumFields(); i++ {
				st.Fields[u.Field(i).Name()] = in.zero(u.Field(i).Type())
			}
			return st
		}
	}
	return VNil{}
}

func (in *Interp) emit(s VStr, pos token.Pos) {
	in.lines = append(in.lines, Line{Indent: in.indent, Str: s, Pos: pos})
	for _, p := range s.Parts {
		if p.Hole != nil && p.Hole.Kind == "PKG" {
			in.importUse[p.Hole.Origin] = true
		}
	}
}

func (in *Interp) block(fr *Frame, list []ast.Stmt) (ctl, Value) {
	for _, s := range list {
		if c, v := in.stmt(fr, s); c != cNone {
			return c, v
		}
	}
	return cNone, nil
}

func (in *Interp) assign(fr *Frame, lhs ast.Expr, v Value, define bool) {
	switch l := lhs.(type) {
	case *ast.Ident:
		if l.Name == "_" {
			return
		}
		if define {
			if o := in.info(fr).Defs[l]; o != nil {
				vv := v
				fr.vars[o] = &vv
				return
			}
		}
		o := in.info(fr).Uses[l]
		if o == nil {
			o = in.info(fr).Defs[l]
		}
		if p := fr.lookup(o); p != nil {
			*p = v
			return
		}
		vv := v
		fr.vars[o] = &vv
	case *ast.IndexExpr:
		base := in.eval(fr, l.X)
		idx := in.eval(fr, l.Index)
		switch b := base.(type) {
		case *VList:
			i, ok := idx.(VInt)
			if !ok || !i.Known || i.V >= len(b.Elems) {
				in.fail("index assign with unknown index")
			}
			b.Elems[i.V] = v
		case *VOpaque:
			// map write on opaque: ignore
		case *VMap:
			// a table the generator fills itself (used := map[string]bool{"f": true}; used[name] = true): the entry with an equal
			// key is replaced, otherwise one is added; later lookups choose among the entries as for a literal table
			for k, key := range b.Keys {
				if c, ok := in.binop(token.EQL, idx, key, origin(idx)+"=="+b.KeyText[k]).(VBool); ok && c.Known && c.V {
					b.Vals[k] = v
					return
				}
			}
			b.Keys = append(b.Keys, idx)
			b.KeyText = append(b.KeyText, origin(idx))
			b.Vals = append(b.Vals, v)
		default:
			in.fail("index assign on %T", base)
		}
	case *ast.SelectorExpr:
		base := in.eval(fr, l.X)
		if p, ok := base.(*VPtr); ok {
			base = p.Elem
		}
		if st, ok := base.(*VStruct); ok {
			st.Fields[l.Sel.Name] = v
			return
		}
		// ignore writes to opaque
	case *ast.StarExpr:
		// ignore
	default:
		in.fail("assign to %T", lhs)
	}
}

func (in *Interp) stmt(fr *Frame, s ast.Stmt) (ctl, Value) {
	switch v := s.(type) {
	case *ast.ExprStmt:
		in.eval(fr, v.X)
	case *ast.AssignStmt:
		define := v.Tok == token.DEFINE
		if v.Tok == token.ADD_ASSIGN {
			cur := in.eval(fr, v.Lhs[0])
			rhs := in.eval(fr, v.Rhs[0])
			in.assign(fr, v.Lhs[0], in.binop(token.ADD, cur, rhs, "+="), false)
			return cNone, nil
		}
		if len(v.Lhs) > 1 && len(v.Rhs) == 1 {
			r := in.evalMulti(fr, v.Rhs[0], len(v.Lhs))
			for i, l := range v.Lhs {
				in.assign(fr, l, r[i], define)
			}
			return cNone, nil
		}
		vals := []Value{}
		for _, r := range v.Rhs {
			vals = append(vals, in.eval(fr, r))
		}
		for i, l := range v.Lhs {
			in.assign(fr, l, vals[i], define)
		}
	case *ast.DeclStmt:
		gd := v.Decl.(*ast.GenDecl)
		for _, sp := range gd.Specs {
			vs, ok := sp.(*ast.ValueSpec)
			if !ok {
				continue
			}
			if len(vs.Names) > 1 && len(vs.Values) == 1 {
				// var a, ok = x.(T) / m[k] / f(): one multi-valued expression
				rv := in.evalMulti(fr, vs.Values[0], len(vs.Names))
				for i, n := range vs.Names {
					if n.Name == "_" {
						continue
					}
					vv := rv[i]
					fr.vars[in.info(fr).Defs[n]] = &vv
				}
				continue
			}
			for i, n := range vs.Names {
				var val Value
				if i < len(vs.Values) {
					val = in.eval(fr, vs.Values[i])
				} else {
					val = in.zero(in.info(fr).Defs[n].Type())
				}
				vv := val
				fr.vars[in.info(fr).Defs[n]] = &vv
			}
		}
	case *ast.IfStmt:
		sub := &Frame{vars: map[types.Object]*Value{}, pkg: fr.pkg, up: fr}
		if v.Init != nil {
			if c, r := in.stmt(sub, v.Init); c != cNone {
				return c, r
			}
		}
		if in.truth(in.eval(sub, v.Cond)) {
			return in.block(&Frame{vars: map[types.Object]*Value{}, pkg: fr.pkg, up: sub}, v.Body.List)
		} else if v.Else != nil {
			return in.stmt(sub, v.Else)
		}
	case *ast.BlockStmt:
		return in.block(&Frame{vars: map[types.Object]*Value{}, pkg: fr.pkg, up: fr}, v.List)
	case *ast.ReturnStmt:
		if len(v.Results) == 0 {
			return cReturn, nil
		}
		if len(v.Results) == 1 {
			return cReturn, in.eval(fr, v.Results[0])
		}
		vs := []Value{}
		for _, r := range v.Results {
			vs = append(vs, in.eval(fr, r))
		}
		return cReturn, VTuple{vs}
	case *ast.RangeStmt:
		x := in.eval(fr, v.X)
		var elems []Value
		switch l := x.(type) {
		case *VList:
			elems = l.Elems
		case VNil:
		case *VOpaque:
			elems = in.elemsOf(l).Elems
		case VInt:
			// for i := range n  is  for i := 0; i < n; i++ (n evaluated once)
			for iter := 0; ; iter++ {
				if iter > 64 {
					in.fail("loop bound exceeded")
				}
				if !in.truth(in.binop(token.LSS, VInt{Known: true, V: iter}, l, fmt.Sprintf("%d<%s", iter, origin(l)))) {
					break
				}
				sub := &Frame{vars: map[types.Object]*Value{}, pkg: fr.pkg, up: fr}
				if v.Key != nil {
					in.assign(sub, v.Key, VInt{Known: true, V: iter}, v.Tok == token.DEFINE)
				}
				c, r := in.block(sub, v.Body.List)
				if c == cBreak {
					break
				}
				if c == cReturn {
					return c, r
				}
			}
			return cNone, nil
		default:
			in.fail("range over %T at %v", x, fr.pkg.Fset.Position(v.Pos()))
		}
		_, overFunc := in.info(fr).TypeOf(v.X).Underlying().(*types.Signature)
		for i, e := range elems {
			sub := &Frame{vars: map[types.Object]*Value{}, pkg: fr.pkg, up: fr}
			if overFunc {
				// for x := range seq: the (first) iteration variable is the element
				if v.Key != nil {
					in.assign(sub, v.Key, e, v.Tok == token.DEFINE)
				}
				c, r := in.block(sub, v.Body.List)
				if c == cBreak {
					break
				}
				if c == cReturn {
					return c, r
				}
				continue
			}
			if v.Key != nil {
				in.assign(sub, v.Key, VInt{Known: true, V: i}, v.Tok == token.DEFINE)
			}
			if v.Value != nil {
				in.assign(sub, v.Value, e, v.Tok == token.DEFINE)
			}
			c, r := in.block(sub, v.Body.List)
			if c == cBreak {
				break
			}
			if c == cReturn {
				return c, r
			}
		}
	case *ast.ForStmt:
		sub := &Frame{vars: map[types.Object]*Value{}, pkg: fr.pkg, up: fr}
		if v.Init != nil {
			in.stmt(sub, v.Init)
		}
		for iter := 0; ; iter++ {
			if iter > 64 {
				in.fail("loop bound exceeded")
			}
			if v.Cond != nil && !in.truth(in.eval(sub, v.Cond)) {
				break
			}
			c, r := in.block(&Frame{vars: map[types.Object]*Value{}, pkg: fr.pkg, up: sub}, v.Body.List)
			if c == cBreak {
				break
			}
			if c == cReturn {
				return c, r
			}
			if v.Post != nil {
				in.stmt(sub, v.Post)
			}
		}
	case *ast.IncDecStmt:
		cur := in.eval(fr, v.X).(VInt)
		if v.Tok == token.INC {
			cur.V++
		} else {
			cur.V--
		}
		in.assign(fr, v.X, cur, false)
	case *ast.BranchStmt:
		switch v.Tok {
		case token.BREAK:
			return cBreak, nil
		case token.CONTINUE:
			return cContinue, nil
		}
		in.fail("branch %v", v.Tok)
	case *ast.SwitchStmt:
		sub := &Frame{vars: map[types.Object]*Value{}, pkg: fr.pkg, up: fr}
		if v.Init != nil {
			in.stmt(sub, v.Init)
		}
		var tag Value
		if v.Tag != nil {
			tag = in.eval(sub, v.Tag)
		}
		if tag == nil {
			// a switch without a tag evaluates its case expressions in order and stops at the first that holds (a later
			// expression may only be meaningful when the earlier ones are false: res.At(1) after res.Len() != 2)
			var def *ast.CaseClause
			for _, c := range v.Body.List {
				cc := c.(*ast.CaseClause)
				if cc.List == nil {
					def = cc
					continue
				}
				for _, e := range cc.List {
					if in.truth(in.eval(sub, e)) {
						c2, r := in.block(&Frame{vars: map[types.Object]*Value{}, pkg: fr.pkg, up: sub}, cc.Body)
						if c2 == cBreak {
							c2 = cNone
						}
						return c2, r
					}
				}
			}
			if def != nil {
				c2, r := in.block(&Frame{vars: map[types.Object]*Value{}, pkg: fr.pkg, up: sub}, def.Body)
				if c2 == cBreak {
					c2 = cNone
				}
				return c2, r
			}
			return cNone, nil
		}
		var def *ast.CaseClause
		var flat []*ast.CaseClause
		var conds []Value
		var caseVals []Value
		allUnknown := tag != nil
		for _, c := range v.Body.List {
			cc := c.(*ast.CaseClause)
			if cc.List == nil {
				def = cc
				continue
			}
			for _, e := range cc.List {
				var cond Value
				if tag != nil {
					cv := in.eval(sub, e)
					caseVals = append(caseVals, cv)
					cond = in.binop(token.EQL, tag, cv, origin(tag)+"=="+types.ExprString(e))
				} else {
					caseVals = append(caseVals, nil)
					cond = in.eval(sub, e)
				}
				if b, ok := cond.(VBool); !ok || b.Known {
					allUnknown = false
				}
				flat = append(flat, cc)
				conds = append(conds, cond)
			}
		}
		run := func(cc *ast.CaseClause) (ctl, Value) {
			c, r := in.block(&Frame{vars: map[types.Object]*Value{}, pkg: fr.pkg, up: sub}, cc.Body)
			if c == cBreak {
				c = cNone
			}
			return c, r
		}
		if allUnknown && len(flat) > 0 {
			var cands []string
			for _, cc := range v.Body.List {
				for _, e := range cc.(*ast.CaseClause).List {
					cands = append(cands, types.ExprString(e))
				}
			}
			cands = append(cands, "default")
			pick := in.decideC("S:"+origin(tag)+"#"+fmt.Sprint(len(flat))+"@"+in.switchID(v), len(flat)+1, cands)
			if ti, ok := tag.(VInt); ok && !ti.Known && ti.Sym != "" {
				if pick < len(flat) {
					if cv, ok := caseVals[pick].(VInt); ok && cv.Known {
						in.learnInt(ti.Sym, cv.V, true)
					}
				} else {
					for _, c := range caseVals {
						if cv, ok := c.(VInt); ok && cv.Known {
							in.learnInt(ti.Sym, cv.V, false)
						}
					}
				}
			}
			if pick < len(flat) {
				return run(flat[pick])
			}
			if def != nil {
				return run(def)
			}
			return cNone, nil
		}
		for i, cc := range flat {
			if in.truth(conds[i]) {
				return run(cc)
			}
		}
		if def != nil {
			return run(def)
		}
	case *ast.TypeSwitchStmt:
		sub := &Frame{vars: map[types.Object]*Value{}, pkg: fr.pkg, up: fr}
		var x ast.Expr
		switch a := v.Assign.(type) {
		case *ast.AssignStmt:
			x = a.Rhs[0].(*ast.TypeAssertExpr).X
		case *ast.ExprStmt:
			x = a.X.(*ast.TypeAssertExpr).X
		}
		val := in.eval(sub, x)
		op, ok := val.(*VOpaque)
		if !ok {
			in.fail("typeswitch on %T at %v", val, fr.pkg.Fset.Position(v.Pos()))
		}
		// candidate (arm, type) pairs + default/none
		type cand struct {
			arm  int
			kind string
		}
		var arms []*ast.CaseClause
		var cands []cand
		defArm := -1
		for i, c := range v.Body.List {
			cc := c.(*ast.CaseClause)
			arms = append(arms, cc)
			if cc.List == nil {
				defArm = i
				continue
			}
			for _, e := range cc.List {
				k := types.ExprString(e)
				if op.notNamed && (k == "*types.Named" || k == "*types.Alias") {
					continue
				}
				excluded := false
				for _, nk := range op.notKinds {
					if nk == k {
						excluded = true // an earlier assertion or switch on this very value already ruled the kind out
					}
				}
				if excluded && (op.Kind == "" || op.Kind == "other") {
					continue
				}
				cands = append(cands, cand{i, k})
			}
		}
		choice := -1
		// "other" only says: none of the kinds asked about so far; kinds that were never asked about are still open
		open := op.Kind == "" || (op.Kind == "other" && len(cands) > 0)
		if !open {
			for _, c := range cands {
				if c.kind == op.Kind {
					choice = c.arm
					break
				}
			}
			if choice == -1 {
				choice = defArm
			}
			if choice == -1 {
				return cNone, nil
			}
		} else {
			ks := []string{}
			for _, c := range cands {
				ks = append(ks, c.kind)
			}
			pick := in.decide("K:"+op.Origin+":"+strings.Join(ks, ","), len(cands)+1)
			if pick == len(cands) {
				op.Kind = "other"
				op.notKinds = append(op.notKinds, ks...)
				choice = defArm
				if choice == -1 {
					return cNone, nil
				}
			} else {
				op.Kind = cands[pick].kind
				choice = cands[pick].arm
			}
		}
		cc := arms[choice]
		body := &Frame{vars: map[types.Object]*Value{}, pkg: fr.pkg, up: sub}
		if o := in.info(fr).Implicits[cc]; o != nil {
			var vv Value = op
			body.vars[o] = &vv
		}
		c, r := in.block(body, cc.Body)
		if c == cBreak {
			c = cNone
		}
		return c, r
	case *ast.EmptyStmt:
	case *ast.DeferStmt:
		// the function value and the arguments are evaluated now, the call happens when the surrounding function returns
		root := fr.fnFrame()
		if root == nil {
			break
		}
		c := v.Call
		var callee Value
		if inner, ok := ast.Unparen(c.Fun).(*ast.CallExpr); ok {
			callee = in.call(fr, inner) // defer open(...)(): open runs now, what it returns runs at the end
		} else if _, isLit := ast.Unparen(c.Fun).(*ast.FuncLit); isLit {
			callee = in.eval(fr, c.Fun)
		} else if id, isID := ast.Unparen(c.Fun).(*ast.Ident); isID {
			if p := fr.lookup(in.info(fr).Uses[id]); p != nil {
				callee = *p
			}
		}
		if vf, ok := callee.(*VFunc); ok {
			var args []Value
			for _, a := range c.Args {
				args = append(args, in.eval(fr, a))
			}
			pos := c.Pos()
			*root.defers = append(*root.defers, func() { in.callFunc(vf, args, pos) })
		} else {
			// a method of a modelled value (p.Out(), buf.WriteString(…)): evaluated when it runs
			*root.defers = append(*root.defers, func() { in.call(fr, c) })
		}
	default:
		in.fail("stmt %T at %v", s, fr.pkg.Fset.Position(s.Pos()))
	}
	return cNone, nil
}

func (in *Interp) evalMulti(fr *Frame, e ast.Expr, n int) []Value {
	switch x := e.(type) {
	case *ast.TypeAssertExpr:
		v := in.eval(fr, x.X)
		want := types.ExprString(x.Type)
		if op, ok := v.(*VOpaque); ok {
			if op.Kind == "" && op.notNamed && (want == "*types.Named" || want == "*types.Alias") {
				return []Value{VNil{}, VBool{Known: true, V: false}}
			}
			for _, nk := range op.notKinds {
				if nk == want {
					return []Value{VNil{}, VBool{Known: true, V: false}}
				}
			}
			if want == "derive.ObjectGetter" {
				// the types with an Obj() method: in the abstract input space (no aliases, no type parameters) the defined types
				want = "*types.Named"
			}
			if op.Kind == "" || op.Kind == "other" {
				if in.decide("A:"+op.Origin+":"+want, 2) == 0 {
					op.Kind = want
					return []Value{op, VBool{Known: true, V: true}}
				}
				op.notKinds = append(op.notKinds, want)
				return []Value{VNil{}, VBool{Known: true, V: false}}
			}
			if op.Kind == want {
				return []Value{op, VBool{Known: true, V: true}}
			}
			return []Value{VNil{}, VBool{Known: true, V: false}}
		}
		return []Value{v, VBool{Sym: "assert:" + origin(v) + ":" + want}}
	case *ast.IndexExpr:
		// map lookup with ok
		base := in.eval(fr, x.X)
		idx := in.eval(fr, x.Index)
		if m, ok := base.(*VMap); ok {
			v, found := in.mapLookup(m, idx)
			return []Value{v, VBool{Known: true, V: found}}
		}
		org := origin(base) + "[" + origin(idx) + "]"
		return []Value{&VOpaque{Origin: org}, VBool{Sym: "has:" + org}}
	}
	v := in.eval(fr, e)
	if t, ok := v.(VTuple); ok && len(t.Vals) == n {
		return t.Vals
	}
	in.fail("multi-value mismatch: %T for %d at %v", v, n, fr.pkg.Fset.Position(e.Pos()))
	return nil
}

func (in *Interp) binop(op token.Token, a, b Value, sym string) Value {
	switch x := a.(type) {
	case VStr:
		y, ok := b.(VStr)
		if !ok {
			break
		}
		switch op {
		case token.ADD:
			return x.concat(y)
		case token.EQL, token.NEQ:
			xs, ok1 := x.isLit()
			ys, ok2 := y.isLit()
			if ok1 && ok2 {
				return VBool{Known: true, V: (xs == ys) == (op == token.EQL)}
			}
			// a user-chosen name (NAME hole) is a real identifier: never "_" and never empty
			isName := func(v VStr) bool {
				return len(v.Parts) == 1 && v.Parts[0].Hole != nil && v.Parts[0].Hole.Kind == "NAME"
			}
			if (ok1 && (xs == "_" || xs == "") && isName(y)) || (ok2 && (ys == "_" || ys == "") && isName(x)) {
				return VBool{Known: true, V: op == token.NEQ}
			}
			// a text with more literal characters than the literal it is compared with cannot equal it (in particular a text
			// with any literal part is not the empty string)
			litLen := func(v VStr) int {
				n := 0
				for _, p := range v.Parts {
					if p.Hole == nil {
						n += len(p.Lit)
					}
				}
				return n
			}
			if (ok2 && !ok1 && litLen(x) > len(ys)) || (ok1 && !ok2 && litLen(y) > len(xs)) {
				return VBool{Known: true, V: op == token.NEQ}
			}
			// a text that this path has already taken to be equal to one literal differs from every other literal
			if ok1 != ok2 {
				t, l := x, ys
				if ok1 {
					t, l = y, xs
				}
				tr := t.render()
				for k, choice := range in.memo {
					if choice != 0 || !strings.HasPrefix(k, "B:") {
						continue
					}
					parts := strings.SplitN(k[2:], "==", 2)
					if len(parts) != 2 {
						continue
					}
					other := ""
					switch {
					case parts[0] == tr:
						other = parts[1]
					case parts[1] == tr:
						other = parts[0]
					default:
						continue
					}
					if !strings.Contains(other, "__") && other != l {
						return VBool{Known: true, V: op == token.NEQ}
					}
				}
			}
			return VBool{Sym: x.render() + op.String() + y.render()}
		}
	case VInt:
		y, ok := b.(VInt)
		if !ok {
			break
		}
		if x.Known && y.Known {
			switch op {
			case token.ADD:
				return VInt{Known: true, V: x.V + y.V}
			case token.SUB:
				return VInt{Known: true, V: x.V - y.V}
			case token.EQL:
				return VBool{Known: true, V: x.V == y.V}
			case token.NEQ:
				return VBool{Known: true, V: x.V != y.V}
			case token.LSS:
				return VBool{Known: true, V: x.V < y.V}
			case token.LEQ:
				return VBool{Known: true, V: x.V <= y.V}
			case token.GTR:
				return VBool{Known: true, V: x.V > y.V}
			case token.GEQ:
				return VBool{Known: true, V: x.V >= y.V}
			}
		}
		if op == token.EQL || op == token.NEQ {
			if r, ok := in.intFact(x, y); ok {
				return VBool{Known: true, V: r == (op == token.EQL)}
			}
		}
		switch op {
		case token.ADD, token.SUB:
			return VInt{Sym: origin(x) + op.String() + origin(y)}
		case token.AND, token.OR, token.XOR, token.AND_NOT, token.SHL, token.SHR, token.MUL, token.QUO, token.REM:
			return VInt{Sym: origin(x) + op.String() + origin(y) + "\u27e8" + sym + "\u27e9"}
		}
		return VBool{Sym: origin(x) + op.String() + origin(y)}
	case VBool:
		y, ok := b.(VBool)
		if ok && x.Known && y.Known {
			switch op {
			case token.EQL:
				return VBool{Known: true, V: x.V == y.V}
			case token.NEQ:
				return VBool{Known: true, V: x.V != y.V}
			}
		}
	}
	// nil comparisons
	if op == token.EQL || op == token.NEQ {
		_, an := a.(VNil)
		_, bn := b.(VNil)
		if an && bn {
			return VBool{Known: true, V: op == token.EQL}
		}
		if _, isErr := a.(VErr); isErr && bn {
			return VBool{Known: true, V: op == token.NEQ}
		}
		if _, isErr := b.(VErr); isErr && an {
			return VBool{Known: true, V: op == token.NEQ}
		}
		if an || bn {
			// non-nil concrete things
			other := a
			if an {
				other = b
			}
			switch other.(type) {
			case *VList, *VStruct, *VPtr, *VFunc, *VSpecial:
				return VBool{Known: true, V: op == token.NEQ}
			}
		}
		return VBool{Sym: origin(a) + op.String() + origin(b)}
	}
	return VBool{Sym: sym}
}

func (in *Interp) eval(fr *Frame, e ast.Expr) Value {
	info := in.info(fr)
	if tv, ok := info.Types[e]; ok && tv.Value != nil {
		switch tv.Value.Kind() {
		case constant.String:
			return lit(constant.StringVal(tv.Value))
		case constant.Int:
			n, _ := constant.Int64Val(tv.Value)
			return VInt{Known: true, V: int(n)}
		case constant.Bool:
			return VBool{Known: true, V: constant.BoolVal(tv.Value)}
		}
	}
	switch x := e.(type) {
	case *ast.ParenExpr:
		return in.eval(fr, x.X)
	case *ast.Ident:
		if x.Name == "nil" {
			return VNil{}
		}
		o := info.Uses[x]
		if o == nil {
			o = info.Defs[x]
		}
		if p := fr.lookup(o); p != nil {
			return *p
		}
		if fn, ok := o.(*types.Func); ok {
			if d, ok := in.decls[fn]; ok {
				return d
			}
		}
		if v, ok := o.(*types.Var); ok && v.Pkg() != nil && v.Parent() == v.Pkg().Scope() {
			if cv, ok := in.globalConst(v); ok {
				return cv
			}
			return in.opaqueOfType("global:"+v.Name(), v.Type())
		}
		return &VOpaque{Origin: "ident:" + x.Name}
	case *ast.BasicLit:
		in.fail("non-constant basic lit")
	case *ast.BinaryExpr:
		if x.Op == token.LAND || x.Op == token.LOR {
			l := in.eval(fr, x.X)
			lt := in.truth(l)
			if x.Op == token.LAND && !lt {
				return VBool{Known: true, V: false}
			}
			if x.Op == token.LOR && lt {
				return VBool{Known: true, V: true}
			}
			r := in.eval(fr, x.Y)
			return VBool{Known: true, V: in.truth(r)}
		}
		return in.binop(x.Op, in.eval(fr, x.X), in.eval(fr, x.Y), types.ExprString(e))
	case *ast.UnaryExpr:
		v := in.eval(fr, x.X)
		switch x.Op {
		case token.NOT:
			b := v.(VBool)
			if b.Known {
				return VBool{Known: true, V: !b.V}
			}
			return VBool{Known: true, V: !in.truth(b)}
		case token.AND:
			return &VPtr{v}
		case token.SUB:
			i := v.(VInt)
			i.V = -i.V
			return i
		}
	case *ast.StarExpr:
		v := in.eval(fr, x.X)
		if p, ok := v.(*VPtr); ok {
			return p.Elem
		}
		if o, ok := v.(*VOpaque); ok {
			return o.attr("*", func() Value { return &VOpaque{Origin: "*" + o.Origin} })
		}
		return v
	case *ast.CompositeLit:
		t := info.TypeOf(x)
		if isBufType(t) {
			return &VBuf{}
		}
		switch u := t.Underlying().(type) {
		case *types.Struct:
			st := &VStruct{Fields: map[string]Value{}}
			if n, ok := t.(*types.Named); ok {
				st.Type = n
			}
			for i := 0; i < u.NumFields(); i++ {
				st.Fields[u.Field(i).Name()] = in.zero(u.Field(i).Type())
			}
			for i, el := range x.Elts {
				if kv, ok := el.(*ast.KeyValueExpr); ok {
					st.Fields[kv.Key.(*ast.Ident).Name] = in.eval(fr, kv.Value)
				} else {
					st.Fields[u.Field(i).Name()] = in.eval(fr, el)
				}
			}
			return st
		case *types.Slice:
			l := &VList{}
			for _, el := range x.Elts {
				l.Elems = append(l.Elems, in.eval(fr, el))
			}
			return l
		case *types.Map:
			if m, ok := in.mapLit(fr, x, u); ok {
				return m
			}
		}
		return &VOpaque{Origin: "lit:" + types.ExprString(x.Type)}
	case *ast.FuncLit:
		return &VFunc{Lit: x, Pkg: fr.pkg, Env: fr}
	case *ast.SelectorExpr:
		if sel, ok := info.Selections[x]; ok {
			base := in.eval(fr, x.X)
			return in.selectFrom(fr, base, sel, x)
		}
		// package-qualified
		o := info.Uses[x.Sel]
		if fn, ok := o.(*types.Func); ok {
			if d, ok := in.decls[fn]; ok {
				return d
			}
			return &VOpaque{Origin: "extfunc:" + fn.FullName()}
		}
		return &VOpaque{Origin: "qual:" + types.ExprString(x)}
	case *ast.IndexExpr:
		base := in.eval(fr, x.X)
		idx := in.eval(fr, x.Index)
		switch b := base.(type) {
		case *VMap:
			v, _ := in.mapLookup(b, idx)
			return v
		case *VList:
			i, ok := idx.(VInt)
			if ok && i.Known {
				if i.V < 0 || i.V >= len(b.Elems) {
					in.gpanic(x.Pos(), "index %d out of range of a list of length %d (%s)", i.V, len(b.Elems), types.ExprString(x))
				}
				return b.Elems[i.V]
			}
			in.fail("index with unknown int at %v", fr.pkg.Fset.Position(x.Pos()))
		case *VOpaque:
			return b.attr("["+origin(idx)+"]", func() Value {
				return in.opaqueOfType(b.Origin+"["+origin(idx)+"]", info.TypeOf(x))
			})
		case *VSpecial:
			if b.Kind == "deps" {
				name, _ := idx.(VStr).isLit()
				return &VSpecial{Kind: "dep", Name: name}
			}
		case VStr:
			if ls, ok := b.isLit(); ok {
				if i, ok := idx.(VInt); ok && i.Known {
					if i.V < 0 || i.V >= len(ls) {
						in.gpanic(x.Pos(), "index %d out of range of a string of length %d", i.V, len(ls))
					}
					return VInt{Known: true, V: int(ls[i.V])}
				}
			}
			// the first and the last byte of a text that starts / ends with a literal part are known; a part that stands for
			// an identifier (a field, function or package name) starts and ends with a letter-like byte
			if len(b.Parts) > 0 {
				edge := func(p Part, first bool) (int, bool) {
					if p.Hole == nil {
						if p.Lit == "" {
							return 0, false
						}
						if first {
							return int(p.Lit[0]), true
						}
						return int(p.Lit[len(p.Lit)-1]), true
					}
					switch p.Hole.Kind {
					case "NAME", "FUNC", "PKG":
						return 'x', true
					}
					return 0, false
				}
				if i, ok := idx.(VInt); ok && i.Known && i.V == 0 {
					if v, ok := edge(b.Parts[0], true); ok {
						return VInt{Known: true, V: v}
					}
				}
				// s[len(s)-1]
				if be, ok := ast.Unparen(x.Index).(*ast.BinaryExpr); ok && be.Op == token.SUB {
					if lc, ok := ast.Unparen(be.X).(*ast.CallExpr); ok && len(lc.Args) == 1 && types.ExprString(lc.Fun) == "len" && types.ExprString(lc.Args[0]) == types.ExprString(x.X) && types.ExprString(be.Y) == "1" {
						if v, ok := edge(b.Parts[len(b.Parts)-1], false); ok {
							return VInt{Known: true, V: v}
						}
					}
				}
			}
			return VInt{Sym: "byte(" + b.render() + "[" + origin(idx) + "])"}
		}
		in.fail("index on %T at %v", base, fr.pkg.Fset.Position(x.Pos()))
	case *ast.SliceExpr:
		base := in.eval(fr, x.X)
		switch b := base.(type) {
		case *VList:
			lo, hi := 0, len(b.Elems)
			if x.Low != nil {
				lo = in.eval(fr, x.Low).(VInt).V
			}
			if x.High != nil {
				hi = in.eval(fr, x.High).(VInt).V
			}
			if lo < 0 || hi > len(b.Elems) || lo > hi {
				in.gpanic(x.Pos(), "slice bounds out of range (%s on a list of length %d)", types.ExprString(x), len(b.Elems))
			}
			return &VList{append([]Value{}, b.Elems[lo:hi]...)}
		case VStr:
			if ls, ok := b.isLit(); ok {
				lo, hi := 0, len(ls)
				okb := true
				if x.Low != nil {
					if v, ok := in.eval(fr, x.Low).(VInt); ok && v.Known {
						lo = v.V
					} else {
						okb = false
					}
				}
				if x.High != nil {
					if v, ok := in.eval(fr, x.High).(VInt); ok && v.Known {
						hi = v.V
					} else {
						okb = false
					}
				}
				if okb {
					if lo < 0 || hi > len(ls) || lo > hi {
						in.gpanic(x.Pos(), "slice bounds out of range (%s on a string of length %d)", types.ExprString(x), len(ls))
					}
					return lit(ls[lo:hi])
				}
			}
			return hole("OPAQUE", "slice("+b.render()+")")
		}
		in.fail("slice of %T", base)
	case *ast.TypeAssertExpr:
		v := in.eval(fr, x.X)
		want := types.ExprString(x.Type)
		if op, ok := v.(*VOpaque); ok {
			if op.Kind == "" {
				in.gpanic(x.Pos(), "single-value type assertion %s on a value whose kind no earlier check established (%s)", types.ExprString(x), op.Origin)
			}
			if strings.HasPrefix(op.Kind, "*types.") && strings.HasPrefix(want, "*types.") && op.Kind != want {
				in.gpanic(x.Pos(), "single-value type assertion %s on a value known to be %s", types.ExprString(x), op.Kind)
			}
		}
		return v
	case *ast.CallExpr:
		return in.call(fr, x)
	case *ast.KeyValueExpr:
	}
	in.fail("expr %T at %v", e, fr.pkg.Fset.Position(e.Pos()))
	return nil
}

func (in *Interp) selectFrom(fr *Frame, base Value, sel *types.Selection, x *ast.SelectorExpr) Value {
	if p, ok := base.(*VPtr); ok {
		base = p.Elem
	}
	switch b := base.(type) {
	case *VBuf:
		return &VBufMeth{B: b, Name: x.Sel.Name}
	case *VStruct:
		if sel.Kind() == types.FieldVal {
			// walk embedded path
			cur := Value(b)
			t := sel.Recv()
			for _, idx := range sel.Index() {
				if pt, ok := t.Underlying().(*types.Pointer); ok {
					t = pt.Elem()
				}
				st := t.Underlying().(*types.Struct)
				f := st.Field(idx)
				if p, ok := cur.(*VPtr); ok {
					cur = p.Elem
				}
				cs, ok := cur.(*VStruct)
				if !ok {
					return in.opaqueOfType(origin(cur)+"."+f.Name(), f.Type())
				}
				cur = cs.Fields[f.Name()]
				t = f.Type()
			}
			return cur
		}
		// method: may be promoted through embedded field
		fn := sel.Obj().(*types.Func)
		recv := Value(b)
		idxs := sel.Index()
		t := sel.Recv()
		for _, idx := range idxs[:len(idxs)-1] {
			if pt, ok := t.Underlying().(*types.Pointer); ok {
				t = pt.Elem()
			}
			st := t.Underlying().(*types.Struct)
			f := st.Field(idx)
			if p, ok := recv.(*VPtr); ok {
				recv = p.Elem
			}
			recv = recv.(*VStruct).Fields[f.Name()]
			t = f.Type()
		}
		if d, ok := in.decls[fn]; ok {
			return &VFunc{Decl: d.Decl, Pkg: d.Pkg, Recv: recv}
		}
		if sp, ok := recv.(*VSpecial); ok {
			return &VSpecial{Kind: sp.Kind + "." + fn.Name(), Name: sp.Name}
		}
		return &VOpaque{Origin: origin(recv) + "." + fn.Name()}
	case *VSpecial:
		if b.Kind == "typesmap" && !modelledTypesMapMethods[x.Sel.Name] {
			if fn, ok := sel.Obj().(*types.Func); ok {
				if d, ok := in.decls[fn]; ok {
					return &VFunc{Decl: d.Decl, Pkg: d.Pkg, Recv: b}
				}
			}
		}
		return &VSpecial{Kind: b.Kind + "." + x.Sel.Name, Name: b.Name}
	case *VOpaque:
		if sel.Kind() == types.FieldVal {
			return b.attr("."+x.Sel.Name, func() Value { return in.opaqueOfType(b.Origin+"."+x.Sel.Name, sel.Type()) })
		}
		if fn, ok := sel.Obj().(*types.Func); ok {
			if d, ok := in.decls[fn]; ok {
				return &VFunc{Decl: d.Decl, Pkg: d.Pkg, Recv: b}
			}
		}
		return &VOpaque{Origin: b.Origin + "." + x.Sel.Name, Kind: "method", recv: b, meth: x.Sel.Name}
	case VNil:
		return &VOpaque{Origin: "nil." + x.Sel.Name}
	}
	// a method of a defined type of the generator whose values are plain (type resultCount int; type names []string)
	if sel.Kind() == types.MethodVal {
		if fn, ok := sel.Obj().(*types.Func); ok {
			if d, ok := in.decls[fn]; ok {
				return &VFunc{Decl: d.Decl, Pkg: d.Pkg, Recv: base}
			}
		}
	}
	in.fail("select from %T (%s) at %v", base, x.Sel.Name, fr.pkg.Fset.Position(x.Pos()))
	return nil
}

// isGoTypesValue: the static type is one of go/types' descriptions of a type or object (types.Type, *types.Named, *types.Var, …).
func isGoTypesValue(t types.Type) bool {
	if t == nil {
		return false
	}
	if p, ok := t.(*types.Pointer); ok {
		t = p.Elem()
	}
	n, ok := t.(*types.Named)
	return ok && n.Obj().Pkg() != nil && n.Obj().Pkg().Path() == "go/types"
}

// rawTypeArgs: an operand of a format that is a go/types value is printed with its own String method: the text of a type
// qualified with full import paths ("demo/geo.Point", "encoding/json.Number", for the package being generated even "..Point"),
// never with the qualifier of the generated file, and without registering an import. Such an operand becomes a RAWTYPE hole, so
// that a rule can see where it ends up (in an error message it is harmless, in emitted code it is not Go).
func (in *Interp) rawTypeArgs(fr *Frame, c *ast.CallExpr, args []Value, first int) []Value {
	if c.Ellipsis.IsValid() {
		return args
	}
	info := in.info(fr)
	out := args
	for i := first; i < len(args) && i < len(c.Args); i++ {
		o, isOp := args[i].(*VOpaque)
		if !isOp || !isGoTypesValue(info.TypeOf(c.Args[i])) {
			continue
		}
		if &out[0] == &args[0] {
			out = append([]Value{}, args...)
		}
		out[i] = hole("RAWTYPE", o.Origin)
	}
	return out
}

func (in *Interp) sprintf(args []Value) VStr {
	f, ok := args[0].(VStr)
	if !ok {
		in.fail("sprintf format %T", args[0])
	}
	out := VStr{}
	ai := 1
	for _, p := range f.Parts {
		if p.Hole != nil {
			// type text in the format itself: a percent sign inside it (a struct tag) is taken for a verb
			if m := in.mangledType(p.Hole); m != nil {
				out = out.concat(holeV(m))
				continue
			}
			out = out.concat(VStr{[]Part{p}})
			continue
		}
		s := p.Lit
		for {
			i := strings.IndexByte(s, '%')
			if i < 0 || i+1 >= len(s) {
				out = out.concat(lit(s))
				break
			}
			out = out.concat(lit(s[:i]))
			verb := s[i+1]
			s = s[i+2:]
			switch verb {
			case '%':
				out = out.concat(lit("%"))
			case 's', 'd', 'v':
				if ai >= len(args) {
					out = out.concat(lit("%!" + string(verb) + "(MISSING)"))
					continue
				}
				switch a := args[ai].(type) {
				case VStr:
					out = out.concat(a)
				case VInt:
					if a.Known {
						out = out.concat(lit(strconv.Itoa(a.V)))
					} else {
						out = out.concat(hole("OPAQUE", a.Sym))
					}
				default:
					out = out.concat(hole("OPAQUE", origin(a)))
				}
				ai++
			case '#':
				out = out.concat(lit("%#"))
			case '[':
				// explicit index like %[1]s
				j := strings.IndexByte(s, ']')
				n, _ := strconv.Atoi(s[:j])
				s = s[j+2:]
				if a, ok := args[n].(VStr); ok {
					out = out.concat(a)
				} else {
					out = out.concat(hole("OPAQUE", origin(args[n])))
				}
			default:
				out = out.concat(lit("%" + string(verb)))
			}
		}
	}
	return out
}

func (in *Interp) call(fr *Frame, c *ast.CallExpr) Value {
	info := in.info(fr)
	// conversions
	if tv, ok := info.Types[c.Fun]; ok && tv.IsType() {
		v := in.eval(fr, c.Args[0])
		if sv, ok := v.(VStr); ok {
			if ls, isLit := sv.isLit(); isLit {
				switch types.ExprString(c.Fun) {
				case "[]rune":
					l := &VList{}
					for _, r := range ls {
						l.Elems = append(l.Elems, VInt{Known: true, V: int(r)})
					}
					return l
				case "[]byte":
					l := &VList{}
					for i := 0; i < len(ls); i++ {
						l.Elems = append(l.Elems, VInt{Known: true, V: int(ls[i])})
					}
					return l
				}
			}
		}
		if iv, ok := v.(VInt); ok && iv.Known && types.ExprString(c.Fun) == "string" {
			return lit(string(rune(iv.V)))
		}
		if l, ok := v.(*VList); ok && types.ExprString(c.Fun) == "string" {
			if bs, ok := bytesOfList(l); ok {
				return lit(bs)
			}
		}
		return v
	}
	// builtins
	if id, ok := c.Fun.(*ast.Ident); ok {
		if _, ok := info.Uses[id].(*types.Builtin); ok {
			switch id.Name {
			case "len":
				v := in.eval(fr, c.Args[0])
				switch l := v.(type) {
				case *VList:
					return VInt{Known: true, V: len(l.Elems)}
				case VStr:
					if s, ok := l.isLit(); ok {
						return VInt{Known: true, V: len(s)}
					}
				case VNil:
					return VInt{Known: true, V: 0}
				case *VOpaque:
					return VInt{Known: true, V: len(in.elemsOf(l).Elems)}
				}
				return VInt{Sym: "len(" + origin(v) + ")"}
			case "make":
				t := info.TypeOf(c.Args[0])
				if _, ok := t.Underlying().(*types.Slice); ok {
					n := in.eval(fr, c.Args[1]).(VInt)
					if !n.Known {
						in.fail("make with unknown len %s", n.Sym)
					}
					l := &VList{}
					for i := 0; i < n.V; i++ {
						l.Elems = append(l.Elems, in.zero(t.Underlying().(*types.Slice).Elem()))
					}
					return l
				}
				return &VOpaque{Origin: "make:" + t.String()}
			case "append":
				base := in.eval(fr, c.Args[0])
				l, ok := base.(*VList)
				if !ok {
					if _, isNil := base.(VNil); isNil {
						l = &VList{}
					} else {
						in.fail("append to %T", base)
					}
				}
				out := &VList{append([]Value{}, l.Elems...)}
				for i, a := range c.Args[1:] {
					v := in.eval(fr, a)
					if c.Ellipsis.IsValid() && i == len(c.Args)-2 {
						out.Elems = append(out.Elems, v.(*VList).Elems...)
					} else {
						out.Elems = append(out.Elems, v)
					}
				}
				return out
			case "panic":
				in.gpanic(c.Pos(), "explicit panic(%s)", exprsStr(c.Args))
			case "new":
				if t := info.TypeOf(c.Args[0]); t != nil {
					return &VPtr{in.zero(t)}
				}
			}
			in.fail("builtin %s", id.Name)
		}
	}
	fun := in.eval(fr, c.Fun)
	var args []Value
	for i, a := range c.Args {
		v := in.eval(fr, a)
		if c.Ellipsis.IsValid() && i == len(c.Args)-1 {
			if l, ok := v.(*VList); ok {
				args = append(args, l.Elems...)
				continue
			}
		}
		if t, ok := v.(VTuple); ok && len(c.Args) == 1 {
			args = append(args, t.Vals...)
			continue
		}
		args = append(args, v)
	}
	org := types.ExprString(c.Fun) + "("
	for i, a := range args {
		if i > 0 {
			org += ","
		}
		org += origin(a)
	}
	org += ")"
	switch f := fun.(type) {
	case *VBufMeth:
		switch f.Name {
		case "WriteString":
			f.B.S = f.B.S.concat(asStr(args[0]))
			return VTuple{[]Value{VInt{Sym: "n"}, VNil{}}}
		case "WriteByte", "WriteRune":
			if iv, ok := args[0].(VInt); ok && iv.Known {
				f.B.S = f.B.S.concat(lit(string(rune(iv.V))))
			} else {
				f.B.S = f.B.S.concat(hole("OPAQUE", origin(args[0])))
			}
			if f.Name == "WriteByte" {
				return VNil{}
			}
			return VTuple{[]Value{VInt{Sym: "n"}, VNil{}}}
		case "Write":
			if l, ok := args[0].(*VList); ok {
				if bs, ok := bytesOfList(l); ok {
					f.B.S = f.B.S.concat(lit(bs))
					return VTuple{[]Value{VInt{Sym: "n"}, VNil{}}}
				}
			}
			if sv, ok := asStrOK(args[0]); ok {
				f.B.S = f.B.S.concat(sv)
				return VTuple{[]Value{VInt{Sym: "n"}, VNil{}}}
			}
		case "String":
			return f.B.S
		case "Bytes":
			return f.B.S
		case "Len":
			if ls, ok := f.B.S.isLit(); ok {
				return VInt{Known: true, V: len(ls)}
			}
			if len(f.B.S.Parts) == 0 {
				return VInt{Known: true, V: 0}
			}
			// text with holes: not empty; its exact length is unknown
			return VInt{Sym: "len(" + f.B.S.render() + ")"}
		case "Reset":
			f.B.S = VStr{}
			return VTuple{}
		case "Grow":
			return VTuple{}
		}
		in.fail("method %s of a text buffer at %v", f.Name, fr.pkg.Fset.Position(c.Pos()))
	case *VFunc:
		if f.Decl != nil && in.isPurePredicate(f) && !(in.g9mode && in.stack[f.Decl] == 0) {
			sig := f.Pkg.TypesInfo.Defs[f.Decl.Name].Type().(*types.Signature)
			key := "pred:" + f.Decl.Name.Name + "("
			for _, a := range args {
				key += origin(a) + ","
			}
			key += ")"
			if v, ok := in.preds[key]; ok {
				return v
			}
			switch f.Decl.Name.Name {
			case "canEqual", "canCopy", "IsComparable":
				// empty struct: trivially true (see elemsOf)
				if len(args) == 1 {
					if o, ok := args[0].(*VOpaque); ok {
						cands := []*VOpaque{o}
						if u, ok := o.attrs["Underlying"].(*VOpaque); ok {
							cands = append(cands, u)
						}
						for _, c := range cands {
							if el, ok := c.attrs["#elems"].(*VList); ok && c.Kind == "*types.Struct" && len(el.Elems) == 0 {
								return VBool{Known: true, V: true}
							}
						}
					}
				}
			}
			v := in.opaqueOfType(key, sig.Results())
			in.preds[key] = v
			if len(args) == 1 {
				if o, ok := args[0].(*VOpaque); ok {
					in.predCalls = append(in.predCalls, predCall{f.Decl.Name.Name, o, key})
				}
			}
			return v
		}
		in.depth++
		if in.depth > 40 {
			in.fail("depth")
		}
		defer func() { in.depth-- }()
		return in.callFunc(f, args, c.Pos())
	case *VSpecial:
		switch f.Kind {
		case "printer.P":
			// P's first argument is a format: type text that arrives there (instead of as an operand of %s) is scanned for verbs,
			// and the text of a type can contain a percent sign (a struct tag)
			if fs, ok := args[0].(VStr); ok {
				for _, part := range fs.Parts {
					if part.Hole != nil && part.Hole.Kind == "TYPE" {
						in.formatData = append(in.formatData, c.Pos())
						break
					}
				}
			}
			in.emit(in.sprintf(in.rawTypeArgs(fr, c, args, 1)), c.Pos())
			return VTuple{}
		case "printer.In":
			in.indent++
			return VTuple{}
		case "printer.Out":
			in.indent--
			if in.indent < 0 {
				in.gpanic(c.Pos(), "printer.Out below zero indentation (the printer panics: unindenting more than has been indented)")
			}
			return VTuple{}
		case "printer.NewImport":
			n, _ := args[1].(VStr).isLit()
			return &VSpecial{Kind: "import", Name: n}
		case "import":
			in.imports[f.Name]++
			return hole("PKG", f.Name)
		case "typesmap.TypeString":
			ts := in.typeString(args[0], false)
			// the qualifier imports the package of every named type it spells (a side effect of TypeString)
			in.typeStringCalls = append(in.typeStringCalls, typeStringCall{ts, c.Pos()})
			return ts
		case "typesmap.TypeStringBypass":
			return in.typeString(args[0], true)
		case "typesmap.GetFuncName", "dep.GetFuncName":
			ss := []string{}
			for _, a := range args {
				ss = append(ss, origin(a))
			}
			who := "self"
			if f.Kind == "dep.GetFuncName" {
				who = f.Name
			}
			h := in.canonHole(&Hole{Kind: "FUNC", Origin: who + "(" + strings.Join(ss, ",") + ")", Who: who, Args: append([]Value{}, args...)})
			in.requests = append(in.requests, &Request{Who: who, Args: h.Args, Hole: h, Pos: c.Pos()})
			return holeV(h)
		case "typesmap.Generating":
			in.generating = append(in.generating, append([]Value{}, args...))
			return VTuple{}
		case "typesmap.SetFuncName":
			in.registered = append([]Value{}, args[1:]...)
			in.regName = args[0]
			return VTuple{[]Value{args[0], VNil{}}}
		case "typesmap.Done":
			return VBool{Sym: org}
		case "typesmap.ToGenerate":
			return &VList{}
		case "typesmap.IsExternal":
			// IsExternal hands Obj().Pkg() to the qualifier unchecked: sound only for struct-kinded named types
			// (predeclared named types — error, any — have no package and are never structs)
			if len(args) == 1 {
				if u := underlyingVal(args[0]); u == nil || u.Kind != "*types.Struct" {
					in.gpanic(c.Pos(), "IsExternal on a type not established to be a struct: predeclared types (error, any) have no package and the qualifier dereferences a nil *types.Package")
				}
			}
			return VBool{Sym: org}
		case "typesmap.FieldStrings", "typesmap.StructFieldStrings":
			if fi := in.repo.lookup("derive.(*typesMap)." + strings.TrimPrefix(f.Kind, "typesmap.")); fi != nil && fi.Decl.Body != nil {
				return in.callFunc(&VFunc{Decl: fi.Decl, Pkg: fi.Pkg, Recv: &VSpecial{Kind: "typesmap", Name: f.Name}}, args, c.Pos())
			}
			l := &VList{}
			if fl, ok := args[0].(*VList); ok {
				// one line per field: its name and its type, as the struct would be printed
				for _, f := range fl.Elems {
					if fo, ok := f.(*VOpaque); ok {
						l.Elems = append(l.Elems, in.varName(fo).concat(lit(" ")).concat(in.typeString(in.varType(fo), false)))
					}
				}
			} else {
				for i := 0; i < in.shape; i++ {
					l.Elems = append(l.Elems, hole("NAME", fmt.Sprintf("fielddecl%d", i)).concat(lit(" ")).concat(hole("TYPE", fmt.Sprintf("fieldtype%d", i))))
				}
			}
			var err Value = VNil{}
			if in.decide("E:"+org, 2) == 1 {
				err = VErr{org}
			}
			return VTuple{[]Value{l, err}}
		case "typesmap.Prefix":
			return hole("NAME", "prefix")
		}
		in.fail("special call %s at %v", f.Kind, fr.pkg.Fset.Position(c.Pos()))
	case *VOpaque:
		if m, ok := in.ext[f.Origin]; ok {
			return m(args)
		}
		// stdlib models
		switch f.Origin {
		case "extfunc:slices.Collect", "extfunc:slices.Clone", "extfunc:slices.Values":
			switch l := args[0].(type) {
			case *VList:
				return &VList{append([]Value{}, l.Elems...)}
			case VNil:
				if f.Origin != "extfunc:slices.Values" {
					return VNil{}
				}
				return &VList{}
			}
		case "extfunc:slices.AppendSeq":
			// append(list, all elements of the sequence…)
			var base []Value
			switch l := args[0].(type) {
			case *VList:
				base = l.Elems
			case VNil:
			default:
				in.fail("slices.AppendSeq to %T", args[0])
			}
			if seq, ok := args[1].(*VList); ok {
				return &VList{append(append([]Value{}, base...), seq.Elems...)}
			}
		case "extfunc:slices.Concat":
			out := &VList{}
			lists := args
			if c.Ellipsis.IsValid() && len(args) == 1 {
				if l, ok := args[0].(*VList); ok {
					lists = l.Elems
				}
			}
			okAll := true
			for _, a := range lists {
				switch l := a.(type) {
				case *VList:
					out.Elems = append(out.Elems, l.Elems...)
				case VNil:
				default:
					okAll = false
				}
			}
			if okAll {
				return out
			}
		case "extfunc:slices.Delete":
			if l, ok := args[0].(*VList); ok {
				i, ok1 := args[1].(VInt)
				j, ok2 := args[2].(VInt)
				if ok1 && ok2 && i.Known && j.Known && i.V >= 0 && i.V <= j.V && j.V <= len(l.Elems) {
					return &VList{append(append([]Value{}, l.Elems[:i.V]...), l.Elems[j.V:]...)}
				}
				if ok1 && ok2 && i.Known && j.Known {
					in.gpanic(c.Pos(), "slices.Delete(s, %d, %d) on a list of length %d", i.V, j.V, len(l.Elems))
				}
			}
		case "extfunc:slices.Reverse":
			if l, ok := args[0].(*VList); ok {
				for i, j := 0, len(l.Elems)-1; i < j; i, j = i+1, j-1 {
					l.Elems[i], l.Elems[j] = l.Elems[j], l.Elems[i]
				}
				return VTuple{}
			}
		case "extfunc:slices.ContainsFunc", "extfunc:slices.IndexFunc", "extfunc:slices.DeleteFunc":
			// the predicate is applied to the elements in order, as the library does
			var elems []Value
			switch l := args[0].(type) {
			case *VList:
				elems = l.Elems
			case VNil:
			default:
				in.fail("%s over %T", f.Origin, args[0])
			}
			if pf, ok := args[1].(*VFunc); ok {
				var kept []Value
				for i, e := range elems {
					hit := in.truth(in.callFunc(pf, []Value{e}, c.Pos()))
					switch f.Origin {
					case "extfunc:slices.ContainsFunc":
						if hit {
							return VBool{Known: true, V: true}
						}
					case "extfunc:slices.IndexFunc":
						if hit {
							return VInt{Known: true, V: i}
						}
					default:
						if !hit {
							kept = append(kept, e)
						}
					}
				}
				switch f.Origin {
				case "extfunc:slices.ContainsFunc":
					return VBool{Known: true, V: false}
				case "extfunc:slices.IndexFunc":
					return VInt{Known: true, V: -1}
				}
				return &VList{kept}
			}
		case "extfunc:slices.EqualFunc":
			la, ok1 := args[0].(*VList)
			lb, ok2 := args[1].(*VList)
			if _, isNil := args[0].(VNil); isNil {
				la, ok1 = &VList{}, true
			}
			if _, isNil := args[1].(VNil); isNil {
				lb, ok2 = &VList{}, true
			}
			if pf, ok := args[2].(*VFunc); ok && ok1 && ok2 {
				if len(la.Elems) != len(lb.Elems) {
					return VBool{Known: true, V: false}
				}
				for i := range la.Elems {
					if !in.truth(in.callFunc(pf, []Value{la.Elems[i], lb.Elems[i]}, c.Pos())) {
						return VBool{Known: true, V: false}
					}
				}
				return VBool{Known: true, V: true}
			}
		case "extfunc:strings.IndexByte", "extfunc:strings.IndexRune", "extfunc:strings.ContainsRune":
			if hs, ok := asStrOK(args[0]); ok {
				if txt, isLit := hs.isLit(); isLit {
					if b, ok := args[1].(VInt); ok && b.Known {
						i := strings.IndexRune(txt, rune(b.V))
						if f.Origin == "extfunc:strings.ContainsRune" {
							return VBool{Known: true, V: i >= 0}
						}
						return VInt{Known: true, V: i}
					}
				}
			}
		case "extfunc:fmt.Sprintf":
			return in.sprintf(in.rawTypeArgs(fr, c, args, 1))
		case "extfunc:fmt.Fprintf", "extfunc:fmt.Fprint":
			// into a text buffer of the generator
			var buf *VBuf
			if len(args) > 0 {
				switch b := args[0].(type) {
				case *VBuf:
					buf = b
				case *VPtr:
					buf, _ = b.Elem.(*VBuf)
				}
			}
			if buf != nil {
				if f.Origin == "extfunc:fmt.Fprintf" {
					buf.S = buf.S.concat(asStr(in.sprintf(args[1:])))
				} else {
					for _, a := range args[1:] {
						buf.S = buf.S.concat(asStr(a))
					}
				}
				return VTuple{[]Value{VInt{Sym: "n"}, VNil{}}}
			}
		case "extfunc:bytes.NewBufferString", "extfunc:bytes.NewBuffer":
			b := &VBuf{}
			if len(args) == 1 {
				if sv, ok := asStrOK(args[0]); ok {
					b.S = sv
				}
			}
			return &VPtr{b}
		case "extfunc:fmt.Errorf", "extfunc:errors.New":
			return VErr{"errorf@" + fr.pkg.Fset.Position(c.Pos()).String()}
		case "extfunc:strconv.Atoi":
			if ls, ok := args[0].(VStr).isLit(); ok {
				if n, err := strconv.Atoi(ls); err == nil {
					return VTuple{[]Value{VInt{Known: true, V: n}, VNil{}}}
				}
				return VTuple{[]Value{VInt{Known: true, V: 0}, VErr{"atoi"}}}
			}
		case "extfunc:strconv.Itoa":
			i := args[0].(VInt)
			if i.Known {
				return lit(strconv.Itoa(i.V))
			}
			return hole("OPAQUE", i.Sym)
		case "extfunc:strings.Join":
			l, ok := args[0].(*VList)
			if !ok {
				return hole("OPAQUE", org)
			}
			out := VStr{}
			for i, e := range l.Elems {
				if i > 0 {
					out = out.concat(args[1].(VStr))
				}
				out = out.concat(e.(VStr))
			}
			return out
		case "extfunc:strings.HasPrefix", "extfunc:strings.HasSuffix", "extfunc:strings.Contains":
			s, ok1 := args[0].(VStr).isLit()
			p, ok2 := args[1].(VStr).isLit()
			if ok1 && ok2 {
				switch f.Origin {
				case "extfunc:strings.HasPrefix":
					return VBool{Known: true, V: strings.HasPrefix(s, p)}
				case "extfunc:strings.HasSuffix":
					return VBool{Known: true, V: strings.HasSuffix(s, p)}
				default:
					return VBool{Known: true, V: strings.Contains(s, p)}
				}
			}
			// decide from literal prefix/suffix part when possible
			sv := args[0].(VStr)
			if ok2 && f.Origin == "extfunc:strings.Contains" {
				for _, part := range sv.Parts {
					if part.Hole == nil && strings.Contains(part.Lit, p) {
						return VBool{Known: true, V: true}
					}
				}
			}
			if ok2 && len(sv.Parts) > 0 {
				if f.Origin == "extfunc:strings.HasPrefix" && sv.Parts[0].Hole == nil && len(sv.Parts[0].Lit) >= len(p) {
					return VBool{Known: true, V: strings.HasPrefix(sv.Parts[0].Lit, p)}
				}
				last := sv.Parts[len(sv.Parts)-1]
				if f.Origin == "extfunc:strings.HasSuffix" && last.Hole == nil && len(last.Lit) >= len(p) {
					return VBool{Known: true, V: strings.HasSuffix(last.Lit, p)}
				}
			}
			// an identifier-like hole (field/parameter/function/package name) never begins or ends with punctuation
			if ok2 && len(sv.Parts) > 0 && len(p) > 0 && !isIdentByte(p[0]) {
				first, last := sv.Parts[0], sv.Parts[len(sv.Parts)-1]
				identHole := func(h *Hole) bool {
					return h != nil && (h.Kind == "NAME" || h.Kind == "FUNC" || h.Kind == "PKG")
				}
				if f.Origin == "extfunc:strings.HasPrefix" && identHole(first.Hole) {
					return VBool{Known: true, V: false}
				}
				if f.Origin == "extfunc:strings.HasSuffix" && identHole(last.Hole) && !isIdentByte(p[len(p)-1]) {
					return VBool{Known: true, V: false}
				}
			}
			return VBool{Sym: org}
		case "extfunc:go/format.Source":
			// gofmt changes the white space inside lines and the alignment of columns; it neither joins nor splits the lines of a
			// declaration whose fields are each on a line of their own (assumption, DESIGN 8.6); it fails on text that does not parse
			var err Value = VNil{}
			where := fmt.Sprintf("format.Source@%s", in.repo.pos(c.Pos()))
			if in.decide("E:"+where, 2) == 1 {
				err = VErr{where}
			}
			return VTuple{[]Value{asStr(args[0]), err}}
		case "extfunc:strings.TrimPrefix", "extfunc:strings.TrimSuffix":
			sv, ok1 := args[0].(VStr)
			p, ok2 := asStr(args[1]).isLit()
			if !ok1 || !ok2 {
				break
			}
			if len(sv.Parts) == 0 || p == "" {
				return sv
			}
			parts := append([]Part{}, sv.Parts...)
			if f.Origin == "extfunc:strings.TrimPrefix" {
				first := parts[0]
				if first.Hole != nil {
					if first.Hole.Kind == "NAME" || first.Hole.Kind == "FUNC" || first.Hole.Kind == "PKG" {
						if !isIdentByte(p[0]) || len(p) > 0 && !isIdentStr(p) {
							return sv
						}
					}
					in.fail("strings.TrimPrefix(%s, %q): the text begins with a hole", sv.render(), p)
				}
				if strings.HasPrefix(first.Lit, p) {
					parts[0] = Part{Lit: first.Lit[len(p):]}
					return VStr{parts}
				}
				if len(first.Lit) >= len(p) || len(parts) == 1 {
					return sv
				}
				in.fail("strings.TrimPrefix(%s, %q): undetermined", sv.render(), p)
			}
			last := parts[len(parts)-1]
			if last.Hole != nil {
				if last.Hole.Kind == "NAME" || last.Hole.Kind == "FUNC" || last.Hole.Kind == "PKG" {
					if !isIdentStr(p) {
						return sv
					}
				}
				in.fail("strings.TrimSuffix(%s, %q): the text ends with a hole", sv.render(), p)
			}
			if strings.HasSuffix(last.Lit, p) {
				parts[len(parts)-1] = Part{Lit: last.Lit[:len(last.Lit)-len(p)]}
				return VStr{parts}
			}
			if len(last.Lit) >= len(p) || len(parts) == 1 {
				return sv
			}
			in.fail("strings.TrimSuffix(%s, %q): undetermined", sv.render(), p)
		case "extfunc:bytes.TrimSpace":
			if sv, ok := asStrOK(args[0]); ok {
				parts := append([]Part{}, sv.Parts...)
				if len(parts) > 0 && parts[0].Hole == nil {
					parts[0] = Part{Lit: strings.TrimLeft(parts[0].Lit, " \t\n\r")}
				}
				if n := len(parts); n > 0 && parts[n-1].Hole == nil {
					parts[n-1] = Part{Lit: strings.TrimRight(parts[n-1].Lit, " \t\n\r")}
				}
				return VStr{parts}
			}
		case "extfunc:strings.Split", "extfunc:bytes.Split":
			sv, ok1 := asStrOK(args[0])
			sep, ok2 := asStr(args[1]).isLit()
			if !ok1 || !ok2 || sep == "" {
				break
			}
			// split the literal parts; holes stay inside their segment (holes stand for identifiers/types, assumed free of sep)
			out := &VList{}
			cur := VStr{}
			for _, part := range sv.Parts {
				if part.Hole != nil {
					cur = cur.concat(VStr{[]Part{part}})
					continue
				}
				segs := strings.Split(part.Lit, sep)
				for i, sg := range segs {
					if i > 0 {
						out.Elems = append(out.Elems, cur)
						cur = VStr{}
					}
					cur = cur.concat(lit(sg))
				}
			}
			out.Elems = append(out.Elems, cur)
			return out
		case "extfunc:strings.Cut":
			sv, ok1 := asStrOK(args[0])
			sep, ok2 := asStr(args[1]).isLit()
			if !ok1 || !ok2 || sep == "" {
				break
			}
			// before, after, found: cut at the first occurrence of sep in the literal parts (holes are assumed free of sep)
			before, after := VStr{}, VStr{}
			found := false
			for _, part := range sv.Parts {
				if found {
					after = after.concat(VStr{[]Part{part}})
					continue
				}
				if part.Hole != nil {
					before = before.concat(VStr{[]Part{part}})
					continue
				}
				if i := strings.Index(part.Lit, sep); i >= 0 {
					found = true
					before = before.concat(lit(part.Lit[:i]))
					after = after.concat(lit(part.Lit[i+len(sep):]))
				} else {
					before = before.concat(lit(part.Lit))
				}
			}
			return VTuple{[]Value{before, after, VBool{Known: true, V: found}}}
		case "extfunc:strings.Replace", "extfunc:strings.ReplaceAll":
			sv, ok1 := args[0].(VStr)
			old, ok2 := args[1].(VStr).isLit()
			nw, ok3 := args[2].(VStr)
			if !ok1 || !ok2 || !ok3 || old == "" {
				break
			}
			n := -1
			if f.Origin == "extfunc:strings.Replace" {
				ni, ok := args[3].(VInt)
				if !ok || !ni.Known {
					break
				}
				n = ni.V
			}
			out := VStr{}
			for _, part := range sv.Parts {
				if part.Hole != nil {
					out = out.concat(VStr{[]Part{part}})
					continue
				}
				rest := part.Lit
				for n != 0 {
					i := strings.Index(rest, old)
					if i < 0 {
						break
					}
					out = out.concat(lit(rest[:i])).concat(nw)
					rest = rest[i+len(old):]
					if n > 0 {
						n--
					}
				}
				out = out.concat(lit(rest))
			}
			return out
		case "extfunc:strings.Map":
			// literal input: apply the mapping function rune by rune
			if ls, ok := args[1].(VStr).isLit(); ok {
				if mf, ok := args[0].(*VFunc); ok {
					out := ""
					for _, r := range ls {
						res := in.callFunc(mf, []Value{VInt{Known: true, V: int(r)}}, c.Pos())
						ri, ok := res.(VInt)
						if !ok || !ri.Known {
							in.fail("strings.Map with a mapping function whose result is not determined")
						}
						if ri.V >= 0 {
							out += string(rune(ri.V))
						}
					}
					return lit(out)
				}
			}
		case "extfunc:unicode.IsLower", "extfunc:unicode.IsUpper", "extfunc:unicode.IsLetter", "extfunc:unicode.IsDigit":
			if r, ok := args[0].(VInt); ok && r.Known {
				switch f.Origin {
				case "extfunc:unicode.IsLower":
					return VBool{Known: true, V: unicode.IsLower(rune(r.V))}
				case "extfunc:unicode.IsUpper":
					return VBool{Known: true, V: unicode.IsUpper(rune(r.V))}
				case "extfunc:unicode.IsLetter":
					return VBool{Known: true, V: unicode.IsLetter(rune(r.V))}
				default:
					return VBool{Known: true, V: unicode.IsDigit(rune(r.V))}
				}
			}
		case "extfunc:unicode/utf8.DecodeRuneInString":
			if ls, ok := args[0].(VStr).isLit(); ok {
				r, n := utf8.DecodeRuneInString(ls)
				return VTuple{[]Value{VInt{Known: true, V: int(r)}, VInt{Known: true, V: n}}}
			}
		case "extfunc:go/token.IsExported", "extfunc:go/ast.IsExported":
			if ls, ok := args[0].(VStr).isLit(); ok {
				return VBool{Known: true, V: token.IsExported(ls)}
			}
		case "extfunc:strings.ToLower", "extfunc:strings.ToUpper", "extfunc:strings.TrimSpace":
			if sv, ok := args[0].(VStr); ok && f.Origin == "extfunc:strings.TrimSpace" {
				if _, isLit := sv.isLit(); !isLit {
					parts := append([]Part{}, sv.Parts...)
					if len(parts) > 0 && parts[0].Hole == nil {
						parts[0] = Part{Lit: strings.TrimLeft(parts[0].Lit, " \t\n\r")}
					}
					if n := len(parts); n > 0 && parts[n-1].Hole == nil {
						parts[n-1] = Part{Lit: strings.TrimRight(parts[n-1].Lit, " \t\n\r")}
					}
					return VStr{parts}
				}
			}
			if sl, ok := args[0].(VStr).isLit(); ok {
				switch f.Origin {
				case "extfunc:strings.ToLower":
					return lit(strings.ToLower(sl))
				case "extfunc:strings.ToUpper":
					return lit(strings.ToUpper(sl))
				default:
					return lit(strings.TrimSpace(sl))
				}
			}
		}
		t := info.TypeOf(c)
		if t == nil {
			return VTuple{}
		}
		if tup, ok := t.(*types.Tuple); ok && tup.Len() == 0 {
			return VTuple{}
		}
		if f.recv != nil {
			org = f.Origin + "("
			for i, a := range args {
				if i > 0 {
					org += ","
				}
				org += origin(a)
			}
			org += ")"
		}
		if v, ok := in.typesModel(f, args, org, t); ok {
			return v
		}
		owner := f
		if f.recv != nil {
			owner = f.recv
		}
		return owner.attr("call:"+org, func() Value { return in.opaqueOfType(org, t) })
	}
	in.fail("call of %T at %v", fun, fr.pkg.Fset.Position(c.Pos()))
	return nil
}

// typesModel: a small model of the go/types API over opaque values.
func (in *Interp) typesModel(f *VOpaque, args []Value, org string, t types.Type) (Value, bool) {
	mk := func(kind string, attrs map[string]Value) Value {
		o := &VOpaque{Origin: org, Kind: kind, attrs: attrs, built: true}
		return o
	}
	switch f.Origin {
	case "extfunc:go/types.NewPointer":
		return mk("*types.Pointer", map[string]Value{"Elem": args[0]}), true
	case "extfunc:go/types.NewSlice":
		return mk("*types.Slice", map[string]Value{"Elem": args[0]}), true
	case "extfunc:go/types.NewMap":
		return mk("*types.Map", map[string]Value{"Key": args[0], "Elem": args[1]}), true
	case "extfunc:go/types.NewChan":
		return mk("*types.Chan", map[string]Value{"Elem": args[1], "Dir": args[0]}), true
	case "extfunc:go/types.NewStruct":
		at := map[string]Value{"#fields": args[0]}
		if len(args) > 1 {
			at["#tags"] = args[1]
		}
		return mk("*types.Struct", at), true
	case "extfunc:go/types.NewTuple":
		return mk("*types.Tuple", map[string]Value{"#elems": &VList{append([]Value{}, args...)}}), true
	case "extfunc:go/types.NewSignature":
		sg := mk("*types.Signature", map[string]Value{"Params": args[1], "Results": args[2]})
		if len(args) > 3 {
			if vb, ok := args[3].(VBool); ok && vb.Known {
				sg.(*VOpaque).attrs["#variadic"] = vb
				if vb.V {
					// go/types panics when the last parameter of a variadic signature is not a slice (or string)
					els := in.tupleElems(args[1])
					bad := len(els) == 0
					if !bad {
						if lo, ok := els[len(els)-1].(*VOpaque); ok {
							if k := kindOfVal(in.varType(lo)); k != "*types.Slice" {
								bad = true
							}
						}
					}
					if bad {
						in.gpanic(token.NoPos, "types.NewSignature is called with variadic=true for a parameter list whose last parameter is not a slice (go/types panics: \"got T, want variadic parameter with unnamed slice type\")")
					}
				}
			}
		}
		return sg, true
	case "extfunc:go/types.NewVar", "extfunc:go/types.NewField":
		return mk("*types.Var", map[string]Value{"Name": args[2], "Type": args[3]}), true
	case "extfunc:go/types.Default":
		return args[0], true
	case "extfunc:go/types.Unalias":
		// a value this path established to be an alias (a successful *types.Alias assertion) has a target that is another
		// type value; every other type is its own unaliased form
		if o, ok := args[0].(*VOpaque); ok && o.Kind == "*types.Alias" {
			return o.attr("Unalias", func() Value { return &VOpaque{Origin: "types.Unalias(" + o.Origin + ")"} }), true
		}
		return args[0], true
	case "extfunc:go/types.Identical":
		if args[0] == args[1] {
			return VBool{Known: true, V: true}, true
		}
		return VBool{Sym: org}, true
	}
	if f.recv == nil {
		return nil, false
	}
	r := f.recv
	switch f.meth {
	case "Underlying":
		if r.Kind != "" && r.Kind != "*types.Named" && r.Kind != "*types.Alias" && r.Kind != "other" {
			return r, true
		}
		return r.attr("Underlying", func() Value {
			return &VOpaque{Origin: r.Origin + ".Underlying()", notNamed: true, attrs: map[string]Value{"#underlyingOf": r}}
		}), true
	case "Elem", "Key", "Params", "Results", "Type", "Name":
		if v, ok := r.attrs[f.meth]; ok {
			if _, isNil := v.(VNil); isNil && (f.meth == "Params" || f.meth == "Results") {
				return &VOpaque{Origin: org, Kind: "*types.Tuple", attrs: map[string]Value{"#elems": &VList{}}}, true
			}
			return v, true
		}
		if f.meth == "Params" || f.meth == "Results" {
			return r.attr(f.meth, func() Value { return &VOpaque{Origin: org, Kind: "*types.Tuple"} }), true
		}
		if f.meth == "Name" {
			// (*types.Basic).Name() of a kind this path established
			if r.Kind == "*types.Basic" {
				if n, ok := in.intEq[r.Origin+".Kind()"]; ok && n > 0 && n < len(types.Typ) {
					return lit(types.Typ[n].Name()), true
				}
			}
			return r.attr(f.meth, func() Value { return in.nameOfVar(r, org) }), true
		}
		return r.attr(f.meth, func() Value { return &VOpaque{Origin: org} }), true
	case "Variadic":
		return VBool{Known: true, V: in.variadic(r)}, true
	case "Tag":
		// struct tags: the first field of every struct type of the abstract input space carries the tag structTag (tags are
		// part of a struct type's identity, and nothing but a rendering of the type may depend on them); a struct built by the
		// generator has the tags it was built with
		i, ok := args[0].(VInt)
		if !ok || !i.Known {
			in.fail("Tag with an unknown index on %s", r.Origin)
		}
		if r.built {
			if tl, ok := r.attrs["#tags"].(*VList); ok && i.V < len(tl.Elems) {
				return tl.Elems[i.V], true
			}
			return lit(""), true
		}
		if i.V == 0 {
			return lit(structTag), true
		}
		return lit(""), true
	case "Len", "NumFields", "NumMethods":
		el := in.elemsOf(r)
		return VInt{Known: true, V: len(el.Elems)}, true
	case "Variables", "Fields", "Methods":
		// the iterator over the same elements (go1.23 iter.Seq): ranged over, or collected with slices.Collect
		el := in.elemsOf(r)
		return &VList{append([]Value{}, el.Elems...)}, true
	case "At", "Field", "Method":
		el := in.elemsOf(r)
		i, ok := args[0].(VInt)
		if !ok || !i.Known || i.V >= len(el.Elems) {
			in.fail("At with bad index on %s", r.Origin)
		}
		return el.Elems[i.V], true
	}
	return nil, false
}

// typeString models types.TypeString structurally for signatures / tuples / vars, else a TYPE hole.
func (in *Interp) typeString(v Value, bypass bool) VStr {
	o, ok := v.(*VOpaque)
	if !ok {
		// a types.Type implemented by the generator itself (toerror's basicErrorType): go/types prints it with its String()
		if st, isStruct := v.(*VStruct); isStruct && st.Type != nil {
			for i := 0; i < st.Type.NumMethods(); i++ {
				if m := st.Type.Method(i); m.Name() == "String" {
					if fi := in.repo.Decls[m]; fi != nil {
						if r, ok := in.callFunc(&VFunc{Decl: fi.Decl, Pkg: fi.Pkg, Recv: v}, nil, token.NoPos).(VStr); ok {
							return r
						}
					}
				}
			}
		}
		return hole("TYPE", origin(v))
	}
	if o.built {
		sub := func(name string) VStr { return in.typeString(o.attrs[name], bypass) }
		switch o.Kind {
		case "*types.Pointer":
			return lit("*").concat(sub("Elem"))
		case "*types.Slice":
			return lit("[]").concat(sub("Elem"))
		case "*types.Map":
			return lit("map[").concat(sub("Key")).concat(lit("]")).concat(sub("Elem"))
		case "*types.Struct":
			// go/types prints struct{F T "tag"; G U}: a field is its name (unless embedded, which the abstract input space does
			// not contain), its type and, if not empty, its quoted tag
			if fl, ok := o.attrs["#fields"].(*VList); ok {
				out := lit("struct{")
				tags, _ := o.attrs["#tags"].(*VList)
				for i, f := range fl.Elems {
					fo, isO := f.(*VOpaque)
					if !isO {
						return hole("TYPE", origin(v))
					}
					if i > 0 {
						out = out.concat(lit("; "))
					}
					out = out.concat(in.varName(fo)).concat(lit(" ")).concat(in.typeString(in.varType(fo), bypass))
					if tags != nil && i < len(tags.Elems) {
						if ts, isS := tags.Elems[i].(VStr); isS {
							if l, isLit := ts.isLit(); !isLit {
								out = out.concat(lit(" ")).concat(ts)
							} else if l != "" {
								out = out.concat(lit(" " + strconv.Quote(l)))
							}
						}
					}
				}
				return out.concat(lit("}"))
			}
		case "*types.Chan":
			pre := "chan "
			if d, ok := o.attrs["Dir"].(VInt); ok && d.Known {
				switch d.V {
				case 1:
					pre = "chan<- "
				case 2:
					pre = "<-chan "
				}
			}
			return lit(pre).concat(sub("Elem"))
		}
	}
	get := func(name string) Value {
		if a, ok := o.attrs[name]; ok {
			return a
		}
		return in.typesModelAttr(o, name)
	}
	switch o.Kind {
	case "*types.Signature":
		ps := in.tupleStringV(get("Params"), bypass, in.variadic(o))
		rs := get("Results")
		out := lit("func").concat(ps)
		rl := in.tupleElems(rs)
		if len(rl) == 0 {
			return out
		}
		if len(rl) == 1 {
			if ro, ok := rl[0].(*VOpaque); ok {
				nm := in.varName(ro)
				if s, isLit := nm.isLit(); isLit && s == "" {
					return out.concat(lit(" ")).concat(in.typeString(in.varType(ro), bypass))
				}
			}
		}
		return out.concat(lit(" ")).concat(in.tupleString(rs, bypass))
	case "*types.Tuple":
		return in.tupleString(o, bypass)
	}
	org := o.Origin
	if bypass {
		org = "bypass:" + org
	}
	return holeV(in.canonHole(&Hole{Kind: "TYPE", Origin: org, Val: o}))
}

func (in *Interp) typesModelAttr(o *VOpaque, name string) Value {
	switch name {
	case "Params", "Results":
		return o.attr(name, func() Value { return &VOpaque{Origin: o.Origin + "." + name + "()", Kind: "*types.Tuple"} })
	}
	return o.attr(name, func() Value { return &VOpaque{Origin: o.Origin + "." + name + "()"} })
}

func (in *Interp) tupleElems(v Value) []Value {
	switch t := v.(type) {
	case VNil:
		return nil
	case *VOpaque:
		return in.elemsOf(t).Elems
	}
	in.fail("tupleElems of %T", v)
	return nil
}

func (in *Interp) varName(o *VOpaque) VStr {
	if a, ok := o.attrs["Name"]; ok {
		return a.(VStr)
	}
	return o.attr("Name", func() Value { return in.nameOfVar(o, o.Origin+".Name()") }).(VStr)
}

func (in *Interp) varType(o *VOpaque) Value {
	if a, ok := o.attrs["Type"]; ok {
		return a
	}
	return o.attr("Type", func() Value { return &VOpaque{Origin: o.Origin + ".Type()"} })
}

func (in *Interp) tupleString(v Value, bypass bool) VStr {
	return in.tupleStringV(v, bypass, false)
}

// tupleStringV: with variadic set the last element is printed as ...Elem, as go/types does for a variadic signature.
func (in *Interp) tupleStringV(v Value, bypass bool, variadic bool) VStr {
	out := lit("(")
	els := in.tupleElems(v)
	for i, e := range els {
		if i > 0 {
			out = out.concat(lit(", "))
		}
		eo := e.(*VOpaque)
		nm := in.varName(eo)
		if s, isLit := nm.isLit(); !(isLit && s == "") {
			out = out.concat(nm).concat(lit(" "))
		}
		if variadic && i == len(els)-1 {
			if to, ok := in.varType(eo).(*VOpaque); ok {
				el := to.attr("Elem", func() Value { return &VOpaque{Origin: to.Origin + ".Elem()"} })
				out = out.concat(lit("...")).concat(in.typeString(el, bypass))
				continue
			}
		}
		out = out.concat(in.typeString(in.varType(eo), bypass))
	}
	return out.concat(lit(")"))
}

// variadic: is this function type variadic? For a signature that came from the user's source it is an input choice (only
// offered when there is a last parameter; that parameter's type is then a slice); for one built with types.NewSignature it
// is the flag that was passed.
func (in *Interp) variadic(sig *VOpaque) bool {
	if v, ok := sig.attrs["#variadic"].(VBool); ok {
		return v.V
	}
	var ps Value
	if a, ok := sig.attrs["Params"]; ok {
		ps = a
	} else {
		ps = in.typesModelAttr(sig, "Params")
	}
	els := in.tupleElems(ps)
	res := false
	if len(els) > 0 && !in.g9mode {
		if in.decide("VAR:"+sig.Origin+":fixed|variadic", 2) == 1 {
			if lo, ok := els[len(els)-1].(*VOpaque); ok {
				if to, ok := in.varType(lo).(*VOpaque); ok && (to.Kind == "" || to.Kind == "*types.Slice") {
					to.Kind = "*types.Slice"
					res = true
				}
			}
		}
	}
	if sig.attrs == nil {
		sig.attrs = map[string]Value{}
	}
	sig.attrs["#variadic"] = VBool{Known: true, V: res}
	return res
}

func (in *Interp) isPurePredicate(f *VFunc) bool {
	sig := f.Pkg.TypesInfo.Defs[f.Decl.Name].Type().(*types.Signature)
	if sig.Recv() != nil || sig.Params().Len() == 0 {
		return false
	}
	// (T, found) with a go/types type T: the comma-ok way of writing "a *T that is nil when nothing was found"
	commaOK := false
	if sig.Results().Len() == 2 {
		if b, ok := sig.Results().At(1).Type().Underlying().(*types.Basic); ok && b.Kind() == types.Bool && strings.Contains(sig.Results().At(0).Type().String(), "go/types.Type") {
			commaOK = true
		}
	}
	if sig.Results().Len() != 1 && !commaOK {
		return false
	}
	for i := 0; i < sig.Params().Len(); i++ {
		ts := sig.Params().At(i).Type().String()
		if !strings.Contains(ts, "go/types.") {
			return false
		}
		// predicates over tuples/variables (parameter lists) are cheap and are interpreted, so that they stay
		// consistent with the names and arities chosen on the path
		if strings.HasSuffix(ts, "go/types.Tuple") || strings.HasSuffix(ts, "go/types.Var") {
			return false
		}
	}
	// a predicate that calls no function of the repository (itself included) is a plain case analysis: interpreting it keeps
	// its answer consistent with the kinds the path establishes (e.g. deepcopy's nullable, min's isOrdered)
	if in.leafPred == nil {
		in.leafPred = map[*ast.FuncDecl]bool{}
	}
	leaf, seen := in.leafPred[f.Decl]
	if !seen {
		leaf = true
		ast.Inspect(f.Decl.Body, func(n ast.Node) bool {
			if c, ok := n.(*ast.CallExpr); ok {
				if fn, ok := callee(f.Pkg.TypesInfo, c).(*types.Func); ok && fn.Pkg() != nil && strings.HasPrefix(fn.Pkg().Path(), modPath) {
					leaf = false
				}
			}
			return true
		})
		in.leafPred[f.Decl] = leaf
	}
	if leaf && leafPredNames[f.Decl.Name.Name] {
		return false
	}
	// a leaf predicate outside the baseline (a helper a later change introduced, like isBasic(typ)) that is a plain case
	// analysis — no loop — is interpreted as well: its answer must stay tied to the kinds the path establishes
	if leaf && !baselinePredNames[f.Decl.Name.Name] {
		loops := false
		ast.Inspect(f.Decl.Body, func(n ast.Node) bool {
			switch n.(type) {
			case *ast.ForStmt, *ast.RangeStmt:
				loops = true
			}
			return true
		})
		if !loops {
			return false
		}
	}
	if commaOK {
		return true
	}
	rt := sig.Results().At(0).Type()
	if b, ok := rt.Underlying().(*types.Basic); ok && b.Kind() == types.Bool {
		return true
	}
	if _, ok := rt.(*types.Pointer); ok && strings.Contains(rt.String(), "go/types.Type") {
		return true
	}
	return false
}

// elemsOf returns the (arity-oracle chosen) element list of an opaque collection
func (in *Interp) elemsOf(r *VOpaque) *VList {
	return r.attr("#elems", func() Value {
		n := in.arities[in.decide("N:"+r.Origin, len(in.arities))]
		if n == 0 && r.Kind == "*types.Struct" {
			// a struct without fields is trivially comparable/copyable: a path on which one of the sibling predicates
			// (whose definitions G9 checks) answered false for it is infeasible.
			for _, name := range []string{"canEqual", "canCopy", "IsComparable"} {
				for _, org := range []string{r.Origin, strings.TrimSuffix(r.Origin, ".Underlying()")} {
					if c, ok := in.peek("B:pred:" + name + "(" + org + ",)"); ok && c == 1 {
						panic(abort{kind: "infeasible", msg: name + " false for an empty struct"})
					}
				}
			}
		}
		return in.opaqueList(r.Origin, n, "")
	}).(*VList)
}

func exprsStr(es []ast.Expr) string {
	ss := []string{}
	for _, e := range es {
		ss = append(ss, types.ExprString(e))
	}
	return strings.Join(ss, ", ")
}

func isIdentByte(c byte) bool {
	return c == '_' || c >= '0' && c <= '9' || c >= 'a' && c <= 'z' || c >= 'A' && c <= 'Z' || c >= 0x80
}

// switchID names a switch statement by its enclosing function and its ordinal among that function's switches.
func (in *Interp) switchID(sw *ast.SwitchStmt) string {
	for _, fi := range in.repo.Decls {
		if fi.Decl.Pos() <= sw.Pos() && sw.Pos() < fi.Decl.End() {
			n := 0
			ast.Inspect(fi.Decl, func(x ast.Node) bool {
				if s2, ok := x.(*ast.SwitchStmt); ok && s2.Pos() < sw.Pos() {
					n++
				}
				return true
			})
			return fmt.Sprintf("%s/sw%d", funcKey(fi.Fn), n)
		}
	}
	return "?"
}

var structField0Re = regexp.MustCompile(`(Underlying\(\)|^typs\[\d+\])\[0\]$`)
var structFieldRe = regexp.MustCompile(`\[\d+\]$`)
var tupleElemRe = regexp.MustCompile(`\.(Params|Results)\(\)\[\d+\]$`)

// nameOfVar: the name of a *types.Var. Struct fields always have a user-chosen name (a NAME hole); parameters may be
// named, blank ("_") or unnamed (""); results are usually unnamed.
func (in *Interp) nameOfVar(o *VOpaque, org string) Value {
	named := holeV(&Hole{Kind: "NAME", Origin: org, Val: o})
	m := tupleElemRe.FindStringSubmatch(o.Origin)
	if m == nil {
		// a struct's first field may be blank (padding, `_ [0]func()`); one blank position per struct keeps the sweep small
		if structField0Re.MatchString(o.Origin) || (in.g9mode && structFieldRe.MatchString(o.Origin)) {
			if in.decide("NMF:"+o.Origin+":named|blank", 2) == 1 {
				return lit("_")
			}
		}
		return named
	}
	// Go requires a parameter or result list to be either entirely named or entirely unnamed
	tuple := o.Origin[:strings.LastIndex(o.Origin, "[")]
	if m[1] == "Results" {
		if in.decide("NMT:"+tuple+":unnamed|named", 2) == 0 {
			return lit("")
		}
		// in a named result list any result may be blank: (_ int, err error)
		if in.decide("NM:"+o.Origin+":named|blank", 2) == 1 {
			return lit("_")
		}
		return named
	}
	if in.decide("NMT:"+tuple+":named|unnamed", 2) == 1 {
		return lit("")
	}
	// a user may also have chosen a name that looks like one of the generator's own replacement names (param_<k>):
	// the next position's, or position 0's
	idx := 0
	fmt.Sscanf(o.Origin[strings.LastIndex(o.Origin, "[")+1:], "%d", &idx)
	pre := "param_"
	if strings.Contains(tuple, ".Results()") {
		pre = "innerParam_"
	}
	// two parameters of one list cannot carry the same (non-blank) name
	claim := func(n string) Value {
		if in.tupleNames == nil {
			in.tupleNames = map[string]map[string]string{}
		}
		if in.tupleNames[tuple] == nil {
			in.tupleNames[tuple] = map[string]string{}
		}
		if who, taken := in.tupleNames[tuple][n]; taken && who != o.Origin {
			panic(abort{kind: "infeasible", msg: "two parameters of one list named " + n})
		}
		in.tupleNames[tuple][n] = o.Origin
		return lit(n)
	}
	switch in.decide("NM:"+o.Origin+":named|blank|clash-next|clash-zero", 4) {
	case 1:
		return lit("_")
	case 2:
		return claim(pre + strconv.Itoa(idx+1))
	case 3:
		if idx == 0 {
			return claim(pre + "9")
		}
		return claim(pre + "0")
	}
	return named
}

// globalConst evaluates a package-level variable whose declaration initialises it with a constant expression and which
// is never assigned elsewhere (e.g. `var blackIdentifier = "_"`).
// mapLit: a map literal whose keys are constants.
func (in *Interp) mapLit(fr *Frame, x *ast.CompositeLit, u *types.Map) (Value, bool) {
	info := in.info(fr)
	m := &VMap{Zero: in.zero(u.Elem()), ID: fmt.Sprintf("map@%v", fr.pkg.Fset.Position(x.Pos()).Line)}
	for _, el := range x.Elts {
		kv, ok := el.(*ast.KeyValueExpr)
		if !ok {
			return nil, false
		}
		tv, ok := info.Types[kv.Key]
		if !ok || tv.Value == nil {
			return nil, false
		}
		m.Keys = append(m.Keys, in.eval(fr, kv.Key))
		m.KeyText = append(m.KeyText, types.ExprString(kv.Key))
		m.Vals = append(m.Vals, in.eval(fr, kv.Value))
	}
	return m, true
}

// mapLookup: the entry for a key; an undetermined key chooses among the entries like a switch over the key does.
func (in *Interp) mapLookup(m *VMap, key Value) (Value, bool) {
	allKnown := true
	for i, k := range m.Keys {
		c, ok := in.binop(token.EQL, key, k, origin(key)+"=="+m.KeyText[i]).(VBool)
		if ok && c.Known {
			if c.V {
				return m.Vals[i], true
			}
			continue
		}
		allKnown = false
	}
	if allKnown || len(m.Keys) == 0 {
		return m.Zero, false
	}
	// a literal looked up in a table with symbolic keys (user-chosen names): an entry that this path has already identified with
	// another literal cannot be the one; what remains is a choice among the other entries and "not present"
	if ks, isStr := key.(VStr); isStr {
		if kl, isLit := ks.isLit(); isLit {
			if in.holeEq == nil {
				in.holeEq = map[string]string{}
			}
			var open []int
			for i, k := range m.Keys {
				if c, ok := in.binop(token.EQL, key, k, "").(VBool); ok && c.Known {
					continue // a literal key that differs
				}
				if prev, ok := in.holeEq[asStr(k).render()]; ok && prev != kl {
					continue
				}
				open = append(open, i)
			}
			if len(open) == 0 {
				return m.Zero, false
			}
			var cands []string
			for _, i := range open {
				cands = append(cands, m.KeyText[i])
			}
			cands = append(cands, "default")
			pick := in.decideC("S:"+origin(key)+"#"+strings.Join(cands, ",")+"@"+m.ID, len(cands), cands)
			if pick < len(open) {
				in.holeEq[asStr(m.Keys[open[pick]]).render()] = kl
				return m.Vals[open[pick]], true
			}
			return m.Zero, false
		}
	}
	cands := append(append([]string{}, m.KeyText...), "default")
	pick := in.decideC("S:"+origin(key)+"#"+fmt.Sprint(len(m.Keys))+"@"+m.ID, len(m.Keys)+1, cands)
	if ti, ok := key.(VInt); ok && !ti.Known && ti.Sym != "" {
		if pick < len(m.Keys) {
			if cv, ok := m.Keys[pick].(VInt); ok && cv.Known {
				in.learnInt(ti.Sym, cv.V, true)
			}
		} else {
			for _, c := range m.Keys {
				if cv, ok := c.(VInt); ok && cv.Known {
					in.learnInt(ti.Sym, cv.V, false)
				}
			}
		}
	}
	if pick < len(m.Keys) {
		return m.Vals[pick], true
	}
	return m.Zero, false
}

func (in *Interp) globalConst(v *types.Var) (Value, bool) {
	for _, p := range in.repo.Pkgs {
		if p.Types != v.Pkg() {
			continue
		}
		var val Value
		found := false
		assigned := false
		for _, f := range p.Syntax {
			ast.Inspect(f, func(n ast.Node) bool {
				switch x := n.(type) {
				case *ast.ValueSpec:
					for i, nm := range x.Names {
						if p.TypesInfo.Defs[nm] == v && i < len(x.Values) {
							if cl, ok := x.Values[i].(*ast.CompositeLit); ok {
								if mt, ok := p.TypesInfo.TypeOf(cl).Underlying().(*types.Map); ok {
									if mv, ok := in.mapLit(&Frame{vars: map[types.Object]*Value{}, pkg: p}, cl, mt); ok {
										val, found = mv, true
									}
								}
								// a record of constants (var sliceForm = listForm{doc: "…", param: "list"}): a struct or a slice
								// literal all of whose leaves are constant expressions; a field that is written anywhere makes it a
								// variable again (fieldWritten below)
								switch p.TypesInfo.TypeOf(cl).Underlying().(type) {
								case *types.Struct, *types.Slice, *types.Array:
									if constLeaves(p.TypesInfo, cl) {
										val, found = in.eval(&Frame{vars: map[types.Object]*Value{}, pkg: p}, cl), true
									}
								}
							}
							if tv, ok := p.TypesInfo.Types[x.Values[i]]; ok && tv.Value != nil {
								switch tv.Value.Kind() {
								case constant.String:
									val, found = lit(constant.StringVal(tv.Value)), true
								case constant.Int:
									n, _ := constant.Int64Val(tv.Value)
									val, found = VInt{Known: true, V: int(n)}, true
								case constant.Bool:
									val, found = VBool{Known: true, V: constant.BoolVal(tv.Value)}, true
								}
							}
						}
					}
				case *ast.AssignStmt:
					for _, l := range x.Lhs {
						if id, ok := l.(*ast.Ident); ok && p.TypesInfo.Uses[id] == v {
							assigned = true
						}
						// a store into the table: it is no constant table
						if ix, ok := l.(*ast.IndexExpr); ok {
							if id, ok := ast.Unparen(ix.X).(*ast.Ident); ok && p.TypesInfo.Uses[id] == v {
								assigned = true
							}
						}
						// a store into a field of the record
						for e := l; ; {
							sel, ok := ast.Unparen(e).(*ast.SelectorExpr)
							if !ok {
								if ix, isIx := ast.Unparen(e).(*ast.IndexExpr); isIx {
									e = ix.X
									continue
								}
								if id, isID := ast.Unparen(e).(*ast.Ident); isID && p.TypesInfo.Uses[id] == v && e != l {
									assigned = true
								}
								break
							}
							e = sel.X
						}
					}
				case *ast.CallExpr:
					if id, ok := x.Fun.(*ast.Ident); ok && id.Name == "delete" && len(x.Args) > 0 {
						if a, ok := ast.Unparen(x.Args[0]).(*ast.Ident); ok && p.TypesInfo.Uses[a] == v {
							assigned = true
						}
					}
				case *ast.UnaryExpr:
					if x.Op == token.AND {
						if id, ok := x.X.(*ast.Ident); ok && p.TypesInfo.Uses[id] == v {
							assigned = true
						}
					}
				}
				return true
			})
		}
		if found && !assigned {
			return val, true
		}
	}
	return nil, false
}

// typeArgsKey: identity of the opaque go/types values among the arguments (pointer identity); ok only when there is at
// least one and every other argument is a string (text being built) — other arguments might carry a decreasing measure.
func typeArgsKey(args []Value) (string, bool) {
	var ss []string
	for _, a := range args {
		switch x := a.(type) {
		case *VOpaque:
			if x == nil {
				return "", false
			}
			ss = append(ss, fmt.Sprintf("%p", x))
		case VStr:
		default:
			return "", false
		}
	}
	if len(ss) == 0 {
		return "", false
	}
	return strings.Join(ss, ","), true
}

// structTag is the tag of the first field of every struct type of the abstract input space.
const structTag = `gdv:"%d"`

// modelledTypesMapMethods: the methods of derive.TypesMap that the interpreter models; every other method declared on
// *typesMap is interpreted from its source.
var modelledTypesMapMethods = map[string]bool{"TypeString": true, "TypeStringBypass": true, "GetFuncName": true, "Generating": true,
	"SetFuncName": true, "Done": true, "ToGenerate": true, "IsExternal": true, "Prefix": true, "FieldStrings": true, "StructFieldStrings": true}

// bytesOfList: a list of known small integers read as a byte string.
func bytesOfList(l *VList) (string, bool) {
	b := make([]byte, 0, len(l.Elems))
	for _, e := range l.Elems {
		i, ok := e.(VInt)
		if !ok || !i.Known || i.V < 0 || i.V > 255 {
			return "", false
		}
		b = append(b, byte(i.V))
	}
	return string(b), true
}

// asStr reads a string or a literal byte slice as text.
func asStr(v Value) VStr {
	s, _ := asStrOK(v)
	return s
}

func asStrOK(v Value) (VStr, bool) {
	switch x := v.(type) {
	case VStr:
		return x, true
	case *VList:
		if bs, ok := bytesOfList(x); ok {
			return lit(bs), true
		}
	}
	return VStr{}, false
}

func isIdentStr(s string) bool {
	for i := 0; i < len(s); i++ {
		if !isIdentByte(s[i]) {
			return false
		}
	}
	return len(s) > 0
}

// mangledTag is what fmt makes of structTag when it meets it inside a format.
const mangledTag = `gdv:"%!d(MISSING)"`

// mangledType: the hole standing for the text of a type, as it comes out when that text is part of a Printf format. The text of
// a named type, a basic type or a composite of those contains no percent sign; the text of a struct type literal contains its
// tags, and the abstract input space gives the first field of every struct the tag structTag. So for a type that is (or, its
// kind never having been examined, may be) a struct type literal the result stands for a different type: the same struct
// with the tag fmt produced. Returns nil when the text cannot contain a percent sign.
func (in *Interp) mangledType(h *Hole) *Hole {
	if h.Kind != "TYPE" {
		return nil
	}
	o, ok := h.Val.(*VOpaque)
	if !ok || o == nil || o.built || o.attrs["#mangledOf"] != nil {
		return nil
	}
	if o.Kind != "" && o.Kind != "other" && o.Kind != "*types.Struct" {
		return nil // named, or a literal kind other than struct
	}
	if u, ok := o.attrs["Underlying"].(*VOpaque); ok && o.Kind != "*types.Struct" {
		if u.Kind != "" && u.Kind != "other" && u.Kind != "*types.Struct" {
			return nil
		}
		if u.Kind == "*types.Struct" && !o.notNamed {
			// a struct behind Underlying(): a literal only if the path established that the type is not a defined type
			if in.memoAnswer("A:"+o.Origin+":*types.Named") != 1 {
				return nil
			}
		}
	}
	if strings.HasPrefix(h.Origin, "bypass:") {
		return nil
	}
	if o.attrs == nil {
		o.attrs = map[string]Value{}
	}
	o.attrs["#percentTag"] = VBool{Known: true, V: true}
	if m, ok := o.attrs["#mangled"].(*VOpaque); ok {
		return in.canonHole(&Hole{Kind: "TYPE", Origin: "mangled:" + h.Origin, Val: m})
	}
	m := &VOpaque{Origin: "mangled:" + o.Origin, Kind: o.Kind, notNamed: o.notNamed, attrs: map[string]Value{}}
	for k, v := range o.attrs {
		if k != "#mangled" && k != "#percentTag" {
			m.attrs[k] = v
		}
	}
	m.attrs["#mangledOf"] = o
	o.attrs["#mangled"] = m
	return in.canonHole(&Hole{Kind: "TYPE", Origin: "mangled:" + h.Origin, Val: m})
}

// memoAnswer: the answer already given to a decision symbol on this run (-1 if it was not asked).
func (in *Interp) memoAnswer(sym string) int {
	if v, ok := in.memo[in.canonSym(sym)]; ok {
		return v
	}
	return -1
}

type typeStringCall struct {
	str VStr
	pos token.Pos
}

// constLeaves: a composite literal whose elements are constant expressions or composite literals of the same kind.
func constLeaves(info *types.Info, cl *ast.CompositeLit) bool {
	for _, el := range cl.Elts {
		e := el
		if kv, ok := el.(*ast.KeyValueExpr); ok {
			e = kv.Value
		}
		if inner, ok := ast.Unparen(e).(*ast.CompositeLit); ok {
			if !constLeaves(info, inner) {
				return false
			}
			continue
		}
		if tv, ok := info.Types[e]; !ok || tv.Value == nil {
			return false
		}
	}
	return true
}
